import PqModel.Generated.Facts
import PqModel.EncEmit
import PqModel.AadSites

/-! # C18 — the write sites of the encryption-relevant functions of writer.go are the ones the
    leak model `EncEmit.emit` is built from

`Generated/Facts.lean` is rewritten by `tools/factgen` (family `encwrites`) from the current source
on every run. A new call that moves bytes towards the file in these functions, a call that changes
branch, or a key-present branch that writes something else than the output of
`encryptModule`/`signFooter` changes the table and breaks `enc_write_sites_expected`; the other
theorems tie the table to `EncEmit.siteOf`. -/
namespace PqModel.Props.FactsCheckC18
open PqModel.Generated PqModel.EncEmit

/-- the table of the reviewed source: (site, branch, first argument is a sealed envelope) -/
def expected : List EncWriteSite := [
  ⟨"writer.writeFileHeader:w.writer.WriteString(magic)", "any", false⟩,
  ⟨"writer.writeDeferredBloomFilters:w.writer.ReadFrom(bf.buf)", "any", false⟩,
  ⟨"writer.writeFileFooter:w.writer.Write(envelope)", "enc", true⟩,
  ⟨"writer.writeFileFooter:encoder.Encode(&columnIndexes[j])", "plain", false⟩,
  ⟨"writer.writeFileFooter:w.writer.Write(envelope)", "enc", true⟩,
  ⟨"writer.writeFileFooter:encoder.Encode(&offsetIndexes[j])", "plain", false⟩,
  ⟨"writer.writeFileFooter:encoder.Encode(&cryptoMeta)", "enc", false⟩,
  ⟨"writer.writeFileFooter:w.writer.Write(encFooter)", "enc", true⟩,
  ⟨"writer.writeFileFooter:w.writer.Write(w.footer[:])", "enc", false⟩,
  ⟨"writer.writeFileFooter:w.writer.Write(footerBytes)", "enc", false⟩,
  ⟨"writer.writeFileFooter:w.writer.Write(sig)", "enc", true⟩,
  ⟨"writer.writeFileFooter:w.writer.Write(w.footer[:])", "enc", false⟩,
  ⟨"writer.writeFileFooter:encoder.Encode(&w.fileMetaData)", "plain", false⟩,
  ⟨"writer.writeFileFooter:w.writer.Write(w.footer[:])", "plain", false⟩,
  ⟨"writer.writeRowGroup:w.writer.copySection(cc.reader)", "any", false⟩,
  ⟨"writer.writeRowGroup:w.writer.copySection(cc.reader)", "any", false⟩,
  ⟨"writer.writeRowGroup:io.Copy:&w.writer(c.pageBuffer)", "any", false⟩,
  ⟨"writer.writeRowGroup:io.Copy:buf(bloom)", "any", false⟩,
  ⟨"writer.writeRowGroup:w.writer.copySection(cc.reader)", "any", false⟩,
  ⟨"ColumnWriter.writeBloomFilter:w.Write(encHdr)", "enc", true⟩,
  ⟨"ColumnWriter.writeBloomFilter:w.Write(encBits)", "enc", true⟩,
  ⟨"ColumnWriter.writeBloomFilter:e.Encode(&h)", "plain", false⟩,
  ⟨"ColumnWriter.writeBloomFilter:w.Write(filterBytes)", "plain", false⟩,
  ⟨"ColumnWriter.writeDataPage:output.Write(encHdr)", "enc", true⟩,
  ⟨"ColumnWriter.writeDataPage:output.Write(encBody)", "enc", true⟩,
  ⟨"ColumnWriter.writeDataPage:output.Write(data)", "plain", false⟩,
  ⟨"ColumnWriter.writeDictionaryPage:output.Write(encHdr)", "enc", true⟩,
  ⟨"ColumnWriter.writeDictionaryPage:output.Write(encBody)", "enc", true⟩,
  ⟨"ColumnWriter.writeDictionaryPage:output.Write(c.header.buffer.Bytes())", "plain", false⟩,
  ⟨"ColumnWriter.writeDictionaryPage:output.Write(buf.page)", "plain", false⟩
]

/-- the source has exactly the reviewed write sites, each in the reviewed branch -/
theorem enc_write_sites_expected : encWriteSites = expected := by decide

/-- What a key-present branch writes that is NOT the output of `encryptModule`/`signFooter`:
    the FileCryptoMetaData, the plaintext footer of plaintext-footer mode (whose chunks carry the
    redacted metadata, `EncEmit.redact`), and footer length + magic. These are the `raw` pieces of
    `EncEmit.footerPieces` and `Content.tail`. -/
def rawByDesign : List String := [
  "writer.writeFileFooter:encoder.Encode(&cryptoMeta)",
  "writer.writeFileFooter:w.writer.Write(footerBytes)",
  "writer.writeFileFooter:w.writer.Write(w.footer[:])"
]

/-- in the branches taken when a key is present, everything written is a sealed envelope (or
    signature) except the three regions that are raw by design -/
theorem enc_branch_writes_sealed :
    encWriteSites.all (fun s => s.branch != "enc" || s.argSealed || rawByDesign.contains s.name) = true := by decide

/-- Sites reached with and without a key ("any") only move bytes that an earlier site produced
    (page buffer → file, deferred bloom buffer → file), write the magic, or belong to the verbatim
    copy path, which `ColumnChunkIsCopyable` refuses for encrypting writers (writer_copy.go:110-115). -/
def transport : List String := [
  "writer.writeFileHeader:w.writer.WriteString(magic)",
  "writer.writeDeferredBloomFilters:w.writer.ReadFrom(bf.buf)",
  "writer.writeRowGroup:io.Copy:&w.writer(c.pageBuffer)",
  "writer.writeRowGroup:w.writer.copySection(cc.reader)",
  "writer.writeRowGroup:io.Copy:buf(bloom)"
]

theorem any_branch_sites_are_transport :
    encWriteSites.all (fun s => s.branch != "any" || transport.contains s.name) = true := by decide

/-- one representative region of every kind -/
def kinds : List Content := [
  .magic, .tail, .pageHeader 0 0 0, .pageBody 0 0 0, .dictHeader 0 0, .dictBody 0 0, .bloomHeader 0 0, .bloomBits 0 0,
  .columnIndex 0 0, .offsetIndex 0 0, .columnMeta 0 0 ColMeta.zero, .footerRest, .cryptoMeta, .signature]

/-- the site the model names for a SEALED region exists in the source, in a key-present branch,
    and writes a sealed envelope -/
theorem model_sealed_sites_exist :
    (kinds.filter (fun c => c != .magic && c != .tail && c != .cryptoMeta && c != .signature)).all (fun c =>
      encWriteSites.any (fun s => s.name == siteOf true c && s.branch == "enc" && s.argSealed)) = true := by decide

/-- the site the model names for a RAW region exists in the source -/
theorem model_raw_sites_exist :
    kinds.all (fun c => encWriteSites.any (fun s => s.name == siteOf false c && !s.argSealed || s.name == siteOf false c && c == .signature)) = true := by decide

/-- every site of the source is the site of some region of the model, or pure transport, or the
    footer of a writer without encryption -/
theorem every_site_is_modelled :
    encWriteSites.all (fun s =>
      kinds.any (fun c => siteOf true c == s.name || siteOf false c == s.name) || transport.contains s.name ||
      s.name == "writer.writeFileFooter:encoder.Encode(&w.fileMetaData)") = true := by decide

/-! ## family `aadsites`: the call sites of `makeAAD`, their argument order, and the assignments
    to the fields the AAD is built from

The generated tables are turned into the vocabulary of the model by three reviewed dictionaries
(module-type constant → `ModType`, argument text → `Role`, prefix/identifier expression →
`Holder`); an argument text the dictionaries do not know, a call site that appears, disappears or
changes its argument order makes `aad_sites_match_model` fail. -/
section aadsites
open PqModel.Aad

/-- module-type constants of encrypt.go: name, value as written, module type of the model -/
def constTable : List (String × String × ModType) := [
  ("footerModule", "0", .footer), ("columnMetaDataModule", "1", .columnMeta), ("dataPageBodyModule", "2", .dataPage),
  ("dataPageHeaderModule", "3", .dataPageHeader), ("dictPageBodyModule", "4", .dictPage), ("dictPageHeaderModule", "5", .dictPageHeader),
  ("bloomFilterHdrModule", "6", .bloomHeader), ("bloomFilterBitsModule", "7", .bloomBits), ("columnIndexModule", "8", .columnIndex),
  ("offsetIndexModule", "9", .offsetIndex)]

def digit : Nat → String
  | 0 => "0" | 1 => "1" | 2 => "2" | 3 => "3" | 4 => "4" | 5 => "5" | 6 => "6" | 7 => "7" | 8 => "8" | 9 => "9" | _ => "?"

/-- encrypt.go defines exactly these constants, with the values `ModType.code` mirrors -/
theorem module_constants_expected :
    aadModuleConsts = constTable.map (fun x => (x.1, x.2.1)) ∧
    constTable.all (fun x => x.2.1 == digit x.2.2.code) = true := by decide

def constOf (name : String) : Option ModType :=
  (constTable.find? (fun x => x.1 == name)).map (·.2.2)

/-- what an ordinal argument carries. The texts are the arguments as factgen prints them, local
    variables annotated with their definitions — which is what tells `int16(i)` over row groups
    from `int16(i)` over columns. -/
def roleOfArg : String → Option Role
  | "c.rowGroupOrdinal" | "d.rowGroupOrdinal" | "rg.Ordinal"
  | "int16(i{range w.columnIndexes})" | "int16(i{range w.offsetIndexes})"
  | "int16(rowGroupIndex{len(w.rowGroups)})"
  | "int16(i{param 0 of func literal in forEachColumnChunk(...)})" => some .rg
  | "c.columnOrdinal" | "d.columnOrdinal"
  | "int16(j{range columnIndexes})" | "int16(j{range offsetIndexes})"
  | "int16(i{range rg.columns})" | "int16(colIdx{range rg.Columns})"
  | "int16(j{param 1 of func literal in forEachColumnChunk(...)})" => some .col
  | "pageOrd{int16(c.numPages)}" | "pageOrd{range int16(c.numPages)}" | "d.dataPageOrd" => some .page
  | "0" => some .zero
  | _ => none

def rolesOfArgs : List String → Option (List Role)
  | [] => some []
  | a :: as => match roleOfArg a, rolesOfArgs as with
    | some r, some rs => some (r :: rs)
    | _, _ => none

/-- where prefix and identifier are read from; the two must come from the same object -/
def holderOf (pfx fu : String) : Option Holder :=
  match pfx, fu with
  | "w.encryption.cfg.AadPrefix", "w.encryption.fileUnique" => some .writerState
  | "enc.cfg.AadPrefix", "enc.fileUnique" => some .writerState
  | "c.aadPrefix", "c.fileUnique" => some .columnWriter
  | "aadPrefix{algo.AadPrefix|algo.AadPrefix}", "fileUnique{algo.AadFileUnique|algo.AadFileUnique}" => some .cryptoMeta
  | "f.aadPrefix", "f.fileUnique" => some .file
  | "c.file.aadPrefix", "c.file.fileUnique" => some .file
  | "d.aadPrefix", "d.fileUnique" => some .pages
  | _, _ => none

/-- who the caller is, by function -/
def partyOf : String → Option Party
  | "writer.go:writer.writeFileFooter" | "writer.go:writer.writeRowGroup" | "writer.go:ColumnWriter.writeBloomFilter"
  | "writer.go:ColumnWriter.writeDataPage" | "writer.go:ColumnWriter.writeDictionaryPage" => some .writerSeal
  | "writer.go:ColumnWriter.flushFilterPages" => some .writerReopen
  | "file.go:OpenFile" | "file.go:File.ReadPageIndex" | "file.go:File.decryptAllColumnMetadata" => some .readerEager
  | "file.go:FileColumnChunk.readColumnIndexFrom" | "file.go:FileColumnChunk.readOffsetIndex"
  | "file.go:FileColumnChunk.readBloomFilter" => some .readerLazy
  | "file.go:FilePages.readDictionary" | "file.go:FilePages.readEncryptedPage" => some .readerPages
  | _ => none

/-- a generated call site in the vocabulary of the model: one row per branch alternative -/
def rowsOf (s : AadSite) : List (Option Site) :=
  s.alts.map (fun a =>
    match partyOf s.fn, holderOf s.pfx s.fu, constOf a.1, rolesOfArgs a.2 with
    | some p, some h, some t, some rs => some ⟨s.fn, p, h, t, rs⟩
    | _, _, _, _ => none)

/-- THE TIE: the call sites of `makeAAD` in the source, with the order of their arguments, are
    exactly the rows of `Aad.sites`, in order. -/
theorem aad_sites_match_model : aadSites.flatMap rowsOf = sites.map some := by decide

/-- … consequently every call site in the source passes `(row group, column[, page | 0])` in that
    order — the statement `Props/C18Sites` builds on. -/
theorem source_sites_pass_roles_in_order :
    (aadSites.flatMap rowsOf).all (fun r => match r with | some s => s.roles == s.t.roles | none => false) = true := by
  rw [aad_sites_match_model]; decide

/-- the assignments to the AAD fields in the reviewed source. Right column: the definition of
    `Aad.lean` that mirrors the row. -/
def expectedAssigns : List AadAssign := [
  ⟨"writer.go:newConcurrentRowGroupWriter", "columnOrdinal", "c.columnOrdinal = int16(i)"⟩,          -- column identity (`col` of upage/emitCol)
  ⟨"writer.go:newConcurrentRowGroupWriter", "aadPrefix", "c.aadPrefix = w.encryption.cfg.AadPrefix"⟩, -- constant configuration
  ⟨"writer.go:newConcurrentRowGroupWriter", "awaitOrdinal", "c.awaitOrdinal = true"⟩,                -- winit.crg: rgEmpty 0 none true (no ordinal, NO identifier)
  ⟨"writer.go:newWriter", "columnOrdinal", "c.columnOrdinal = int16(i)"⟩,
  ⟨"writer.go:newWriter", "rowGroupOrdinal", "c.rowGroupOrdinal = 0"⟩,                               -- winit.main.colRg = 0
  ⟨"writer.go:newWriter", "fileUnique", "c.fileUnique = enc.fileUnique"⟩,                            -- winit.main.colFu = some 0
  ⟨"writer.go:newWriter", "aadPrefix", "c.aadPrefix = enc.cfg.AadPrefix"⟩,
  ⟨"writer.go:writer.reset", "rowGroupOrdinal", "c.rowGroupOrdinal = 0"⟩,                            -- wreset: rgEmpty 0 …
  ⟨"writer.go:writer.reset", "fileUnique", "c.fileUnique = w.encryption.fileUnique"⟩,                -- wreset: … (some (gen+1)); absent in wresetNoHandover
  ⟨"writer.go:writer.writeRowGroup", "rowGroupOrdinal", "c.rowGroupOrdinal = nextOrdinal"⟩,          -- wflush / wcommit: rgEmpty (nrg+1) …
  ⟨"writer.go:writer.writeRowGroup", "awaitOrdinal", "c.awaitOrdinal = rg != w.currentRowGroup"⟩,    -- wflush: await false; wcommit: await true
  ⟨"writer.go:writer.writeRowGroup", "rowGroupOrdinal", "c.rowGroupOrdinal = nextOrdinal"⟩,          -- wcommit (fixed): main.colRg := nrg+1
  ⟨"writer.go:writer.writeRowGroup", "rowGroupOrdinal", "c.rowGroupOrdinal = int16(rowGroupIndex)"⟩, -- rgPrep: colRg := rgi
  ⟨"writer.go:writer.writeRowGroup", "fileUnique", "c.fileUnique = w.encryption.fileUnique"⟩,        -- rgPrep: colFu := some gen
  ⟨"writer.go:writer.writeRowGroup", "awaitOrdinal", "c.awaitOrdinal = false"⟩,                      -- rgPrep: await := false
  ⟨"file.go:OpenFile", "fileUnique", "f.fileUnique = fileUnique"⟩,                                   -- Holder.file := Holder.cryptoMeta (encrypted footer)
  ⟨"file.go:OpenFile", "aadPrefix", "f.aadPrefix = aadPrefix"⟩,
  ⟨"file.go:OpenFile", "fileUnique", "f.fileUnique = fileUnique"⟩,                                   -- the same, plaintext footer
  ⟨"file.go:OpenFile", "aadPrefix", "f.aadPrefix = aadPrefix"⟩,
  ⟨"file.go:FileRowGroup.init", "columnOrdinal", "columnOrdinal: int16(i)"⟩,                         -- Chunk.col
  ⟨"file.go:FileRowGroup.init", "rowGroupOrdinal", "rowGroupOrdinal: rowGroup.Ordinal"⟩,             -- Chunk.rg
  ⟨"file.go:FilePages.init", "fileUnique", "fileUnique: c.file.fileUnique"⟩,                         -- Holder.pages := Holder.file
  ⟨"file.go:FilePages.init", "aadPrefix", "aadPrefix: c.file.aadPrefix"⟩,
  ⟨"file.go:FilePages.init", "rowGroupOrdinal", "rowGroupOrdinal: c.rowGroupOrdinal"⟩,
  ⟨"file.go:FilePages.init", "columnOrdinal", "columnOrdinal: c.columnOrdinal"⟩,
  ⟨"file.go:FilePages.init", "dataPageOrd", "dataPageOrd: 0"⟩,                                       -- rinit: ord := 0
  ⟨"file.go:FilePages.init", "dictPagePending", "dictPagePending: f.dictOffset > 0"⟩,                -- rinit: dictPending := hasDict
  ⟨"file.go:FilePages.readEncryptedPage", "dictPagePending", "d.dictPagePending = false"⟩,           -- radvance, dictionary branch
  ⟨"file.go:FilePages.readEncryptedPage", "dataPageOrd", "d.dataPageOrd++"⟩,                         -- radvance, data branch
  ⟨"file.go:FilePages.SeekToRow", "dataPageOrd", "f.dec.dataPageOrd = 0"⟩,                           -- rstep seekNoIndex
  ⟨"file.go:FilePages.SeekToRow", "dictPagePending", "f.dec.dictPagePending = false"⟩,
  ⟨"file.go:FilePages.SeekToRow", "dataPageOrd", "f.dec.dataPageOrd = int16(target)"⟩,               -- rstep seekIndexed
  ⟨"file.go:FilePages.SeekToRow", "dictPagePending", "f.dec.dictPagePending = false"⟩
]

/-- the fields the AAD is built from are assigned exactly where the state machines of `Aad.lean`
    change them: a dropped, added or changed assignment breaks the build -/
theorem aad_assignments_expected : aadAssigns = expectedAssigns := by decide

/-- in particular `reset` hands BOTH the ordinal and the new identifier to the column writers
    (`wreset`; compare `wresetNoHandover` and `C18.reset_must_hand_over_identifier`), and a row
    group writer of `BeginRowGroup` is given neither before `writeRowGroup` -/
theorem reset_and_begin_assignments :
    (aadAssigns.filter (fun a => a.fn == "writer.go:writer.reset")).map (·.field) = ["rowGroupOrdinal", "fileUnique"] ∧
    (aadAssigns.filter (fun a => a.fn == "writer.go:newConcurrentRowGroupWriter")).map (·.field) = ["columnOrdinal", "aadPrefix", "awaitOrdinal"] := by
  decide

end aadsites

end PqModel.Props.FactsCheckC18
