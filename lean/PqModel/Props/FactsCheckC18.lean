import PqModel.Generated.Facts
import PqModel.EncEmit

/-! # C18 — the write sites of the encryption-relevant functions of writer.go are the ones the
    leak model `EncEmit.emit` is built from

`Generated/Facts.lean` is rewritten by `tools/factgen` (family `encwrites`) from the current source
on every run. A new call that moves bytes towards the file in these functions, a call that changes
branch, or a key-present branch that writes something else than the output of
`encryptModule`/`signFooter` changes the table and breaks `enc_write_sites_expected`; the other
theorems tie the table to `EncEmit.siteOf`. -/
namespace PqModel.Props.FactsCheckC18
open PqModel.Generated PqModel.EncEmit

/-- the table of the reviewed source: (site, branch, first argument is a sealed envelope) -/
def expected : List EncWriteSite := [
  ⟨"writer.writeFileHeader:w.writer.WriteString(magic)", "any", false⟩,
  ⟨"writer.writeDeferredBloomFilters:w.writer.ReadFrom(bf.buf)", "any", false⟩,
  ⟨"writer.writeFileFooter:w.writer.Write(envelope)", "enc", true⟩,
  ⟨"writer.writeFileFooter:encoder.Encode(&columnIndexes[j])", "plain", false⟩,
  ⟨"writer.writeFileFooter:w.writer.Write(envelope)", "enc", true⟩,
  ⟨"writer.writeFileFooter:encoder.Encode(&offsetIndexes[j])", "plain", false⟩,
  ⟨"writer.writeFileFooter:encoder.Encode(&cryptoMeta)", "enc", false⟩,
  ⟨"writer.writeFileFooter:w.writer.Write(encFooter)", "enc", true⟩,
  ⟨"writer.writeFileFooter:w.writer.Write(w.footer[:])", "enc", false⟩,
  ⟨"writer.writeFileFooter:w.writer.Write(footerBytes)", "enc", false⟩,
  ⟨"writer.writeFileFooter:w.writer.Write(sig)", "enc", true⟩,
  ⟨"writer.writeFileFooter:w.writer.Write(w.footer[:])", "enc", false⟩,
  ⟨"writer.writeFileFooter:encoder.Encode(&w.fileMetaData)", "plain", false⟩,
  ⟨"writer.writeFileFooter:w.writer.Write(w.footer[:])", "plain", false⟩,
  ⟨"writer.writeRowGroup:w.writer.ReadFrom(io.NewSectionReader(cc.reader, cc.dictOffset, cc.dictLength))", "any", false⟩,
  ⟨"writer.writeRowGroup:w.writer.ReadFrom(io.NewSectionReader(cc.reader, cc.dataOffset, cc.dataLength))", "any", false⟩,
  ⟨"writer.writeRowGroup:io.Copy:&w.writer(c.pageBuffer)", "any", false⟩,
  ⟨"writer.writeRowGroup:io.Copy:buf(bloom)", "any", false⟩,
  ⟨"writer.writeRowGroup:w.writer.ReadFrom(bloom)", "any", false⟩,
  ⟨"ColumnWriter.writeBloomFilter:w.Write(encHdr)", "enc", true⟩,
  ⟨"ColumnWriter.writeBloomFilter:w.Write(encBits)", "enc", true⟩,
  ⟨"ColumnWriter.writeBloomFilter:e.Encode(&h)", "plain", false⟩,
  ⟨"ColumnWriter.writeBloomFilter:w.Write(filterBytes)", "plain", false⟩,
  ⟨"ColumnWriter.writeDataPage:output.Write(encHdr)", "enc", true⟩,
  ⟨"ColumnWriter.writeDataPage:output.Write(encBody)", "enc", true⟩,
  ⟨"ColumnWriter.writeDataPage:output.Write(data)", "plain", false⟩,
  ⟨"ColumnWriter.writeDictionaryPage:output.Write(encHdr)", "enc", true⟩,
  ⟨"ColumnWriter.writeDictionaryPage:output.Write(encBody)", "enc", true⟩,
  ⟨"ColumnWriter.writeDictionaryPage:output.Write(c.header.buffer.Bytes())", "plain", false⟩,
  ⟨"ColumnWriter.writeDictionaryPage:output.Write(buf.page)", "plain", false⟩
]

/-- the source has exactly the reviewed write sites, each in the reviewed branch -/
theorem enc_write_sites_expected : encWriteSites = expected := by decide

/-- What a key-present branch writes that is NOT the output of `encryptModule`/`signFooter`:
    the FileCryptoMetaData, the plaintext footer of plaintext-footer mode (whose chunks carry the
    redacted metadata, `EncEmit.redact`), and footer length + magic. These are the `raw` pieces of
    `EncEmit.footerPieces` and `Content.tail`. -/
def rawByDesign : List String := [
  "writer.writeFileFooter:encoder.Encode(&cryptoMeta)",
  "writer.writeFileFooter:w.writer.Write(footerBytes)",
  "writer.writeFileFooter:w.writer.Write(w.footer[:])"
]

/-- in the branches taken when a key is present, everything written is a sealed envelope (or
    signature) except the three regions that are raw by design -/
theorem enc_branch_writes_sealed :
    encWriteSites.all (fun s => s.branch != "enc" || s.argSealed || rawByDesign.contains s.name) = true := by decide

/-- Sites reached with and without a key ("any") only move bytes that an earlier site produced
    (page buffer → file, deferred bloom buffer → file), write the magic, or belong to the verbatim
    copy path, which `ColumnChunkIsCopyable` refuses for encrypting writers (writer_copy.go:110-115). -/
def transport : List String := [
  "writer.writeFileHeader:w.writer.WriteString(magic)",
  "writer.writeDeferredBloomFilters:w.writer.ReadFrom(bf.buf)",
  "writer.writeRowGroup:io.Copy:&w.writer(c.pageBuffer)",
  "writer.writeRowGroup:w.writer.ReadFrom(io.NewSectionReader(cc.reader, cc.dictOffset, cc.dictLength))",
  "writer.writeRowGroup:w.writer.ReadFrom(io.NewSectionReader(cc.reader, cc.dataOffset, cc.dataLength))",
  "writer.writeRowGroup:io.Copy:buf(bloom)",
  "writer.writeRowGroup:w.writer.ReadFrom(bloom)"
]

theorem any_branch_sites_are_transport :
    encWriteSites.all (fun s => s.branch != "any" || transport.contains s.name) = true := by decide

/-- one representative region of every kind -/
def kinds : List Content := [
  .magic, .tail, .pageHeader 0 0 0, .pageBody 0 0 0, .dictHeader 0 0, .dictBody 0 0, .bloomHeader 0 0, .bloomBits 0 0,
  .columnIndex 0 0, .offsetIndex 0 0, .columnMeta 0 0 ColMeta.zero, .footerRest, .cryptoMeta, .signature]

/-- the site the model names for a SEALED region exists in the source, in a key-present branch,
    and writes a sealed envelope -/
theorem model_sealed_sites_exist :
    (kinds.filter (fun c => c != .magic && c != .tail && c != .cryptoMeta && c != .signature)).all (fun c =>
      encWriteSites.any (fun s => s.name == siteOf true c && s.branch == "enc" && s.argSealed)) = true := by decide

/-- the site the model names for a RAW region exists in the source -/
theorem model_raw_sites_exist :
    kinds.all (fun c => encWriteSites.any (fun s => s.name == siteOf false c && !s.argSealed || s.name == siteOf false c && c == .signature)) = true := by decide

/-- every site of the source is the site of some region of the model, or pure transport, or the
    footer of a writer without encryption -/
theorem every_site_is_modelled :
    encWriteSites.all (fun s =>
      kinds.any (fun c => siteOf true c == s.name || siteOf false c == s.name) || transport.contains s.name ||
      s.name == "writer.writeFileFooter:encoder.Encode(&w.fileMetaData)") = true := by decide

end PqModel.Props.FactsCheckC18
