import PqModel.Bloom

/-! # C07 — Bloom filters never answer absent for a value that was written

Definitions: `PqModel/XxHash.lean` (XXH64 spec + mirror of the fixed-width specialisations),
`PqModel/Bloom.lean` (mirror of the split-block filter, its byte serialisation, and of the write
side / read side hashing of `bloom.go`). Only property theorems here. -/
namespace PqModel.Props.C07
open PqModel.XxHash PqModel.Bloom

/-! ## 1. the filter has no false negatives (any size ≥ 1 block, any hash list) -/

/-- In memory, spec form of the check: a hash inserted into a filter of `n ≥ 1` blocks is found,
    whatever else was inserted before or after. -/
theorem no_false_negative (n : Nat) (hn : 1 ≤ n) (hs : List (BitVec 64)) (h : BitVec 64) (hm : h ∈ hs) :
    check (build n hs) h = true :=
  Bloom.no_false_negative (emptyFilter n) (emptyFilter_wf n hn) hs h hm

example : check (build 3 [0x1234567890abcdef#64, 5#64]) 5#64 = true :=
  no_false_negative 3 (by decide) _ _ (by simp)

/-- Same, starting from any well-formed filter (a filter that already holds other pages' values). -/
theorem no_false_negative_from (f : Filter) (hf : WfFilter f) (hs : List (BitVec 64)) (h : BitVec 64)
    (hm : h ∈ hs) : check (insertBulk f hs) h = true :=
  Bloom.no_false_negative f hf hs h hm

example : WfFilter (emptyFilter 2) := emptyFilter_wf 2 (by decide)

/-- On the bytes stored in the file, with the Go form of the check (`CheckSplitBlock`: block read at
    `32 * index`, `word & mask != 0`): a hash inserted while building is found. -/
theorem no_false_negative_bytes (n : Nat) (hn : 1 ≤ n) (hs : List (BitVec 64)) (h : BitVec 64) (hm : h ∈ hs) :
    checkBytes (filterBytes (build n hs)) h = true := by
  have hw : WfFilter (build n hs) := insertBulk_wf _ _ (emptyFilter_wf n hn)
  rw [checkBytes_filterBytes _ _ hw]
  exact no_false_negative n hn hs h hm

example : checkBytes (filterBytes (build 2 [7#64, 0xffffffff00000000#64])) 0xffffffff00000000#64 = true :=
  no_false_negative_bytes 2 (by decide) _ _ (by simp)

/-- Building page after page (incremental, or re-reading pages) is building at once. -/
theorem build_incremental (f : Filter) (a b : List (BitVec 64)) :
    insertBulk (insertBulk f a) b = insertBulk f (a ++ b) := by
  simp [insertBulk, List.foldl_append]

/-- The serialised filter is `32 * n` bytes. -/
theorem filterBytes_size (n : Nat) (hs : List (BitVec 64)) (hn : 1 ≤ n) :
    (filterBytes (build n hs)).length = 32 * n := by
  have hw : WfFilter (build n hs) := insertBulk_wf (emptyFilter n) hs (emptyFilter_wf n hn)
  have hl : ∀ (hs : List (BitVec 64)) (f : Filter), (insertBulk f hs).length = f.length := by
    intro hs
    induction hs with
    | nil => intro f; rfl
    | cons g gs ih => intro f; simp only [insertBulk, List.foldl_cons] at ih ⊢; rw [ih]; simp [bfInsert, setAt_length]
  rw [filterBytes_length _ hw.2]
  unfold build
  rw [hl]; simp [emptyFilter]

/-- The 64-bit wraparound expression of `fasthash1x64` is the exact `⌊hi32(x)·n / 2^32⌋` (< n). -/
theorem block_index_in_range (x : BitVec 64) (n : Nat) (hn : 1 ≤ n) (h32 : n < 2 ^ 32) :
    blockIndexGo x n < n := by
  rw [blockIndexGo_eq x n h32]; exact blockIndex_lt x n hn

example : blockIndexGo 0xffffffffffffffff#64 5 < 5 := block_index_in_range _ 5 (by decide) (by decide)

/-! ## 2. the fixed-width hash specialisations are XXH64 of the little-endian bytes -/

theorem sum64Uint8_eq_xxh64 (v : UInt8) : sum64Uint8 v = xxh64 [v] := rfl

theorem sum64Uint32_eq_xxh64 (v : UInt32) : sum64Uint32 v = xxh64 (le32 v) := by
  calc sum64Uint32 v = sum64Uint32 (u32le (le32 v)) := by rw [u32le_le32]
    _ = xxh64 (le32 v) := by
      unfold le32
      simp only [leBytes]
      exact sum64Uint32_bytes _ _ _ _

theorem sum64Uint64_eq_xxh64 (v : UInt64) : sum64Uint64 v = xxh64 (le64 v) := by
  calc sum64Uint64 v = sum64Uint64 (u64le (le64 v)) := by rw [u64le_le64]
    _ = xxh64 (le64 v) := by
      unfold le64
      simp only [leBytes]
      exact sum64Uint64_bytes _ _ _ _ _ _ _ _

theorem sum64Uint128_eq_xxh64 (v : List UInt8) (h : v.length = 16) : sum64Uint128 v = xxh64 v := by
  match v, h with
  | [b0, b1, b2, b3, b4, b5, b6, b7, c0, c1, c2, c3, c4, c5, c6, c7], _ =>
    exact sum64Uint128_bytes _ _ _ _ _ _ _ _ _ _ _ _ _ _ _ _

example : ([1, 2, 3, 4, 5, 6, 7, 8, 9, 10, 11, 12, 13, 14, 15, 16] : List UInt8).length = 16 := rfl

/-- `MultiSum64Uint8/32/64/128` write, for every input position below `min(len dst, len src)`, the
    XXH64 of the little-endian bytes of that value. -/
theorem multisum_eq_sum_8 (cap : Nat) (vs : List UInt8) :
    multiSum64Uint8 cap vs = (vs.take cap).map (fun v => xxh64 [v]) := rfl

theorem multisum_eq_sum_32 (cap : Nat) (vs : List UInt32) :
    multiSum64Uint32 cap vs = (vs.take cap).map (fun v => xxh64 (le32 v)) := by
  unfold multiSum64Uint32 multiSum64
  exact List.map_congr_left (fun v _ => sum64Uint32_eq_xxh64 v)

theorem multisum_eq_sum_64 (cap : Nat) (vs : List UInt64) :
    multiSum64Uint64 cap vs = (vs.take cap).map (fun v => xxh64 (le64 v)) := by
  unfold multiSum64Uint64 multiSum64
  exact List.map_congr_left (fun v _ => sum64Uint64_eq_xxh64 v)

theorem multisum_eq_sum_128 (cap : Nat) (vs : List (List UInt8)) (h : ∀ v ∈ vs, v.length = 16) :
    multiSum64Uint128 cap vs = (vs.take cap).map xxh64 := by
  unfold multiSum64Uint128 multiSum64
  exact List.map_congr_left (fun v hv => sum64Uint128_eq_xxh64 v (h v (List.mem_of_mem_take hv)))

example : ∀ v ∈ [List.replicate 16 (0xAB : UInt8)], v.length = 16 := by simp

/-! ## 3. the write side inserts the hash the read side looks up -/

/-- Every kind: for a page holding `values` (all of kind `kind`; int96 = 12 bytes, fixed-length =
    `size > 0` bytes each), the hash `Value.hash` computes for a written value is among the hashes
    `splitBlockEncoding.Encode*` inserts for that page. -/
theorem hash_sides_agree (kind : Kind) (values : List Value)
    (hv : ∀ v ∈ values, v.kindOk kind = true) (v : Value) (hm : v ∈ values) :
    hashRead v ∈ hashWrite (pageData kind values) := by
  have hvk := hv v hm
  have bytesAll : ∀ (size : Nat), (∀ w ∈ values, w.kindOk kind = true → w.payloadBytes.length = size) →
      ∀ b ∈ values.map Value.payloadBytes, b.length = size := by
    intro size h b hb
    rcases List.mem_map.mp hb with ⟨w, hw, rfl⟩
    exact h w hw (hv w hw)
  cases kind with
  | boolean =>
    cases v <;> simp [Value.kindOk] at hvk
    rename_i b
    simp only [pageData, hashWrite]
    exact encodeBoolean_covers _ b (List.mem_map.mpr ⟨.boolean b, hm, rfl⟩)
  | int32 =>
    cases v <;> simp [Value.kindOk] at hvk
    simp only [pageData, hashWrite, multiSum64Uint32, multiSum64, List.take_length]
    exact mem_map_proj values _ hm _ sum64Uint32 rfl
  | int64 =>
    cases v <;> simp [Value.kindOk] at hvk
    simp only [pageData, hashWrite, multiSum64Uint64, multiSum64, List.take_length]
    exact mem_map_proj values _ hm _ sum64Uint64 rfl
  | float =>
    cases v <;> simp [Value.kindOk] at hvk
    simp only [pageData, hashWrite, multiSum64Uint32, multiSum64, List.take_length]
    exact mem_map_proj values _ hm _ sum64Uint32 rfl
  | double =>
    cases v <;> simp [Value.kindOk] at hvk
    simp only [pageData, hashWrite, multiSum64Uint64, multiSum64, List.take_length]
    exact mem_map_proj values _ hm _ sum64Uint64 rfl
  | int96 =>
    have hall := bytesAll 12 (by
      intro w _ hw; cases w <;> simp [Value.kindOk] at hw; simpa [Value.payloadBytes] using hw)
    cases v <;> simp [Value.kindOk] at hvk
    simp only [pageData, hashWrite, List.flatMap_def]
    rw [chunks_flatten 12 (by decide) _ hall]
    exact mem_map_proj values _ hm Value.payloadBytes xxh64 rfl
  | byteArray =>
    cases v <;> simp [Value.kindOk] at hvk
    simp only [pageData, hashWrite, List.flatMap_def]
    rw [byteArrayValues_flatten]
    exact mem_map_proj values _ hm Value.payloadBytes xxh64 rfl
  | flba size =>
    have hall := bytesAll size (by
      intro w _ hw; cases w <;> simp [Value.kindOk] at hw; simpa [Value.payloadBytes] using hw.1)
    cases v <;> simp [Value.kindOk] at hvk
    rename_i bytes
    have hpos : 0 < size := hvk.2
    simp only [pageData, hashWrite, List.flatMap_def]
    split
    · rename_i h16
      subst h16
      rw [chunks_flatten 16 hpos _ hall]
      simp only [multiSum64Uint128, multiSum64, List.take_length]
      have : hashRead (Value.flba bytes) = sum64Uint128 (Value.payloadBytes (Value.flba bytes)) := by
        simp only [hashRead, Value.payloadBytes]
        exact (sum64Uint128_eq_xxh64 bytes hvk.1).symm
      exact mem_map_proj values _ hm Value.payloadBytes sum64Uint128 this
    · rw [chunks_flatten size hpos _ hall]
      exact mem_map_proj values _ hm Value.payloadBytes xxh64 rfl

example : ∀ v ∈ [Value.flba (List.replicate 16 1), Value.flba (List.replicate 16 2)],
    v.kindOk (.flba 16) = true := by decide

example : ∀ v ∈ [Value.boolean true, Value.boolean true, Value.boolean false], v.kindOk .boolean = true := by decide

/-- BOOLEAN before fix 3b0d378 (finding F3): the property was FALSE. Two `true` values are written;
    the write side hashed the packed byte `0x03`, the read side hashes `0x01`. -/
theorem hash_sides_disagree_boolean_before_fix :
    ∃ (values : List Value) (v : Value), (∀ w ∈ values, w.kindOk .boolean = true) ∧ v ∈ values ∧
      hashRead v ∉ hashWriteBeforeFix (pageData .boolean values) :=
  ⟨[.boolean true, .boolean true], .boolean true, by decide, by decide, by decide⟩

/-- … and the stored one-block filter then answered "absent" for the written value. -/
theorem boolean_false_negative_before_fix :
    checkBytes (filterBytes (build 1 ((hashWriteBeforeFix (pageData .boolean [.boolean true, .boolean true])).map UInt64.toBitVec)))
      (hashRead (.boolean true)).toBitVec = false := by
  decide

/-- The staging buffers (128 hashes per `InsertBulk`) change nothing: the loop-level mirror inserts
    exactly the hashes of the value-level one. -/
theorem staging_is_transparent (pd : PageData) : hashWriteStaged pd = hashWrite pd := hashWriteStaged_eq pd

/-- Converse for every kind except BOOLEAN (where padding bits may add `false`): nothing but hashes of
    written values is inserted. -/
theorem hash_sides_exact (kind : Kind) (hk : kind ≠ .boolean) (values : List Value)
    (hv : ∀ v ∈ values, v.kindOk kind = true) (h : UInt64) (hh : h ∈ hashWrite (pageData kind values)) :
    ∃ v ∈ values, h = hashRead v := by
  have bytesAll : ∀ (size : Nat), (∀ w ∈ values, w.kindOk kind = true → w.payloadBytes.length = size) →
      ∀ b ∈ values.map Value.payloadBytes, b.length = size := by
    intro size h b hb
    rcases List.mem_map.mp hb with ⟨w, hw, rfl⟩
    exact h w hw (hv w hw)
  cases kind with
  | boolean => exact absurd rfl hk
  | int32 =>
    simp only [pageData, hashWrite, multiSum64Uint32, multiSum64, List.take_length, List.map_map] at hh
    rcases List.mem_map.mp hh with ⟨w, hw, rfl⟩
    have := hv w hw
    cases w <;> simp [Value.kindOk] at this
    exact ⟨_, hw, rfl⟩
  | int64 =>
    simp only [pageData, hashWrite, multiSum64Uint64, multiSum64, List.take_length, List.map_map] at hh
    rcases List.mem_map.mp hh with ⟨w, hw, rfl⟩
    have := hv w hw
    cases w <;> simp [Value.kindOk] at this
    exact ⟨_, hw, rfl⟩
  | float =>
    simp only [pageData, hashWrite, multiSum64Uint32, multiSum64, List.take_length, List.map_map] at hh
    rcases List.mem_map.mp hh with ⟨w, hw, rfl⟩
    have := hv w hw
    cases w <;> simp [Value.kindOk] at this
    exact ⟨_, hw, rfl⟩
  | double =>
    simp only [pageData, hashWrite, multiSum64Uint64, multiSum64, List.take_length, List.map_map] at hh
    rcases List.mem_map.mp hh with ⟨w, hw, rfl⟩
    have := hv w hw
    cases w <;> simp [Value.kindOk] at this
    exact ⟨_, hw, rfl⟩
  | int96 =>
    have hall := bytesAll 12 (by
      intro w _ hw; cases w <;> simp [Value.kindOk] at hw; simpa [Value.payloadBytes] using hw)
    simp only [pageData, hashWrite, List.flatMap_def] at hh
    rw [chunks_flatten 12 (by decide) _ hall, List.map_map] at hh
    rcases List.mem_map.mp hh with ⟨w, hw, rfl⟩
    have := hv w hw
    cases w <;> simp [Value.kindOk] at this
    exact ⟨_, hw, rfl⟩
  | byteArray =>
    simp only [pageData, hashWrite, List.flatMap_def] at hh
    rw [byteArrayValues_flatten, List.map_map] at hh
    rcases List.mem_map.mp hh with ⟨w, hw, rfl⟩
    have := hv w hw
    cases w <;> simp [Value.kindOk] at this
    exact ⟨_, hw, rfl⟩
  | flba size =>
    have hall := bytesAll size (by
      intro w _ hw; cases w <;> simp [Value.kindOk] at hw; simpa [Value.payloadBytes] using hw.1)
    by_cases hvals : values = []
    · subst hvals
      simp only [pageData, hashWrite, List.flatMap_nil, chunks, chunksFuel, List.length_nil] at hh
      split at hh <;> simp [multiSum64Uint128, multiSum64] at hh
    · obtain ⟨w0, hw0⟩ := List.exists_mem_of_ne_nil values hvals
      have hpos : 0 < size := by
        have := hv w0 hw0
        cases w0 <;> simp [Value.kindOk] at this
        exact this.2
      simp only [pageData, hashWrite, List.flatMap_def] at hh
      split at hh
      · rename_i h16
        subst h16
        rw [chunks_flatten 16 hpos _ hall] at hh
        simp only [multiSum64Uint128, multiSum64, List.take_length, List.map_map] at hh
        rcases List.mem_map.mp hh with ⟨w, hw, rfl⟩
        have := hv w hw
        cases w <;> simp [Value.kindOk] at this
        rename_i bytes
        exact ⟨_, hw, by simp only [Function.comp, Value.payloadBytes, hashRead]; exact sum64Uint128_eq_xxh64 bytes this⟩
      · rw [chunks_flatten size hpos _ hall, List.map_map] at hh
        rcases List.mem_map.mp hh with ⟨w, hw, rfl⟩
        have := hv w hw
        cases w <;> simp [Value.kindOk] at this
        exact ⟨_, hw, rfl⟩

/-! ## 4. end to end on the model: a written value is found in the stored filter -/

/-- A column chunk whose filter (any `n ≥ 1` blocks) was filled page by page through
    `writePageToFilter` (loop-level write side): looking up any value of any of the pages in the
    stored bytes answers true. -/
theorem written_value_is_found (kind : Kind) (n : Nat) (hn : 1 ≤ n)
    (pages : List (List Value)) (hv : ∀ p ∈ pages, ∀ v ∈ p, v.kindOk kind = true)
    (p : List Value) (hp : p ∈ pages) (v : Value) (hm : v ∈ p) :
    checkBytes (filterBytes (build n ((pages.flatMap (fun p => hashWriteStaged (pageData kind p))).map UInt64.toBitVec)))
      (hashRead v).toBitVec = true := by
  apply no_false_negative_bytes n hn
  apply List.mem_map_of_mem
  refine List.mem_flatMap.mpr ⟨p, hp, ?_⟩
  rw [hashWriteStaged_eq]
  exact hash_sides_agree kind p (hv p hp) v hm

example : ∀ p ∈ [[Value.int32 7, Value.int32 9], [Value.int32 0xFFFFFFFF]], ∀ v ∈ p, v.kindOk .int32 = true := by
  decide

end PqModel.Props.C07
