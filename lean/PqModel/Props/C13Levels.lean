import PqModel.C13Levels

/-! # C13, levels — the stored checksum covers the level bytes of a data page V2

Mirror side: `C13Levels.writerCrc` / `writerHeader` (`writerBuffers.crc32` and the header fields the
column writer fills from it) with `C13Levels.wcurrent`; `PageLoad.load current` (the loaders).
Spec side: `C13Levels.specCrc`, `coveredRange`, `levelRange`, `PageLoad.Burst`.

The loader theorems of `Props/C13.lean` speak of "a page whose header carries the non-zero CRC of its
body". This file closes the write side of that hypothesis: the header a writer of this library stores
carries the CRC of the WHOLE stored body — levels first, then values — whatever the three sections
hold, in particular when the values section is empty (all-null page, page of empty lists), so a burst
inside the level bytes is rejected on every loader path; the only pages left out are those whose
true CRC-32 is 0 (F8). The variant that returns 0 for an empty values section (seed C13-7a) is shown
to violate this with a witness whose CRC is NOT 0, i.e. it is not F8. -/
namespace PqModel.Props.C13Levels
open PqModel.Crc PqModel.PageLoad PqModel.C13Levels

/-- **writer_crc_is_spec_crc**: the checksum the writer computes is the CRC-32 of the stored body
    `rep ‖ def ‖ page`, for all three sections (empty or not) -/
theorem writer_crc_is_spec_crc (b : Buffers) : writerCrc wcurrent b = specCrc b :=
  writerCrc_current b

example : writerCrc wcurrent { repetitions := [], definitions := [0xc0, 0x01, 0x00, 0x08, 0x00], page := [] }
    = 0x5f52f2ab#32 := by decide +kernel

/-- **header_covers_levels**: the stored header describes exactly the range `coveredRange` — size =
    end of the range = length of the stored body, the level range is a prefix of it, and the CRC is
    the CRC of the bytes in that range -/
theorem header_covers_levels (kind : PageKind) (b : Buffers) :
    (coveredRange b.repetitions.length b.definitions.length b.page.length).1 = 0 ∧
    (coveredRange b.repetitions.length b.definitions.length b.page.length).2 = b.body.length ∧
    (writerHeader wcurrent kind b).compressedSize = b.body.length ∧
    (levelRange b.repetitions.length b.definitions.length).2 ≤ b.body.length ∧
    b.body.take (levelRange b.repetitions.length b.definitions.length).2 = b.repetitions ++ b.definitions ∧
    (writerHeader wcurrent kind b).crc = crc32 ((b.body.drop 0).take b.body.length) := by
  have hl : b.body.length = b.repetitions.length + b.definitions.length + b.page.length := by
    simp [Buffers.body, Nat.add_assoc]
  refine ⟨rfl, ?_, ?_, ?_, ?_, ?_⟩
  · simp [coveredRange, hl]
  · simp [writerHeader, body_length]
  · simp only [levelRange]; omega
  · have : (levelRange b.repetitions.length b.definitions.length).2 = (b.repetitions ++ b.definitions).length := by
      simp [levelRange]
    rw [this, Buffers.body, List.take_left']
    rfl
  · simp [writerHeader, writerCrc_current]

/-- **written_page_detects**: a page as the writer stores it, unless its CRC-32 is exactly 0, is
    rejected on every loader path after any burst of ≤ 32 bits anywhere in the stored body -/
theorem written_page_detects (p : Path) (kind : PageKind) (b : Buffers) (err : Bytes)
    (hlen : err.length = b.body.length) (h0 : specCrc b ≠ 0#32) (hb : Burst err) :
    load current p (writerHeader wcurrent kind b) (xorBytes b.body err) = .error .corrupted := by
  apply load_detects_of_verifies current p (verifies_current p) _ b.body err
  · simp [writerHeader, body_length]
  · exact hlen
  · simpa [writerHeader, writerCrc_current, specCrc] using h0
  · simp [writerHeader, writerCrc_current]
  · exact hb

/-- **level_burst_detected**: the same with the burst confined to the LEVEL bytes of the body (mask
    `lerr` over `rep ‖ def`, the values section untouched) — stated separately because this is the
    range the slipped variant leaves unprotected; the values section may be empty -/
theorem level_burst_detected (p : Path) (b : Buffers) (lerr : Bytes)
    (hlen : lerr.length = b.repetitions.length + b.definitions.length) (h0 : specCrc b ≠ 0#32)
    (hb : Burst (lerr ++ List.replicate b.page.length 0)) :
    load current p (writerHeader wcurrent .dataV2 b)
      (xorBytes b.body (lerr ++ List.replicate b.page.length 0)) = .error .corrupted :=
  written_page_detects p .dataV2 b _ (by simp [Buffers.body, hlen, Nat.add_assoc]) h0 hb

/-- the hypotheses are satisfiable: the 5 definition-level bytes of a page of 100 null groups (max
    definition level 2), no values, bit 1 of byte 2 flipped (96 null groups become present) -/
example : load current .afterSeek
    (writerHeader wcurrent .dataV2 { repetitions := [], definitions := [0xc0, 0x01, 0x00, 0x08, 0x00], page := [] })
    (xorBytes [0xc0, 0x01, 0x00, 0x08, 0x00] ([0, 0, 2, 0, 0] ++ List.replicate 0 0)) = .error .corrupted :=
  level_burst_detected .afterSeek { repetitions := [], definitions := [0xc0, 0x01, 0x00, 0x08, 0x00], page := [] }
    [0, 0, 2, 0, 0] rfl (by decide +kernel) ⟨⟨17, by decide⟩, ⟨17, by decide⟩⟩

/-! ## The slipped variant (seed C13-7a): `return 0` when the values section is empty -/

/-- `header.CRC == 0` disables the comparison on every path of either implementation (the loader side
    of F8, restated here for the header the variant writes) -/
theorem crc_zero_accepts (impl : Impl) (p : Path) (h : Header) (s : Bytes)
    (h0 : h.crc = 0#32) (hs : s.length = h.compressedSize) :
    load impl p h s = .ok { kind := h.kind, body := s } := by
  have hf : readFull h.compressedSize s = .ok s := by rw [← hs]; exact readFull_exact s
  cases p <;> cases hv : impl.dictLoaderVerifies <;> simp [load, readDictionaryBody, readPage, hf, h0, hv]

/-- whatever the level bytes: with an empty values section the variant stores no CRC, and every
    loader path of either implementation then accepts any bytes of the right length -/
theorem slipped_levels_only_page_is_never_verified (impl : Impl) (p : Path) (kind : PageKind) (b : Buffers)
    (hp : b.page = []) (s : Bytes) (hs : s.length = b.body.length) :
    (writerHeader wslipped kind b).crc = 0#32 ∧
    load impl p (writerHeader wslipped kind b) s = .ok { kind := kind, body := s } := by
  have hc : (writerHeader wslipped kind b).crc = 0#32 := by simp [writerHeader, writerCrc, wslipped, hp]
  have hk : (writerHeader wslipped kind b).kind = kind := rfl
  have hn : s.length = (writerHeader wslipped kind b).compressedSize := by
    simp [writerHeader, hs, body_length]
  refine ⟨hc, ?_⟩
  rw [← hk]
  exact crc_zero_accepts impl p _ s hc hn

/-- the page of the seed's demonstration: no repetition levels, definition levels `c0 01 00 08 00`
    (RLE: 96 × 0, 4 × 0), no values -/
def nullPage : Buffers := { repetitions := [], definitions := [0xc0, 0x01, 0x00, 0x08, 0x00], page := [] }

/-- **slipped_witness**: this page's true CRC-32 is not 0 (so it is NOT finding F8), the variant
    stores CRC 0 for it, the flipped definition level is then handed to the decoder on the verifying
    sequential path — and the code as mirrored rejects the same bytes -/
theorem slipped_witness :
    specCrc nullPage ≠ 0#32 ∧
    (writerHeader wslipped .dataV2 nullPage).crc = 0#32 ∧
    load current .sequential (writerHeader wslipped .dataV2 nullPage) (nullPage.body.set 2 0x02) =
      .ok { kind := .dataV2, body := [0xc0, 0x01, 0x02, 0x08, 0x00] } ∧
    load current .sequential (writerHeader wcurrent .dataV2 nullPage) (nullPage.body.set 2 0x02) =
      .error .corrupted := by
  decide +kernel

/-- the variant differs from the code only on pages with an empty values section -/
theorem slipped_agrees_elsewhere (b : Buffers) (hp : b.page ≠ []) : writerCrc wslipped b = writerCrc wcurrent b := by
  cases h : b.page with
  | nil => exact absurd h hp
  | cons x xs => simp [writerCrc, wslipped, wcurrent, h]

end PqModel.Props.C13Levels
