import PqModel.ColWriterLemmas

/-! # C11 — property theorems for the column-oriented write API (`ColumnWriter`)

Mirror: `PqModel.ColWriter` (`writeRowValues`, `flush`, `close`, `writeDataPage`, `totalRowCount`
= writer.go:2145-2192, 2419-2450, 2516-2520, 2891-2896; `rowPathOps` = one column of
`ConcurrentRowGroupWriter.WriteRows`, writer.go:1015-1079). Spec side: `headOK` ("a batch / data
page of a repeated column starts at repetition level 0", the documented contract of
`WriteRowValues`: whole rows). All statements are for every buffer kind, every `PageBufferSize`,
every history of `WriteRowValues` / `Flush` / `Close` calls and every split of the column's values
into batches. -/
namespace PqModel.Props.C11ColWriter
open PqModel.ColWriter

/-- **A file written through a `ColumnWriter` holds the column stream, whatever the batch split**:
    for every history of `WriteRowValues`, `Flush` and `Close` calls on a fresh column writer whose
    batches start at rows, what the finished row group holds for the column (the pages in order,
    after the flush of `writeRowGroup`) is the concatenation of the batches, and the row count the
    row group is given (`totalRowCount`) is the number of rows in it. -/
theorem colwriter_writes_the_stream (k : Kind) (bufferSize : Nat) (ops : List Op)
    (hw : ∀ vs, Op.write vs ∈ ops → headOK k vs = true) :
    written k (run k bufferSize fresh ops) = (writesOf ops).flatten ∧
    totalRowCount k (run k bufferSize fresh ops) = bufLen k (writesOf ops).flatten := by
  have hg := good_run bufferSize ops (good_fresh k) hw
  simp only [List.nil_append] at hg
  obtain ⟨hf, he⟩ := good_flush hg
  refine ⟨?_, ?_⟩
  · have := hf.stream
    rw [he, List.append_nil] at this
    exact this
  · unfold totalRowCount
    rw [hg.rows, sum_map_bufLen, ← bufLen_append, hg.stream]

/-- **Column path = row path** (the slice's target): take the rows of a row group, per row the
    values of one column (each row starting at repetition level 0). Writing the column through
    `ColumnWriter.WriteRowValues` in ANY split into batches that start at rows, with `Flush` and
    `Close` calls anywhere in between, under any page buffer size, gives the same column stream and
    the same row count as `WriteRows` of the rows (chunks of 64 rows), under any other page buffer
    size: both are the values of the rows in order. -/
theorem colwriter_equals_rowpath (k : Kind) (bs₁ bs₂ : Nat) (rows : List (List Val))
    (hr : ∀ r ∈ rows, headOK k r = true) (ops : List Op)
    (hw : ∀ vs, Op.write vs ∈ ops → headOK k vs = true)
    (hs : (writesOf ops).flatten = rows.flatten) :
    written k (run k bs₁ fresh ops) = written k (rowPath k bs₂ fresh rows) ∧
    written k (rowPath k bs₂ fresh rows) = rows.flatten ∧
    totalRowCount k (run k bs₁ fresh ops) = totalRowCount k (rowPath k bs₂ fresh rows) := by
  have h1 := colwriter_writes_the_stream k bs₁ ops hw
  have h2 := colwriter_writes_the_stream k bs₂ (rowPathOps (rows.length + 1) rows)
    (rowPathOps_heads _ rows hr)
  rw [rowPathOps_stream _ rows (Nat.lt_succ_self _)] at h2
  rw [hs] at h1
  exact ⟨by rw [rowPath, h1.1, h2.1], h2.1, by rw [rowPath, h1.2, h2.2]⟩

/-- **Page cutting and accounting**, at every point of every history: every data page written holds
    at least one value and starts at the beginning of a row; `numRows` is the number of rows of the
    pages, `FirstRowIndex` of page i the number of rows of the pages before it (so the offset index
    is usable for seeking), `NumValues` of the chunk the number of values of the pages; and the
    values not yet in a page are in the buffer, in order. -/
theorem pages_cut_at_rows_and_accounted (k : Kind) (bufferSize : Nat) (ops : List Op)
    (hw : ∀ vs, Op.write vs ∈ ops → headOK k vs = true) :
    let c := run k bufferSize fresh ops
    (∀ p ∈ c.pages, p ≠ [] ∧ headOK k p = true) ∧
    c.pages.flatten ++ c.vals = (writesOf ops).flatten ∧
    c.numRows = bufLen k c.pages.flatten ∧
    c.numValues = c.pages.flatten.length ∧
    c.firstRow = prefixSums 0 (c.pages.map (bufLen k)) := by
  have hg := good_run bufferSize ops (good_fresh k) hw
  simp only [List.nil_append] at hg
  refine ⟨hg.pagesOK, hg.stream, by rw [hg.rows, sum_map_bufLen], ?_, hg.first⟩
  rw [hg.nvals, List.length_flatten]

/-- **The page buffer size is honoured**: after every `WriteRowValues` of such a history, what stays
    buffered is smaller than the threshold (`Size() < bufferSize`) or nothing. -/
theorem buffer_below_threshold (k : Kind) (bufferSize : Nat) (ops : List Op) (vs : List Val)
    (hw : ∀ vs', Op.write vs' ∈ ops → headOK k vs' = true) (hvs : headOK k vs = true) :
    let c := (writeRowValues k bufferSize (run k bufferSize fresh ops) vs).1
    c.vals = [] ∨ bufSize k c.vals < bufferSize := by
  have hg := good_run bufferSize ops (good_fresh k) hw
  have hc' : Good k { run k bufferSize fresh ops with buf := some ((run k bufferSize fresh ops).vals ++ vs) }
      ([] ++ (writesOf ops).flatten ++ vs) :=
    ⟨by simp [CW.vals, ← hg.stream], by simpa [CW.vals] using headOK_append hg.head hvs,
      hg.pagesOK, hg.rows, hg.nvals, hg.first⟩
  simp only [writeRowValues]
  split
  · exact Or.inl (good_flush hc').2
  · next h => exact Or.inr (by simpa [CW.vals] using h)

/-- `WriteRowValues` returns the number of rows of the batch, whatever is buffered. -/
theorem writeRowValues_returns_rows (k : Kind) (bufferSize : Nat) (c : CW) (vs : List Val) :
    (writeRowValues k bufferSize c vs).2 = bufLen k vs := by
  unfold writeRowValues
  cases hb : c.buf <;> simp [CW.vals, hb, bufLen_append] <;> split <;> simp

/-- The hypotheses are satisfiable, the threshold is exercised: a repeated column, rows of 2, 1
    and 3 values written as two batches under a threshold of 30 bytes (first batch: 2*8 rows +
    2*3 levels + 3*4 values = 34 ≥ 30, flushed as one page of two rows; the second stays buffered
    until the row group is flushed). -/
example :
    let s : Val := ⟨true, false, 4⟩
    let c : Val := ⟨false, false, 4⟩
    let r := run .repeated 30 fresh [.write [s, c, s], .write [s, c, c]]
    r.pages = [[s, c, s]] ∧ r.vals = [s, c, c] ∧ r.numRows = 2 ∧ totalRowCount .repeated r = 3 ∧
    (flush .repeated r).firstRow = [0, 2] := by decide

example : ∀ vs, Op.write vs ∈ [Op.write [(⟨true, false, 4⟩ : Val)], .flush] → headOK .repeated vs = true := by
  intro vs h; simp at h; subst h; rfl

/-- row path: 130 rows of one value are three `WriteRowValues` calls (64, 64, 2 rows) -/
example : (writesOf (rowPathOps 131 (List.replicate 130 [(⟨true, false, 4⟩ : Val)]))).map List.length = [64, 64, 2] := by
  decide

/-- **The whole-rows contract is necessary (1)**: `Close` after a batch of a repeated column that
    does not start a row (nothing buffered before it) silently discards the batch: `Flush` sees
    `Len() = 0` and writes nothing, `Close` then resets the buffer. -/
theorem close_discards_headless_batch :
    let v : Val := ⟨false, false, 4⟩
    written .repeated (run .repeated 1000 fresh [.write [v], .close]) = [] ∧
    written .repeated (run .repeated 1000 fresh [.write [v]]) = [] := by decide

/-- **The whole-rows contract is necessary (2)**: a batch that ends in the middle of a row can be
    followed by a page cut, and the next data page then starts in the middle of a row. -/
theorem split_row_gives_page_starting_mid_row :
    let s : Val := ⟨true, false, 4⟩
    let c : Val := ⟨false, false, 4⟩
    (flush .repeated (run .repeated 0 fresh [.write [s, c], .write [c, s]])).pages = [[s, c], [c, s]] := by
  decide

end PqModel.Props.C11ColWriter
