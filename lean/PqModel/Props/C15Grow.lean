import PqModel.PoolGrow
import PqModel.Props.C15

/-! # C15, growing buffers that share the bucket pools (round 7, seed 7a)

Independent `SliceBuffer`s (column buffers, dictionaries, page buffers of unrelated Buffers /
Writers) used from different goroutines share the process-wide `slicePools`. Each generation of
storage of each buffer is a pool program (`PqModel.PoolGrow.genProg`, MIRROR of
internal/memory/slice_buffer.go); the theorems are about ALL interleavings of any number of them,
together with any other disciplined users of the same pool. -/
namespace PqModel.Props.C15Grow
open PqModel.PoolProto PqModel.PoolGrow

/-- Any number of buffer generations with any fills and endings (grow to the next bucket, overflow
    past the last bucket, AppendFunc reallocation, Reset, dropped), owned by any goroutines, next to
    any other programs that respect the discipline: in every reachable state of every interleaving
    a pooled slice may be touched by at most one goroutine, a slice inside the pool is touched by
    nobody (so the copy of a growing buffer reads storage no other goroutine can obtain), and the
    put is the owner's last action on it. -/
theorem slicebuffer_grow_exclusive (cfg : List (Nat × Ending)) (others : List (List Op))
    (ho : ∀ p ∈ others, disc p = true) {s : St}
    (hr : Reach (cfg.map (fun c => genProg c.1 c.2 false) ++ others) s) :
    Exclusive s ∧ PoolQuiet s ∧ PutLast s :=
  PqModel.Props.C15.pool_exclusive _ (by
    intro p hp
    rcases List.mem_append.mp hp with h | h
    · obtain ⟨c, _, rfl⟩ := List.mem_map.mp h
      exact genProg_disc _ _
    · exact ho p h) hr

/-- the hypotheses are satisfiable: three buffers in different phases next to a compressor call -/
example (s : St)
    (hr : Reach ([(3, Ending.grow), (0, .reset), (5, .overflow)].map (fun c => genProg c.1 c.2 false) ++ [encodeProg]) s) :
    Exclusive s ∧ PoolQuiet s ∧ PutLast s :=
  slicebuffer_grow_exclusive _ _ (by
    intro p hp
    simp only [List.mem_cons, List.mem_nil_iff, or_false] at hp
    subst hp; exact encodeProg_disc) hr

/-- NEGATION for put-before-copy (seed C15-7a), with a HEALTHY second buffer: goroutine 0 grows its
    buffer with the slipped order — one append into slice 0, `oldSlice.data = b.data`, put: slice 0
    is in the pool while the copy out of it is still to come (`¬ PoolQuiet`, `¬ PutLast`);
    goroutine 1, an unrelated buffer running the code as it is, obtains slice 0 for its own elements
    and appends into it while goroutine 0 copies from it (`¬ Exclusive`): goroutine 0's buffer ends
    up holding goroutine 1's elements. -/
theorem slicebuffer_grow_slip_not_exclusive :
    let slip := genProg 1 .grow true
    let healthy := genProg 1 .reset false
    (∃ s, Reach [slip, healthy] s ∧ ¬ PoolQuiet s ∧ ¬ PutLast s) ∧
    (∃ s, Reach [slip, healthy] s ∧ ¬ Exclusive s) := by
  intro slip healthy
  have s0 : Reach [slip, healthy] (PoolProto.init [slip, healthy]) := .init
  have s1 := s0.step (.getNew (i := 0) rfl)
  have s2 := s1.step (.use (i := 0) rfl)
  have s3 := s2.step (.use (i := 0) rfl)
  have s4 : Reach [slip, healthy] { pool := [0], fresh := 1, gs := [.released 0 [.use], .start healthy] } :=
    s3.step (.put (i := 0) rfl)
  have s5 : Reach [slip, healthy] { pool := [], fresh := 1, gs := [.released 0 [.use], .holding 0 healthy] } :=
    s4.step (.getPooled (i := 1) (o := 0) rfl (by decide))
  refine ⟨⟨_, s4, ?_, ?_⟩, ⟨_, s5, ?_⟩⟩
  · intro h; exact h 0 (.released 0 [.use]) 0 rfl (by decide) (by decide)
  · intro h; exact absurd (h 0 0 [.use] rfl) (by decide)
  · intro h
    exact h 0 1 (.released 0 [.use]) (.holding 0 healthy) 0 (by decide) rfl rfl (by decide) (by decide)

/-- the slipped order is exactly what `disc` rejects, for every fill -/
example : ∀ nApp, disc (genProg nApp .grow true) = false := growSlip_disc

end PqModel.Props.C15Grow
