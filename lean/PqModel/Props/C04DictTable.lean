import PqModel.DictTable
import PqModel.Props.C04DictReset
import PqModel.Props.C04HashProbe

/-! # C04 (part "dicttable", round 6) — the probe-table dictionaries over the REAL table mirror

`Props/C04DictReset.lean` proves the Insert/Reset sessions of the probe-table dictionary types
(int32/int64/float/double/uint32/uint64/be128) with the hashprobe table taken as a list oracle;
`Props/C04HashProbe.lean` proves that the real open-addressing tables answer that oracle. Here the two are
composed: `PqModel/DictTable.lean` states the Go dictionary code (`init`, the chunked `insert`, `Reset`) over
the table mirror of `PqModel/HashProbe.lean` (dictionary type → table → groups), for every group size, every
sizing function with `SizingOk`, every stream of hash seeds.

* `table_session_eq_oracle`: every session of `Insert` / `Reset` calls on the composed mirror returns, call by
  call, exactly what the list-oracle machine `DictReset.probeMachine` returns and holds the same page — from
  ANY page (duplicates included), any chunk cut, any seeds, across table growth; every call terminates.
  The only excluded session is the one that hangs in the real code (next item).
* VIOLATION of termination, `first_empty_insert_on_loaded_page_never_returns` /
  `init_loop_with_empty_batch_never_ends`: on a dictionary created over a NON-EMPTY page, a first `Insert` of an
  EMPTY batch never returns: `init` computes `n = min(len(values), len(indexes)) = 0` and loops
  `for i := 0; i < len(values); i += n` (dictionary_int32.go:46-51, same in int64/float/double/uint32/uint64/
  be128). This is the harness observation `dict-preloaded-empty-insert-hangs` (c04_plain.go; e.g.
  `Int32Type.NewDictionary(0, 3, {7,8,9}).Insert([]int32{}, []Value{})` spins forever), now located and proved
  on the mirror; the list-oracle mirror of `DictReset.lean` cannot see it (its `probeTable` is a closed form of
  `init`). `table_session_terminates_iff`: it is the ONLY non-terminating session. The harness compares the
  real outcome of that call with the mirror's (L2 `dict-preloaded-empty-insert-termination-model`).
* hence the theorems of `Props/C04DictReset.lean` hold of the composed mirror: `table_session_refines_spec`,
  `table_insert_after_reset`, `table_row_group_after_reset_roundtrip`; the real table always numbers exactly the
  page's positions (`table_numbers_the_page`, the invariant `ProbeInv` on the real table); what a session
  returns does not depend on group size, sizing, seeds (`table_session_independent_of_table_parameters`); a
  `Reset` that forgets `table.Reset()` is refuted on the composed mirror (`table_reset_keeping_table_is_wrong`). -/
namespace PqModel.Props.C04DictTable
open PqModel.Plain PqModel.DictReset PqModel.HashProbe PqModel.DictTable

section
variable {α : Type} [DecidableEq α]

/-- the composed mirror (dictionary state machine over the real table) equals the list-oracle machine of
    `DictReset.lean` on every session: same indexes call by call, same page, every call returns -/
theorem table_session_eq_oracle (c : Cfg α) (hsz : SizingOk c.G c.sz) (page : List α) (tick : Nat)
    (ops : List (Op α)) (hfirst : page = [] ∨ firstOk ops) :
    ∃ s', tableRun c (tableNew page tick) ops = some (s', (probeMachine.run (probeNew page) ops).2)
      ∧ s'.values = (probeMachine.run (probeNew page) ops).1.values
      ∧ Rep c s' (probeMachine.run (probeNew page) ops).1 := by
  obtain ⟨s', e, hr⟩ := tableRun_refines c hsz ops (tableNew page tick) (probeNew page) ⟨rfl, trivial⟩
    (fun _ hne => hfirst.resolve_left hne)
  exact ⟨s', e, hr.1, hr⟩

/-- FINDING (mirror side): the `init` loop entered with an empty batch (`n = 0`) over a non-empty page does not
    end within ANY number of rounds -/
theorem init_loop_with_empty_batch_never_ends (c : Cfg α) (fuel : Nat) (t : Table α) (k : Nat) (x : α)
    (xs : List α) : initLoop c 0 fuel t k (x :: xs) = none := initLoop_zero_hangs c fuel t k x xs

/-- FINDING: a first `Insert` of an empty batch on a dictionary created over a non-empty page never returns
    (no hypothesis on the table parameters) -/
theorem first_empty_insert_on_loaded_page_never_returns (c : Cfg α) (x : α) (xs : List α) (tick : Nat)
    (cs : List (List α)) (he : cs.flatten = []) (ops : List (Op α)) :
    tableRun c (tableNew (x :: xs) tick) (.insert cs :: ops) = none := by
  simp only [tableRun, tableStep, tableInsert_empty_hangs c x xs tick cs he]

/-- exactly that session hangs, no other -/
theorem table_session_terminates_iff (c : Cfg α) (hsz : SizingOk c.G c.sz) (page : List α) (tick : Nat)
    (ops : List (Op α)) :
    tableRun c (tableNew page tick) ops ≠ none ↔ (page = [] ∨ firstOk ops) := by
  constructor
  · intro h
    cases page with
    | nil => exact Or.inl rfl
    | cons x xs =>
      right
      cases ops with
      | nil => trivial
      | cons op ops =>
        cases op with
        | reset => trivial
        | insert cs =>
          intro he
          exact h (first_empty_insert_on_loaded_page_never_returns c x xs tick cs he ops)
  · intro h
    obtain ⟨s', e, _⟩ := table_session_eq_oracle c hsz page tick ops h
    simp [e]

/-- the SPEC session (first-occurrence insert, Reset = empty dictionary) is what the composed mirror computes,
    from any duplicate-free page -/
theorem table_session_refines_spec (c : Cfg α) (hsz : SizingOk c.G c.sz) (page : List α) (hn : page.Nodup)
    (tick : Nat) (ops : List (Op α)) (hfirst : page = [] ∨ firstOk ops) :
    ∃ s', tableRun c (tableNew page tick) ops = some (s', (specRun id page ops).2)
      ∧ s'.values = (specRun id page ops).1 := by
  obtain ⟨s', e, hv, _⟩ := table_session_eq_oracle c hsz page tick ops hfirst
  obtain ⟨a1, a2⟩ := C04DictReset.probe_session_refines_spec page hn ops
  exact ⟨s', by rw [e, a2], by rw [hv, a1]⟩

/-- insert after Reset = insert into a fresh dictionary, on the composed mirror: whatever the earlier row
    groups held, however the table grew and whichever seeds were drawn (`tick'` arbitrary) -/
theorem table_insert_after_reset (c : Cfg α) (hsz : SizingOk c.G c.sz) (page : List α) (hn : page.Nodup)
    (tick tick' : Nat) (pre post : List (Op α)) (hfirst : page = [] ∨ firstOk pre) :
    ∃ s sp sf outPre outPost,
      tableRun c (tableNew page tick) pre = some (sp, outPre)
      ∧ tableRun c (tableNew [] tick') post = some (sf, outPost)
      ∧ tableRun c (tableNew page tick) (pre ++ .reset :: post) = some (s, outPre ++ [] :: outPost)
      ∧ s.values = sf.values := by
  obtain ⟨sp, e1, _⟩ := table_session_eq_oracle c hsz page tick pre hfirst
  obtain ⟨sf, e2, v2, _⟩ := table_session_eq_oracle c hsz [] tick' post (Or.inl rfl)
  obtain ⟨s, e3, v3, _⟩ := table_session_eq_oracle c hsz page tick (pre ++ .reset :: post)
    (hfirst.imp id (firstOk_append pre post))
  obtain ⟨a1, a2⟩ := C04DictReset.probe_insert_after_reset page hn pre post
  exact ⟨s, sp, sf, _, _, e1, e2, by rw [e3, a2], by rw [v3, v2, a1]⟩

/-- the row group written after any history of earlier row groups round-trips, on the composed mirror: its
    page is the first occurrences of its own values and the indexes handed out denote the values -/
theorem table_row_group_after_reset_roundtrip (c : Cfg α) (hsz : SizingOk c.G c.sz) (page : List α)
    (hn : page.Nodup) (tick : Nat) (pre gen : List (Op α)) (hfirst : page = [] ∨ firstOk pre)
    (hg : noReset gen = true) :
    ∃ s sp outPre outGen,
      tableRun c (tableNew page tick) pre = some (sp, outPre)
      ∧ tableRun c (tableNew page tick) (pre ++ .reset :: gen) = some (s, outPre ++ [] :: outGen)
      ∧ s.values = (batchesOf gen).eraseDups
      ∧ outGen.flatten.map (s.values[·]?) = (batchesOf gen).map some := by
  obtain ⟨sp, e1, _⟩ := table_session_eq_oracle c hsz page tick pre hfirst
  obtain ⟨s, e3, v3, _⟩ := table_session_eq_oracle c hsz page tick (pre ++ .reset :: gen)
    (hfirst.imp id (firstOk_append pre gen))
  obtain ⟨b1, b2, b3⟩ := C04DictReset.probe_row_group_after_reset_roundtrip page hn pre gen hg
  refine ⟨s, sp, _, _, e1, by rw [e3, b2], by rw [v3, b1], ?_⟩
  rw [v3, b1]; exact b3

/-- the invariant `ProbeInv` of the list-oracle machine, on the real table: after any session from a
    duplicate-free page the table (once created) represents exactly the numbering of the page's positions -/
theorem table_numbers_the_page (c : Cfg α) (hsz : SizingOk c.G c.sz) (page : List α) (hn : page.Nodup)
    (tick : Nat) (ops : List (Op α)) (hfirst : page = [] ∨ firstOk ops) :
    ∃ s' outs, tableRun c (tableNew page tick) ops = some (s', outs)
      ∧ s'.values.Nodup ∧ ∀ t, s'.table = some t → TInv c.G t (numbering s'.values) := by
  obtain ⟨s', e, hv, hr⟩ := table_session_eq_oracle c hsz page tick ops hfirst
  obtain ⟨hnd, htab⟩ := (run_refines probe_refines ops (probeNew page) (probeNew_inv page hn)).1
  refine ⟨s', _, e, by rw [hv]; exact hnd, ?_⟩
  intro t ht
  have h2 := hr.2
  rw [ht] at h2
  cases hg : (probeMachine.run (probeNew page) ops).1.table with
  | none => simp [hg] at h2
  | some d =>
    simp only [hg] at h2
    rcases htab with h | h
    · rw [hg] at h; cases h
    · rw [hg] at h; cases h; rw [hv]; exact h2

/-- what a session returns depends neither on the group size, nor on the sizing function, nor on the seeds
    (two dictionary objects of different types / different runs fed the same keys agree) -/
theorem table_session_independent_of_table_parameters (c c' : Cfg α) (hsz : SizingOk c.G c.sz)
    (hsz' : SizingOk c'.G c'.sz) (page : List α) (tick tick' : Nat) (ops : List (Op α))
    (hfirst : page = [] ∨ firstOk ops) :
    (tableRun c (tableNew page tick) ops).map (fun r => (r.1.values, r.2))
      = (tableRun c' (tableNew page tick') ops).map (fun r => (r.1.values, r.2)) := by
  obtain ⟨s, e, v, _⟩ := table_session_eq_oracle c hsz page tick ops hfirst
  obtain ⟨s', e', v', _⟩ := table_session_eq_oracle c' hsz' page tick' ops hfirst
  simp only [e, e', Option.map_some, v, v']

end

/-! ## the hypotheses are satisfiable; concrete runs -/

/-- the sizing hypothesis is satisfiable (`DictTable.cfg1`: groups of two entries, colliding hash functions that
    change with every seed) -/
example : SizingOk cfg1.G cfg1.sz := cfg1_ok

example : ([] : List Nat) = [] ∨ firstOk [Op.insert [[1, 2], [2]], Op.reset, Op.insert [[]]] := Or.inl rfl
example : ([7, 8] : List Nat) = [] ∨ firstOk [Op.insert [[8, 9]], Op.insert [[]]] :=
  Or.inr (by simp [firstOk])
example : ([7, 8] : List Nat) = [] ∨ firstOk [Op.reset, (Op.insert [[]] : Op Nat)] := Or.inr trivial

/-- a session run on the composed mirror (row group 1: 1,2,2,3; Reset; row group 2: 3,1,3), pre-loaded page -/
example : (tableRun cfg1 (tableNew [5, 1] 0) [.insert [[1, 2], [2, 3]], .reset, .insert [[3, 1], [3]]]).map
    (fun r => (r.1.values, r.2)) = some ([3, 1], [[1, 2, 2, 3], [], [0, 1, 0]]) := by decide

/-- `Reset` must call `d.table.Reset()`, on the composed mirror too: without it the real table still sends 1 to
    index 0 and numbers 3 as 2, which is never stored (cf. `C04DictReset.probe_reset_keeping_table_is_wrong`) -/
theorem table_reset_keeping_table_is_wrong :
    (tableRunKeepingTable cfg1 (tableNew [] 0) [.insert [[1, 2]], .reset, .insert [[3, 1]]]).map
      (fun r => (r.1.values, r.2)) = some ([1], [[0, 1], [], [2, 0]]) := by decide

/-- the hanging call on a concrete configuration (fuel-bounded mirror: `none`) -/
example : (tableRun cfg1 (tableNew [7, 8, 9] 0) [.insert []]).isNone = true := by decide

/-- the same empty `Insert` after a `Reset`, or on an empty page, returns -/
example : (tableRun cfg1 (tableNew [7, 8, 9] 0) [.reset, .insert []]).map (fun r => (r.1.values, r.2))
    = some ([], [[], []]) := by decide
example : (tableRun cfg1 (tableNew [] 0) [.insert []]).map (fun r => (r.1.values, r.2))
    = some ([], [[]]) := by decide

end PqModel.Props.C04DictTable
