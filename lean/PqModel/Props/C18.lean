import PqModel.Aad

/-! # C18 — Encrypted files round-trip, leak no plaintext and authenticate every module (PARTIAL)

What is proved here: (1) the AAD construction of `encrypt.go` is injective over the module inventory
of a file, inside the range of its 2-byte ordinals, and across files; (2) for every write history
(`Reset` and `BeginRowGroup`/`Commit` included) and every read/seek history, the reader opens each module with exactly the AAD the
writer sealed it with; (3) composed with an abstract AEAD satisfying the ideal hypotheses `Ideal`
(AES-GCM itself is ASSUMED, not modelled): round trip, transplant / tamper / wrong-key failure, and
"error or the original plaintext" against a storage adversary. `reset_breaks_ordinal_agreement_before_fix`
keeps the defect of the code before the repair of `writer.reset` as a regression fact on the as-it-was
mirror; `aad_collides_beyond_range` records what the code does beyond the ordinal range.

-- OPEN: "no plaintext byte of an encrypted column is written outside a sealed module" is not a
-- theorem here; it is a statement about which buffers reach `encryptModule` and is tied by the L1
-- leak scan and the byte-coverage check of the `aad` sub-check (every byte of the file is either
-- framing, a sealed envelope, or the plaintext/crypto footer). -/
namespace PqModel.Props.C18
open PqModel.Aad

/-! ## AAD injectivity -/

/-- For a fixed AAD prefix and file identifier, two modules of the inventory whose ordinals fit
    the 2-byte encoding and that have the same AAD are the same module: a sealed module can only
    be opened in the slot it was sealed for. -/
theorem aad_injective (pfx fu : Bytes) (m m' : Module) (hm : m.InRange) (hm' : m'.InRange)
    (h : m.aad pfx fu = m'.aad pfx fu) : m = m' :=
  Module.aad_inj hm hm' h

example : (Module.dataPage 3 1 200).InRange ∧ (Module.dictPage 3 1).InRange ∧
    (Module.dataPage 3 1 200).aad [7] [1, 2] ≠ (Module.dataPageHeader 3 1 200).aad [7] [1, 2] := by decide

/-- Beyond the bound the code does not fail, it wraps (`int16(c.numPages)`, `d.dataPageOrd++`,
    `int16(target)`, `int16(i)`): page 65536 of a column chunk is sealed with the AAD of page 0, so
    the two pages can be exchanged undetected. Row groups are capped at 32767 by `writeRowGroup`;
    the page ordinal is not capped anywhere. (The format stores ordinals as int16 and allows at
    most 32767 pages per chunk; the code neither refuses nor signals the overflow.) -/
theorem aad_collides_beyond_range (pfx fu : Bytes) (rg col : Nat) :
    (Module.dataPage rg col 65536).aad pfx fu = (Module.dataPage rg col 0).aad pfx fu ∧
    ¬ (Module.dataPage rg col 65536).InRange := by
  refine ⟨?_, by simp [Module.InRange, Module.ords]⟩
  simp [Module.aad, Module.used, Module.type, Used.aad, makeAAD, Module.ords, ordBytes]

/-- Files whose `(prefix, file identifier)` pairs differ (same lengths: the identifier is 8 bytes
    unless the caller supplies `FileIdentifier`, whose length the code does not check) share no
    AAD at all, whatever the modules. -/
theorem aad_injective_across_files (pfx fu pfx' fu' : Bytes) (m m' : Module)
    (hp : pfx.length = pfx'.length) (hf : fu.length = fu'.length) (hne : (pfx, fu) ≠ (pfx', fu')) :
    m.aad pfx fu ≠ m'.aad pfx' fu' := by
  intro h
  obtain ⟨rfl, rfl⟩ := makeAAD_file_inj hp hf h
  exact hne rfl

example : ([1] : Bytes).length = ([1] : Bytes).length ∧ ([2, 3] : Bytes).length = ([2, 4] : Bytes).length ∧
    (([1], [2, 3]) : Bytes × Bytes) ≠ ([1], [2, 4]) := by decide

/-- Without the length hypothesis the concatenation `prefix ‖ fileUnique ‖ type ‖ ordinals` is
    ambiguous: a column-metadata module of one file and the footer of a file with a longer prefix
    can have the same AAD (the format's construction has the same property; file identifiers
    are random, so this needs a 2^-40 coincidence or a caller-chosen `FileIdentifier`). -/
theorem aad_ambiguous_without_lengths :
    (Module.columnMeta 2 3).aad [] [10, 11, 12, 13, 14, 15, 16, 17] =
    Module.footer.aad [10, 11, 12, 13] [14, 15, 16, 17, 1, 2, 0, 3] := by decide

/-! ## The code's module numbering against the format document -/

/-- The module-type bytes of `encrypt.go` are not those of the format document for 8 of the 10
    module types, and dictionary modules carry an extra page ordinal: files are self-consistent
    but other implementations derive different AADs (outside the statement of C18; reported as an
    observation for C02). Spec side recalled offline, see `ModType.specCode`. -/
theorem mirror_deviates_from_spec :
    (Module.dataPageHeader 0 0 0).aad [] [] ≠ (Module.dataPageHeader 0 0 0).specAad [] [] ∧
    (Module.dictPage 0 0).aad [] [] ≠ (Module.dictPage 0 0).specAad [] [] ∧
    (Module.bloomHeader 0 0).aad [] [] ≠ (Module.bloomHeader 0 0).specAad [] [] ∧
    (Module.columnIndex 0 0).aad [] [] ≠ (Module.columnIndex 0 0).specAad [] [] ∧
    Module.footer.aad [] [] = Module.footer.specAad [] [] ∧
    (Module.dataPage 1 2 3).aad [] [] = (Module.dataPage 1 2 3).specAad [] [] := by decide

/-! ## Writer / reader ordinal agreement -/

/-- Every module a writer has put in the file, after ANY history of buffered writes, page flushes
    (from full buffers, `Flush`, `Close`), row-group flushes (empty ones included), rows and page
    flushes on row groups made by `BeginRowGroup`, their Commits interleaved with the writer's own
    row groups, their reuse after Commit, and `Reset`s, was sealed with the AAD arguments of the slot it
    occupies in the file. -/
theorem writer_ordinals_agree (cfg : WCfg) (ops : List WOp) :
    ∀ e ∈ wclose cfg (wrun cfg ops), e.used = e.slot.used :=
  fun e he => (wclose_good (winv_run ops) e he).1

/-- … and with the file identifier of the encryption state the writer holds when it closes the
    file — the one `writeFileFooter` stores as `AadFileUnique` (writer.go:1439), i.e. the one every
    reader of this file uses — whatever identifiers the column writers held in earlier files. -/
theorem writer_file_identifier_agrees (cfg : WCfg) (ops : List WOp) :
    ∀ e ∈ wclose cfg (wrun cfg ops), e.fu = some (wrun cfg ops).gen :=
  fun e he => (wclose_good (winv_run ops) e he).2

/-- the number of the encryption state is the number of `Reset`s: every file of a reused writer
    has an identifier of its own (a fresh random one unless `FileIdentifier` is configured) -/
theorem generation_counts_resets (cfg : WCfg) (ops : List WOp) :
    (wrun cfg ops).gen = (ops.filter (· == .reset)).length := by
  unfold wrun
  suffices ∀ s, (ops.foldl (wstep cfg) s).gen = s.gen + (ops.filter (· == .reset)).length by
    simpa [winit] using this winit
  induction ops with
  | nil => intro s; rfl
  | cons o ops ih =>
    intro s
    rw [List.foldl_cons, ih]
    cases o with
    | reset => simp [wstep, wstepG, wreset]; omega
    | flush l => simp [wstep, wstepG, wflush_gen]
    | commit id a b => simp [wstep, wstepG, wcommit_gen]
    | write => simp [wstep, wstepG]
    | page c => simp [wstep, wstepG]
    | cwrite i => simp [wstep, wstepG]
    | cpage i c => simp [wstep, wstepG]

/-- In bytes: the AAD of every sealed module of the closed file is the AAD of its slot under the
    identifier of the closing generation. -/
theorem writer_aad_is_slot_aad (cfg : WCfg) (ops : List WOp) (pfx : Bytes) (fuOf : Nat → Bytes) :
    ∀ e ∈ wclose cfg (wrun cfg ops), e.aad pfx fuOf = e.slot.aad pfx (fuOf (wrun cfg ops).gen) := by
  intro e he
  simp only [WEv.aad, writer_file_identifier_agrees cfg ops e he, writer_ordinals_agree cfg ops e he]
  rfl

/-- The pages the writer reads back from its own page buffers to build bloom filters
    (`flushFilterPages`) are opened with exactly the arguments — ordinals AND file identifier —
    they were sealed with, in every history: the writer never fails on its own pages. -/
theorem writer_rereads_own_pages (cfg : WCfg) (ops : List WOp) :
    ∀ ab ∈ (wflush cfg (wrun cfg ops) []).reopened, ab.1 = ab.2 :=
  (winv_flush (winv_run ops) []).re

/-- non-vacuity: a re-read happens, of both pages of the second file of a reused writer -/
example :
    let cfg : WCfg := { ncols := 1, dict := fun _ => false, bloom := fun _ => true, plainFooter := false, reread := fun _ => true }
    ((wflush cfg (wrun cfg [.page 0, .flush [], .reset, .page 0, .page 0]) []).reopened.map (·.2)) =
      [⟨.dataPageHeader 0 0 0, ⟨.dataPageHeader, [0, 0, 0]⟩, some 1⟩, ⟨.dataPage 0 0 0, ⟨.dataPage, [0, 0, 0]⟩, some 1⟩,
       ⟨.dataPageHeader 0 0 1, ⟨.dataPageHeader, [0, 0, 1]⟩, some 1⟩, ⟨.dataPage 0 0 1, ⟨.dataPage, [0, 0, 1]⟩, some 1⟩] := by decide

/-- non-vacuity: a history with Reset and a Commit really seals pages, in row group 0 of the new file -/
example :
    let cfg : WCfg := { ncols := 1, dict := fun _ => false, bloom := fun _ => false, plainFooter := false }
    (⟨.dataPage 0 0 0, ⟨.dataPage, [0, 0, 0]⟩, some 1⟩ : WEv) ∈ wclose cfg (wrun cfg [.page 0, .flush [], .reset, .page 0]) ∧
    (⟨.dataPage 1 0 1, ⟨.dataPage, [1, 0, 1]⟩, some 0⟩ : WEv) ∈ wclose cfg (wrun cfg [.page 0, .cwrite 7, .commit 7 [0] [0, 0]]) := by decide

/-- The writer model is not vacuous: this history really produces sealed pages in two row groups. -/
example :
    let cfg : WCfg := { ncols := 2, dict := fun c => c == 0, bloom := fun c => c == 1, plainFooter := true }
    (⟨.dataPage 1 0 0, ⟨.dataPage, [1, 0, 0]⟩, some 0⟩ : WEv) ∈ wclose cfg (wrun cfg [.page 0, .page 1, .flush [0], .flush [], .page 0, .page 1]) ∧
    (⟨.dataPage 0 0 1, ⟨.dataPage, [0, 0, 1]⟩, some 0⟩ : WEv) ∈ wclose cfg (wrun cfg [.page 0, .page 1, .flush [0], .flush [], .page 0, .page 1]) ∧
    (wclose cfg (wrun cfg [.page 0, .page 1, .flush [0], .flush [], .page 0, .page 1])).length = 31 := by decide

/-- non-vacuity of the interleaving: the writer's own rows, a row group of `BeginRowGroup` whose
    flushes before Commit are no-ops, its Commit, the SAME row group reused and committed again
    after another one, and rows of the writer itself after that: five row groups, every page
    sealed for the row group it lands in -/
example :
    let cfg : WCfg := { ncols := 1, dict := fun _ => false, bloom := fun _ => false, plainFooter := false }
    let ops : List WOp := [.write, .page 0, .cwrite 3, .cpage 3 0, .commit 3 [0] [0], .cwrite 4, .commit 4 [] [0],
                           .cwrite 3, .cpage 3 0, .page 0, .commit 3 [0] [0, 0], .page 0]
    ((wclose cfg (wrun cfg ops)).filter (fun e => e.slot.type == .dataPage)).map (·.slot) =
      [.dataPage 0 0 0, .dataPage 0 0 1, .dataPage 1 0 0, .dataPage 2 0 0, .dataPage 3 0 0, .dataPage 3 0 1,
       .dataPage 4 0 0, .dataPage 4 0 1, .dataPage 5 0 0] := by decide

/-- a row group made by `BeginRowGroup` BEFORE a `Reset` and committed after it lands in the new
    file with the new file's identifier (its column writers are handed ordinal and identifier by
    `writeRowGroup`, whatever they held) -/
example :
    let cfg : WCfg := { ncols := 1, dict := fun _ => true, bloom := fun _ => false, plainFooter := false }
    (wclose cfg (wrun cfg [.cwrite 5, .page 0, .flush [], .reset, .cwrite 5, .commit 5 [] [0]])).map (fun e => (e.slot, e.fu)) =
      [(.dictPageHeader 0 0, some 1), (.dictPage 0 0, some 1), (.dataPageHeader 0 0 0, some 1), (.dataPage 0 0 0, some 1),
       (.columnIndex 0 0, some 1), (.offsetIndex 0 0, some 1), (.footer, some 1)] := by decide

/-- REGRESSION FACT on the mirror of the code BEFORE the writer's own row group was given the next
    ordinal after a Commit: `w.Write`; `rg.WriteRows`; `rg.Commit()` (row groups 0 and 1); a page
    of the writer itself spilling before Close was sealed as row group 1 and stored in row group 2. -/
theorem commit_leaves_stale_main_ordinal_before_fix :
    let cfg : WCfg := { ncols := 1, dict := fun _ => false, bloom := fun _ => false, plainFooter := false }
    (⟨.dataPage 2 0 0, ⟨.dataPage, [1, 0, 0]⟩, some 0⟩ : WEv) ∈
      wclose cfg (wrunBeforeCommitFix cfg [.write, .cwrite 0, .commit 0 [0] [0], .page 0]) := by
  decide

/-- REGRESSION FACT on the mirror of the code BEFORE the repair of `writer.reset`: after
    `Writer.Reset` the column writers kept the row-group ordinal of the previous file. A page
    flushed before `writeRowGroup` corrects the ordinal (every page of `Writer.Close`, every page of
    a full buffer) was sealed as row group 1 and landed in row group 0 of the new file: the file
    could not be read back. (And the second file kept the identifier of the first: generation 0.) -/
theorem reset_breaks_ordinal_agreement_before_fix :
    let cfg : WCfg := { ncols := 1, dict := fun _ => false, bloom := fun _ => false, plainFooter := false }
    (⟨.dataPage 0 0 0, ⟨.dataPage, [1, 0, 0]⟩, some 0⟩ : WEv) ∈ wclose cfg (wrunBefore cfg [.page 0, .flush [], .reset, .page 0]) ∧
    (wrunBefore cfg [.page 0, .flush [], .reset, .page 0]).gen = 0 := by
  decide

/-- Why `reset` must hand the new identifier to the column writers although `writeRowGroup` assigns
    it too (writer.go:1235 vs 1559): on the variant WITHOUT that line (`wresetNoHandover`, not the
    code), a page sealed between `Reset` and the next `writeRowGroup` — every page `Writer.Close`
    flushes, every page of a full buffer — carries the identifier of the PREVIOUS file (generation
    0) while the footer announces generation 1: the second file cannot be read, and with a bloom
    filter that is built from the pages the writer fails on its own re-read. -/
theorem reset_must_hand_over_identifier :
    let cfg : WCfg := { ncols := 1, dict := fun _ => false, bloom := fun _ => true, plainFooter := false, reread := fun _ => true }
    let s := wrunNoHandover cfg [.page 0, .flush [], .reset, .page 0]
    (⟨.dataPage 0 0 0, ⟨.dataPage, [0, 0, 0]⟩, some 0⟩ : WEv) ∈ wclose cfg s ∧
    (⟨.footer, ⟨.footer, []⟩, some 1⟩ : WEv) ∈ wclose cfg s ∧
    ((⟨.dataPage 0 0 0, ⟨.dataPage, [0, 0, 0]⟩, some 0⟩, ⟨.dataPage 0 0 0, ⟨.dataPage, [0, 0, 0]⟩, some 1⟩) : WEv × WEv) ∈ (wflush cfg s []).reopened := by
  decide

/-- Whatever sequence of page reads, cached-page servings, lazy dictionary reads and seeks (with
    or without offset index, to any page) a `FilePages` goes through, every module it opens is
    opened with the AAD arguments of the module the stream is actually positioned on. -/
theorem reader_ordinals_agree (c : Chunk) (ops : List ROp) :
    ∀ e ∈ (rrun c ops).log, e.used = e.slot.used :=
  (rinv_run c ops).log

/-- non-vacuity: a seek into the middle, a cached-page shortcut and a lazy dictionary read -/
example :
    let c : Chunk := { rg := 2, col := 1, hasDict := true, npages := 5 }
    ((rrun c [.seekIndexed 3, .step, .seekIndexed 3, .serveLast, .seekIndexed 1, .step, .readDict, .seekNoIndex, .step]).log.map (·.slot)) =
      [.dataPageHeader 2 1 3, .dataPage 2 1 3, .dataPageHeader 2 1 1, .dataPage 2 1 1,
       .dictPageHeader 2 1, .dictPage 2 1, .dataPageHeader 2 1 0, .dataPage 2 1 0] := by decide

/-- `ordinals_agree`: for every write history and every read/seek history, the AAD
    the reader computes for the module it is about to open equals the AAD the writer sealed the
    module in that slot with. -/
theorem ordinals_agree (cfg : WCfg) (wops : List WOp)
    (c : Chunk) (rops : List ROp) (pfx fu : Bytes)
    (ew : WEv) (hw : ew ∈ wclose cfg (wrun cfg wops)) (er : Ev) (hr : er ∈ (rrun c rops).log)
    (hslot : ew.slot = er.slot) :
    er.used.aad pfx fu = ew.used.aad pfx fu := by
  rw [writer_ordinals_agree cfg wops ew hw, reader_ordinals_agree c rops er hr, hslot]

/-- The same in bytes, with the file identifier no longer a free parameter: `fuOf` gives the
    identifier bytes of every encryption state the reused writer went through; the file carries
    `fuOf (closing generation)` in its footer (writer.go:1439), the reader takes it from there
    (file.go:147-167, 1162) — and that is what every module was sealed with. -/
theorem aad_agree (cfg : WCfg) (wops : List WOp)
    (c : Chunk) (rops : List ROp) (pfx : Bytes) (fuOf : Nat → Bytes)
    (ew : WEv) (hw : ew ∈ wclose cfg (wrun cfg wops)) (er : Ev) (hr : er ∈ (rrun c rops).log)
    (hslot : ew.slot = er.slot) :
    er.used.aad pfx (fuOf (wrun cfg wops).gen) = ew.aad pfx fuOf := by
  rw [writer_aad_is_slot_aad cfg wops pfx fuOf ew hw, reader_ordinals_agree c rops er hr, hslot]
  rfl

/-- non-vacuity of `aad_agree` / `roundtrip_reused_writer`: the second file of a reused writer has a
    page in row group 0 that a reader of that chunk opens after a seek, and the identifier
    generations really differ between the two files -/
example :
    let cfg : WCfg := { ncols := 1, dict := fun _ => false, bloom := fun _ => false, plainFooter := false }
    let wops : List WOp := [.page 0, .flush [], .reset, .page 0, .page 0]
    let c : Chunk := { rg := 0, col := 0, hasDict := false, npages := 2 }
    (∃ ew ∈ wclose cfg (wrun cfg wops), ∃ er ∈ (rrun c [.seekIndexed 1, .step]).log, ew.slot = er.slot ∧ ew.fu = some 1) ∧
    (wrun cfg wops).gen = 1 ∧ (wrun cfg [.page 0, .flush []]).gen = 0 := by decide

/-- The modules read outside `FilePages` (footer, column metadata, column/offset index, bloom
    filter) are opened with `(rowGroup.Ordinal, column index)` taken from the footer — that is
    `Module.aad` itself (call sites listed at `Module.ords`); the writer side agrees. -/
theorem static_ordinals_agree (cfg : WCfg) (wops : List WOp)
    (pfx fu : Bytes) (ew : WEv) (hw : ew ∈ wclose cfg (wrun cfg wops)) :
    ew.slot.aad pfx fu = ew.used.aad pfx fu := by
  rw [writer_ordinals_agree cfg wops ew hw]; rfl

/-- The bloom-filter and page-index modules in particular: whatever the history, each of them is
    sealed with the row-group and column ordinals of the chunk it belongs to — the ordinals the
    reader derives from the footer (`readBloomFilter`, `readColumnIndexFrom`, `readOffsetIndex`,
    `ReadPageIndex`: file.go:460, 501, 967, 1005, 1042, 1051). -/
theorem bloom_and_index_ordinals_agree (cfg : WCfg) (wops : List WOp) (pfx fu : Bytes) (rg col : Nat)
    (ew : WEv) (hw : ew ∈ wclose cfg (wrun cfg wops))
    (hk : ew.slot = .bloomHeader rg col ∨ ew.slot = .bloomBits rg col ∨ ew.slot = .columnIndex rg col ∨ ew.slot = .offsetIndex rg col) :
    ew.used.ords = [rg, col] ∧ ew.used.aad pfx fu = ew.slot.aad pfx fu := by
  have h := writer_ordinals_agree cfg wops ew hw
  refine ⟨?_, by rw [h]; rfl⟩
  rcases hk with hk | hk | hk | hk <;> rw [h, hk] <;> rfl

/-- … and the page-index modules exist for every chunk of every committed row group: a column
    index and an offset index sealed for `(i, j)` for all `i < number of row groups`, `j < ncols`. -/
theorem page_index_modules_present (cfg : WCfg) (wops : List WOp) (i j : Nat)
    (hi : i < (wflush cfg (wrun cfg wops) []).nrg) (hj : j < cfg.ncols) :
    (⟨.columnIndex i j, ⟨.columnIndex, [i, j]⟩, some (wrun cfg wops).gen⟩ : WEv) ∈ wclose cfg (wrun cfg wops) ∧
    (⟨.offsetIndex i j, ⟨.offsetIndex, [i, j]⟩, some (wrun cfg wops).gen⟩ : WEv) ∈ wclose cfg (wrun cfg wops) := by
  simp only [wclose, wflush_gen, List.mem_append, List.mem_flatMap, List.mem_map, List.mem_range, List.mem_singleton]
  exact ⟨Or.inl (Or.inl (Or.inr ⟨i, hi, j, hj, rfl⟩)), Or.inl (Or.inr ⟨i, hi, j, hj, rfl⟩)⟩

/-- non-vacuity: a bloom filter of row group 1 (after a Reset and an empty flush) -/
example :
    let cfg : WCfg := { ncols := 2, dict := fun _ => false, bloom := fun c => c == 1, plainFooter := false }
    (⟨.bloomBits 1 1, ⟨.bloomBits, [1, 1]⟩, some 1⟩ : WEv) ∈ wclose cfg (wrun cfg [.page 0, .flush [], .reset, .page 0, .flush [1], .flush [], .page 1]) := by decide

/-! ## With the ideal-AEAD hypothesis -/

section aead
variable {K N C : Type} (A : AEAD K N C)

/-- A module sealed by the writer in some slot is opened by a reader positioned on that slot,
    with the same key, and yields the plaintext (every write history, every
    read/seek history). -/
theorem roundtrip (hI : Ideal A) (cfg : WCfg) (wops : List WOp)
    (c : Chunk) (rops : List ROp) (pfx fu : Bytes)
    (ew : WEv) (hw : ew ∈ wclose cfg (wrun cfg wops)) (er : Ev) (hr : er ∈ (rrun c rops).log)
    (hslot : ew.slot = er.slot) (k : K) (n : N) (p : Bytes) :
    openModule A k (er.used.aad pfx fu) (sealModule A k n (ew.used.aad pfx fu) p) = some p := by
  rw [ordinals_agree cfg wops c rops pfx fu ew hw er hr hslot]
  exact hI.open_seal k n _ p

/-- … with the identifiers of a reused writer made explicit: the module as the writer really sealed
    it (`ew.aad`: with whatever identifier its column writer held at that moment) opens for a
    reader that takes the identifier from the footer of the file. -/
theorem roundtrip_reused_writer (hI : Ideal A) (cfg : WCfg) (wops : List WOp)
    (c : Chunk) (rops : List ROp) (pfx : Bytes) (fuOf : Nat → Bytes)
    (ew : WEv) (hw : ew ∈ wclose cfg (wrun cfg wops)) (er : Ev) (hr : er ∈ (rrun c rops).log)
    (hslot : ew.slot = er.slot) (k : K) (n : N) (p : Bytes) :
    openModule A k (er.used.aad pfx (fuOf (wrun cfg wops).gen)) (sealModule A k n (ew.aad pfx fuOf) p) = some p := by
  rw [aad_agree cfg wops c rops pfx fuOf ew hw er hr hslot]
  exact hI.open_seal k n _ p

/-- the same for the modules opened from footer metadata -/
theorem roundtrip_static (hI : Ideal A) (cfg : WCfg) (wops : List WOp)
    (pfx fu : Bytes) (ew : WEv) (hw : ew ∈ wclose cfg (wrun cfg wops)) (k : K) (n : N) (p : Bytes) :
    openModule A k (ew.slot.aad pfx fu) (sealModule A k n (ew.used.aad pfx fu) p) = some p := by
  rw [static_ordinals_agree cfg wops pfx fu ew hw]
  exact hI.open_seal k n _ p

/-- A module sealed for slot `m'` and placed in a different slot `m` of the same file (another
    page, column, row group, or another module type) does not open, whatever the keys. -/
theorem transplant_fails (hI : Ideal A) (pfx fu : Bytes) (m m' : Module) (hm : m.InRange) (hm' : m'.InRange)
    (hne : m ≠ m') (k k' : K) (n : N) (p : Bytes) :
    openModule A k (m.aad pfx fu) (sealModule A k' n (m'.aad pfx fu) p) = none := by
  cases h : openModule A k (m.aad pfx fu) (sealModule A k' n (m'.aad pfx fu) p) with
  | none => rfl
  | some q =>
    have := hI.open_only _ _ _ _ _ h
    obtain ⟨_, _, ha, _⟩ := hI.seal_inj _ _ _ _ _ _ _ _ this
    exact absurd (aad_injective pfx fu m m' hm hm' ha.symm) hne

/-- A module taken from another file (different prefix or file identifier of the same lengths)
    does not open in any slot. -/
theorem transplant_across_files_fails (hI : Ideal A) (pfx fu pfx' fu' : Bytes) (m m' : Module)
    (hp : pfx.length = pfx'.length) (hf : fu.length = fu'.length) (hne : (pfx, fu) ≠ (pfx', fu'))
    (k k' : K) (n : N) (p : Bytes) :
    openModule A k (m.aad pfx fu) (sealModule A k' n (m'.aad pfx' fu') p) = none := by
  cases h : openModule A k (m.aad pfx fu) (sealModule A k' n (m'.aad pfx' fu') p) with
  | none => rfl
  | some q =>
    have := hI.open_only _ _ _ _ _ h
    obtain ⟨_, _, ha, _⟩ := hI.seal_inj _ _ _ _ _ _ _ _ this
    exact absurd ha.symm (aad_injective_across_files pfx fu pfx' fu' m m' hp hf hne)

/-- Any envelope that is not a sealing, under this module's key and AAD, of some plaintext (a
    flipped byte anywhere in nonce, ciphertext or tag; a truncation; random bytes) does not open. -/
theorem tamper_fails (hI : Ideal A) (k : K) (aad : Bytes) (e : Env N C)
    (hforged : ∀ n p, e ≠ sealModule A k n aad p) : openModule A k aad e = none := by
  cases h : openModule A k aad e with
  | none => rfl
  | some q =>
    have := hI.open_only _ _ _ _ _ h
    exact absurd (show e = sealModule A k e.nonce aad q by cases e; simp_all [sealModule]) (hforged _ _)

/-- Opening with a key other than the one the module was sealed with fails. -/
theorem wrong_key_fails (hI : Ideal A) (k k' : K) (hk : k ≠ k') (n : N) (aad aad' p : Bytes) :
    openModule A k' aad' (sealModule A k n aad p) = none := by
  cases h : openModule A k' aad' (sealModule A k n aad p) with
  | none => rfl
  | some q =>
    have := hI.open_only _ _ _ _ _ h
    obtain ⟨hk', _⟩ := hI.seal_inj _ _ _ _ _ _ _ _ this
    exact absurd hk' hk

/-- "An error or the original data": `W` is everything honest writers ever sealed (all modules of
    all files under all keys); `s ∈ W` is the sealing the writer made for the module being read; no
    other honest sealing has the same key and AAD (one file: `aad_injective`; several files:
    `aad_injective_across_files`). Whatever envelope a storage adversary (`Adv`: honest envelopes
    or non-ciphertexts) puts in the slot, the reader's open either fails or returns exactly the
    plaintext the writer sealed there. -/
theorem no_altered_data (hI : Ideal A) (W : List (Sealing K N)) (s : Sealing K N)
    (huniq : ∀ s' ∈ W, s'.key = s.key → s'.aad = s.aad → s'.plain = s.plain)
    (e : Env N C) (hadv : Adv A W e) (q : Bytes) (h : openModule A s.key s.aad e = some q) : q = s.plain := by
  have h1 := hI.open_only _ _ _ _ _ h
  have he : e = sealModule A s.key e.nonce s.aad q := by cases e; simp_all [sealModule]
  rcases hadv with ⟨s', hs', hes'⟩ | hnot
  · rw [hes'] at he
    simp only [Sealing.env, sealModule, Env.mk.injEq] at he
    obtain ⟨hk, _, ha, hp⟩ := hI.seal_inj _ _ _ _ _ _ _ _ he.2
    rw [← hp]
    exact huniq s' hs' hk ha
  · exact absurd he (hnot _ _ _ _)

/-- the world of one written file: one sealing per module of a duplicate-free list of in-range
    modules satisfies the uniqueness hypothesis of `no_altered_data` -/
theorem file_world_unique (pfx fu : Bytes) (key : Module → K) (nonce : Module → N) (plain : Module → Bytes)
    (ms : List Module) (hr : ∀ m ∈ ms, m.InRange) (m : Module) (hm : m ∈ ms) :
    let W := ms.map (fun m => (⟨key m, nonce m, m.aad pfx fu, plain m⟩ : Sealing K N))
    ∀ s' ∈ W, s'.key = key m → s'.aad = m.aad pfx fu → s'.plain = plain m := by
  intro W s' hs' _ ha
  obtain ⟨m', hm', rfl⟩ := List.mem_map.1 hs'
  have := aad_injective pfx fu m' m (hr m' hm') (hr m hm) ha
  subst this; rfl

end aead

/-! ## Non-vacuity of the AEAD hypotheses -/

/-- the ideal hypotheses are satisfiable (symbolic AEAD), and with it the theorems compute -/
example : Ideal symAEAD := symAEAD_ideal

example : openModule symAEAD 5 ((Module.dataPage 0 1 2).aad [9] [1])
    (sealModule symAEAD 5 77 ((Module.dataPage 0 1 2).aad [9] [1]) [1, 2, 3]) = some [1, 2, 3] := by decide

example : openModule symAEAD 5 ((Module.dataPage 0 1 2).aad [9] [1])
    (sealModule symAEAD 5 77 ((Module.dataPage 0 1 3).aad [9] [1]) [1, 2, 3]) = none := by decide

/-- the adversary predicate is inhabited both ways for the symbolic AEAD -/
example : Adv symAEAD [⟨5, 77, [1], [2]⟩] (Sealing.env symAEAD ⟨5, 77, [1], [2]⟩) := Or.inl ⟨_, List.mem_cons_self .., rfl⟩

end PqModel.Props.C18
