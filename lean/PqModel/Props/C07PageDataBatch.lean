import PqModel.Props.C07PageData

/-! # C07, part 6: the batch path `booleanColumnBuffer.writeValues` packs the values (every history)

Closes the OPEN item of `Props/C07PageData.lean`: `boolean_buffer_is_packBits` without `NoBatch`. -/
namespace PqModel.Props.C07PageData
open PqModel.XxHash PqModel.Bloom PqModel.PageDataBuf

/-! ## byte facts (finite, checked by evaluation) -/

/-- the tail loop on one byte -/
def foldSet (w : UInt8) (y : Nat) : List Bool → UInt8
  | [] => w
  | b :: rest => foldSet (setBit w y b) (y + 1) rest

def maskOf (e : Nat) : UInt8 := ((1 : UInt8) <<< UInt8.ofNat e) - 1

def bools8 (a0 a1 a2 a3 a4 a5 a6 a7 : Bool) : List Bool := [a0, a1, a2, a3, a4, a5, a6, a7]

/-- `sparse.GatherBits` on 8 rows = the LSB-first byte -/
theorem packLow8 : ∀ (a0 a1 a2 a3 a4 a5 a6 a7 : Bool),
    packLow [a0, a1, a2, a3, a4, a5, a6, a7] = UInt8.ofNat (bitsByte [a0, a1, a2, a3, a4, a5, a6, a7]) := by
  decide +kernel

/-- the merge of phase 1: `y` old bits kept, `8 - y` new bits above them -/
theorem merge_byte : ∀ (a0 a1 a2 a3 a4 a5 a6 a7 : Bool) (y : Fin 8), 1 ≤ y.val →
    (packLow ((bools8 a0 a1 a2 a3 a4 a5 a6 a7).drop y.val) <<< UInt8.ofNat y.val) |||
        (UInt8.ofNat (bitsByte ((bools8 a0 a1 a2 a3 a4 a5 a6 a7).take y.val)) &&& ~~~((0xFF : UInt8) <<< UInt8.ofNat y.val))
      = UInt8.ofNat (bitsByte (bools8 a0 a1 a2 a3 a4 a5 a6 a7)) := by
  decide +kernel

/-- one iteration of the tail loop, seen below bit `y + 1` -/
theorem setBit_masked : ∀ (k : Fin 256) (y : Fin 7) (b : Bool),
    setBit (UInt8.ofNat k.val) y.val b &&& maskOf (y.val + 1)
      = (UInt8.ofNat k.val &&& maskOf y.val) ||| (bit b <<< UInt8.ofNat y.val) := by
  decide +kernel

theorem or_bit : ∀ (a0 a1 a2 a3 a4 a5 a6 : Bool) (y : Fin 7) (b : Bool),
    UInt8.ofNat (bitsByte ([a0, a1, a2, a3, a4, a5, a6].take y.val)) ||| (bit b <<< UInt8.ofNat y.val)
      = UInt8.ofNat (bitsByte ([a0, a1, a2, a3, a4, a5, a6].take y.val ++ [b])) := by
  decide +kernel

theorem or_bit_list : ∀ (tail : List Bool) (b : Bool), tail.length ≤ 6 →
    UInt8.ofNat (bitsByte tail) ||| (bit b <<< UInt8.ofNat tail.length) = UInt8.ofNat (bitsByte (tail ++ [b]))
  | [], b, _ => or_bit false false false false false false false ⟨0, by decide⟩ b
  | [a0], b, _ => or_bit a0 false false false false false false ⟨1, by decide⟩ b
  | [a0, a1], b, _ => or_bit a0 a1 false false false false false ⟨2, by decide⟩ b
  | [a0, a1, a2], b, _ => or_bit a0 a1 a2 false false false false ⟨3, by decide⟩ b
  | [a0, a1, a2, a3], b, _ => or_bit a0 a1 a2 a3 false false false ⟨4, by decide⟩ b
  | [a0, a1, a2, a3, a4], b, _ => or_bit a0 a1 a2 a3 a4 false false ⟨5, by decide⟩ b
  | [a0, a1, a2, a3, a4, a5], b, _ => or_bit a0 a1 a2 a3 a4 a5 false ⟨6, by decide⟩ b
  | _ :: _ :: _ :: _ :: _ :: _ :: _ :: _, _, h => by simp only [List.length_cons] at h; omega

/-- a packed incomplete byte has no bit above its values -/
theorem packed_masked : ∀ (tail : List Bool), tail.length ≤ 7 →
    UInt8.ofNat (bitsByte tail) &&& maskOf tail.length = UInt8.ofNat (bitsByte tail)
  | [], _ => by decide
  | [a0], _ => by revert a0; decide
  | [a0, a1], _ => by revert a0 a1; decide
  | [a0, a1, a2], _ => by revert a0 a1 a2; decide
  | [a0, a1, a2, a3], _ => by revert a0 a1 a2 a3; decide
  | [a0, a1, a2, a3, a4], _ => by revert a0 a1 a2 a3 a4; decide
  | [a0, a1, a2, a3, a4, a5], _ => by revert a0 a1 a2 a3 a4 a5; decide
  | [a0, a1, a2, a3, a4, a5, a6], _ => by revert a0 a1 a2 a3 a4 a5 a6; decide
  | _ :: _ :: _ :: _ :: _ :: _ :: _ :: _ :: _, h => by simp only [List.length_cons] at h; omega

/-- the tail loop keeps "the bits below the cursor are the packed values" -/
theorem foldSet_inv : ∀ (rem : List Bool) (w : UInt8) (tail : List Bool), tail.length + rem.length ≤ 7 →
    w &&& maskOf tail.length = UInt8.ofNat (bitsByte tail) →
    foldSet w tail.length rem &&& maskOf (tail.length + rem.length) = UInt8.ofNat (bitsByte (tail ++ rem))
  | [], w, tail, _, h => by simpa [foldSet] using h
  | b :: rest, w, tail, hl, h => by
    simp only [List.length_cons] at hl
    have hy : tail.length ≤ 6 := by omega
    have hstep : setBit w tail.length b &&& maskOf (tail.length + 1) = UInt8.ofNat (bitsByte (tail ++ [b])) := by
      have e : UInt8.ofNat w.toNat = w := by simp
      have := setBit_masked ⟨w.toNat, UInt8.toNat_lt w⟩ ⟨tail.length, by omega⟩ b
      dsimp only at this
      rw [e] at this
      rw [this, h, or_bit_list tail b hy]
    have ih := foldSet_inv rest (setBit w tail.length b) (tail ++ [b])
      (by simp only [List.length_append, List.length_cons, List.length_nil]; omega)
      (by simpa only [List.length_append, List.length_cons, List.length_nil] using hstep)
    simp only [List.length_append, List.length_cons, List.length_nil, List.append_assoc, List.cons_append,
      List.nil_append] at ih
    simp only [foldSet, List.length_cons]
    rw [show tail.length + (rest.length + 1) = tail.length + 1 + rest.length by omega]
    exact ih

/-! ## list plumbing -/

theorem setAt_mid {α} (P : List α) (w : α) (R : List α) (f : α → α) :
    setAt (P ++ w :: R) P.length f = P ++ f w :: R := by
  induction P with
  | nil => rfl
  | cons a P ih => simp only [List.cons_append, List.length_cons, setAt, ih]

theorem resize_ge (A : List UInt8) (L : Nat) (junk : UInt8) (h : A.length ≤ L) :
    resize A L junk = A ++ List.replicate (L - A.length) junk := by
  unfold resize; rw [List.take_of_length_le h]

theorem overwrite_junk (Q new : List UInt8) (c : Nat) (junk : UInt8) (h : new.length ≤ c) :
    overwrite (Q ++ List.replicate c junk) Q.length new = Q ++ new ++ List.replicate (c - new.length) junk := by
  unfold overwrite
  rw [List.take_left' rfl, List.drop_append, List.drop_of_length_le (by omega)]
  simp only [List.nil_append, List.drop_replicate]
  congr 2; omega

theorem tailLoop_byte (Q R : List UInt8) : ∀ (rem : List Bool) (w : UInt8) (y : Nat), y + rem.length ≤ 8 →
    tailLoop (Q ++ w :: R) (8 * Q.length + y) rem = (Q ++ foldSet w y rem :: R, 8 * Q.length + y + rem.length)
  | [], w, y, _ => by simp [tailLoop, foldSet]
  | b :: rest, w, y, h => by
    simp only [List.length_cons] at h
    have h1 : (8 * Q.length + y) / 8 = Q.length := by omega
    have h2 : (8 * Q.length + y) % 8 = y := by omega
    simp only [tailLoop, h1, h2, setAt_mid, foldSet, List.length_cons]
    rw [show 8 * Q.length + y + 1 = 8 * Q.length + (y + 1) by omega, tailLoop_byte Q R rest _ (y + 1) (by omega)]
    congr 1; omega

theorem clearTrailing_last (Q : List UInt8) (w : UInt8) (nv : Nat) :
    clearTrailing (Q ++ [w]) nv = Q ++ [if nv % 8 = 0 then w else w &&& maskOf (nv % 8)] := by
  unfold clearTrailing
  split
  · rfl
  · have : (Q ++ [w]).length - 1 = Q.length := by simp
    rw [this, setAt_mid]; rfl

theorem gatherBits_eq_packBits : ∀ (mid : List Bool), mid.length % 8 = 0 → gatherBits mid = packBits mid
  | [], _ => rfl
  | a0 :: a1 :: a2 :: a3 :: a4 :: a5 :: a6 :: a7 :: rest, h => by
    have ih := gatherBits_eq_packBits rest (by simp only [List.length_cons] at h; omega)
    simp only [gatherBits, packBits, ih, packLow8]
  | [_], h => by simp at h
  | [_, _], h => by simp at h
  | [_, _, _], h => by simp at h
  | [_, _, _, _], h => by simp at h
  | [_, _, _, _, _], h => by simp at h
  | [_, _, _, _, _, _], h => by simp at h
  | [_, _, _, _, _, _, _], h => by simp at h

/-! ## the phases -/

theorem finish_aligned (Q : List UInt8) (rows : List Bool) (i : Nat) (junk : UInt8) (h : rows.drop i = []) :
    finishPhase (Q, 8 * Q.length, i) rows junk = { bits := Q, numValues := 8 * Q.length } := by
  have hb : byteCount (8 * Q.length) = Q.length := by unfold byteCount; omega
  simp only [finishPhase, h, tailLoop, hb]
  rw [resize_ge _ _ _ (Nat.le_refl _)]
  simp [clearTrailing]

theorem finish_lastbyte (Q : List UInt8) (w0 : UInt8) (y : Nat) (rows : List Bool) (i : Nat) (junk : UInt8)
    (rem : List Bool) (h : rows.drop i = rem) (hy : y + rem.length ≤ 8) (hpos : 1 ≤ y + rem.length) :
    finishPhase (Q ++ [w0], 8 * Q.length + y, i) rows junk =
      { bits := Q ++ [if (y + rem.length) % 8 = 0 then foldSet w0 y rem
                      else foldSet w0 y rem &&& maskOf ((y + rem.length) % 8)],
        numValues := 8 * Q.length + y + rem.length } := by
  have hb : byteCount (8 * Q.length + y + rem.length) = (Q ++ [foldSet w0 y rem]).length := by
    unfold byteCount; simp only [List.length_append, List.length_cons, List.length_nil]; omega
  simp only [finishPhase, h, tailLoop_byte Q [] rem w0 y hy, hb]
  rw [resize_ge _ _ _ (Nat.le_refl _)]
  simp only [Nat.sub_self, List.replicate_zero, List.append_nil, clearTrailing_last]
  have : (8 * Q.length + y + rem.length) % 8 = (y + rem.length) % 8 := by omega
  rw [this]

/-- from a byte boundary on: `GatherBits` for the whole bytes, the tail loop for the rest -/
theorem aligned_cont (Q : List UInt8) (rows : List Bool) (i0 : Nat) (junk : UInt8) (hi : i0 ≤ rows.length) :
    finishPhase (gatherPhase (Q ++ List.replicate (byteCount (rows.length - i0)) junk, 8 * Q.length, i0) rows) rows junk
      = { bits := Q ++ packBits (rows.drop i0), numValues := 8 * Q.length + (rows.length - i0) } := by
  generalize hm2 : rows.length - i0 = m2
  have hmidlen : ((rows.drop i0).take (m2 / 8 * 8)).length = 8 * (m2 / 8) := by
    rw [List.length_take, List.length_drop]; omega
  have hG : gatherBits ((rows.drop i0).take (m2 / 8 * 8)) = packBits ((rows.drop i0).take (m2 / 8 * 8)) :=
    gatherBits_eq_packBits _ (by omega)
  have hGlen : (packBits ((rows.drop i0).take (m2 / 8 * 8))).length = m2 / 8 := packBits_length_full _ _ hmidlen
  have hsplit : rows.drop i0 = (rows.drop i0).take (m2 / 8 * 8) ++ rows.drop (i0 + m2 / 8 * 8) := by
    rw [← List.drop_drop, List.take_append_drop]
  have hremlen : (rows.drop (i0 + m2 / 8 * 8)).length = m2 % 8 := by rw [List.length_drop]; omega
  -- the state after the gather phase, whichever branch was taken
  have hp1 : gatherPhase (Q ++ List.replicate (byteCount m2) junk, 8 * Q.length, i0) rows
      = (Q ++ packBits ((rows.drop i0).take (m2 / 8 * 8)) ++ List.replicate (byteCount m2 - m2 / 8) junk,
          8 * Q.length + m2 / 8 * 8, i0 + m2 / 8 * 8) := by
    unfold gatherPhase
    simp only [hm2]
    split
    · have hq : 8 * Q.length / 8 = Q.length := by omega
      rw [hq, hG, overwrite_junk _ _ _ _ (by rw [hGlen]; unfold byteCount; omega), hGlen]
    · rename_i hn
      have h0 : m2 / 8 * 8 = 0 := by omega
      have h1 : m2 / 8 = 0 := by omega
      simp [h1, packBits]
  rw [hp1]
  have hQ' : 8 * (Q ++ packBits ((rows.drop i0).take (m2 / 8 * 8))).length = 8 * Q.length + m2 / 8 * 8 := by
    rw [List.length_append, hGlen]; omega
  have hR : packBits (rows.drop i0) = packBits ((rows.drop i0).take (m2 / 8 * 8)) ++ packBits (rows.drop (i0 + m2 / 8 * 8)) := by
    rw [← packBits_append_full _ _ (by omega), ← hsplit]
  rw [hR, ← hQ', ← List.append_assoc]
  by_cases hr : m2 % 8 = 0
  · have hrem : rows.drop (i0 + m2 / 8 * 8) = [] := List.eq_nil_of_length_eq_zero (by omega)
    have hc : byteCount m2 - m2 / 8 = 0 := by unfold byteCount; omega
    rw [hc, List.replicate_zero, List.append_nil, finish_aligned _ _ _ _ hrem, hrem]
    simp only [packBits, List.append_nil, BoolBuf.mk.injEq, true_and]
    omega
  · have hc : byteCount m2 - m2 / 8 = 1 := by unfold byteCount; omega
    rw [hc]
    have hone : List.replicate 1 junk = [junk] := rfl
    have hfl := finish_lastbyte (Q ++ packBits ((rows.drop i0).take (m2 / 8 * 8))) junk 0 rows (i0 + m2 / 8 * 8) junk
      (rows.drop (i0 + m2 / 8 * 8)) rfl (by rw [hremlen]; omega) (by rw [hremlen]; omega)
    simp only [Nat.add_zero] at hfl
    rw [hone, hfl]
    have hmod : (0 + (rows.drop (i0 + m2 / 8 * 8)).length) % 8 = m2 % 8 := by omega
    have hinv := foldSet_inv (rows.drop (i0 + m2 / 8 * 8)) junk [] (by simp only [List.length_nil]; omega)
      (by have h0 : maskOf ([] : List Bool).length = 0 := by decide
          rw [h0]; simp [bitsByte])
    simp only [List.length_nil, List.nil_append, Nat.zero_add] at hinv
    rw [packBits_short (rows.drop (i0 + m2 / 8 * 8)) (by rw [hremlen]; omega) (by rw [hremlen]; omega)]
    simp only [Nat.zero_add, hremlen, BoolBuf.mk.injEq]
    rw [hremlen] at hinv
    have hm8 : m2 % 8 % 8 = m2 % 8 := by omega
    rw [hm8, hinv]
    refine ⟨by rw [if_neg hr], ?_⟩
    omega

theorem gatherPhase_small (bits : List UInt8) (nv i : Nat) (rows : List Bool) (h : (rows.length - i) / 8 = 0) :
    gatherPhase (bits, nv, i) rows = (bits, nv, i) := by
  unfold gatherPhase
  simp only [h, Nat.zero_mul, Nat.lt_irrefl, if_false]

theorem list8 : ∀ (l : List Bool), l.length = 8 → ∃ a0 a1 a2 a3 a4 a5 a6 a7, l = [a0, a1, a2, a3, a4, a5, a6, a7]
  | [a0, a1, a2, a3, a4, a5, a6, a7], _ => ⟨a0, a1, a2, a3, a4, a5, a6, a7, rfl⟩
  | [], h => by simp at h
  | [_], h => by simp at h
  | [_, _], h => by simp at h
  | [_, _, _], h => by simp at h
  | [_, _, _, _], h => by simp at h
  | [_, _, _, _, _], h => by simp at h
  | [_, _, _, _, _, _], h => by simp at h
  | [_, _, _, _, _, _, _], h => by simp at h
  | _ :: _ :: _ :: _ :: _ :: _ :: _ :: _ :: _ :: _, h => by simp only [List.length_cons] at h; omega

/-- one batch on a packed buffer (`full`: the whole bytes, `tail`: the 0..7 values of the incomplete byte) -/
theorem writeValues_packed (full tail rows : List Bool) (junk : UInt8) (hfm : full.length % 8 = 0)
    (ht7 : tail.length ≤ 7) :
    BoolBuf.writeValues { bits := packBits (full ++ tail), numValues := (full ++ tail).length } rows junk
      = { bits := packBits (full ++ tail ++ rows), numValues := (full ++ tail).length + rows.length } := by
  have hP : (packBits full).length = full.length / 8 := packBits_length_full full _ (by omega)
  have hlen : (full ++ tail).length = 8 * (packBits full).length + tail.length := by
    rw [List.length_append, hP]; omega
  have hbits : packBits (full ++ tail) = packBits full ++ packBits tail := packBits_append_full full tail hfm
  have hmod : (8 * (packBits full).length + tail.length) % 8 = tail.length := by omega
  have hdiv : (8 * (packBits full).length + tail.length) / 8 = (packBits full).length := by omega
  unfold BoolBuf.writeValues
  simp only [hlen, hbits, hmod]
  by_cases ht : tail = []
  · -- the buffer ends on a byte boundary
    subst ht
    simp only [packBits, List.append_nil, List.length_nil, Nat.add_zero, Nat.sub_zero]
    have hres : resize (packBits full) (byteCount (8 * (packBits full).length + rows.length)) junk
        = packBits full ++ List.replicate (byteCount (rows.length - 0)) junk := by
      rw [resize_ge _ _ _ (by unfold byteCount; omega)]
      congr 2; unfold byteCount; omega
    rw [hres]
    have hgoal : packBits (full ++ rows) = packBits full ++ packBits (rows.drop 0) := by
      rw [List.drop_zero]; exact packBits_append_full full rows hfm
    rw [hgoal]
    have hcont := aligned_cont (packBits full) rows 0 junk (Nat.zero_le _)
    split
    · have ha : alignPhase (packBits full ++ List.replicate (byteCount (rows.length - 0)) junk)
          (8 * (packBits full).length) rows
          = (packBits full ++ List.replicate (byteCount (rows.length - 0)) junk, 8 * (packBits full).length, 0) := by
        unfold alignPhase
        have : 8 * (packBits full).length % 8 = 0 := by omega
        simp only [this, Nat.sub_zero, Nat.lt_irrefl, if_false]
      rw [ha, hcont]; simp only [Nat.sub_zero]
    · rename_i hsmall
      rw [← gatherPhase_small _ _ 0 rows (by omega), hcont]; simp only [Nat.sub_zero]
  · -- the buffer ends inside a byte
    have htpos : 1 ≤ tail.length := by
      cases tail with
      | nil => exact absurd rfl ht
      | cons _ _ => simp
    rw [packBits_short tail htpos (by omega)]
    by_cases hr : 8 - tail.length ≤ rows.length
    · -- enough rows to fill the byte: merge, then continue from the boundary
      simp only [hr, if_true]
      have hres : resize (packBits full ++ [UInt8.ofNat (bitsByte tail)])
            (byteCount (8 * (packBits full).length + tail.length + rows.length)) junk
          = packBits full ++ UInt8.ofNat (bitsByte tail) ::
              List.replicate (byteCount (rows.length - (8 - tail.length))) junk := by
        rw [resize_ge _ _ _ (by simp only [List.length_append, List.length_cons, List.length_nil]; unfold byteCount; omega)]
        rw [List.append_assoc]
        congr 2
        simp only [List.length_append, List.length_cons, List.length_nil, List.cons_append, List.nil_append]
        congr 2; unfold byteCount; omega
      rw [hres]
      obtain ⟨a0, a1, a2, a3, a4, a5, a6, a7, hl8⟩ := list8 (tail ++ rows.take (8 - tail.length))
        (by rw [List.length_append, List.length_take]; omega)
      have htake : tail = (bools8 a0 a1 a2 a3 a4 a5 a6 a7).take tail.length := by
        unfold bools8; rw [← hl8, List.take_left' rfl]
      have hdrop : rows.take (8 - tail.length) = (bools8 a0 a1 a2 a3 a4 a5 a6 a7).drop tail.length := by
        unfold bools8; rw [← hl8, List.drop_left' rfl]
      have hmerge := merge_byte a0 a1 a2 a3 a4 a5 a6 a7 ⟨tail.length, by omega⟩ htpos
      dsimp only at hmerge
      rw [← htake, ← hdrop] at hmerge
      have hb8 : bools8 a0 a1 a2 a3 a4 a5 a6 a7 = tail ++ rows.take (8 - tail.length) := by unfold bools8; exact hl8.symm
      rw [hb8] at hmerge
      have ha : alignPhase (packBits full ++ UInt8.ofNat (bitsByte tail) ::
            List.replicate (byteCount (rows.length - (8 - tail.length))) junk)
          (8 * (packBits full).length + tail.length) rows
          = ((packBits full ++ [UInt8.ofNat (bitsByte (tail ++ rows.take (8 - tail.length)))]) ++
              List.replicate (byteCount (rows.length - (8 - tail.length))) junk,
             8 * (packBits full ++ [UInt8.ofNat (bitsByte (tail ++ rows.take (8 - tail.length)))]).length,
             8 - tail.length) := by
        unfold alignPhase
        have hlt : 8 - tail.length < 8 := by omega
        simp only [hmod, hdiv, hlt, if_true, setAt_mid, hmerge]
        refine Prod.ext ?_ (Prod.ext ?_ rfl)
        · simp
        · dsimp only
          simp only [List.length_append, List.length_cons, List.length_nil]; omega
      rw [ha, aligned_cont _ rows (8 - tail.length) junk hr]
      have hrows : rows = rows.take (8 - tail.length) ++ rows.drop (8 - tail.length) := (List.take_append_drop _ _).symm
      have hgoal : packBits (full ++ tail ++ rows)
          = packBits full ++ [UInt8.ofNat (bitsByte (tail ++ rows.take (8 - tail.length)))] ++
              packBits (rows.drop (8 - tail.length)) := by
        have h8 : (tail ++ rows.take (8 - tail.length)).length = 8 := by rw [hl8]; rfl
        conv => lhs; rw [hrows]
        rw [show full ++ tail ++ (rows.take (8 - tail.length) ++ rows.drop (8 - tail.length))
            = (full ++ (tail ++ rows.take (8 - tail.length))) ++ rows.drop (8 - tail.length) by simp [List.append_assoc]]
        rw [packBits_append_full _ _ (by rw [List.length_append, h8]; omega), packBits_append_full full _ hfm,
          packBits_short (tail ++ rows.take (8 - tail.length)) (by rw [h8]; omega) (by rw [h8]; omega)]
      rw [hgoal]
      simp only [BoolBuf.mk.injEq, true_and, List.length_append, List.length_cons, List.length_nil]
      omega
    · -- the batch stays inside the byte: the tail loop only
      simp only [hr, if_false]
      have hres : resize (packBits full ++ [UInt8.ofNat (bitsByte tail)])
            (byteCount (8 * (packBits full).length + tail.length + rows.length)) junk
          = packBits full ++ [UInt8.ofNat (bitsByte tail)] := by
        have hb : byteCount (8 * (packBits full).length + tail.length + rows.length)
            = (packBits full ++ [UInt8.ofNat (bitsByte tail)]).length := by
          simp only [List.length_append, List.length_cons, List.length_nil]; unfold byteCount; omega
        rw [hb, resize_ge _ _ _ (Nat.le_refl _)]; simp
      rw [hres, finish_lastbyte _ _ tail.length rows 0 junk rows rfl (by omega) (by omega)]
      have hinv := foldSet_inv rows (UInt8.ofNat (bitsByte tail)) tail (by omega) (packed_masked tail ht7)
      have hm : (tail.length + rows.length) % 8 = tail.length + rows.length := by omega
      have hne : ¬ (tail.length + rows.length = 0) := by omega
      rw [hm, if_neg hne, hinv]
      have hgoal : packBits (full ++ tail ++ rows) = packBits full ++ [UInt8.ofNat (bitsByte (tail ++ rows))] := by
        rw [List.append_assoc, packBits_append_full full _ hfm,
          packBits_short (tail ++ rows) (by rw [List.length_append]; omega) (by rw [List.length_append]; omega)]
      rw [hgoal]

theorem writeValues_rel (st : BoolBuf) (vs rows : List Bool) (junk : UInt8) (h : BoolRel st vs) :
    BoolRel (st.writeValues rows junk) (vs ++ rows) := by
  obtain ⟨hb, hn⟩ := h
  have hsplit : vs = vs.take (8 * (vs.length / 8)) ++ vs.drop (8 * (vs.length / 8)) := (List.take_append_drop _ _).symm
  generalize hfull : vs.take (8 * (vs.length / 8)) = full at hsplit
  generalize htail : vs.drop (8 * (vs.length / 8)) = tail at hsplit
  have hfl : full.length = 8 * (vs.length / 8) := by rw [← hfull, List.length_take]; omega
  have htl : tail.length = vs.length % 8 := by rw [← htail, List.length_drop]; omega
  have hst : st = { bits := packBits (full ++ tail), numValues := (full ++ tail).length } := by
    cases st; simp only [BoolBuf.mk.injEq] at hb hn ⊢; rw [← hsplit]; exact ⟨hb, hn⟩
  rw [hst, writeValues_packed full tail rows junk (by omega) (by omega), ← hsplit]
  exact ⟨rfl, by simp⟩

/-! ## the theorems -/

/-- BOOLEAN, every history (batches through `writeValues` with its three phases, single values through
    `writeBoolean`, `Reset`s), every content of the recycled backing array: the bytes `Page().Data()`
    hands to the filter are exactly the LSB-first packing of the values written since the last
    `Reset`, padding bits zero. (Generalises `boolean_buffer_is_packBits`: no `NoBatch`.) -/
theorem boolean_buffer_is_packBits_all (junk : UInt8) : ∀ (ops : List BoolOp) (st : BoolBuf) (vs : List Bool),
    BoolRel st vs → BoolRel (ops.foldl (BoolBuf.step junk) st) (ops.foldl boolSpecStep vs)
  | [], _, _, h => h
  | op :: ops, st, vs, h => by
    simp only [List.foldl_cons]
    apply boolean_buffer_is_packBits_all junk ops
    cases op with
    | one b => exact writeBoolean_rel st vs b junk h
    | batch rows => exact writeValues_rel st vs rows junk h
    | reset => exact ⟨rfl, rfl⟩

example : BoolRel BoolBuf.empty [] := ⟨rfl, rfl⟩

theorem boolean_run (junk : UInt8) : ∀ (ops : List BufOp) (st : BoolBuf) (vs : List Value),
    BoolRel st (vs.map valueBool) →
    ∃ st', ops.foldl (Buf.step junk .boolean) (.boolean st) = .boolean st' ∧
      BoolRel st' ((ops.foldl specStep vs).map valueBool)
  | [], st, _, h => ⟨st, rfl, h⟩
  | .reset :: ops, _, _, _ => by
    simp only [List.foldl_cons, Buf.step, specStep, Buf.empty]
    exact boolean_run junk ops BoolBuf.empty [] ⟨rfl, rfl⟩
  | .write ws :: ops, st, vs, h => by
    simp only [List.foldl_cons, Buf.step, Buf.write, specStep]
    apply boolean_run junk ops
    rw [List.map_append]
    exact writeValues_rel _ _ _ junk h

/-- the SPEC layout `pageData` is what the boolean column buffer produces, for every history -/
theorem boolean_runData (junk : UInt8) (ops : List BufOp) :
    runData junk .boolean ops = pageData .boolean (runValues ops) := by
  obtain ⟨st', hrun, hrel⟩ := boolean_run junk ops BoolBuf.empty [] ⟨rfl, rfl⟩
  unfold runData runValues
  simp only [Buf.empty] at hrun ⊢
  rw [hrun]
  simp only [Buf.data, BoolBuf.data, pageData, hrel.1]
  rfl

theorem runValues_kinds (kind : Kind) : ∀ (ops : List BufOp) (vs : List Value), OpsOk kind ops →
    (∀ v ∈ vs, v.kindOk kind = true) → ∀ v ∈ ops.foldl specStep vs, v.kindOk kind = true
  | [], _, _, h => h
  | op :: ops, vs, hok, h => by
    simp only [List.foldl_cons]
    apply runValues_kinds kind ops _ (fun o ho => hok o (by simp [ho]))
    cases op with
    | reset => intro v hv; simp [specStep] at hv
    | write ws =>
      intro v hv
      rcases List.mem_append.mp hv with hv | hv
      · exact h v hv
      · exact hok (.write ws) (by simp) ws rfl v hv

/-- HEADLINE (every physical type). For every history of `WriteValues` batches and `Reset`s on the
    typed column buffer of a column, every value left in the buffer has the hash the reader's `Check`
    computes (`Value.hash`) among the hashes `writePageToFilter` inserts for `Page().Data()`. -/
theorem buffered_value_is_hashed (junk : UInt8) (kind : Kind) (ops : List BufOp) (hok : OpsOk kind ops)
    (v : Value) (hm : v ∈ runValues ops) : hashRead v ∈ hashWriteStaged (runData junk kind ops) := by
  by_cases hk : kind = .boolean
  · subst hk
    rw [boolean_runData, hashWriteStaged_eq]
    exact PqModel.Props.C07.hash_sides_agree .boolean _ (runValues_kinds .boolean ops [] hok (by simp)) v hm
  · rw [buffer_hashes_exactly_once junk kind hk ops hok]
    exact List.mem_map_of_mem hm

/-- … and found by `CheckSplitBlock` in the stored bytes of a filter of any `n ≥ 1` blocks. -/
theorem buffered_value_is_found (junk : UInt8) (kind : Kind) (ops : List BufOp) (hok : OpsOk kind ops)
    (n : Nat) (hn : 1 ≤ n) (v : Value) (hm : v ∈ runValues ops) :
    checkBytes (filterBytes (build n ((hashWriteStaged (runData junk kind ops)).map UInt64.toBitVec)))
      (hashRead v).toBitVec = true := by
  apply PqModel.Props.C07.no_false_negative_bytes n hn
  exact List.mem_map_of_mem (buffered_value_is_hashed junk kind ops hok v hm)

/-- BOOLEAN, "exactly once" as far as it can hold: no hash is inserted twice, and when the buffer
    holds a multiple of 8 values nothing but the hashes of buffered values is inserted (otherwise the
    zero padding may add `hash(false)`: `boolean_padding_adds_false`). -/
theorem boolean_buffer_exact (junk : UInt8) (ops : List BufOp) :
    (hashWriteStaged (runData junk .boolean ops)).Nodup ∧
    ((runValues ops).length % 8 = 0 → ∀ h ∈ hashWriteStaged (runData junk .boolean ops),
      ∃ v ∈ runValues ops, h = hashBool (valueBool v)) := by
  rw [boolean_runData]
  refine ⟨boolean_hashes_nodup _, ?_⟩
  intro hlen h hh
  obtain ⟨b, hb, rfl⟩ := boolean_full_bytes_exact ((runValues ops).map valueBool) (by simpa using hlen) h hh
  obtain ⟨v, hv, rfl⟩ := List.mem_map.mp hb
  exact ⟨v, hv, rfl⟩

example : OpsOk .boolean [.write [.boolean true, .boolean false], .reset, .write [.boolean true]] := by
  intro op hop vs hvs v hv
  simp at hop
  rcases hop with rfl | rfl | rfl <;> simp at hvs <;> subst hvs <;> simp at hv
  · rcases hv with rfl | rfl <;> decide
  · subst hv; decide

/-! ## the dictionary's page -/

/-- Strategy 2 (filter from the dictionary): given the dictionary contract (it holds the first
    occurrences of the inserted values), every inserted value is hashed with the read-side hash, and
    for every kind but BOOLEAN each distinct value exactly once, nothing else. -/
theorem dict_page_hashes (kind : Kind) (vs : List Value) (hv : ∀ v ∈ vs, v.kindOk kind = true) :
    (∀ v ∈ vs, hashRead v ∈ hashWriteStaged (dictData kind vs)) ∧
    (kind ≠ .boolean → hashWriteStaged (dictData kind vs) = vs.eraseDups.map hashRead) := by
  have hsub : kind ≠ .boolean → dictValues kind vs = vs.eraseDups := by
    intro hk; cases kind <;> first | exact absurd rfl hk | rfl
  have hkinds : kind ≠ .boolean → ∀ v ∈ vs.eraseDups, v.kindOk kind = true :=
    fun _ v hm => hv v (List.mem_eraseDups.mp hm)
  refine ⟨?_, fun hk => by
    unfold dictData; rw [hsub hk]; exact pageData_hashes_exactly_once kind hk _ (hkinds hk)⟩
  intro v hm
  by_cases hk : kind = .boolean
  · subst hk
    have := hv v hm
    cases v <;> simp [Value.kindOk] at this
    rename_i b
    simp only [dictData, dictValues]
    cases b <;> decide
  · unfold dictData
    rw [hsub hk, pageData_hashes_exactly_once kind hk _ (hkinds hk)]
    exact List.mem_map_of_mem (List.mem_eraseDups.mpr hm)

/-- BOOLEAN dictionaries hold both values from the first insert on: a dictionary-encoded boolean
    chunk whose values are all `true` gets `hash(false)` in its filter (a false positive, never a
    false negative). -/
theorem boolean_dictionary_holds_both :
    hashBool false ∈ hashWriteStaged (dictData .boolean [.boolean true]) := by decide

end PqModel.Props.C07PageData
