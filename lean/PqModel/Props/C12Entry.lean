import PqModel.ConvertEntry
import PqModel.ConvertFixed
import PqModel.Generated.Facts

/-! # C12, third part — the entry points: when is the conversion skipped, and the deprecated
    `Reader` read with changing target types

`equalN`, `sameN`, `readVia`, `Rd.*` are MIRRORS (node.go, reader.go, row.go; see
`PqModel/ConvertEntry.lean`); `projN`, `shred`, `Rd.spec` are SPEC. `Generated.Facts.conv*` are
extracted from the library source by `tools/factgen` (family `convguards`) on every run. -/
namespace PqModel.Props.C12Entry
open PqModel.Dremel PqModel.Convert

/-- `EqualNodes` is equality of the named schemas (field order included). -/
theorem equal_nodes_iff (s t : PNode) : equalN s t = true ↔ s = t :=
  ⟨equalN_eq s t, fun h => h ▸ equalN_refl s⟩

/-- Projecting a conforming value onto its own schema changes nothing (unique field names). -/
theorem project_self (s : PNode) (v : Val) (hn : nodupN s = true) (hc : confN (eraseN s) v = true) :
    projN s s v = v := projN_self s v hn hc

/-- Skipping the conversion is right whenever the guard `EqualNodes(target, source)` holds: the
    stored row IS the shredded projection onto the target. -/
theorem skip_conversion_sound (src tgt : PNode) (v : Val)
    (hg : equalN tgt src = true) (hn : nodupN src = true) (hc : confN (eraseN src) v = true) :
    shred src v = shred tgt (projN src tgt v) := by
  have := equalN_eq tgt src hg
  subst this
  rw [projN_self tgt v hn hc]

/-- Every reader entry point (`if !EqualNodes(target, source) { convert }`) yields the shredded
    projection, for every target that deletes, permutes and widens fields at any depth: the guard
    never skips a conversion that was needed. All schemas, all conforming values. -/
theorem entry_read_correct (src tgt : PNode) (v : Val)
    (hsub : subN src tgt = true) (hwf : wfN (eraseN src) = true) (hn : nodupN src = true)
    (hc : confN (eraseN src) v = true) :
    readVia equalN src tgt (shred src v) = shred tgt (projN src tgt v) := by
  unfold readVia
  split
  · rename_i hg
    exact skip_conversion_sound src tgt v hg hn hc
  · exact convertRow_shred src tgt v hsub hwf hc

/-- non-vacuity: a pure permutation at two depths (guard false, conversion installed) -/
example :
    let src : PNode := .group (.cons 1 .opt .leaf (.cons 2 .rpt (.group (.cons 5 .req .leaf (.cons 6 .opt .leaf .nil))) .nil))
    let tgt : PNode := .group (.cons 2 .rpt (.group (.cons 6 .opt .leaf (.cons 5 .req .leaf .nil))) (.cons 1 .opt .leaf .nil))
    let v : Val := .struct [.some (.prim 7), .list [.struct [.prim 1, .none], .struct [.prim 2, .some (.prim 3)]]]
    subN src tgt = true ∧ wfN (eraseN src) = true ∧ nodupN src = true ∧ confN (eraseN src) v = true ∧
      equalN tgt src = false ∧ sameN tgt src = true ∧
      readVia equalN src tgt (shred src v) =
        [[⟨none, 0, 1⟩, ⟨some 3, 1, 2⟩], [⟨some 1, 0, 1⟩, ⟨some 2, 1, 1⟩], [⟨some 7, 0, 1⟩]] := by decide

/-- `SameNodes` (field order ignored) is NOT a sound guard: for a target that is a pure permutation
    of the source it skips the conversion and the stored row is handed out under the target's
    column numbering — a value of column `a` comes out as column `b`. -/
theorem same_nodes_guard_unsound :
    let src : PNode := .group (.cons 1 .req .leaf (.cons 2 .req .leaf .nil))
    let tgt : PNode := .group (.cons 2 .req .leaf (.cons 1 .req .leaf .nil))
    let v : Val := .struct [.prim 10, .prim 20]
    subN src tgt = true ∧ nodupN src = true ∧ confN (eraseN src) v = true ∧ sameN tgt src = true ∧
      readVia sameN src tgt (shred src v) = [[⟨some 10, 0, 0⟩], [⟨some 20, 0, 0⟩]] ∧
      shred tgt (projN src tgt v) = [[⟨some 20, 0, 0⟩], [⟨some 10, 0, 0⟩]] := by decide

/-! ## which predicate the code uses (facts extracted from the source on every run) -/

/-- Every `if` condition of reader.go, row.go, convert.go, merge.go that compares two schemas does
    so with `EqualNodes` — the only guard `entry_read_correct` is proved for. -/
theorem entry_guards_are_equal_nodes :
    PqModel.Generated.Facts.convSchemaGuards.all (fun g => g.2 == "EqualNodes") = true := by decide

/-- Every call that installs a conversion stands under `EqualNodes` guards only (or under none:
    `Convert` and `ConvertRowGroup` decide for themselves, with `EqualNodes`). -/
theorem conversion_calls_guarded_by_equal_nodes :
    PqModel.Generated.Facts.convCalls.all (fun c => c.2.2.all (· == "EqualNodes")) = true := by decide

/-- The entry points of the property install a conversion: none of them lost its call. -/
theorem entry_points_convert :
    ["MergeRowGroups", "NewGenericReader", "NewGenericRowGroupReader", "NewReader", "NewRowGroupReader",
     "Reader.updateReadSchema", "convertRowGroupTo", "copyRows"].all
      (fun f => PqModel.Generated.Facts.convCalls.any (fun c => c.1 == f)) = true ∧
    ["Convert", "ConvertRowGroup"].all
      (fun f => PqModel.Generated.Facts.convSchemaGuards.any (fun g => g.1 == f)) = true := by decide

/-! ## `Reader.Read` with a target type that changes between calls -/

theorem run_ok {τ : Type} [DecidableEq τ] (n : Nat) : ∀ (ts : List τ) (st : Rd τ), st.ok →
    Rd.run Rd.init n st ts = Rd.spec n st.cur ts
  | [], _, _ => rfl
  | t :: ts, st, h => by
    obtain ⟨h1, h2, h3⟩ := Rd.read_ok n st t h
    simp only [Rd.run, Rd.spec, h1]
    rw [run_ok n ts _ h2, h3]

/-- The repaired reader: whatever the sequence of target types handed to `Read`, the k-th call
    yields row k seen through the target of THAT call (the row cursor is shared, the conversion is
    the current target's), then io.EOF. All histories, all file lengths. -/
theorem reader_retarget_correct {τ : Type} [DecidableEq τ] (n : Nat) (ts : List τ) :
    Rd.run Rd.init n Rd.fresh ts = Rd.spec n 0 ts :=
  run_ok n ts Rd.fresh ⟨rfl, rfl, fun _ h => by simp [Rd.fresh] at h⟩

/-- non-vacuity: three rows, targets A B B A A -/
example : Rd.run Rd.init 3 Rd.fresh ['A', 'B', 'B', 'A', 'A'] =
    [some ('A', 0), some ('B', 1), some ('B', 2), none, none] := by decide

/-- Regression fact: with `reader.init` as it stood before the repair (cached rows only rewound),
    `Read(&A)` then `Read(&B)` serves B's row through A's view. -/
theorem reader_retarget_before_fix :
    Rd.run Rd.initBeforeFix 3 Rd.fresh ['A', 'B', 'B'] = [some ('A', 0), some ('A', 1), some ('A', 2)] ∧
    Rd.spec 3 0 ['A', 'B', 'B'] = [some ('A', 0), some ('B', 1), some ('B', 2)] := by decide

end PqModel.Props.C12Entry
