import PqModel.Layout
import PqModel.ThriftWriteProofs
import PqModel.FooterLayout
import PqModel.FileMetaTrees
import PqModel.BloomPlaceLength

/-! # C02 — Every written file is well-formed Parquet (layout accounting) -/
namespace PqModel.Props.C02
open PqModel.Layout

/-- For every sequence of pages of a chunk written at `start`: recorded page locations are the
    true start, size and cumulative first-row index of every data page; chunk totals are sums. -/
theorem layout_wf (start : Nat) (ps : List PageOp) :
    (chunkMeta start ps).locs = specLocs start 0 ps ∧
    (chunkMeta start ps).totalCompressed = totalSize ps ∧
    (chunkMeta start ps).totalUncompressed = ((ps.map fun p => p.hdrLen + p.uncompLen).sum) ∧
    (chunkMeta start ps).numValues = ((dataPages ps).map (·.numValues)).sum ∧
    (chunkMeta start ps).numRows = ((dataPages ps).map (·.numRows)).sum :=
  PqModel.Layout.layout_wf start ps

/-- data pages recorded positionally are back to back: each starts where the previous page ends -/
theorem locations_contiguous (start row : Nat) (ps : List PageOp) (h : ∀ q ∈ ps, q.isDict = false) :
    (specLocs start row ps).map (·.offset) = pageStarts start ps ∧
    (specLocs start row ps).map (·.size) = ps.map PageOp.size :=
  specLocs_contiguous start row ps h

/-- the chunks of a row group: the writer's running file offset gives every chunk the metadata of
    a chunk written at its true start -/
theorem rowGroup_wf (start : Nat) (cs : List (List PageOp)) :
    rowGroupMetas start cs = (List.zip (chunkStarts start cs) cs).map (fun sc => chunkMeta sc.1 sc.2) :=
  PqModel.Layout.rowGroup_wf start cs

example : WellOrdered [⟨true, 10, 20, 25, 3, 0⟩, ⟨false, 12, 30, 40, 5, 5⟩] := by
  intro q hq; simp at hq; subst hq; rfl

/-! ## Thrift compact protocol: the independent reader reads back what the encoder mirror writes

`ThriftWrite.writeStruct` / `writeVal` MIRROR the library's compact-protocol encoder
(`encoding/thrift/compact.go`, `encode.go`) on the typed tree `WVal`; `Spec.readStruct` / `rdVal` are
the SPEC reader (written from the protocol description) that `file.check` parses every footer, page
header and index with; `erase` forgets the integer widths and drops the fields the encoder omits. -/
section Thrift
open PqModel.Spec PqModel.ThriftWrite

/-- ULEB128: the spec reader returns the number `PutUvarint` wrote (any 64-bit value, anywhere in a
    buffer, whatever follows). -/
theorem uvarint_round_trip (x : Nat) (hx : x < 2 ^ 64) (pre rest : List UInt8) :
    uvarint ⟨(pre ++ (uvarintBytes x ++ rest)).toArray⟩ pre.length = .ok (x, pre.length + (uvarintBytes x).length) :=
  uvarint_put _ x pre.length hx ⟨pre, rest, rfl, rfl⟩

/-- zigzag: the spec reading of `PutVarint`'s bit manipulation on the int64 is the integer. -/
theorem zigzag_round_trip (i : Int) (h1 : -9223372036854775808 ≤ i) (h2 : i < 9223372036854775808) :
    zigzag (PqModel.Delta.zigzag64 (BitVec.ofInt 64 i)) = i :=
  zigzag_zigzag64 i h1 h2

/-- a zigzag varint (i16, i32, i64 and long-form field ids) reads back as the integer -/
theorem varint_round_trip (i : Int) (h1 : -9223372036854775808 ≤ i) (h2 : i < 9223372036854775808)
    (pre rest : List UInt8) :
    ∃ n, uvarint ⟨(pre ++ (varintBytes i ++ rest)).toArray⟩ pre.length = .ok (n, pre.length + (varintBytes i).length) ∧
      zigzag n = i :=
  varint_put _ i pre.length h1 h2 ⟨pre, rest, rfl, rfl⟩

/-- **Round trip of a struct** (what `thrift.Marshal` returns for `FileMetaData`, `PageHeader`,
    `ColumnIndex`, `OffsetIndex`, …): for every well-formed tree — ints within their width, lengths
    within int32, list elements of the announced element type, written field ids ascending in
    1..32767; ANY nesting depth and size (the reader's fuel `2·size + 64` is proved sufficient) —
    the spec reader applied to the mirror writer's bytes, at any offset and with arbitrary trailing
    bytes, returns exactly the tree and stops right behind the struct. -/
theorem read_write_struct (fs : List (FMeta × WVal)) (pre rest : List UInt8) (hw : WfF 0 fs = true) :
    readStruct ⟨(pre ++ (writeStruct fs ++ rest)).toArray⟩ pre.length =
      .ok (.struct (eraseF fs), pre.length + (writeStruct fs).length) :=
  readStruct_writeStruct fs pre rest hw

/-- the same for a value in field position, with explicit fuel: `2·len + 1` suffices -/
theorem read_write_val (v : WVal) (pre rest : List UInt8) (fuel : Nat) (hw : WfT v = true)
    (hf : 2 * (writeVal v).length + 1 ≤ fuel) :
    rdVal ⟨(pre ++ (writeVal v ++ rest)).toArray⟩ fuel (fcode v) pre.length =
      .ok (erase v, pre.length + (writeVal v).length) :=
  rdVal_write _ v fuel pre.length hw ⟨pre, rest, rfl, rfl⟩ hf

example : WfT (.list 12 [.struct [], .struct [({id := 16}, .i8 (-128)), ({id := 32767}, .list 9 [.list 2 []])]]) = true := by
  decide

/-- non-vacuity: a page-header-like tree with a long-form field id, a 15-element list (long list
    header), a bool list, nested structs, an omitted zero field and a kept `writezero` one -/
example : WfF 0 [({id := 1, required := true}, .i32 3), ({id := 2, zero := true}, .i32 0),
    ({id := 3, writezero := true, zero := true}, .i64 0), ({id := 4}, .bool true),
    ({id := 20}, .list 2 [.bool true, .bool false]),
    ({id := 21}, .list 6 (List.replicate 15 (.i64 (-9223372036854775808)))),
    ({id := 300}, .struct [({id := 5}, .struct []), ({id := 7}, .bin [0xFF, 0]), ({id := 8}, .double 1)])] = true := by
  decide

/-- the encoder's bytes for a small tree, computed by the kernel (field 1 i32 5 → `15 0A`; field 20
    → long form `09 28`, list header `22`; stop) -/
example : writeStruct [({id := 1, required := true}, .i32 5), ({id := 20}, .list 2 [.bool true, .bool false])] =
    [0x15, 0x0A, 0x09, 0x28, 0x22, 0x01, 0x00, 0x00] := by decide

end Thrift


/-! ## Round 4: the page-index section of the file tail, key-value metadata, created_by, sorting columns -/
section Tail
open PqModel.FooterLayout

/-- **Page-index section** (`writeFileFooter`'s two loops, mirror `indexLayout`): for every sequence
    of column chunks (any number of row groups, with or without column index) written at `start`,
    the recorded `column_index_offset/length` and `offset_index_offset/length` name exactly the
    positional regions (prefix sums of the encoded lengths: the column indexes that exist, then
    the offset indexes), a chunk without column index keeps `0, 0`, and the running offset ends at
    `start` + all bytes written. -/
theorem page_index_layout_wf (start : Nat) (ops : List IdxOp) :
    ciRegions (indexLayout start ops).1 ops = specCi start ops ∧
    oiRegions (indexLayout start ops).1 = specOi (start + ciBytes ops) ops ∧
    (indexLayout start ops).1.length = ops.length ∧
    (indexLayout start ops).2 = start + ciBytes ops + oiBytes ops := by
  have h1 := writeColumnIndexes_spec start ops
  have h2 := writeOffsetIndexes_spec (writeColumnIndexes start ops).2 ops (writeColumnIndexes start ops).1 h1.2.1
  simp only [indexLayout]
  refine ⟨?_, ?_, h2.2.1, ?_⟩
  · rw [h2.2.2.2, h1.2.2.1]
  · rw [h2.2.2.1, h1.1]
  · rw [h2.1, h1.1]

/-- the regions the footer names tile `[start, end)`: no gap, and (corollary) no two page-index
    structures overlap and none leaves the section -/
theorem page_index_tiles (start : Nat) (ops : List IdxOp) :
    Tiles start (ciRegions (indexLayout start ops).1 ops ++ oiRegions (indexLayout start ops).1) (indexLayout start ops).2 := by
  have h := page_index_layout_wf start ops
  rw [h.1, h.2.1, h.2.2.2]
  have t2 := specOi_tiles (start + ciBytes ops) ops
  exact Tiles.append (specCi_tiles start ops) t2

theorem page_index_disjoint (start : Nat) (ops : List IdxOp) :
    (∀ r ∈ ciRegions (indexLayout start ops).1 ops ++ oiRegions (indexLayout start ops).1,
        start ≤ r.off ∧ r.off + r.len ≤ (indexLayout start ops).2) ∧
    (ciRegions (indexLayout start ops).1 ops ++ oiRegions (indexLayout start ops).1).Pairwise
        (fun r s => r.off + r.len ≤ s.off) :=
  (page_index_tiles start ops).sorted

-- non-vacuity: two row groups' worth of chunks, the second chunk without column index
example : indexLayout 1000 [⟨some 30, 12⟩, ⟨none, 9⟩, ⟨some 25, 14⟩] =
    ([{ ciOff := 1000, ciLen := 30, oiOff := 1055, oiLen := 12 }, { oiOff := 1067, oiLen := 9 },
      { ciOff := 1030, ciLen := 25, oiOff := 1076, oiLen := 14 }], 1090) := by decide

end Tail

section Meta
open PqModel.Spec PqModel.ThriftWrite PqModel.FileMetaTrees

/-- **Key-value metadata and created_by**: for every footer the writer mirror encodes (any schema
    and row-group subtrees, any list of key/value byte strings — empty values included, they are
    written because the Go field is `required` —, any created_by), the spec reader applied to the
    bytes, at any offset and with arbitrary trailing bytes, yields a tree whose spec views
    (`key_value_metadata`, field 5; `created_by`, field 6) are exactly the pairs in order and the
    string (absent iff empty). -/
theorem key_value_metadata_round_trip (version : Int) (schema : List WVal) (numRows : Int) (rowGroups : List WVal)
    (kvs : List (List UInt8 × List UInt8)) (kvZero : Bool) (createdBy : List UInt8)
    (orders : List WVal) (ordersZero : Bool) (pre rest : List UInt8)
    (hz : kvZero = true → kvs = [])
    (hw : WfF 0 (footerFields version schema numRows rowGroups kvs kvZero createdBy orders ordersZero) = true) :
    ∃ t, readStruct ⟨(pre ++ (writeStruct (footerFields version schema numRows rowGroups kvs kvZero createdBy orders ordersZero) ++ rest)).toArray⟩ pre.length =
        .ok (t, pre.length + (writeStruct (footerFields version schema numRows rowGroups kvs kvZero createdBy orders ordersZero)).length) ∧
      kvsOf t = kvs.map (fun kv => some (⟨kv.1.toArray⟩, some ⟨kv.2.toArray⟩)) ∧
      createdByOf t = if createdBy.isEmpty then none else some ⟨createdBy.toArray⟩ :=
  ⟨_, readStruct_writeStruct _ pre rest hw,
    kvsOf_footer version schema numRows rowGroups kvs kvZero createdBy orders ordersZero hz,
    createdByOf_footer version schema numRows rowGroups kvs kvZero createdBy orders ordersZero⟩

example : WfF 0 (footerFields 2 [.struct []] 7 [] [([0x61], []), ([], [0xFF, 0])] false [0x78] [] true) = true := by
  decide

/-- **Sorting columns of a row group**: the spec view of field 4 of the row group the mirror
    encodes is the declared list (column index, descending, nulls first), in order. -/
theorem sorting_columns_round_trip (columns : List WVal) (totalByteSize numRows : Int)
    (scs : List (Int × Bool × Bool)) (scZero : Bool) (fileOffset totalCompressed ordinal : Int) (pre rest : List UInt8)
    (hz : scZero = true → scs = [])
    (hw : WfF 0 (rowGroupFields columns totalByteSize numRows scs scZero fileOffset totalCompressed ordinal) = true) :
    ∃ t, readStruct ⟨(pre ++ (writeStruct (rowGroupFields columns totalByteSize numRows scs scZero fileOffset totalCompressed ordinal) ++ rest)).toArray⟩ pre.length =
        .ok (t, pre.length + (writeStruct (rowGroupFields columns totalByteSize numRows scs scZero fileOffset totalCompressed ordinal)).length) ∧
      sortingOf t = scs.map some :=
  ⟨_, readStruct_writeStruct _ pre rest hw,
    sortingOf_rowGroup columns totalByteSize numRows scs scZero fileOffset totalCompressed ordinal hz⟩

example : WfF 0 (rowGroupFields [] 100 3 [(2, true, false), (0, false, true)] false 4 90 0) = true := by decide

end Meta

/-! ## bloom filter sections written at the end of the file (`DeferBloomFiltersWithBuffers`) -/
section BloomLength
open PqModel.BloomPlace

/-- **`bloom_filter_offset` / `bloom_filter_length` of deferred filters** (MIRROR
    `writeDeferredBloomFilters`, the code as it is): for every list of buffered sections with
    pairwise distinct (row group, column), appended to any file written so far, the metadata of each
    chunk names a region that lies inside the file, has the length of the chunk's OWN section and
    holds exactly its bytes — any number of filters, any section lengths. -/
theorem deferred_bloom_sections_named (bufs : List Buffered) (out : List UInt8) (m : MetaTab)
    (h : (bufs.map bkey).Nodup) :
    ∀ b ∈ bufs,
      Names (flushDeferred (bufs.map (fun b => (b.1, b.2.1, b.2.2.length))) out.length m).2
        (out ++ bufs.flatMap (·.2.2)) b :=
  (flushDeferred_spec bufs out m h).2.1

example : ([((0 : Nat), (0 : Nat), [(1 : UInt8), 2, 3]), (0, 1, [4, 5]), (1, 0, [6])].map bkey).Nodup := by decide

/-- C02-5a (seeded): with `bloomFilterOffset := w.writer.offset` taken once before the loop of
    `writeDeferredBloomFilters`, the offsets stay right and the first length too, but every later
    filter announces a length measured from the start of the FIRST deferred filter (3+5, 3+5+4
    instead of 5, 4): the spec reader's clause `bloom_filter_length` = header + bitset fails from
    the second filter on. Last two conjuncts: the loop as it is. -/
theorem deferred_start_taken_once_lengths_cumulative :
    let evs := [Ev.data 4, .filter 0 0 3 true, .filter 0 1 5 true, .data 4, .filter 1 1 4 true, .flush]
    let s := evs.foldl stepHoisted pinit
    s.tab 0 0 = some ⟨8, 3⟩ ∧ s.tab 0 1 = some ⟨11, 8⟩ ∧ s.tab 1 1 = some ⟨16, 12⟩ ∧
    (run evs).tab 0 1 = some ⟨11, 5⟩ ∧ (run evs).tab 1 1 = some ⟨16, 4⟩ := by
  decide

end BloomLength

end PqModel.Props.C02
