import PqModel.Layout

/-! # C02 — Every written file is well-formed Parquet (layout accounting) -/
namespace PqModel.Props.C02
open PqModel.Layout

/-- For every sequence of pages of a chunk written at `start`: recorded page locations are the
    true start, size and cumulative first-row index of every data page; chunk totals are sums. -/
theorem layout_wf (start : Nat) (ps : List PageOp) :
    (chunkMeta start ps).locs = specLocs start 0 ps ∧
    (chunkMeta start ps).totalCompressed = totalSize ps ∧
    (chunkMeta start ps).totalUncompressed = ((ps.map fun p => p.hdrLen + p.uncompLen).sum) ∧
    (chunkMeta start ps).numValues = ((dataPages ps).map (·.numValues)).sum ∧
    (chunkMeta start ps).numRows = ((dataPages ps).map (·.numRows)).sum :=
  PqModel.Layout.layout_wf start ps

/-- data pages recorded positionally are back to back: each starts where the previous page ends -/
theorem locations_contiguous (start row : Nat) (ps : List PageOp) (h : ∀ q ∈ ps, q.isDict = false) :
    (specLocs start row ps).map (·.offset) = pageStarts start ps ∧
    (specLocs start row ps).map (·.size) = ps.map PageOp.size :=
  specLocs_contiguous start row ps h

/-- the chunks of a row group: the writer's running file offset gives every chunk the metadata of
    a chunk written at its true start -/
theorem rowGroup_wf (start : Nat) (cs : List (List PageOp)) :
    rowGroupMetas start cs = (List.zip (chunkStarts start cs) cs).map (fun sc => chunkMeta sc.1 sc.2) :=
  PqModel.Layout.rowGroup_wf start cs

example : WellOrdered [⟨true, 10, 20, 25, 3, 0⟩, ⟨false, 12, 30, 40, 5, 5⟩] := by
  intro q hq; simp at hq; subst hq; rfl

end PqModel.Props.C02
