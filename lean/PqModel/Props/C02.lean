import PqModel.Layout
import PqModel.ThriftWriteProofs

/-! # C02 — Every written file is well-formed Parquet (layout accounting) -/
namespace PqModel.Props.C02
open PqModel.Layout

/-- For every sequence of pages of a chunk written at `start`: recorded page locations are the
    true start, size and cumulative first-row index of every data page; chunk totals are sums. -/
theorem layout_wf (start : Nat) (ps : List PageOp) :
    (chunkMeta start ps).locs = specLocs start 0 ps ∧
    (chunkMeta start ps).totalCompressed = totalSize ps ∧
    (chunkMeta start ps).totalUncompressed = ((ps.map fun p => p.hdrLen + p.uncompLen).sum) ∧
    (chunkMeta start ps).numValues = ((dataPages ps).map (·.numValues)).sum ∧
    (chunkMeta start ps).numRows = ((dataPages ps).map (·.numRows)).sum :=
  PqModel.Layout.layout_wf start ps

/-- data pages recorded positionally are back to back: each starts where the previous page ends -/
theorem locations_contiguous (start row : Nat) (ps : List PageOp) (h : ∀ q ∈ ps, q.isDict = false) :
    (specLocs start row ps).map (·.offset) = pageStarts start ps ∧
    (specLocs start row ps).map (·.size) = ps.map PageOp.size :=
  specLocs_contiguous start row ps h

/-- the chunks of a row group: the writer's running file offset gives every chunk the metadata of
    a chunk written at its true start -/
theorem rowGroup_wf (start : Nat) (cs : List (List PageOp)) :
    rowGroupMetas start cs = (List.zip (chunkStarts start cs) cs).map (fun sc => chunkMeta sc.1 sc.2) :=
  PqModel.Layout.rowGroup_wf start cs

example : WellOrdered [⟨true, 10, 20, 25, 3, 0⟩, ⟨false, 12, 30, 40, 5, 5⟩] := by
  intro q hq; simp at hq; subst hq; rfl

/-! ## Thrift compact protocol: the independent reader reads back what the encoder mirror writes

`ThriftWrite.writeStruct` / `writeVal` MIRROR the library's compact-protocol encoder
(`encoding/thrift/compact.go`, `encode.go`) on the typed tree `WVal`; `Spec.readStruct` / `rdVal` are
the SPEC reader (written from the protocol description) that `file.check` parses every footer, page
header and index with; `erase` forgets the integer widths and drops the fields the encoder omits. -/
section Thrift
open PqModel.Spec PqModel.ThriftWrite

/-- ULEB128: the spec reader returns the number `PutUvarint` wrote (any 64-bit value, anywhere in a
    buffer, whatever follows). -/
theorem uvarint_round_trip (x : Nat) (hx : x < 2 ^ 64) (pre rest : List UInt8) :
    uvarint ⟨(pre ++ (uvarintBytes x ++ rest)).toArray⟩ pre.length = .ok (x, pre.length + (uvarintBytes x).length) :=
  uvarint_put _ x pre.length hx ⟨pre, rest, rfl, rfl⟩

/-- zigzag: the spec reading of `PutVarint`'s bit manipulation on the int64 is the integer. -/
theorem zigzag_round_trip (i : Int) (h1 : -9223372036854775808 ≤ i) (h2 : i < 9223372036854775808) :
    zigzag (PqModel.Delta.zigzag64 (BitVec.ofInt 64 i)) = i :=
  zigzag_zigzag64 i h1 h2

/-- a zigzag varint (i16, i32, i64 and long-form field ids) reads back as the integer -/
theorem varint_round_trip (i : Int) (h1 : -9223372036854775808 ≤ i) (h2 : i < 9223372036854775808)
    (pre rest : List UInt8) :
    ∃ n, uvarint ⟨(pre ++ (varintBytes i ++ rest)).toArray⟩ pre.length = .ok (n, pre.length + (varintBytes i).length) ∧
      zigzag n = i :=
  varint_put _ i pre.length h1 h2 ⟨pre, rest, rfl, rfl⟩

/-- **Round trip of a struct** (what `thrift.Marshal` returns for `FileMetaData`, `PageHeader`,
    `ColumnIndex`, `OffsetIndex`, …): for every well-formed tree — ints within their width, lengths
    within int32, list elements of the announced element type, written field ids ascending in
    1..32767; ANY nesting depth and size (the reader's fuel `2·size + 64` is proved sufficient) —
    the spec reader applied to the mirror writer's bytes, at any offset and with arbitrary trailing
    bytes, returns exactly the tree and stops right behind the struct. -/
theorem read_write_struct (fs : List (FMeta × WVal)) (pre rest : List UInt8) (hw : WfF 0 fs = true) :
    readStruct ⟨(pre ++ (writeStruct fs ++ rest)).toArray⟩ pre.length =
      .ok (.struct (eraseF fs), pre.length + (writeStruct fs).length) :=
  readStruct_writeStruct fs pre rest hw

/-- the same for a value in field position, with explicit fuel: `2·len + 1` suffices -/
theorem read_write_val (v : WVal) (pre rest : List UInt8) (fuel : Nat) (hw : WfT v = true)
    (hf : 2 * (writeVal v).length + 1 ≤ fuel) :
    rdVal ⟨(pre ++ (writeVal v ++ rest)).toArray⟩ fuel (fcode v) pre.length =
      .ok (erase v, pre.length + (writeVal v).length) :=
  rdVal_write _ v fuel pre.length hw ⟨pre, rest, rfl, rfl⟩ hf

example : WfT (.list 12 [.struct [], .struct [({id := 16}, .i8 (-128)), ({id := 32767}, .list 9 [.list 2 []])]]) = true := by
  decide

/-- non-vacuity: a page-header-like tree with a long-form field id, a 15-element list (long list
    header), a bool list, nested structs, an omitted zero field and a kept `writezero` one -/
example : WfF 0 [({id := 1, required := true}, .i32 3), ({id := 2, zero := true}, .i32 0),
    ({id := 3, writezero := true, zero := true}, .i64 0), ({id := 4}, .bool true),
    ({id := 20}, .list 2 [.bool true, .bool false]),
    ({id := 21}, .list 6 (List.replicate 15 (.i64 (-9223372036854775808)))),
    ({id := 300}, .struct [({id := 5}, .struct []), ({id := 7}, .bin [0xFF, 0]), ({id := 8}, .double 1)])] = true := by
  decide

/-- the encoder's bytes for a small tree, computed by the kernel (field 1 i32 5 → `15 0A`; field 20
    → long form `09 28`, list header `22`; stop) -/
example : writeStruct [({id := 1, required := true}, .i32 5), ({id := 20}, .list 2 [.bool true, .bool false])] =
    [0x15, 0x0A, 0x09, 0x28, 0x22, 0x01, 0x00, 0x00] := by decide

end Thrift

end PqModel.Props.C02
