import PqModel.DictReset
import PqModel.Props.C04DictReset

/-! # C01 (part "dictgroups", round 6) — one dictionary object over all row groups of a writer

A column writer owns ONE dictionary for its whole life. Per row group it inserts that row group's
values (any number of `Insert` calls, any cut into chunks), stores the dictionary page and the
indexes handed out, and calls `Reset` (`ColumnWriter.reset`, writer.go:2085-2108; `Writer.Reset`
takes the same path, so the history continues into the next file). The file model of Props/C01.lean
builds every row group's dictionary from nothing; this file closes the gap between that model and
the stateful object: over the MIRRORS of the Go dictionary state machines (PqModel/DictReset.lean)
every row group of every history reads back as the values written.

* `writeGroups` (MIRROR of the writer's use of the object), `readGroup` (SPEC: look the stored
  indexes up in the stored page);
* `groups_roundtrip` for every machine refining the SPEC session with identity `ensure`; instances
  `probe_groups_roundtrip` (int32/int64/float/double/uint32/uint64/be128) and `map_groups_roundtrip`
  (`false`: fixed-len byte array and int96; `true`: byte array). The boolean dictionary (SPEC insert
  with `ensureBools`) is covered by `C04DictReset.bool_insert_after_reset` and by the L2 comparison
  of sub-check `dictgroups`; its group form is not restated here.
* `int96_reset_keeping_hashmap_breaks_groups`: the `Reset` that truncates the page but keeps the
  value -> index map (mechanism of seeded change C01-6a) makes a later row group read back wrong. -/
namespace PqModel.Props.C01DictGroups
open PqModel.Plain PqModel.DictReset

section
variable {α : Type} [DecidableEq α]

/-- MIRROR of the column writer's use of its dictionary: per row group a reset-free session of
    `Insert` calls, the page and the indexes that are stored, then `Reset` -/
def writeGroups {σ : Type} (m : Machine σ α) (s : σ) : List (List (Op α)) → List (List α × List Nat)
  | [] => []
  | g :: gs => (m.values (m.run s g).1, (m.run s g).2.flatten) :: writeGroups m (m.reset (m.run s g).1) gs

/-- SPEC of the reader: every stored index looked up in the row group's own dictionary page -/
def readGroup (g : List α × List Nat) : List (Option α) := g.2.map (g.1[·]?)

/-- every row group of every history reads back as its values, whatever the earlier row groups held -/
theorem groups_roundtrip {σ : Type} {m : Machine σ α} {I : σ → Prop} (h : m.Refines id I) :
    ∀ (groups : List (List (Op α))) (s : σ), I s → m.values s = [] →
    (∀ g ∈ groups, noReset g = true) →
    (writeGroups m s groups).map readGroup = groups.map (fun g => (batchesOf g).map some)
  | [], _, _, _, _ => rfl
  | g :: gs, s, hs, h0, hg => by
    obtain ⟨_, g2⟩ := C04DictReset.generation_roundtrip h s hs h0 g (hg g (by simp))
    have hI := (run_refines h g s hs).1
    obtain ⟨r1, r2⟩ := h.reset_ok _ hI
    have ih := groups_roundtrip h gs (m.reset (m.run s g).1) r1 r2 (fun x hx => hg x (by simp [hx]))
    simp only [writeGroups, List.map_cons]
    rw [ih]
    congr 1

/-- hashprobe dictionaries: int32, int64, float, double, uint32, uint64, be128 -/
theorem probe_groups_roundtrip (groups : List (List (Op α))) (hg : ∀ g ∈ groups, noReset g = true) :
    (writeGroups probeMachine (probeNew ([] : List α)) groups).map readGroup
      = groups.map (fun g => (batchesOf g).map some) :=
  groups_roundtrip probe_refines groups _ (probeNew_inv [] (by simp)) rfl hg

/-- Go-map dictionaries: fixed-len byte array and int96 (`byLen = false`), byte array (`true`) -/
theorem map_groups_roundtrip (byLen : Bool) (groups : List (List (Op α)))
    (hg : ∀ g ∈ groups, noReset g = true) :
    (writeGroups (mapMachine byLen) (mapNew ([] : List α)) groups).map readGroup
      = groups.map (fun g => (batchesOf g).map some) :=
  groups_roundtrip (map_refines byLen) groups _ (mapNew_inv [] (by simp)) rfl hg

end

example : ∀ g ∈ [[Op.insert [[1, 2], [2]], Op.insert [[3]]], [Op.insert [[3, 1]]]], noReset g = true := by
  decide

/-- VIOLATION witness on the variant (mechanism of seeded change C01-6a): `int96Dictionary.Reset`
    that keeps `d.hashmap`. Row group 1 holds 1, 2; row group 2 holds 3, 1: the stale map sends 1 to
    index 0, where row group 2's page holds 3. -/
theorem int96_reset_keeping_hashmap_breaks_groups :
    (writeGroups (mapMachineKeepingMap false) (mapNew ([] : List Nat))
        [[.insert [[1, 2]]], [.insert [[3, 1]]]]).map readGroup
      = [[some 1, some 2], [some 3, some 3]] := by
  decide

/-- the real `Reset` on the same row groups -/
theorem int96_reset_groups_right :
    (writeGroups (mapMachine false) (mapNew ([] : List Nat))
        [[.insert [[1, 2]]], [.insert [[3, 1]]]]).map readGroup
      = [[some 1, some 2], [some 3, some 1]] := by
  decide

end PqModel.Props.C01DictGroups
