import PqModel.AsyncTrace
import PqModel.AsyncFair
import PqModel.PoolProto
import PqModel.Registry
import PqModel.CasPublish
import PqModel.LazyInit
import PqModel.Commit
import PqModel.RowGroupProto

/-! # C15 — Documented concurrent use behaves like some serial execution (PARTIAL)

What is proved: the *protocol models* of the three places where parquet-go lets goroutines share
state on purpose — the asynchronous page reader (`page.go`), the lazily published page-index and
bloom-filter pointers (`file.go`), concurrently filled row groups committed in order (`writer.go`) —
behave like a serial execution in EVERY interleaving of their atomic steps.

What is NOT proved (and cannot be, in this kind of model): the Go memory model, `sync.Pool`, the
scheduler. A data race is outside every model; the race detector and the stress schedules of the
harness are search, not proof. Channel operations and `atomic.Pointer` operations are assumed to be
the atomic steps their documentation says they are. -/
namespace PqModel.Props.C15
open PqModel

/-! ## asyncPages -/
section async
open PqModel.Async

/-- In every reachable state of every interleaving, if `ReadPage` returns `(r, version v)` then
    `v` is the consumer's current version and `r` is exactly what a single goroutine would get from
    the wrapped reader after the same completed calls (`g.spec` = position established by the
    latest SeekToRow plus the pages delivered since; `spec_is_history` below says that is what the
    ghost is) — or a fatal error of the wrapped reader raised by a speculative operation
    (prefetch, or a seek that was superseded), which is sticky by design (page.go:292-294). -/
theorem async_seek_consistent (U : Under) {g g' : G} {r : Res} {v : Nat}
    (hr : Reachable U g) (hs : Step U g (.deliver r v) g') :
    v = g.cver ∧
    (r = (lsRead U g.spec).2 ∨ ∃ e, g.loc.ferr = some e ∧ r = .fatal e) ∧
    g'.spec = (lsRead U g.spec).1 :=
  deliver_correct hr hs

/-- Trace form, for a wrapped reader without fatal errors: along EVERY path, the sequence of results
    returned by `ReadPage` equals the results of the sequential reader run over the consumer's own
    call history; the ghost state is the sequential reader's state. -/
theorem async_seek_consistent_trace (U : Under) (hn : NoFatal U) {es : List Ev} {g : G}
    (hp : Path U init es g) :
    delivered es = seqRun U ⟨0, none, none⟩ (history es) ∧
    g.spec = seqState U ⟨0, none, none⟩ (history es) := by
  have := path_trace hn hp ⟨[], .nil⟩ rfl
  exact ⟨this.1, this.2.1⟩

/-- Stale pages: an item received with a version other than the consumer's is never returned
    (`deliver` is not enabled), the only consumer step is `drop`, and `drop` releases it. -/
theorem async_stale_dropped (U : Under) {g : G} {it : Item}
    (hg : g.cpc = .got it) (hv : it.ver ≠ g.cver) :
    (∀ r v g', ¬ Step U g (.deliver r v) g') ∧
    (∃ g', Step U g (.drop it.ver) g' ∧ g'.released = it.id :: g.released ∧ g'.handed = g.handed) := by
  constructor
  · intro r v g' h
    cases h with
    | deliver hc hv' => rw [hg] at hc; cases hc; exact hv hv'
  · exact ⟨_, .drop hg hv, rfl, rfl⟩

/-- Released exactly once: in every reachable state every produced item is in exactly one place —
    released, handed to the caller, offered by the producer, or received and not yet tested; hence
    nothing is released twice, nothing handed to the caller is released, and once `Close` has
    returned every item has been released or handed over exactly once (nothing leaks). -/
theorem async_released_exactly_once (U : Under) {g : G} (hr : Reachable U g) :
    (∀ i, (g.released ++ g.handed ++ heldId g ++ gotId g).count i = if i < g.nprod then 1 else 0) ∧
    (∀ i, g.released.count i + g.handed.count i ≤ 1) ∧
    (g.cpc = .closed → ∀ i, i < g.nprod → g.released.count i + g.handed.count i = 1) := by
  have ho := own_reachable hr
  have hc := (data_reachable hr).1
  refine ⟨ho, ?_, ?_⟩
  · intro i
    have := ho i
    simp only [owned, List.count_append] at this
    split at this <;> omega
  · intro hcl i hi
    have := ho i
    have hp := hc.closed_exit hcl
    simp only [owned, List.count_append, heldId, gotId, hp, hcl, if_pos hi] at this
    simpa using this

/-- No deadlock: in every reachable state in which the consumer is inside a call (`ReadPage`,
    `SeekToRow`, `Close`), some step other than the start of a new call is enabled: the protocol
    never reaches a state where both goroutines wait for each other. (When the consumer is between
    calls or closed, every call can start: `readBegin`/`seekPoll`/`closeBegin`, resp.
    `readClosed`/`seekClosed`/`closeAgain`.) Termination of a call additionally needs a fair
    scheduler and a fair `select`; that is not modelled. -/
theorem async_no_deadlock (U : Under) {g : G} (hr : Reachable U g)
    (h : g.cpc ≠ .idle ∧ g.cpc ≠ .closed) :
    ∃ e g', Step U g e g' ∧
      e ≠ .readBegin ∧ e ≠ .seekPoll true ∧ e ≠ .seekPoll false ∧ e ≠ .closeBegin :=
  enabled_when_in_call (data_reachable hr).1 h

/-- ReadPage can always complete (no livelock trap): from every reachable state in which the
    consumer waits in `ReadPage` there is a path of at most 7 steps of the producer and of the
    rendezvous (`quiet`: no new consumer call) followed by a delivery. (That a fair scheduler takes
    such a path is not modelled.) -/
theorem async_read_can_complete (U : Under) {g : G} (hr : Reachable U g) (hc : g.cpc = .reading) :
    ∃ es r v g', Path U g (es ++ [.deliver r v]) g' ∧ es.length ≤ 7 ∧ ∀ e ∈ es, quiet e = true :=
  read_can_complete hr hc

/-- Bounded form of termination: while `ReadPage` has not returned, the number of steps taken
    (by either goroutine) is at most `10 + 4·d`, `d` = number of stale pages dropped so far, i.e. the
    number of times the producer's `select` sent on `read` although its `seek` case was ready. -/
theorem async_read_wait_bounded (U : Under) {g g' : G} {es : List Ev} (hr : Reachable U g)
    (hc : g.cpc = .reading) (hp : Path U g es g') (hnd : ∀ e ∈ es, isDeliver e = false) :
    es.length ≤ 10 + 4 * drops es := by
  have h := (wait_bounded hr (Or.inl hc) hp hnd).1
  have := phi_le (U := U) (g := g)
  omega

/-- Termination under fairness of the `select`: in every infinite run that starts in a reachable
    state where the consumer waits in `ReadPage`, if stale pages are dropped only finitely often —
    the select does not starve its ready `seek` case forever; Go's select chooses uniformly at random
    among ready cases, so this holds with probability 1 — then `ReadPage` returns, within
    `11 + 4·N` steps (`N` = index after which no drop happens). A run of the transition system takes
    a step at every index, so the scheduler is assumed not to stop both goroutines (`async_no_deadlock`
    says a step is always available). -/
theorem async_read_terminates_fair (U : Under) (ρ : Run U) (hr : Reachable U (ρ.st 0))
    (hc : (ρ.st 0).cpc = .reading) (N : Nat) (hN : ∀ n, N ≤ n → isDrop (ρ.ev n) = false) :
    ∃ n, n < 11 + 4 * N ∧ isDeliver (ρ.ev n) = true := by
  apply Classical.byContradiction
  intro hno
  have hnd : ∀ e ∈ ρ.prefixEvents (11 + 4 * N), isDeliver e = false := by
    intro e he
    obtain ⟨m, hm, rfl⟩ := ρ.prefix_mem _ e he
    cases hd : isDeliver (ρ.ev m)
    · rfl
    · exact absurd ⟨m, hm, hd⟩ hno
  have hb := async_read_wait_bounded U hr hc (ρ.prefix_path _) hnd
  have hl := ρ.prefix_length (11 + 4 * N)
  have hd := ρ.prefix_drops N hN (11 + 4 * N)
  omega

/-- The exact gap: WEAK fairness is not enough. With a SeekToRow waiting in the channel, the
    consumer in `ReadPage` and the producer between two selects, there are delivery-free paths of
    every length `3n` along which the `seek` case is taken never, although it is ready at each of
    the `n` selects; it is not *continuously* enabled (it needs the producer to be in the select),
    so only strong fairness of the select (or its randomness) ends the wait. -/
theorem async_weak_fairness_insufficient (U : Under) (n : Nat) {g : G} {k v : Nat}
    (h1 : g.cpc = .reading) (h2 : g.ppc = .top) (h3 : g.seekCh = some (k, v)) (h4 : g.pver ≠ g.cver)
    (h5 : g.loc.row = none) :
    ∃ es g', Path U g es g' ∧ es.length = 3 * n ∧ (∀ e ∈ es, isDeliver e = false) ∧ drops es = n ∧
      g'.cpc = .reading ∧ g'.ppc = .top ∧ g'.seekCh = some (k, v) :=
  stale_loop n g k v h1 h2 h3 h4 h5

/-- The trace validator run by `pqdriver` (`async.validate`) accepts a log iff it is a path of this
    transition system. -/
theorem async_validate_iff_path (U : Under) (es : List Ev) (g : G) :
    validate U es = .ok g ↔ Path U init es g :=
  validate_ok_iff

/-! ### non-vacuity -/

/-- three pages of two rows each, then EOF; every seek succeeds -/
def U0 : Under :=
  { next := fun p => p + 2 - p % 2,
    rd := fun p => if p < 6 then .page else .eof,
    sk := fun _ => .ok }

example : NoFatal U0 := by
  constructor
  · intro k c; simp [U0]
  · intro p c; simp only [U0]; split <;> simp

/-- SeekToRow(4) before the first read: the first page returned is the page at row 4 -/
def log1 : List Ev :=
  [.seekPoll false, .seekSend 4 1, .initPass, .pollTake 4 1, .bodyCont, .bodyOffer (.page 4) 1,
   .readBegin, .handoff, .deliver (.page 4) 1]

example : ∃ g, Path U0 init log1 g ∧ delivered log1 = [.page 4] ∧ g.handed = [0] := by
  obtain ⟨g, hp, hq⟩ := check_path (U := U0) (es := log1) (p := fun g => decide (g.handed = [0])) (by decide)
  exact ⟨g, hp, by decide, by simpa using hq⟩

/-- the producer prefetches rows 0.. for version 0 while the consumer seeks to row 4: two stale pages
    are dropped and released (one of them is even the page at row 4, read for the old version), the
    page read for version 1 is returned, Close releases what the producer still offers -/
def log2 : List Ev :=
  [.readBegin, .initPass, .pollEmpty, .bodyOffer (.page 0) 0, .handoff, .deliver (.page 0) 0,
   .bodyOffer (.page 2) 0, .seekPoll false, .seekSend 4 1, .readBegin, .handoff, .drop 0,
   .bodyOffer (.page 4) 0, .handoff, .drop 0, .bodyOffer .eof 0, .selTake 4 1, .bodyCont,
   .bodyOffer (.page 4) 1, .handoff, .deliver (.page 4) 1, .bodyOffer .eof 1,
   .closeBegin, .closeRecv, .bodyOffer .eof 1, .selDone, .closeFinal, .closeEnd, .readClosed]

example : ∃ g, Path U0 init log2 g ∧ delivered log2 = [.page 0, .page 4] ∧
    history log2 = [.read, .seek 4, .read] ∧
    g.cpc = .closed ∧ g.handed = [4, 0] ∧ g.released = [6, 5, 3, 2, 1] ∧ g.nprod = 7 := by
  obtain ⟨g, hp, hq⟩ := check_path (U := U0) (es := log2)
    (p := fun g => decide (g.cpc = .closed ∧ g.handed = [4, 0] ∧ g.released = [6, 5, 3, 2, 1] ∧ g.nprod = 7))
    (by decide)
  exact ⟨g, hp, by decide, by decide, by simpa using hq⟩

/-- a log the validator rejects: returning the stale page (version 0 ≠ 1) is not a step -/
example : firstIllegal U0 [.readBegin, .initPass, .pollEmpty, .bodyOffer (.page 0) 0, .handoff,
    .deliver (.page 0) 0, .bodyOffer (.page 2) 0, .seekPoll false, .seekSend 4 1, .readBegin, .handoff,
    .deliver (.page 2) 0] = some 11 := by decide

/-- a state in which the consumer waits and the hypothesis of `async_no_deadlock` holds -/
example : ∃ g, Reachable U0 g ∧ g.cpc ≠ .idle ∧ g.cpc ≠ .closed := by
  obtain ⟨g, hp, hq⟩ := check_path (U := U0) (es := [.readBegin]) (p := fun g => decide (g.cpc = .reading)) (by decide)
  have : g.cpc = .reading := by simpa using hq
  exact ⟨g, ⟨_, hp⟩, by simp [this]⟩

/-- a reachable state with the consumer waiting in ReadPage while a stale page is on offer and a
    seek is pending (hypotheses of `async_read_can_complete`) -/
example : ∃ g, Reachable U0 g ∧ g.cpc = .reading ∧ g.seekCh = some (4, 1) := by
  obtain ⟨g, hp, hq⟩ := check_path (U := U0)
    (es := [.readBegin, .initPass, .pollEmpty, .bodyOffer (.page 0) 0, .handoff, .deliver (.page 0) 0,
            .bodyOffer (.page 2) 0, .seekPoll false, .seekSend 4 1, .readBegin])
    (p := fun g => decide (g.cpc = .reading ∧ g.seekCh = some (4, 1))) (by decide)
  exact ⟨g, ⟨_, hp⟩, by simpa using hq⟩

/-- a reachable state satisfying the hypotheses of `async_weak_fairness_insufficient` (and of
    `async_read_wait_bounded`) -/
example : ∃ g, Reachable U0 g ∧ g.cpc = .reading ∧ g.ppc = .top ∧ g.seekCh = some (4, 1) ∧
    g.pver ≠ g.cver ∧ g.loc.row = none := by
  obtain ⟨g, hp, hq⟩ := check_path (U := U0)
    (es := [.readBegin, .initPass, .pollEmpty, .bodyOffer (.page 0) 0, .handoff, .deliver (.page 0) 0,
            .seekPoll false, .seekSend 4 1, .readBegin])
    (p := fun g => decide (g.cpc = .reading ∧ g.ppc = .top ∧ g.seekCh = some (4, 1) ∧ g.pver ≠ g.cver ∧
      g.loc.row = none)) (by decide)
  exact ⟨g, ⟨_, hp⟩, by simpa using hq⟩

end async

/-! ## pooled objects: get → use → put -/
section pool
open PqModel.PoolProto

/-- For any number of goroutines, each running a program that respects the discipline "nothing after
    the put" (`disc`), in every reachable state of every interleaving (with `sync.Pool` handing out
    ANY pooled object or none, and the GC dropping pooled objects): an object may be touched by at
    most one goroutine (`Exclusive`: between its get and its put it has one owner), an object inside
    the pool is touched by nobody (`PoolQuiet`), and the put is the owner's last action on the
    object (`PutLast`). -/
theorem pool_exclusive (progs : List (List Op)) (hd : ∀ p ∈ progs, disc p = true) {s : St}
    (hr : Reach progs s) : Exclusive s ∧ PoolQuiet s ∧ PutLast s :=
  pinv_exclusive (pinv_reach hd hr)

/-- the three call sites respect the discipline, for every number of reads / columns and on the
    error paths (MIRROR programs, see PoolProto.lean) -/
theorem pool_sites_disciplined (n : Nat) (ok : Bool) :
    disc encodeProg = true ∧ disc (decodeProg n ok) = true ∧ disc (reconstructProg n) = true :=
  ⟨encodeProg_disc, decodeProg_disc n ok, reconstructProg_disc n⟩

/-- hence: any mix of concurrent Encode / Decode / Reconstruct calls keeps every pooled object
    exclusive -/
example (s : St) (hr : Reach [encodeProg, decodeProg 3 true, decodeProg 2 false, reconstructProg 4, encodeProg] s) :
    Exclusive s ∧ PoolQuiet s ∧ PutLast s :=
  pool_exclusive _ (by
    intro p hp
    simp only [List.mem_cons, List.mem_nil_iff, or_false] at hp
    rcases hp with rfl | rfl | rfl | rfl | rfl
    · exact encodeProg_disc
    · exact decodeProg_disc _ _
    · exact decodeProg_disc _ _
    · exact reconstructProg_disc _
    · exact encodeProg_disc) hr

/-- NEGATION for the first slip (`Encode` puts the writer back before its deferred cleanup has run):
    two goroutines; goroutine 0 allocates writer 0, touches it four times and puts it back with two
    touches still to come (an object in the pool that its former owner will touch: `¬ PoolQuiet`,
    `¬ PutLast`); goroutine 1 then gets writer 0 from the pool: both may touch it (`¬ Exclusive`). -/
theorem pool_slip_encode_not_exclusive :
    (∃ s, Reach [encodeSlip, encodeSlip] s ∧ ¬ PoolQuiet s ∧ ¬ PutLast s) ∧
    (∃ s, Reach [encodeSlip, encodeSlip] s ∧ ¬ Exclusive s) := by
  have s0 : Reach [encodeSlip, encodeSlip] (PoolProto.init [encodeSlip, encodeSlip]) := .init
  have s1 := s0.step (.getNew (i := 0) rfl)
  have s2 := s1.step (.use (i := 0) rfl)
  have s3 := s2.step (.use (i := 0) rfl)
  have s4 := s3.step (.use (i := 0) rfl)
  have s5 := s4.step (.use (i := 0) rfl)
  have s6 : Reach [encodeSlip, encodeSlip]
      { pool := [0], fresh := 1, gs := [.released 0 [.use, .use], .start encodeSlip] } :=
    s5.step (.put (i := 0) rfl)
  have s7 : Reach [encodeSlip, encodeSlip]
      { pool := [], fresh := 1, gs := [.released 0 [.use, .use], .holding 0 encodeSlip] } :=
    s6.step (.getPooled (i := 1) (o := 0) rfl (by decide))
  refine ⟨⟨_, s6, ?_, ?_⟩, ⟨_, s7, ?_⟩⟩
  · intro h; exact h 0 (.released 0 [.use, .use]) 0 rfl (by decide) (by decide)
  · intro h; exact absurd (h 0 0 [.use, .use] rfl) (by decide)
  · intro h
    exact h 0 1 (.released 0 [.use, .use]) (.holding 0 encodeSlip) 0 (by decide) rfl rfl (by decide) (by decide)

/-- NEGATION for the second slip (`Reconstruct` releases the column buffer before `reconstruct`
    reads it), one column write: goroutine 0 puts buffer 0 back with the read still to come,
    goroutine 1 acquires buffer 0 and is about to overwrite it. -/
theorem pool_slip_reconstruct_not_exclusive :
    ∃ s, Reach [reconstructSlip 1, reconstructSlip 1] s ∧ ¬ Exclusive s ∧ ¬ PutLast s := by
  have s0 : Reach [reconstructSlip 1, reconstructSlip 1] (PoolProto.init [reconstructSlip 1, reconstructSlip 1]) := .init
  have s1 := s0.step (.getNew (i := 0) rfl)
  have s2 := s1.step (.use (i := 0) rfl)
  have s3 := s2.step (.use (i := 0) rfl)
  have s4 := s3.step (.use (i := 0) rfl)
  have s5 := s4.step (.put (i := 0) rfl)
  have s6 : Reach [reconstructSlip 1, reconstructSlip 1]
      { pool := [], fresh := 1, gs := [.released 0 [.use], .holding 0 (reconstructSlip 1)] } :=
    s5.step (.getPooled (i := 1) (o := 0) rfl (by decide))
  refine ⟨_, s6, ?_, ?_⟩
  · intro h
    exact h 0 1 (.released 0 [.use]) (.holding 0 (reconstructSlip 1)) 0 (by decide) rfl rfl (by decide) (by decide)
  · intro h; exact absurd (h 0 0 [.use] rfl) (by decide)

/-- the slips are exactly what `disc` rejects -/
example : disc encodeSlip = false ∧ ∀ n, disc (reconstructSlip n) = false := by
  refine ⟨by decide, fun n => ?_⟩
  simp [reconstructSlip, disc, disc_replicate_append]

/-- Row readers: for any number of goroutines reading pages — of byte-array columns (values point
    into the pooled buffer, `detach`) or of other columns — with every release path (end of page,
    SeekToRow, Reset, Close) going through `clear()`, whatever number of rows each caller keeps after
    its reader let go of the page: a pooled values buffer that a caller's rows still point into is
    touched by that goroutine only and is never inside the pool (so no other goroutine's page decode
    can obtain and overwrite it). -/
theorem rowreader_pool_exclusive (cfg : List (Bool × Nat × Nat)) {s : St}
    (hr : Reach (cfg.map fun c => rowReaderProg c.1 true c.2.1 c.2.2) s) :
    Exclusive s ∧ PoolQuiet s ∧ PutLast s :=
  pool_exclusive _ (by
    intro p hp
    obtain ⟨c, _, rfl⟩ := List.mem_map.mp hp
    exact rowReaderProg_disc _ _ _) hr

example (s : St) (hr : Reach [rowReaderProg true true 3 5, rowReaderProg false true 2 0, rowReaderProg true true 0 1] s) :
    Exclusive s ∧ PoolQuiet s ∧ PutLast s :=
  rowreader_pool_exclusive [(true, 3, 5), (false, 2, 0), (true, 0, 1)] hr

/-- NEGATION for a release path that ignores `detach` (e.g. `Close` calling `Release` on the page it
    still holds): reader 0 decodes a page into buffer 0, hands out a row, closes — buffer 0 is in
    the pool while the caller's row still points into it (`¬ PoolQuiet`, `¬ PutLast`); reader 1 of
    another goroutine then obtains buffer 0 for its own page: both touch it (`¬ Exclusive`). -/
theorem rowreader_close_slip_not_exclusive :
    let slip := rowReaderProg true false 0 1
    (∃ s, Reach [slip, slip] s ∧ ¬ PoolQuiet s ∧ ¬ PutLast s) ∧
    (∃ s, Reach [slip, slip] s ∧ ¬ Exclusive s) := by
  intro slip
  have s0 : Reach [slip, slip] (PoolProto.init [slip, slip]) := .init
  have s1 := s0.step (.getNew (i := 0) rfl)
  have s2 := s1.step (.use (i := 0) rfl)
  have s3 : Reach [slip, slip] { pool := [0], fresh := 1, gs := [.released 0 [.use], .start slip] } :=
    s2.step (.put (i := 0) rfl)
  have s4 : Reach [slip, slip] { pool := [], fresh := 1, gs := [.released 0 [.use], .holding 0 slip] } :=
    s3.step (.getPooled (i := 1) (o := 0) rfl (by decide))
  refine ⟨⟨_, s3, ?_, ?_⟩, ⟨_, s4, ?_⟩⟩
  · intro h; exact h 0 (.released 0 [.use]) 0 rfl (by decide) (by decide)
  · intro h; exact absurd (h 0 0 [.use] rfl) (by decide)
  · intro h
    exact h 0 1 (.released 0 [.use]) (.holding 0 slip) 0 (by decide) rfl rfl (by decide) (by decide)

/-- the slip is exactly what `disc` rejects, for every page length and every number of kept rows -/
example : ∀ nRead nKept, disc (rowReaderProg true false nRead (nKept + 1)) = false := rowReaderSlip_disc

/-- Row readers over VIEWS of row groups (`ConvertRowGroup` with moved columns, nested views): the
    page in the reader's hand is a chain of wrappers around the decoded page. If every wrapper
    forwards `ReleaseAndDetachValues` (convert.go:1188-1190), the statement of
    `rowreader_pool_exclusive` holds for any number of goroutines, any chains, any number of kept rows. -/
theorem rowreader_views_pool_exclusive (cfg : List (List Bool × Bool × Nat × Nat))
    (hw : ∀ c ∈ cfg, ∀ w ∈ c.1, w = true) {s : St}
    (hr : Reach (cfg.map fun c => viewReaderProg c.1 c.2.1 c.2.2.1 c.2.2.2) s) :
    Exclusive s ∧ PoolQuiet s ∧ PutLast s :=
  pool_exclusive _ (by
    intro p hp
    obtain ⟨c, hc, rfl⟩ := List.mem_map.mp hp
    exact viewReaderProg_disc _ (hw c hc) _ _ _) hr

example (s : St) (hr : Reach [viewReaderProg [true, true] true 3 5, viewReaderProg [] false 2 0] s) :
    Exclusive s ∧ PoolQuiet s ∧ PutLast s :=
  rowreader_views_pool_exclusive [([true, true], true, 3, 5), ([], false, 2, 0)] (by decide) hr

/-- NEGATION for a wrapper that answers `ReleaseAndDetachValues` with a plain `Release` of the page
    it wraps (seed C15-5a: `convertedPage`), under a wrapper that forwards correctly: the program of
    such a reader IS the program of a release path that ignores `detach`, so the rows a caller kept
    point into a buffer that is in the pool and that another goroutine's reader obtains. -/
theorem rowreader_wrapper_slip_not_exclusive :
    let slip := viewReaderProg [true, false] true 0 1
    (∃ s, Reach [slip, slip] s ∧ ¬ PoolQuiet s ∧ ¬ PutLast s) ∧
    (∃ s, Reach [slip, slip] s ∧ ¬ Exclusive s) :=
  rowreader_close_slip_not_exclusive

/-- one such wrapper anywhere in a chain is exactly what `disc` rejects -/
example : ∀ ws, false ∈ ws → ∀ nRead nKept, disc (viewReaderProg ws true nRead (nKept + 1)) = false :=
  viewReaderSlip_disc

end pool

/-! ## process-wide registries -/
section registry
open PqModel.Registry

/-- `getBufioReaderPool` as it is (every goroutine takes the lock first: `fast = false`), any number
    of goroutines and keys, every interleaving: no map write ever overlaps another map access
    (no `concurrent map read and map write`), and the registry is linearizable as a
    lookup-or-insert: a returned value is the table's value for the key, a key's value never changes
    once set, so all goroutines asking for one key get one pool. -/
theorem registry_linearizable (keys : List (Nat × Bool)) (hk : ∀ kf ∈ keys, kf.2 = false) {s : St}
    (hr : Reach keys s) :
    ¬ Conflict s ∧
    (∀ (i : Nat) k r, s.gs[i]? = some ⟨k, .done r⟩ → s.table k = some r) ∧
    (∀ (i j : Nat) k r r', s.gs[i]? = some ⟨k, .done r⟩ → s.gs[j]? = some ⟨k, .done r'⟩ → r = r') ∧
    (∀ s' k v, Step s s' → s.table k = some v → s'.table k = some v) := by
  have hi := rinv_reach hk hr
  refine ⟨rinv_no_conflict hi, fun i k r h => hi.res i k r (Or.inr h), ?_, fun s' k v h => table_stable hi h⟩
  intro i j k r r' h1 h2
  have a := hi.res i k r (Or.inr h1)
  have b := hi.res j k r' (Or.inr h2)
  rw [a] at b; exact Option.some.inj b

/-- hypotheses satisfiable: three goroutines, two of them asking for the same size -/
example : ∀ kf ∈ [(4096, false), (512, false), (4096, false)], kf.2 = false := by decide

/-- NEGATION for the unlocked fast path (broken double-checked locking): goroutine 0 (size 1) takes
    the lock, misses and is inside the map write; goroutine 1 (a never-seen size 2) begins its
    unlocked read: a map read concurrent with a map write. -/
theorem registry_fast_path_conflict : ∃ s, Reach [(1, true), (2, true)] s ∧ Conflict s := by
  have s0 : Reach [(1, true), (2, true)] (Registry.init [(1, true), (2, true)]) := .init
  have s1 := s0.step (.startFast (i := 0) rfl)
  have s2 := s1.step (.fastMiss (i := 0) rfl rfl)
  have s3 := s2.step (.lock (i := 0) rfl rfl)
  have s4 := s3.step (.beginRead (i := 0) rfl)
  have s5 := s4.step (.readMiss (i := 0) rfl rfl)
  have s6 := s5.step (.beginWrite (i := 0) rfl)
  have s7 := s6.step (.startFast (i := 1) rfl)
  exact ⟨_, s7, 0, 1, ⟨1, .writing 0⟩, ⟨2, .fastRead⟩, by decide, rfl, rfl, by decide, Or.inl (by decide)⟩

end registry

/-! ## lazily published pointers -/
section cas
open PqModel.CasPublish

/-- Any number `k` of goroutines, any interleaving, any pre-stored value: all readers that return a
    pointer return the SAME pointer, namely the content of the cell; the cell is written at most
    once (a published value is never replaced) and a reader's result never changes. -/
theorem cas_publish_unique (k : Nat) (c0 : Option Nat) {s : St} (hr : Reach k c0 s) :
    (∀ (i j : Nat) p q, s.readers[i]? = some (.done (some p)) → s.readers[j]? = some (.done (some q)) → p = q) ∧
    (∀ (i : Nat) p, s.readers[i]? = some (.done (some p)) → s.cell = some p) ∧
    (∀ s' p, Step s s' → s.cell = some p → s'.cell = some p) ∧
    (∀ s' (i : Nat) r, Step s s' → s.readers[i]? = some (.done r) → s'.readers[i]? = some (.done r)) ∧
    s.readers.length = k := by
  have hl : s.readers.length = k := by
    induction hr with
    | init => simp [CasPublish.init]
    | step _ hs ih => rw [readers_length hs]; exact ih
  have hi := pinv_reach hr
  refine ⟨?_, hi.1, fun s' p h hc => cell_stable h hc, fun s' i r h hd => done_stable h hd, hl⟩
  intro i j p q h1 h2
  have a := hi.1 i p h1
  have b := hi.1 j q h2
  rw [a] at b; exact Option.some.inj b

/-- three readers race: reader 0 and 1 both miss and both compute; 1 wins the CAS, 0 loses and reloads,
    2 arrives late and hits: all three return pointer 2 (reader 1's allocation) -/
example : ∃ s, Reach 3 none s ∧ s.readers = [.done (some 2), .done (some 2), .done (some 2)] ∧ s.cell = some 2 := by
  have s0 : Reach 3 none (CasPublish.init 3 none) := .init
  have s1 := s0.step (.load1Miss (i := 0) rfl rfl)
  have s2 := s1.step (.load1Miss (i := 1) rfl rfl)
  have s3 := s2.step (.computeOk (i := 0) rfl)
  have s4 := s3.step (.computeOk (i := 1) rfl)
  have s5 := s4.step (.casWin (i := 1) (m := 2) rfl rfl)
  have s6 := s5.step (.casLose (i := 0) (m := 1) (p := 2) rfl rfl)
  have s7 := s6.step (.load2 (i := 0) rfl)
  have s8 := s7.step (.load1Hit (i := 2) (p := 2) rfl rfl)
  exact ⟨_, s8, rfl, rfl⟩

end cas

/-! ## once-guarded lazy loads (gzip bloom filter bits, schema state) -/
section once
open PqModel.OnceLoad

/-- The lazily loaded gzip bloom filter as it is (`sync.Once`: a late caller returns from `Do` only
    after the first caller's run has completed), any number `k` of concurrent `Check` calls on one
    column chunk, every interleaving: every caller answers from the loaded content `v` — what a
    serial execution answers —, the loader body runs at most once, no caller reads the captured
    variables while the loader is still writing them, and while some caller has not returned some
    step is enabled (callers that wait, wait for a loader that can finish). -/
theorem once_load_serial (v k : Nat) {s : St} (hr : Reach true v k s) :
    (∀ (i : Nat) r, s.cs[i]? = some (.done r) → r = some v) ∧
    s.loads ≤ 1 ∧
    ¬ Conflict s ∧
    (∀ (i : Nat) pc, s.cs[i]? = some pc → (∀ r, pc ≠ .done r) → ∃ s', Step true v s s') ∧
    s.cs.length = k := by
  have hl : s.cs.length = k := by
    induction hr with
    | init => simp [OnceLoad.init]
    | step _ hs ih => rw [cs_length hs]; exact ih
  have hi := oinv_reach hr
  refine ⟨hi.res, ?_, oinv_no_conflict hi, fun i pc h hn => progress hi h hn, hl⟩
  rcases hg : s.guard with _ | _ | _
  · have := (hi.idle hg).1; omega
  · have := (hi.run hg).1; omega
  · have := (hi.fin hg).1; omega

/-- non-vacuity: three callers; caller 1 loads, caller 0 arrives during the load and has no step of
    its own until the load is over, caller 2 arrives afterwards: all three answer from content 42 -/
example : ∃ s, Reach true 42 3 s ∧ s.cs = [.done (some 42), .done (some 42), .done (some 42)] ∧ s.loads = 1 := by
  have s0 : Reach true 42 3 (OnceLoad.init 3) := .init
  have s1 := s0.step (.first (i := 1) rfl rfl)
  have s2 := s1.step (.finish (i := 1) rfl)
  have s3 := s2.step (.late (i := 0) rfl rfl)
  have s4 := s3.step (.probe (i := 0) rfl)
  have s5 := s4.step (.probe (i := 1) rfl)
  have s6 := s5.step (.late (i := 2) rfl rfl)
  have s7 := s6.step (.probe (i := 2) rfl)
  exact ⟨_, s7, rfl, rfl⟩

/-- NEGATION for a guard that does not make late callers wait (a flag set by compare-and-swap in
    front of the loader instead of `sync.Once`): caller 0 takes the flag and is inside the loader,
    caller 1 falls through and probes the variables — a read concurrent with the loader's write — and
    answers from their zero values (`none`: a nil filter, i.e. io.EOF or a stale block), which no
    serial execution does. The loader still runs once: counting loads does not reveal the slip. -/
theorem once_flag_slip_not_serial :
    (∃ s, Reach false 42 2 s ∧ Conflict s) ∧
    (∃ s, Reach false 42 2 s ∧ s.cs[1]? = some (.done none) ∧ s.loads = 1) := by
  have s0 : Reach false 42 2 (OnceLoad.init 2) := .init
  have s1 := s0.step (.first (i := 0) rfl rfl)
  have s2 := s1.step (.lateNoWait (i := 1) rfl rfl rfl)
  have s3 := s2.step (.probe (i := 1) rfl)
  exact ⟨⟨_, s2, 0, 1, by decide, rfl, rfl⟩, ⟨_, s3, rfl, rfl⟩⟩

end once

/-! ## copy-on-write caches (struct field cache, schema write-function cache) -/
section cow
open PqModel.CowCache

/-- The copy-on-write caches as they are (the new outer map is stored after the new table has been
    filled), any number of goroutines, any keys (equal or not), tables of any size, every
    interleaving: every goroutine finds all `size` fields of its type, whether it built the table
    itself or found it in the cache; nobody reads a table that is still being filled; every table
    reachable from the published map is complete. -/
theorem cow_cache_complete (size : Nat) (keys : List Nat) {s : St} (hr : Reach false size keys s) :
    (∀ (i : Nat) k r, s.gs[i]? = some ⟨k, .done r⟩ → r = size) ∧
    ¬ Conflict size s ∧
    (∀ kt ∈ s.pub, s.filled kt.2 = size) := by
  have hi := cinv_reach hr
  exact ⟨hi.res, cinv_no_conflict hi, hi.pubC⟩

/-- non-vacuity: two goroutines with the same never-seen type (3 fields) both miss and both build a
    table; a third arrives after the first Store and hits: all three find 3 fields -/
example : ∃ s, Reach false 3 [7, 7, 7] s ∧
    s.gs = [⟨7, .done 3⟩, ⟨7, .done 3⟩, ⟨7, .done 3⟩] ∧ s.pub.lookup 7 = some 1 := by
  have s0 : Reach false 3 [7, 7, 7] (CowCache.init [7, 7, 7]) := .init
  have s1 := s0.step (.loadMiss (i := 0) rfl rfl)
  have s2 := s1.step (.loadMiss (i := 1) rfl rfl)
  have s3 := s2.step (.alloc (i := 0) rfl)
  have s4 := s3.step (.alloc (i := 1) rfl)
  have s5 := s4.step (.fill (i := 0) rfl (by decide) (by decide))
  have s6 := s5.step (.fill (i := 0) rfl (by decide) (by decide))
  have s7 := s6.step (.fill (i := 0) rfl (by decide) (by decide))
  have s8 := s7.step (.filled (i := 0) rfl (by decide))
  have s9 := s8.step (.store (i := 0) rfl)
  have s10 := s9.step (.loadHit (i := 2) (t := 0) rfl rfl)
  have s11 := s10.step (.fill (i := 1) rfl (by decide) (by decide))
  have s12 := s11.step (.fill (i := 1) rfl (by decide) (by decide))
  have s13 := s12.step (.fill (i := 1) rfl (by decide) (by decide))
  have s14 := s13.step (.filled (i := 1) rfl (by decide))
  have s15 := s14.step (.store (i := 1) rfl)
  have s16 := s15.step (.use (i := 0) rfl)
  have s17 := s16.step (.use (i := 1) rfl)
  have s18 := s17.step (.use (i := 2) rfl)
  exact ⟨_, s18, rfl, rfl⟩

/-- NEGATION for storing the new outer map before the table is filled: goroutine 0 misses, allocates,
    stores and has inserted one of two fields when goroutine 1 (same type) hits the cache: it reads the
    table while goroutine 0 writes it (`concurrent map read and map write`), and finds 1 field of 2 —
    the other is written as null/zero. -/
theorem cow_store_before_fill_incomplete :
    (∃ s, Reach true 2 [7, 7] s ∧ Conflict 2 s) ∧
    (∃ s, Reach true 2 [7, 7] s ∧ s.gs[1]? = some ⟨7, .done 1⟩) := by
  have s0 : Reach true 2 [7, 7] (CowCache.init [7, 7]) := .init
  have s1 := s0.step (.loadMiss (i := 0) rfl rfl)
  have s2 := s1.step (.alloc (i := 0) rfl)
  have s3 := s2.step (.storeEarly (i := 0) rfl rfl)
  have s4 := s3.step (.fill (i := 0) rfl (by decide) (by decide))
  have s5 := s4.step (.loadHit (i := 1) (t := 0) rfl rfl)
  have s6 := s5.step (.use (i := 1) rfl)
  exact ⟨⟨_, s5, 0, 1, 7, 7, _, 0, 1, true, by decide, rfl, by decide, rfl⟩, ⟨_, s6, rfl⟩⟩

end cow

/-! ## concurrently filled row groups -/
section commit
open PqModel.Commit

/-- For every writer whose write calls touch only their own row group (`fillStep`) and whose
    `Commit` appends that row group to the file (`commitStep`), and every schedule that follows the
    documentation (`WF`: commits in order `0 … n-1`, a row group is not written after its commit;
    writes on different row groups and commits of other row groups interleave ARBITRARILY):
    the file equals the file produced by one goroutine that fills and commits the row groups one
    after the other (`serialSched`), for every initial state. -/
theorem commit_serial {R F X : Type} (fillStep : R → X → R) (commitStep : F → R → F) (r0 : R)
    (n : Nat) (es : List (Ev X)) (hw : WF 0 n es) (s : St R F) :
    (run fillStep commitStep r0 s es).file =
      (run fillStep commitStep r0 s (serialSched es 0 n)).file := by
  rw [run_file fillStep commitStep r0 hw s, run_serialSched]
  simp

/-- two row groups filled in an interleaved order (and rg 1 still being written while rg 0 commits)
    give the same bytes and offsets as the serial order -/
def sched : List (Ev (List Nat)) :=
  [.fill 1 [7, 7], .fill 0 [1], .fill 1 [8], .fill 0 [2, 2], .commit 0, .fill 1 [9], .commit 1]

example : WF 0 2 sched :=
  .fill (.fill (.fill (.fill (.commit (by decide) (.fill (.commit (by decide) .nil rfl)) rfl))))

example :
    (run fillPage commitBuf ⟨[], []⟩ ⟨fun _ => ⟨[], []⟩, ⟨[], []⟩⟩ sched).file =
      { bytes := [1, 2, 2, 7, 7, 8, 9], groups := [(0, [0, 1]), (3, [3, 5, 6])] } := by decide

example : serialSched sched 0 2 =
    [.fill 0 [1], .fill 0 [2, 2], .commit 0, .fill 1 [7, 7], .fill 1 [8], .fill 1 [9], .commit 1] := by
  decide

end commit

/-! ## row group writers: BeginRowGroup / fill / Flush / Commit / reuse, with AAD ordinals -/
section rowgroups
open PqModel.RowGroupProto

/-- For EVERY history of calls on an encrypting writer — any number of row group writers created at
    any time, rows written to them and page boundaries (`rg.Flush`, full page buffers) in any
    interleaving, Commits in any order and any number of times per row group writer (reuse after
    Commit), rows written through the parent writer, parent page boundaries and parent flushes in
    between — the file produced by the MIRROR of writer.go
    (a) holds, row group by row group, exactly the rows that the SPEC machine puts there: the rows
        written to a row group writer since its previous Commit form one row group at its Commit,
        preceded by the parent's pending rows, in commit order — the result of the serial execution
        in which every row group is filled in one piece right before its Commit; and
    (b) is readable: every page of the j-th row group was sealed with row-group ordinal j, the
        ordinal the reader puts into the AAD. -/
theorem rowgroups_serial_readable {X : Type} (es : List (Ev X)) :
    (run true es).groups.map content = (srun es).out ∧ readable (run true es).groups = true :=
  ⟨(sim_run es).groups_out, (sim_run es).groups_ok⟩

/-- "Concurrent result = some serial order", at the level of schedules: the file written by ANY
    history equals (row group by row group) the file written by its serial schedule `serialize`, in
    which one goroutine writes the rows of each row group in one block immediately before that row
    group's Commit (calls of the coordinating goroutine in their original order). -/
theorem rowgroups_equal_serial_schedule {X : Type} (es : List (Ev X)) :
    (run true es).groups.map content = (run true (serialize [] es)).groups.map content := by
  rw [(rowgroups_serial_readable es).1, (rowgroups_serial_readable (serialize [] es)).1, srun_serialize]

example : serialize [] ([.begin, .begin, .fill 1 7, .fill 0 1, .flush 1, .fill 1 8, .commit 0, .fill 0 2,
      .commit 1, .fill 1 9, .commit 0] : List (Ev Nat)) =
    [.begin, .begin, .fill 0 1, .commit 0, .fill 1 7, .fill 1 8, .commit 1, .fill 0 2, .commit 0] := by decide

/-- between Commits a row group writer of an encrypting writer never seals a page (its values wait
    for the ordinal), and the parent's own row group always carries the next ordinal -/
theorem rowgroups_wait_for_ordinal {X : Type} (es : List (Ev X)) :
    (∀ r ∈ (run true es).rgs, r.await = true ∧ r.pages = []) ∧
    (run true es).own.ord = (run true es).groups.length :=
  ⟨(sim_run es).rgs_wait, (sim_run es).own_ord⟩

/-- A `WriteRows` on one row group writer commutes with every call on another row group writer
    (WriteRows, page boundary, Commit) and with every call on the parent writer: the state reached
    does not depend on how the goroutines filling different row groups interleave. Holds for the
    mirror and for the slip. -/
theorem rowgroups_fill_commutes {X : Type} (restore : Bool) (w : W X) (i : Nat) (x : X) (e : Ev X)
    (he : touches i e = false) :
    step restore (step restore w (.fill i x)) e = step restore (step restore w e) (.fill i x) :=
  step_fill_comm restore w i x e he

/-- non-vacuity: two row group writers, reused for a second round with a page boundary inside the
    fill, and rows through the parent in between -/
example : (run true ([.begin, .begin, .fill 0 10, .fill 1 20, .write 5, .commit 0, .commit 1,
      .fill 0 11, .flush 0, .fill 0 12, .fill 1 21, .flush 1, .commit 1, .commit 0] : List (Ev Nat))).groups =
    [[(0, [5])], [(1, [10])], [(2, [20])], [(3, [21])], [(4, [11, 12])]] := by decide

example : touches 0 (.commit 1 : Ev Nat) = false ∧ touches 0 (.wflush : Ev Nat) = false := by decide

/-- NEGATION for the slip (writer.go:1543 not restoring `awaitOrdinal` after Commit): two row group
    writers, committed once and filled again with a page boundary inside the fill — the pages of the
    second round are sealed with the ordinals guessed at the previous Commit (1 and 2) but end up in
    row groups 2 and 3: the file holds the right rows and does not decrypt. One row group writer
    reused alone is not affected (its guess is right). -/
theorem rowgroups_slip_unreadable :
    readable (run false slipSchedule).groups = false ∧
    (run false slipSchedule).groups.map content = (srun slipSchedule).out ∧
    readable (run false ([.begin, .fill 0 1, .commit 0, .fill 0 2, .flush 0, .fill 0 3, .commit 0] : List (Ev Nat))).groups = true := by
  decide

end rowgroups

end PqModel.Props.C15
