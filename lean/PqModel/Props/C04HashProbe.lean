import PqModel.HashProbeFirstSeen
import PqModel.HashProbeGroup

/-! # C04 (part "hashprobe", round 6) — the probing tables behind dictionary `Insert`

`hashprobe/hashprobe.go` (table32 / table64 / table128: `multiProbeNNDefault`, `grow`, `probeArray`, `reset`) is
mirrored in `PqModel/HashProbe.lean` as ONE open-addressing table generic in the group size `G` (7, 4, 1).
The seeded hash function is an arbitrary function `h : α → Nat` (a new arbitrary one at every growth), the
float sizing `tableSizeAndMaxLen` an arbitrary function `sz` with `SizingOk` (power of two, room for the
requested values, threshold within the room).

* `probe_refines_first_seen`: for EVERY table that represents the keys `d` in numbering order, every batch of
  keys, every hash function and every new seed, `probeArray` terminates, answers exactly
  `Plain.insertAll d keys` (a known key keeps its number, a new key gets the table's size: the oracle the
  dictionary machines of `DictReset.lean` are built on) and represents the new key list, across growth.
* `session_first_seen`: from a new table, any sequence of Probe calls answers, for each key, the index of its
  first occurrence in the whole history (`dictFind` in the de-duplicated history).
* `reset_is_empty`, `new_table_is_empty`: `Reset` / `NewTable` represent the empty numbering.
* `batch_loop_is_one_pass`: the 256-key batch loop equals one pass over all keys.
* `group_step_is_prefix_step`, `slot128_step_is_prefix_step`: the loop body on the Go group struct (scan of all
  slots, `index < n`) and on a table128 slot is the step the table model takes on the occupied prefix.
* the two hypotheses that carry termination are necessary: a table whose length is not a power of two, or a
  full table probed with a new key, loops forever (`needs_power_of_two`, `full_table_loops`: `none` of the
  fuel-bounded mirror, fuel = number of groups, every group visited). -/
namespace PqModel.Props.C04HashProbe
open PqModel.Plain PqModel.HashProbe

section
variable {α : Type} [DecidableEq α]

/-- one Probe call, any state, any keys, any hash function / new seed, with or without growth -/
theorem probe_refines_first_seen {G : Nat} {sz : Nat → Nat × Nat} (hsz : SizingOk G sz) (h' : α → Nat)
    (t : Table α) (d : List α) (ti : TInv G t (numbering d)) (keys : List α) :
    ∃ t', probeArray G sz h' t keys = some (t', (insertAll d keys).2)
      ∧ TInv G t' (numbering (insertAll d keys).1) := by
  have := probeArray_refines hsz h' ti keys
  rwa [specProbe_numbering] at this

/-- `NewInt32Table(cap, maxLoad)` (any of the tables) represents no key -/
theorem new_table_is_empty {G : Nat} {sz : Nat → Nat × Nat} (hsz : SizingOk G sz) (h : α → Nat) (cap : Nat) :
    TInv G (mkTable sz h cap) (numbering ([] : List α)) := mkTable_inv hsz h cap

/-- `Reset()` of any table represents no key (whatever it held) -/
theorem reset_is_empty {G : Nat} (t : Table α) (S : List (α × Nat)) (ti : TInv G t S) :
    TInv G (reset t) (numbering ([] : List α)) := reset_inv ti

/-- a whole history of Probe calls on a new table: every call terminates and the answers, call by call, are
    for each key the position of its first occurrence in the history -/
theorem session_first_seen {G : Nat} {sz : Nat → Nat × Nat} (hsz : SizingOk G sz) (h : α → Nat) (cap : Nat)
    (calls : List ((α → Nat) × List α)) :
    ∃ answers, session G sz (mkTable sz h cap) calls = some answers
      ∧ answers.map List.length = (calls.map Prod.snd).map List.length
      ∧ answers.flatten.map some
          = (calls.map Prod.snd).flatten.map (dictFind (calls.map Prod.snd).flatten.eraseDups) := by
  refine ⟨_, session_refines hsz calls _ _ (mkTable_inv hsz h cap), ?_, ?_⟩
  · exact (specSession_numbering (calls.map Prod.snd) []).2
  · have := (specSession_numbering (calls.map Prod.snd) ([] : List α)).1
    simp only [numbering, List.zipIdx_nil] at this
    rw [this, insertAll_find, insertAll_eraseDups _ _ List.nodup_nil, List.nil_append]

/-- a session continued after `Reset` answers like a new table (what `Dictionary.Reset` relies on) -/
theorem session_after_reset {G : Nat} {sz : Nat → Nat × Nat} (hsz : SizingOk G sz) (t : Table α)
    (S : List (α × Nat)) (ti : TInv G t S) (calls : List ((α → Nat) × List α)) :
    session G sz (reset t) calls = some (specSession [] (calls.map Prod.snd)) :=
  session_refines hsz calls _ _ (reset_inv ti)

/-- the batch loop of `probeArray` (256 keys at a time) is one pass of `multiProbe` over all keys -/
theorem batch_loop_is_one_pass {G : Nat} (h : α → Nat) (gs : Groups α) (n : Nat) (keys : List α) :
    probeLoop G h keys.length gs n keys = multiProbe G gs n (keys.map fun k => (h k, k)) :=
  probeLoop_eq_multiProbe h _ gs n keys (Nat.le_refl _)

/-- the group of table32/table64 as the Go struct (all `G` slots scanned, `index < OnesCount32(bits)`): its
    loop body is the step the table model takes on the occupied prefix, and keeps the group well formed -/
theorem group_step_is_prefix_step (G : Nat) (g : ArrGroup α) (hw : g.WF G) (key : α) (numKeys : Nat) :
    (arrStep G g key numKeys).map ArrGroup.abs = prefStep G g.abs key numKeys
      ∧ ∀ g', arrStep G g key numKeys = .put g' → g'.WF G := arrStep_refines G g hw key numKeys

/-- a slot of table128 (`value+1`, 0 = empty) steps like a group of one entry -/
theorem slot128_step_is_prefix_step (s : α × Nat) (key : α) (tableLen : Nat) :
    (slotStep128 s key tableLen).map abs128 = prefStep 1 (abs128 s) key tableLen :=
  slotStep128_refines s key tableLen

end

example : ArrGroup.WF 4 ({ keys := [5, 0, 0, 0], vals := [0, 0, 0, 0], n := 1 } : ArrGroup Nat) :=
  ⟨rfl, rfl, by decide⟩

/-! ## the hypotheses are satisfiable, and the two that carry termination are necessary -/

/-- a sizing function of the required shape exists for every group size ≥ 1 (7, 4, 1 in the code) -/
example (G : Nat) (hG : 1 ≤ G) : SizingOk G (fun n => (2 ^ n, G * 2 ^ n)) := by
  intro n
  refine ⟨⟨n, rfl⟩, ?_, Nat.le_refl _⟩
  have := Nat.lt_two_pow_self (n := n)
  calc n ≤ 1 * 2 ^ n := by omega
    _ ≤ G * 2 ^ n := Nat.mul_le_mul_right _ hG

/-- a represented table exists (and the sessions below run from it) -/
example : TInv 7 (mkTable (fun n => (2 ^ n, 7 * 2 ^ n)) (fun k : Nat => k) 0) (numbering []) :=
  mkTable_inv (by
    intro n
    refine ⟨⟨n, rfl⟩, ?_, Nat.le_refl _⟩
    have := Nat.lt_two_pow_self (n := n)
    show n ≤ 7 * 2 ^ n
    omega) _ 0

/-- a concrete history with collisions (constant hash), repeats and two growths, groups of one entry -/
example : session 1 (fun n => (2 ^ n, 2 ^ n)) (mkTable (fun n => (2 ^ n, 2 ^ n)) (fun _ : Nat => 5) 0)
    [(fun _ => 7, [10, 11, 10]), (fun _ => 3, [12, 11, 0, 0, 10])] = some [[0, 1, 0], [2, 1, 3, 3, 0]] := by
  decide

/-- three groups (not a power of two): `hash & 2` never reaches group 1, the only one with room -/
theorem needs_power_of_two :
    probeKey 1 ([[(10, 0)], [], [(11, 1)]] : Groups Nat) 2 0 12 = none := by decide

/-- a full table probed with a new key never stops (the growth threshold must stay within the room) -/
theorem full_table_loops :
    probeKey 1 ([[(10, 0)], [(11, 1)]] : Groups Nat) 2 0 12 = none := by decide

end PqModel.Props.C04HashProbe
