import PqModel.CompareRows
import PqModel.Props.C05Compare
import PqModel.Props.C09

/-! # C09, round 6: the merge theorems on the MIRRORED comparators of every leaf type

Until now `merge_sorted_complete_stable_any_comparator` / `dedupe_one_row_per_key_any_comparator` (Props/C09.lean)
took `Compare.Lawful c` as a hypothesis and were instantiated with `cmpRows` on nullable INTEGER keys only;
"`Type.Compare` of the key columns is integer order on the decoded keys" was the first entry of the trusted base.
`Props/C05Compare.lean` proved the per-type comparisons of compare.go / type_*.go lawful. This file composes:

MIRROR (PqModel/CompareRows.lean): `compareRowsFuncOf` over typed key columns (`KeyCol`: leaf type, descending,
nulls first, nullable, column index) with its two paths `cmpRowsIndexes` (positional arms) and `cmpRowsValues`
(`Type.Compare` + `CompareDescending` + `CompareNullsFirst/Last`), built from `typeCompare`, `armAscending`,
`armDescending` of CompareTypes.lean. SPEC-side auxiliary: `typeCompareT` (floats by their sign-magnitude key).

What is discharged: the comparator hypothesis of the merge / dedupe theorems, for single and compound keys of every
leaf type except FLOAT / DOUBLE unconditionally (be128 / UUID included: `compareBE128_lawful`), and for FLOAT / DOUBLE
keys on rows without NaN keys. What remains is stated by witnesses at the end: with a NaN key the comparator is not a
total preorder, the rank embedding (`comparator_is_rank_order`, the step that lets the reader mirror run on ranks)
is false, and "every adjacent pair ordered" no longer implies sorted. -/
namespace PqModel.Props.C09
open PqModel PqModel.Compare PqModel.CompareTypes PqModel.CompareRows PqModel.Merge PqModel.Stats

/-! ## `Type.Compare` of every non-float leaf type -/

/-- `Type.Compare` and both positional arms are total preorders on ALL values for every leaf type that does not
    read floats — be128 / UUID included, on values of any length (closes the `is128 = false` side condition of
    `C05.typeCompare_lawful_leaf`) -/
theorem typeCompare_lawful_nonfloat (t : LeafType) (hf : t.isFloat = false) :
    Lawful (typeCompare t) ∧ Lawful (armAscending t) ∧ Lawful (armDescending t) := by
  by_cases h128 : t.is128 = false
  · exact C05.typeCompare_lawful_leaf t hf h128
  · have base : Lawful (typeCompare t) := by
      have e : typeCompare t = onCol Val.be128 compareBE128 := by
        cases t <;> first | (exfalso; exact h128 rfl) | rfl
      exact e ▸ onCol_lawful _ compareBE128_lawful
    have e1 : armAscending t = typeCompare t := funext fun a => funext fun b => (C05.arms_are_typeCompare t a b).1
    have e2 : armDescending t = descending (typeCompare t) :=
      funext fun a => funext fun b => (C05.arms_are_typeCompare t a b).2
    exact ⟨base, e1 ▸ base, e2 ▸ descending_lawful base⟩

example : LeafType.uuid.isFloat = false ∧ (LeafType.int 8 false).isFloat = false ∧ LeafType.interval.isFloat = false := by
  decide

/-- the float-by-key companion is lawful for every leaf type, and IS `Type.Compare` on values that are not NaN -/
theorem typeCompareT_lawful (t : LeafType) : Lawful (typeCompareT t) := by
  by_cases hf : t.isFloat = false
  · have e : typeCompareT t = typeCompare t := by
      cases t <;> first | (exfalso; revert hf; decide) | rfl
    exact e ▸ (typeCompare_lawful_nonfloat t hf).1
  · cases t <;> first | (exfalso; exact hf rfl) | skip
    · exact onCol_lawful (fun v : Val => fKey 8 23 v.float) cmpInt_lawful
    · exact onCol_lawful (fun v : Val => fKey 11 52 v.double) cmpInt_lawful

theorem typeCompare_is_companion_off_nan (t : LeafType) (a b : Val)
    (ha : valNaN t a = false) (hb : valNaN t b = false) : typeCompare t a b = typeCompareT t a b :=
  typeCompare_eq_T t a b ha hb

/-! ## the row comparator `compareRowsFuncOf` -/

/-- the two paths of `compareRowsFuncOf` are the same function where the positional one applies (every leaf type,
    NaN included): which path the library picks never changes an answer -/
theorem positional_path_is_value_path (ks : List KeyCol) (h : ks.all (fun k => !k.optional) = true) :
    cmpRowsIndexes ks = cmpRowsValues ks := by
  induction ks with
  | nil => rfl
  | cons k ks ih =>
    simp only [List.all_cons, Bool.and_eq_true, Bool.not_eq_true'] at h
    have ih' := ih (by simpa using h.2)
    have e1 : armAscending k.typ = typeCompare k.typ :=
      funext fun a => funext fun b => (C05.arms_are_typeCompare k.typ a b).1
    have e2 : armDescending k.typ = descending (typeCompare k.typ) :=
      funext fun a => funext fun b => (C05.arms_are_typeCompare k.typ a b).2
    have hk : valueCmpWith typeCompare k =
        unwrapped (if k.desc then armDescending k.typ else armAscending k.typ) := by
      simp only [valueCmpWith, h.1, e1, e2, Bool.false_eq_true, if_false]
    funext a b
    have ihab := congrFun (congrFun ih' a) b
    unfold cmpRowsIndexes cmpRowsValues cmpRowsValuesWith at ihab ⊢
    simp only [List.map_cons]
    exact cmpLex_cons_congr (by rw [hk]) ihab

theorem compareRowsFuncOf_is_value_path (ks : List KeyCol) : compareRowsFuncOf ks = cmpRowsValues ks := by
  unfold compareRowsFuncOf
  split
  · next h => exact positional_path_is_value_path ks h
  · rfl

/-- one column: `Type.Compare` wrapped as compare.go:429-445 wraps it keeps the order laws -/
theorem valueCmp_lawful (tc : LeafType → Val → Val → Int) (k : KeyCol) (h : Lawful (tc k.typ)) :
    Lawful (valueCmpWith tc k) := by
  have hb : Lawful (if k.desc then descending (tc k.typ) else tc k.typ) := by
    split
    · exact descending_lawful h
    · exact h
  simp only [valueCmpWith]
  split
  · split
    · exact nullsFirst_lawful hb
    · exact nullsLast_lawful hb
  · exact onCol_lawful _ hb

theorem cmpRowsValuesWith_lawful (tc : LeafType → Val → Val → Int) (ks : List KeyCol)
    (h : ∀ k ∈ ks, Lawful (tc k.typ)) : Lawful (cmpRowsValuesWith tc ks) := by
  apply cmpLex_lawful
  intro c hc
  obtain ⟨k, hk, rfl⟩ := List.mem_map.mp hc
  exact onCol_lawful _ (valueCmp_lawful tc k (h k hk))

/-- **the comparator hypothesis of C09, discharged**: the function `compareRowsFuncOf` builds for ANY list of
    sorting columns whose leaf types read no floats — any mix of types, ascending / descending, nulls first / last,
    required / nullable, either code path — is a total preorder on all rows -/
theorem compareRowsFuncOf_total_preorder (ks : List KeyCol) (hf : ∀ k ∈ ks, k.typ.isFloat = false) :
    Lawful (compareRowsFuncOf ks) := by
  rw [compareRowsFuncOf_is_value_path]
  exact cmpRowsValuesWith_lawful typeCompare ks (fun k hk => (typeCompare_lawful_nonfloat k.typ (hf k hk)).1)

/-- a compound key over four kinds: UINT_32 descending, nullable STRING nulls first, UUID, nullable TIMESTAMP
    descending nulls last -/
def sampleKey : List KeyCol :=
  [⟨.int 32 false, true, false, false, 0⟩, ⟨.string, false, true, true, 1⟩, ⟨.uuid, false, false, false, 2⟩,
   ⟨.timestamp, true, false, true, 3⟩]

example : (∀ k ∈ sampleKey, k.typ.isFloat = false) ∧
    -- 0xFFFFFFFF is the LARGEST UINT_32, first in descending order; then null string first
    compareRowsFuncOf sampleKey [some ⟨0xFFFFFFFF#64, []⟩, none, some ⟨16#64, List.replicate 16 0⟩, none]
      [some ⟨1#64, []⟩, none, some ⟨16#64, List.replicate 16 0⟩, none] < 0 ∧
    compareRowsFuncOf sampleKey [some ⟨7#64, []⟩, none, some ⟨16#64, List.replicate 16 0⟩, none]
      [some ⟨7#64, []⟩, some ⟨1#64, [97]⟩, some ⟨16#64, List.replicate 16 0⟩, none] < 0 := by decide

/-! ## C09 on typed keys -/

/-- **C09 for typed key columns**: for every list of sorting columns of non-float leaf types, every number of inputs
    sorted by the library's comparator, every refill pattern and sequence of positive batch sizes, the merged rows
    are sorted by that comparator, are a permutation of the union of the inputs, and each input keeps its order.
    No hypothesis on the comparator is left. -/
theorem merge_sorted_complete_stable_typed_keys (ks : List KeyCol) (hf : ∀ k ∈ ks, k.typ.isFloat = false)
    (inputs : List (List TRow)) (refills : List (List Nat)) (batches : List Nat)
    (hs : ∀ l ∈ inputs, l.Pairwise (fun a b => compareRowsFuncOf ks a b ≤ 0)) (hpos : ∀ b ∈ batches, 1 ≤ b)
    (hlen : inputs.flatten.length < batches.length) :
    let out := mergeC (compareRowsFuncOf ks) inputs refills batches
    (out.map (orig inputs)).Pairwise (fun a b => compareRowsFuncOf ks a b ≤ 0) ∧
    (out.map (orig inputs)).Perm inputs.flatten ∧
    ∀ (i : Nat) (l : List TRow), inputs[i]? = some l → ((out.filter (fun r => r.inp == i)).map (orig inputs)) = l :=
  mergeC_sorted_complete_stable (compareRowsFuncOf_total_preorder ks hf) inputs refills batches hs hpos hlen

/-- … and duplicate dropping on typed keys: one row per key, whatever the batch boundaries -/
theorem dedupe_one_row_per_key_typed_keys (ks : List KeyCol) (hf : ∀ k ∈ ks, k.typ.isFloat = false)
    (L : List TRow) (hs : L.Pairwise (fun a b => compareRowsFuncOf ks a b ≤ 0)) (batches : List (List Row))
    (hb : batches.flatten = rankList (compareRowsFuncOf ks) L 0 L) :
    let out := (dedupeReader none batches).map (orig [L])
    out.Sublist L ∧ out.Pairwise (fun a b => compareRowsFuncOf ks a b < 0) ∧
      ∀ x ∈ L, ∃ y ∈ out, compareRowsFuncOf ks y x = 0 :=
  dedupeC_one_row_per_key (compareRowsFuncOf_total_preorder ks hf) L hs batches hb

/-- two inputs sorted by (STRING ascending, nullable INT64 descending nulls last) -/
def sampleStrKey : List KeyCol := [⟨.string, false, false, false, 0⟩, ⟨.int64, true, false, true, 1⟩]
def sampleStrInputs : List (List TRow) :=
  [[[some ⟨1#64, [97]⟩, some ⟨5#64, []⟩], [some ⟨2#64, [97, 98]⟩, none]],
   [[some ⟨1#64, [97]⟩, some ⟨0xFFFFFFFFFFFFFFFF#64, []⟩], [some ⟨1#64, [98]⟩, some ⟨0#64, []⟩]]]

example : (∀ k ∈ sampleStrKey, k.typ.isFloat = false) ∧
    (∀ l ∈ sampleStrInputs, l.Pairwise (fun a b => compareRowsFuncOf sampleStrKey a b ≤ 0)) ∧
    ((mergeC (compareRowsFuncOf sampleStrKey) sampleStrInputs [] [3, 3, 3, 3, 3]).map (fun r => (r.inp, r.seq))) =
      [(0, 0), (1, 0), (0, 1), (1, 1)] := by
  refine ⟨by decide, ?_, by decide⟩
  intro l hl
  simp only [sampleStrInputs, List.mem_cons, List.not_mem_nil, or_false] at hl
  rcases hl with rfl | rfl <;> decide

/-! ## FLOAT / DOUBLE keys: lawful exactly off NaN -/

/-- a row holds a NaN in one of the sorting columns -/
def rowNaN (ks : List KeyCol) (r : TRow) : Bool :=
  ks.any fun k => match cell r k.index with
    | some v => valNaN k.typ v
    | none => false

/-- rows without NaN keys -/
abbrev CleanRow (ks : List KeyCol) : Type := { r : TRow // rowNaN ks r = false }

instance (ks : List KeyCol) : Inhabited (CleanRow ks) :=
  ⟨⟨[], by
    have : ∀ l : List KeyCol, rowNaN l [] = false := by
      intro l; induction l with
      | nil => rfl
      | cons k l ih => simp only [rowNaN, List.any_cons, Bool.or_eq_false_iff] at ih ⊢; exact ⟨rfl, ih⟩
    exact this ks⟩⟩

theorem valueCmp_eq_companion (k : KeyCol) (x y : Option Val)
    (hx : ∀ v, x = some v → valNaN k.typ v = false) (hy : ∀ v, y = some v → valNaN k.typ v = false) :
    valueCmpWith typeCompare k x y = valueCmpWith typeCompareT k x y := by
  have hd : valNaN k.typ (default : Val) = false := by
    cases k.typ <;> first | rfl | decide
  have e : ∀ a b : Val, valNaN k.typ a = false → valNaN k.typ b = false →
      (if k.desc then descending (typeCompare k.typ) else typeCompare k.typ) a b =
      (if k.desc then descending (typeCompareT k.typ) else typeCompareT k.typ) a b := by
    intro a b ha hb
    have := typeCompare_eq_T k.typ a b ha hb
    split <;> simp only [descending, this]
  simp only [valueCmpWith]
  split
  · split <;> cases x <;> cases y <;> simp only [nullsFirst, nullsLast] <;> exact e _ _ (hx _ rfl) (hy _ rfl)
  · simp only [unwrapped, onCol]
    apply e
    · cases x
      · exact hd
      · exact hx _ rfl
    · cases y
      · exact hd
      · exact hy _ rfl

/-- on rows without NaN keys the library's comparator IS the lawful companion, column by column -/
theorem compareRowsFuncOf_eq_companion (ks : List KeyCol) (a b : TRow)
    (ha : rowNaN ks a = false) (hb : rowNaN ks b = false) :
    compareRowsFuncOf ks a b = cmpRowsValuesWith typeCompareT ks a b := by
  rw [compareRowsFuncOf_is_value_path]
  induction ks with
  | nil => rfl
  | cons k ks ih =>
    simp only [rowNaN, List.any_cons, Bool.or_eq_false_iff] at ha hb
    have ih' := ih ha.2 hb.2
    have hk := valueCmp_eq_companion k (cell a k.index) (cell b k.index)
      (fun v hv => by have := ha.1; rw [hv] at this; exact this)
      (fun v hv => by have := hb.1; rw [hv] at this; exact this)
    unfold cmpRowsValues cmpRowsValuesWith at ih' ⊢
    simp only [List.map_cons]
    exact cmpLex_cons_congr hk ih'

/-- **FLOAT / DOUBLE keys**: on the rows that hold no NaN in a sorting column, `compareRowsFuncOf` is a total
    preorder for EVERY list of sorting columns (floats and doubles among them, `-0.0 = +0.0`, infinities included) -/
theorem compareRowsFuncOf_total_preorder_off_nan (ks : List KeyCol) :
    Lawful (fun a b : CleanRow ks => compareRowsFuncOf ks a.1 b.1) := by
  have hl := cmpRowsValuesWith_lawful typeCompareT ks (fun k _ => typeCompareT_lawful k.typ)
  have e : (fun a b : CleanRow ks => compareRowsFuncOf ks a.1 b.1) =
      fun a b : CleanRow ks => cmpRowsValuesWith typeCompareT ks a.1 b.1 :=
    funext fun a => funext fun b => compareRowsFuncOf_eq_companion ks a.1 b.1 a.2 b.2
  rw [e]
  exact ⟨fun a => hl.refl _, fun a b => hl.flip _ _, fun a b d => hl.trans _ _ _⟩

/-- C09 for ANY typed key columns on inputs without NaN keys -/
theorem merge_sorted_complete_stable_float_keys_off_nan (ks : List KeyCol)
    (inputs : List (List (CleanRow ks))) (refills : List (List Nat)) (batches : List Nat)
    (hs : ∀ l ∈ inputs, l.Pairwise (fun a b => compareRowsFuncOf ks a.1 b.1 ≤ 0)) (hpos : ∀ b ∈ batches, 1 ≤ b)
    (hlen : inputs.flatten.length < batches.length) :
    let out := mergeC (fun a b : CleanRow ks => compareRowsFuncOf ks a.1 b.1) inputs refills batches
    (out.map (orig inputs)).Pairwise (fun a b => compareRowsFuncOf ks a.1 b.1 ≤ 0) ∧
    (out.map (orig inputs)).Perm inputs.flatten ∧
    ∀ (i : Nat) (l : List (CleanRow ks)), inputs[i]? = some l →
      ((out.filter (fun r => r.inp == i)).map (orig inputs)) = l :=
  mergeC_sorted_complete_stable (compareRowsFuncOf_total_preorder_off_nan ks) inputs refills batches hs hpos hlen

/-- a FLOAT key descending with a nullable DOUBLE key: -0.0 / +0.0 / infinity are clean rows -/
def sampleFloatKey : List KeyCol := [⟨.float, true, false, false, 0⟩, ⟨.double, false, true, true, 1⟩]

example : rowNaN sampleFloatKey [some ⟨0x80000000#64, []⟩, some ⟨0x7ff0000000000000#64, []⟩] = false ∧
    rowNaN sampleFloatKey [some ⟨0x7f800000#64, []⟩, none] = false ∧
    rowNaN sampleFloatKey [some ⟨0x7fc00000#64, []⟩, none] = true := by decide

/-! ## what remains: NaN keys -/

def f32Key : List KeyCol := [⟨.float, false, false, false, 0⟩]
def rowF32 (bits : BitVec 64) : TRow := [some ⟨bits, []⟩]

/-- with a NaN among the keys the comparator the library builds is NOT a total preorder: 2.0 = NaN = 1.0 yet
    2.0 > 1.0 — the hypothesis of every C09 theorem fails, on either code path -/
theorem nan_key_comparator_is_not_lawful :
    ¬ Lawful (compareRowsFuncOf f32Key) ∧ ¬ Lawful (cmpRowsValues f32Key) ∧ ¬ Lawful (cmpRowsIndexes f32Key) := by
  have w : ∀ c : TRow → TRow → Int, c (rowF32 0x40000000#64) (rowF32 0x7fc00000#64) ≤ 0 →
      c (rowF32 0x7fc00000#64) (rowF32 0x3f800000#64) ≤ 0 →
      ¬ c (rowF32 0x40000000#64) (rowF32 0x3f800000#64) ≤ 0 → ¬ Lawful c :=
    fun c h1 h2 h3 h => h3 (h.trans _ _ _ h1 h2)
  exact ⟨w _ (by decide) (by decide) (by decide), w _ (by decide) (by decide) (by decide),
    w _ (by decide) (by decide) (by decide)⟩

/-- … the rank embedding is false: in the list 2.0, NaN, 1.0 the rows 2.0 and NaN compare equal but have different
    ranks, so a reader mirror run on ranks does NOT take the decisions the code takes with the comparator (the L2 runs
    generate no NaN keys for this reason) -/
theorem nan_key_breaks_rank_embedding :
    let c := compareRowsFuncOf f32Key
    let L := [rowF32 0x40000000#64, rowF32 0x7fc00000#64, rowF32 0x3f800000#64]
    c (rowF32 0x40000000#64) (rowF32 0x7fc00000#64) = 0 ∧
    rankIn c L (rowF32 0x40000000#64) ≠ rankIn c L (rowF32 0x7fc00000#64) := by decide

/-- … and order by adjacent pairs is not order: 2.0, NaN, 1.0 has every adjacent pair ordered by the comparator
    (what a sort that only compares neighbours, or a sortedness check of a row group, sees) and is not sorted -/
theorem nan_key_adjacent_order_is_not_order :
    let c := compareRowsFuncOf f32Key
    let L := [rowF32 0x40000000#64, rowF32 0x7fc00000#64, rowF32 0x3f800000#64]
    (∀ i, i + 1 < L.length → c (L.getD i []) (L.getD (i + 1) []) ≤ 0) ∧ ¬ L.Pairwise (fun a b => c a b ≤ 0) := by
  refine ⟨?_, by decide⟩
  intro i hi
  have : i = 0 ∨ i = 1 := by simp only [List.length_cons, List.length_nil] at hi; omega
  rcases this with rfl | rfl <;> decide

end PqModel.Props.C09
