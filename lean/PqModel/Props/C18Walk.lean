import PqModel.EncWalk

/-! # C18, reader side — the keyless module walker only accepts exact tilings -/
namespace PqModel.Props.C18Walk
open PqModel.EncWalk

/-- Whatever the bytes, if the walker returns a chain of envelopes for `[pos, stop)`, the envelopes
    are consecutive, each at least prefix+nonce+tag long, the first starts at `pos` and the last
    ends at `stop`: no byte of the interval is outside a module and no two modules overlap. -/
theorem modules_tile_exactly (d : ByteArray) (stop fuel pos : Nat) (out : List Env)
    (h : chain d stop fuel pos [] = .ok out) : Tiles out pos stop :=
  chain_tiles_from d stop fuel pos out h

/-- non-vacuity: two envelopes of 32 and 33 bytes between offsets 0 and 65 -/
example :
    let d : ByteArray := ⟨((([28, 0, 0, 0] : List UInt8) ++ List.replicate 28 7) ++ ([29, 0, 0, 0] ++ List.replicate 29 9)).toArray⟩
    (chain d 65 10 0 []).toOption = some [(0, 32), (32, 33)] := by decide

/-- a stray byte between modules is refused -/
example :
    let d : ByteArray := ⟨((([28, 0, 0, 0] : List UInt8) ++ List.replicate 28 7) ++ [1]).toArray⟩
    (chain d 33 10 0 []).toOption = none := by decide

end PqModel.Props.C18Walk
