import PqModel.MapToGroup

/-! C03, round 6: Go maps written onto GROUP schemas (`writeRowsFuncOfMapToGroup` and the per-node
value writers `writeValueFuncOf`) against the reflection path / the reference shredder
(`shredN` of the group value the map stands for). Mirrors and lemmas: `PqModel/MapToGroup.lean`. -/
namespace PqModel.Props.C03MapToGroup
open PqModel.Dremel PqModel.TypedPath PqModel.MapToGroup

/-- The per-node value writer (`writeValueFuncOf`: leaf / optional / group, the group looked up by
member name in a Go map) writes, for EVERY group schema without repeated nodes, every Go value and
at every level, exactly the Dremel shred (the mirror of `deconstructFuncOf`, the reflection path)
of the group value the map stands for (members by name, missing key = null member, extra keys
ignored). -/
theorem maptogroup_value_eq_shred (n : GNode) (r k d : Nat) (v : Val) :
    wvN n r d v = shredN (eraseG n) r k d (resolveN n v) :=
  wvN_eq_shred n r k d v

example : wvN (.group (.cons 7 (.opt .leaf) (.cons 8 .leaf .nil))) 0 0
    (.list [.struct [.prim 9, .prim 1], .struct [.prim 7, .some (.prim 5)]]) =
    [[⟨some 5, 0, 1⟩], [⟨none, 0, 0⟩]] := by decide

/-- `writeRowsFuncOfMapToGroup`, `map[string]any` and default branches, for every group schema,
every batch of maps (nil maps, missing and extra keys included) and all levels: no rows = the absent
group; otherwise the concatenation, row by row, of the shred of the group value of each map. -/
theorem maptogroup_rows_eq_reflect (fs : GFields) (r k d : Nat) (rows : List Val) :
    wrM2GVal fs r k d rows =
      if rows.isEmpty then absentF (eraseGF fs) r d
      else joinSegs (leavesF (eraseGF fs))
        (rows.map fun row => shredF (eraseGF fs) r k d (resolveF fs (elemsS row))) := by
  unfold wrM2GVal
  split
  · exact wvF_none fs r k d
  · congr 1
    exact map_congr_mem fun row _ => wvF_some fs r k d (elemsS row)

example : wrM2GVal (.cons 7 (.opt .leaf) .nil) 0 0 0 [.none, .list [.struct [.prim 7, .some (.prim 5)]]] =
    [[⟨none, 0, 0⟩, ⟨some 5, 0, 1⟩]] := by decide

/-- one `GenericWriter[map[string]any].Write(batch)` = the reference shredder on every row -/
theorem maptogroup_write_eq_reflect (fs : GFields) (batch : List Val) :
    m2gWrite fs batch =
      joinSegs (leavesF (eraseGF fs))
        (batch.map fun row => shredF (eraseGF fs) 0 0 0 (resolveF fs (elemsS row))) := by
  unfold m2gWrite
  cases batch with
  | nil => simp [joinSegs]
  | cons b bs =>
    rw [maptogroup_rows_eq_reflect]
    simp

/-- `writeRowsFuncOfMapToGroup`, `map[string]string` branch (member-major: one `writeRows` call per
member on the column of looked-up strings, optional members through the bitmap scan of
`writeRowsFuncOfOptional`): for every list of members, every non-empty batch and all levels it
writes the concatenation, row by row, of the shred of the group value — the same streams as the
row-major value writers and the reflection path. -/
theorem maptogroup_string_eq_reflect (fs : List (Nat × Bool)) (dm r k : Nat) (rows : List Val)
    (h : rows ≠ []) :
    wrM2GStr fs dm r k dm rows =
      joinSegs fs.length (rows.map fun row =>
        shredF (toFields fs) r k dm (fs.map fun f => mlookup (elemsS row) f.1)) := by
  induction fs with
  | nil =>
    simp only [wrM2GStr, List.flatMap_nil, List.length_nil, List.map_nil, toFields, shredF]
    exact (joinSegs_zero_nil rows).symm
  | cons f fs ih =>
    have hs := (tyN_sound (fieldT f.2) dm r k).1 (rows.map fun row => mlookup (elemsS row) f.1)
      (by simpa using h)
    have h1 : leavesN (erase (fieldT f.2)) = 1 := by
      cases hf : f.2 <;> simp [fieldT, erase, leavesN]
    unfold wrM2GStr at ih ⊢
    simp only [List.flatMap_cons, List.map_cons, toFields, shredF, List.length_cons]
    rw [hs, ih, List.map_map, h1, Nat.add_comm fs.length 1]
    exact (joinSegs_append_cols
      (fun row => shredN (erase (fieldT f.2)) r k dm (mlookup (elemsS row) f.1))
      (fun row => shredF (toFields fs) r k dm (fs.map fun f => mlookup (elemsS row) f.1)) rows
      (fun row _ => by rw [shredN_length, h1])
      (fun row _ => by rw [shredF_length, toFields_leaves])).symm

example : m2gWriteStr [(7, true), (8, false)]
    [.list [.struct [.prim 8, .prim 3], .struct [.prim 7, .some (.prim 5)]], .none, .list [.struct [.prim 9, .prim 1]]] =
    [[⟨some 5, 0, 1⟩, ⟨none, 0, 0⟩, ⟨none, 0, 0⟩], [⟨some 3, 0, 0⟩, ⟨none, 0, 0⟩, ⟨none, 0, 0⟩]] := by decide

/-- What the column buffer keeps: when no entry sits at the maximum definition level without a
value (`hole`) and values only occur at the maximum level, the value-writer side (`writeNull`) and
the row side (`WriteRows` of the deconstructed row) store the same levels and values. -/
theorem store_agree_of_no_hole (dm : Nat) (hdm : 0 < dm) (col : List Triple)
    (hh : ∀ t ∈ col, hole dm t = false) (hv : ∀ t ∈ col, t.val.isSome = true → t.dfn = dm) :
    storeNull dm col = storeRows dm col := by
  unfold storeNull storeRows
  congr 1
  induction col with
  | nil => rfl
  | cons t ts ih =>
    have iht := ih (fun u hu => hh u (by simp [hu])) (fun u hu => hv u (by simp [hu]))
    have h1 := hh t (by simp)
    have h2 := hv t (by simp)
    simp only [List.filterMap_cons]
    rw [iht]
    have hne : dm ≠ 0 := by omega
    cases hval : t.val with
    | none =>
      have : t.dfn ≠ dm := by
        intro he; simp [hole, he, hval] at h1
      simp [hne, this]
    | some x =>
      have : t.dfn = dm := h2 (by simp [hval])
      simp [hne, this]

example : storeNull 1 [⟨some 4, 0, 1⟩, ⟨none, 0, 0⟩] = storeRows 1 [⟨some 4, 0, 1⟩, ⟨none, 0, 0⟩] := by decide

/-- FINDING (reproduced on the real code): a REQUIRED leaf below an OPTIONAL group whose key is
missing from the nested map (the group itself is present). The value writers send the invalid value
to `writeValueFuncOfLeaf`, which calls `optionalColumnBuffer.writeNull` at the MAXIMUM definition
level: a level without a value. Rows `{g: {a: 11}}`, `{g: {a: 12, b: 13}}` on
`g: optional group {a, b}`: column `g.b` keeps levels `[1, 1]` and ONE value, the page reads back as
`13, 0` — the value of row 1 appears in row 0 — where the row path (`Writer.Write`) stores `0, 13`.
The triples agree with the shred (`maptogroup_value_eq_shred`); the stored columns do not. -/
theorem maptogroup_missing_required_below_optional_witness :
    let fs : GFields := .cons 0 (.opt (.group (.cons 1 .leaf (.cons 2 .leaf .nil)))) .nil
    let rows : List Val :=
      [.list [.struct [.prim 0, .some (.list [.struct [.prim 1, .prim 11]])]],
       .list [.struct [.prim 0, .some (.list [.struct [.prim 1, .prim 12], .struct [.prim 2, .prim 13]])]]]
    let colB := (m2gWrite fs rows).getD 1 []
    colB = [⟨none, 0, 1⟩, ⟨some 13, 0, 1⟩] ∧
    colB.any (hole 1) = true ∧
    storeNull 1 colB = ([1, 1], [13]) ∧
    readBack 1 (storeNull 1 colB).1 (storeNull 1 colB).2 = [some 13, some 0] ∧
    readBack 1 (storeRows 1 colB).1 (storeRows 1 colB).2 = [some 0, some 13] := by decide

/-- Interface-typed struct fields on an explicit schema (`writeRowsFuncOfStruct` over
`writeRowsFuncOfInterface` over the value writers), field-major, for every group schema without
repeated nodes, all levels and every batch of structs: no rows = the absent group, else the
concatenation row by row of the shred of the group value of each struct (fields by position,
nested `map[string]any` members by name). -/
theorem iface_struct_eq_reflect : ∀ (fs : GFields) (r k d : Nat) (vss : List (List Val)),
    ifaceF fs r k d vss =
      if vss.isEmpty then absentF (eraseGF fs) r d
      else joinSegs (leavesF (eraseGF fs))
        (vss.map fun vs => shredF (eraseGF fs) r k d (resolveP fs vs))
  | .nil, r, k, d, vss => by
    cases vss with
    | nil => simp [ifaceF, absentF, eraseGF]
    | cons vs vss =>
      simp only [ifaceF, eraseGF, leavesF, resolveP, shredF, List.isEmpty_cons, Bool.false_eq_true, if_false]
      exact (joinSegs_zero_nil (vs :: vss)).symm
  | .cons name n fs, r, k, d, vss => by
    cases vss with
    | nil =>
      simp only [ifaceF, List.map_nil, List.isEmpty_nil, if_true, eraseGF, absentF]
      rw [wrInterface_empty, iface_struct_eq_reflect fs r k d []]; simp
    | cons vs vss =>
      have hne : (vs :: vss).map hd ≠ [] := by simp
      simp only [ifaceF, eraseGF, leavesF, resolveP, List.isEmpty_cons, Bool.false_eq_true, if_false]
      rw [wrInterface_rows n r k d _ hne, iface_struct_eq_reflect fs r k d ((vs :: vss).map List.tail)]
      simp only [List.map_cons, List.isEmpty_cons, Bool.false_eq_true, if_false, List.map_map]
      have := joinSegs_append_cols (m1 := leavesN (eraseG n)) (m2 := leavesF (eraseGF fs))
        (fun vs => shredN (eraseG n) r k d (resolveN n (hd vs)))
        (fun vs => shredF (eraseGF fs) r k d (resolveP fs (List.tail vs))) (vs :: vss)
        (fun x _ => shredN_length _ r k d _) (fun x _ => shredF_length _ r k d _)
      simpa [shredF, Function.comp_def] using this.symm

example : ifaceWrite (.cons 1 (.opt .leaf) (.cons 2 (.group (.cons 3 .leaf .nil)) .nil))
    [.struct [.some (.prim 5), .list [.struct [.prim 3, .prim 6]]], .struct [.none, .none]] =
    [[⟨some 5, 0, 1⟩, ⟨none, 0, 0⟩], [⟨some 6, 0, 0⟩, ⟨none, 0, 0⟩]] := by decide

/-- Stored columns, not only triples: when in every row no REQUIRED leaf is left without a value
below present optional ancestors (`okF`, decidable; the nil map, missing and null OPTIONAL members,
missing required members of a top-level required group are all allowed), every entry the value
writers emit is one the two sides of the column buffer treat alike, so
`GenericWriter[map[string]any].Write(batch)` leaves in every column buffer exactly the definition
levels and values the row path (`Writer.Write`: deconstruct + `WriteRows`) leaves there. The
hypothesis is needed: `maptogroup_missing_required_below_optional_witness`. -/
theorem maptogroup_store_eq_rowpath (fs : GFields) (batch : List Val)
    (hok : ∀ row ∈ batch, okF fs true (some (elemsS row)) = true) :
    storeAll storeNull (m2gWrite fs batch) (maxDefsF fs 0) =
      storeAll storeRows (m2gWrite fs batch) (maxDefsF fs 0) := by
  apply storeAll_agree
  unfold m2gWrite wrM2GVal
  rw [← maxDefsF_length fs 0]
  cases batch with
  | nil => simpa using colsOk_replicate (maxDefsF fs 0)
  | cons b bs =>
    simp only [List.isEmpty_cons, Bool.false_eq_true, if_false]
    apply colsOk_joinSegs
    intro s hs
    rcases List.mem_map.mp hs with ⟨row, hrow, rfl⟩
    exact wvF_colsOk fs true 0 0 0 (some (elemsS row)) (Or.inl ⟨rfl, hok row hrow, fun _ => rfl⟩)

example : ∀ row ∈ ([.none, .list [.struct [.prim 0, .some (.list [.struct [.prim 1, .prim 11], .struct [.prim 2, .prim 13]])]],
      .list [.struct [.prim 9, .prim 1]]] : List Val),
    okF (.cons 0 (.opt (.group (.cons 1 .leaf (.cons 2 .leaf .nil)))) (.cons 3 .leaf .nil)) true (some (elemsS row)) = true := by
  decide

/-- the hypothesis of `maptogroup_store_eq_rowpath` fails exactly on the witness rows -/
example : okF (.cons 0 (.opt (.group (.cons 1 .leaf (.cons 2 .leaf .nil)))) .nil) true
    (some [.struct [.prim 0, .some (.list [.struct [.prim 1, .prim 11]])]]) = false := by decide

/-- Extra keys are ignored and the entry order is irrelevant: what the group writer emits for a map
depends only on the values found under the members' names (for every schema and all levels); in
particular an entry whose key is no member's name changes nothing. -/
theorem maptogroup_only_member_keys_matter (fs : GFields) (r d : Nat) (es es' : List Val)
    (h : ∀ name ∈ namesF fs, mlookup es name = mlookup es' name) :
    wvF fs r d (some es) = wvF fs r d (some es') :=
  wvF_congr fs r d es es' h

theorem maptogroup_extra_key_ignored (fs : GFields) (r d k : Nat) (v : Val) (es : List Val)
    (hk : k ∉ namesF fs) :
    wvF fs r d (some (.struct [.prim k, v] :: es)) = wvF fs r d (some es) := by
  apply wvF_congr
  intro name hn
  have hne : k ≠ name := fun he => hk (he ▸ hn)
  simp [mlookup, hne]

example : (9 : Nat) ∉ namesF (.cons 7 (.opt .leaf) (.cons 8 .leaf .nil)) := by decide

/-- The hypothesis of `maptogroup_store_eq_rowpath` is exact: for every group schema and every map,
a row that fails `okF` makes the value writers leave, in some column of an optional buffer, an entry
at the maximum definition level without a value (the situation of the witness above). -/
theorem maptogroup_not_ok_leaves_level_without_value (fs : GFields) (r : Nat) (es : List Val)
    (h : okF fs true (some es) = false) :
    HasHole (wvF fs r 0 (some es)) (maxDefsF fs 0) :=
  wvF_hole fs true r 0 (some es) h (fun ht => by simp at ht)

example : okF (.cons 0 (.opt (.group (.cons 1 .leaf (.cons 2 .leaf .nil)))) .nil) true
    (some [.struct [.prim 0, .some (.list [])]]) = false := by decide

/-- The map as a record member on an OPTIONAL group node (`writeRowsFuncOfStruct`: the bitmap branch
of `writeRowsFuncOfOptional`, nil map = null, over `writeRowsFuncOfMapToGroup`, any / default
branches): one typed `Write` of ANY batch (nil maps, empty maps, missing and extra keys, null runs
of any length) writes, for every group schema, the concatenation row by row of the shred of the
optional group value the map stands for. Reduction: the map-to-group writer is the canonical sound
writer of the group on resolved rows (`wrM2GVal_canon`), resolving commutes with the optional
wrapper (`wrOptional_map`), then `wrOptional_sound` (null-run scan theorem of round 4). -/
theorem maptogroup_optional_member_eq_reflect (fs : GFields) (batch : List Val) :
    m2gOptWrite fs batch =
      joinSegs (leavesF (eraseGF fs)) (batch.map fun row =>
        shredN (.opt (.group (eraseGF fs))) 0 0 0 (resolveN (.opt (.group fs)) row)) := by
  unfold m2gOptWrite
  cases batch with
  | nil => simp [joinSegs]
  | cons b bs =>
    simp only [List.isEmpty_cons, Bool.false_eq_true, if_false]
    have hfun : wrM2GVal fs =
        fun r k d vs => canonW (.group (eraseGF fs)) r k d (vs.map (resolveN (.group fs))) := by
      funext r k d vs; exact wrM2GVal_canon fs r k d vs
    have h1 : ∀ v, isSome (resolveN (.opt (.group fs)) v) = isSome v := by
      intro v; cases v <;> simp [resolveN, isSome]
    have h2 : ∀ v, unopt (resolveN (.opt (.group fs)) v) = resolveN (.group fs) (unopt v) := by
      intro v; cases v <;> simp [resolveN, unopt]
    rw [hfun, wrOptional_map (leavesF (eraseGF fs)) (canonW (.group (eraseGF fs)))
      (resolveN (.group fs)) (resolveN (.opt (.group fs))) h1 h2]
    have hs := (wrOptional_sound (canonW_sound (.group (eraseGF fs))) 0 0 0).1
      ((b :: bs).map (resolveN (.opt (.group fs)))) (by simp)
    simpa [leavesN, List.map_map, Function.comp_def] using hs

example : m2gOptWrite (.cons 1 .leaf (.cons 2 (.opt .leaf) .nil))
    [.some (.list [.struct [.prim 1, .prim 11]]), .none, .some (.list [.struct [.prim 2, .some (.prim 13)], .struct [.prim 1, .prim 12]])] =
    [[⟨some 11, 0, 1⟩, ⟨none, 0, 0⟩, ⟨some 12, 0, 1⟩], [⟨none, 0, 1⟩, ⟨none, 0, 0⟩, ⟨some 13, 0, 2⟩]] := by decide

end PqModel.Props.C03MapToGroup
