import PqModel.EncConfig

/-! # C18 — the encryption setting survives every way of combining options

Property theorems over the MIRROR of the option plumbing (`EncConfig.apply`, `run`, `runToks`)
against the SPEC `decides` (the last option that says anything about encryption decides; a
configuration struct whose field is nil says nothing). Tied to the code by the `options` sub-check
(op `enc.config`: the real `NewWriterConfig` / `NewFileConfig` on the same option structure). -/
namespace PqModel.EncConfig

theorem apply_eq_says (cur : Option Nat) (o : Opt) :
    apply cur o = orKeep (says o) cur := by
  cases o with
  | withEnc c => rfl
  | config e => cases e <;> rfl
  | other => rfl

theorem applyAll_eq_decidesFrom (opts : List Opt) : ∀ cur, applyAll cur opts = decidesFrom cur opts := by
  induction opts with
  | nil => intro cur; rfl
  | cons o rest ih =>
    intro cur
    simp only [applyAll, List.foldl_cons, decidesFrom]
    rw [← apply_eq_says]
    exact ih (apply cur o)

/-- MIRROR = SPEC: for every list of options, `NewWriterConfig` leaves in the field what the last
    option that says anything about encryption asked for -/
theorem run_eq_decides (opts : List Opt) : run opts = decides opts :=
  applyAll_eq_decidesFrom opts none

theorem applyAll_append (cur : Option Nat) (a b : List Opt) :
    applyAll cur (a ++ b) = applyAll (applyAll cur a) b := by
  simp [applyAll, List.foldl_append]

theorem apply_keeps_some {cur : Option Nat} {o : Opt} (h : cur.isSome = true) (hr : o.revokes = false) :
    (apply cur o).isSome = true := by
  cases o with
  | withEnc c => cases c with
    | none => simp [Opt.revokes] at hr
    | some c => rfl
  | config e => cases e with
    | none => exact h
    | some e => rfl
  | other => exact h

theorem applyAll_keeps_some (b : List Opt) : ∀ {cur : Option Nat}, cur.isSome = true →
    (∀ x ∈ b, x.revokes = false) → (applyAll cur b).isSome = true := by
  induction b with
  | nil => intro cur h _; exact h
  | cons o rest ih =>
    intro cur h hb
    simp only [applyAll, List.foldl_cons]
    exact ih (apply_keeps_some h (hb o (by simp))) (fun x hx => hb x (by simp [hx]))

theorem apply_of_requests {cur : Option Nat} {o : Opt} {c : Nat} (h : o.requests = some c) : apply cur o = some c := by
  cases o with
  | withEnc e => cases e with
    | none => simp [Opt.requests] at h
    | some e => simp [Opt.requests] at h; simp [apply, h]
  | config e => cases e with
    | none => simp [Opt.requests] at h
    | some e => simp [Opt.requests] at h; simp [apply, h]
  | other => simp [Opt.requests] at h

/-- **The encryption request survives**: if SOME option of the list asks for encryption — as
    `WithEncryption(cfg)` or as the field of a configuration struct — and no LATER option is an
    explicit `WithEncryption(nil)`, the writer is configured to encrypt, whatever stands before,
    between and after: functional options, structs without the field, structs with it. -/
theorem requested_encryption_survives (a b : List Opt) (o : Opt) (c : Nat)
    (ho : o.requests = some c) (hb : ∀ x ∈ b, x.revokes = false) :
    (run (a ++ o :: b)).isSome = true := by
  unfold run
  rw [applyAll_append]
  simp only [applyAll, List.foldl_cons]
  rw [apply_of_requests ho]
  exact applyAll_keeps_some b rfl hb

theorem apply_of_silent {cur : Option Nat} {o : Opt} (h : says o = none) : apply cur o = cur := by
  rw [apply_eq_says, h]; rfl

theorem applyAll_of_silent (b : List Opt) : ∀ {cur : Option Nat}, (∀ x ∈ b, says x = none) → applyAll cur b = cur := by
  induction b with
  | nil => intro cur _; rfl
  | cons o rest ih =>
    intro cur hb
    simp only [applyAll, List.foldl_cons]
    rw [apply_of_silent (hb o (by simp))]
    exact ih (fun x hx => hb x (by simp [hx]))

/-- … and with exactly the configuration asked for last: options that say nothing about encryption
    (every functional option but `WithEncryption`, every struct whose field is nil) change nothing -/
theorem last_request_wins (a b : List Opt) (o : Opt) (c : Nat)
    (ho : o.requests = some c) (hb : ∀ x ∈ b, says x = none) :
    run (a ++ o :: b) = some c := by
  unfold run
  rw [applyAll_append]
  simp only [applyAll, List.foldl_cons]
  rw [apply_of_requests ho]
  exact applyAll_of_silent b hb

/-- the hypotheses are satisfiable: the situation of seed C18-4a, `WithEncryption(cfg)` followed by
    a struct without the field and by other options -/
example : run ([.other] ++ Opt.withEnc (some 7) :: [.config none, .other]) = some 7 :=
  last_request_wins [.other] [.config none, .other] (.withEnc (some 7)) 7 rfl (by decide)

/-- sensitivity witness (NOT the code): without `cmp.Or` in the struct merge, a struct option
    without the field erases an earlier request — the same list gives a writer that does not encrypt -/
theorem noOr_loses_the_request :
    [Opt.withEnc (some 7), .config none].foldl applyNoOr none = none ∧
    run [Opt.withEnc (some 7), .config none] = some 7 := by decide

/-! ## Nested constructions -/

theorem foldl_stepTok_opts (l : List Opt) : ∀ (cur : Option Nat) (up : List (Option Nat)),
    (l.map Tok.opt).foldl stepTok (some (cur :: up)) = some (applyAll cur l :: up) := by
  induction l with
  | nil => intro cur up; rfl
  | cons o rest ih =>
    intro cur up
    simp only [List.map_cons, List.foldl_cons, stepTok]
    rw [ih]
    simp [applyAll]

/-- a `NewWriterConfig( inner… )` group inside an option list is one struct option carrying the
    group's own result (what `Write` and `NewSortingWriter` do with their options) -/
theorem nested_group_is_struct_option (pre inner post : List Opt) :
    runToks (pre.map .opt ++ [.openG] ++ inner.map .opt ++ [.closeG] ++ post.map .opt)
      = some (run (pre ++ Opt.config (run inner) :: post)) := by
  unfold runToks
  simp only [List.foldl_append, List.foldl_cons, List.foldl_nil]
  rw [foldl_stepTok_opts pre none []]
  simp only [stepTok]
  rw [foldl_stepTok_opts inner none [applyAll none pre]]
  simp only []
  rw [foldl_stepTok_opts post]
  simp only [run, applyAll, List.foldl_append, List.foldl_cons]

/-- so a request made inside a group, or before it, survives the group (composition of the two
    theorems above): `Write(out, rows, WithEncryption(cfg), …)` encrypts -/
theorem request_survives_a_group (pre inner post : List Opt) (c : Nat)
    (hin : run inner = some c) (hpost : ∀ x ∈ post, x.revokes = false) :
    ∃ v, runToks (pre.map .opt ++ [.openG] ++ inner.map .opt ++ [.closeG] ++ post.map .opt) = some (some v) := by
  rw [nested_group_is_struct_option]
  have h := requested_encryption_survives pre post (.config (run inner)) c (by rw [hin]; rfl) hpost
  cases hv : run (pre ++ Opt.config (run inner) :: post) with
  | none => rw [hv] at h; simp at h
  | some v => exact ⟨v, rfl⟩

example : runToks ([Tok.opt (.withEnc (some 3))] ++ [.openG] ++ [Tok.opt .other] ++ [.closeG] ++ []) = some (some 3) := by decide

end PqModel.EncConfig
