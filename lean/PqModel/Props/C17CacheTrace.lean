import PqModel.SchemaCache

/-! # C17, schema cache: the facts the L2 trace comparison of sub-check `cache` leans on

The harness (harness/props/c17_cache_l2.go) compares the real `cachedSchemas` with the MIRROR
`schemaOf` call by call, the derivation of call `n` instantiated as a fresh object. Activities that
derive inside the library (NewGenericWriter[T], NewGenericReader[T], …) may call
`schemaOf(T, replacements)` more than once; the harness feeds the mirror ONE call for them. The
theorems below are what makes that sound for every cache, every input and every pair of derivation
functions (the second call's derivation is another object): -/

namespace PqModel.Props.C17CacheTrace
open PqModel.SchemaCache

variable {Ty R S : Type} [DecidableEq Ty]

/-- a call with replacements leaves the cache alone and returns its own derivation (the code, `flat = false`) -/
theorem schemaOf_uncacheable (d : Ty → List R → S) (c : Cache Ty S) (i : Ty × List R)
    (h : i.2.isEmpty = false) : schemaOf d false c i = (d i.1 i.2, c) := by
  simp [schemaOf, h]

/-- after a call without replacements the cache holds what the call returned -/
theorem schemaOf_cacheable_entry (d : Ty → List R → S) (c : Cache Ty S) (i : Ty × List R)
    (h : i.2.isEmpty = true) :
    lookup (schemaOf d false c i).2 i.1 = some (schemaOf d false c i).1 := by
  cases hl : lookup c i.1 with
  | some s => simp [schemaOf, h, hl]
  | none => simp [schemaOf, h, hl, loadOrStore, lookup]

/-- repeating a call (its derivation being ANOTHER object) changes nothing in the cache, whether or
    not it has replacements … -/
theorem schemaOf_again_cache (d d' : Ty → List R → S) (c : Cache Ty S) (i : Ty × List R) :
    (schemaOf d' false (schemaOf d false c i).2 i).2 = (schemaOf d false c i).2 := by
  cases h : i.2.isEmpty with
  | false => simp [schemaOf_uncacheable, h]
  | true =>
    have he := schemaOf_cacheable_entry d c i h
    generalize (schemaOf d false c i).2 = c1 at he ⊢
    simp [schemaOf, h, he]

/-- … and without replacements the repeated call returns the very object of the first (a hit) -/
theorem schemaOf_again_hit (d d' : Ty → List R → S) (c : Cache Ty S) (i : Ty × List R)
    (h : i.2.isEmpty = true) :
    (schemaOf d' false (schemaOf d false c i).2 i).1 = (schemaOf d false c i).1 := by
  have he := schemaOf_cacheable_entry d c i h
  generalize (schemaOf d false c i).1 = r, (schemaOf d false c i).2 = c1 at he ⊢
  simp [schemaOf, h, he]

/-- a call never touches the entry of another type (either variant): the nested struct type of the
    harness, which no call names, never gets an entry -/
theorem schemaOf_other_key (d : Ty → List R → S) (flat : Bool) (c : Cache Ty S) (i : Ty × List R)
    (k : Ty) (hk : i.1 ≠ k) : lookup (schemaOf d flat c i).2 k = lookup c k := by
  unfold schemaOf loadOrStore
  cases i.2.isEmpty <;> cases flat <;> cases lookup c i.1 <;> simp [lookup, hk]

/-- the hypotheses are satisfiable and the statements say something: from an empty cache, a call
    with a replacement stores nothing, the default call stores object 1, its repetition returns 1 -/
example :
    let d (n : Nat) : Nat → List Nat → Nat × List Nat := fun _ rs => (n, rs)
    let c1 := (schemaOf (d 0) false ([] : Cache Nat (Nat × List Nat)) (7, [3])).2
    let c2 := (schemaOf (d 1) false c1 (7, [])).2
    c1 = [] ∧ lookup c2 7 = some (1, []) ∧ (schemaOf (d 2) false c2 (7, [])).1 = (1, []) ∧
      lookup c2 8 = none := by decide

end PqModel.Props.C17CacheTrace
