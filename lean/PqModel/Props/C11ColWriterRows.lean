import PqModel.ColWriterRows

/-! # C11 — property theorems for the row path above `ColumnWriter` with `MaxRowsPerRowGroup`

Mirror: `PqModel.ColWriter.rgWriteRows` / `writerWriteRows` / `writeRowGroup` / `cwWrite`
(writer.go:1046-1079, 1895-1909, 1524-1572, 2419-2437), for one column of the row group (every
column is given the same rows). Spec side: `rowOK` (a row of a column starts at repetition level 0
and counts as one row) and the documented meaning of `MaxRowsPerRowGroup` (config.go:595-603: "the
maximum number of rows that a writer will produce in each row group"). -/
namespace PqModel.Props.C11ColWriterRows
open PqModel.ColWriter

theorem sum_group_rows {k : Kind} : ∀ (gs : List (Nat × List (List Val))),
    (∀ g ∈ gs, g.1 = bufLen k g.2.flatten) →
    (gs.map (·.1)).sum = bufLen k (gs.map fun g => g.2.flatten).flatten
  | [], _ => by simp [bufLen_nil]
  | g :: gs, h => by
    simp only [List.map_cons, List.sum_cons, List.flatten_cons, bufLen_append,
      sum_group_rows gs (fun g' hg' => h g' (by simp [hg'])), ← h g (by simp)]

/-- **The row path honours `MaxRowsPerRowGroup` and loses nothing**: `WriteRows(rows)` followed by
    the flush of `Close`, for every positive row limit, page buffer size, buffer kind and number of
    rows: the row groups written hold, one after the other, exactly the column's values of the rows;
    every row group holds at least one and at most `maxRows` rows, its `NumRows` is the number of
    rows of its pages, the row counts add up to the rows written, and nothing stays behind in the
    column writer. -/
theorem rowpath_honours_max_rows (k : Kind) (bufferSize maxRows : Nat) (hm : 0 < maxRows)
    (rows : List (List Val)) (hr : ∀ r ∈ rows, rowOK k r) :
    let s := writeRowGroup k (writerWriteRows k bufferSize maxRows (rows.length + 1) RGW.init rows)
    s.stream = rows.flatten ∧
    (∀ g ∈ s.groups, 0 < g.1 ∧ g.1 ≤ maxRows ∧ g.1 = bufLen k g.2.flatten) ∧
    (s.groups.map (·.1)).sum = rows.length ∧
    s.numRows = 0 ∧ s.col.pages = [] ∧ s.col.vals = [] := by
  obtain ⟨cur, hg⟩ := writerWriteRows_spec k bufferSize maxRows (rows.length + 1) RGW.init rows [] []
    (rgood_init k maxRows) hr (by simpa [RGW.init] using hm) (Nat.lt_succ_self _)
  obtain ⟨hw, h0, hp⟩ := rgood_writeRowGroup hg
  have hs : (writeRowGroup k (writerWriteRows k bufferSize maxRows (rows.length + 1) RGW.init rows)).stream
      = rows.flatten := by
    have := hw.stream
    simpa using this
  refine ⟨hs, hw.groups, ?_, h0, hp, ?_⟩
  · rw [sum_group_rows _ (fun g hg' => (hw.groups g hg').2.2)]
    have := hs
    unfold RGW.stream at this
    rw [this, bufLen_flatten_rows rows hr]
  · have := hw.col.stream
    rw [hp] at this
    simpa using this

/-- hypotheses satisfiable, limit exercised: 5 rows of an optional column under
    `MaxRowsPerRowGroup(2)` are row groups of 2, 2 and 1 rows -/
example :
    let v : Val := ⟨true, false, 8⟩
    (writeRowGroup .optional (writerWriteRows .optional 1000 2 6 RGW.init (List.replicate 5 [v]))).groups.map (·.1)
      = [2, 2, 1] := by decide

example : ∀ r ∈ List.replicate 5 [(⟨true, false, 8⟩ : Val)], rowOK .optional r := by
  intro r h; rw [List.eq_of_mem_replicate h]; exact ⟨rfl, rfl⟩

/-- **The column-oriented path does not honour `MaxRowsPerRowGroup`** (mirror and library agree,
    reproduced on the real code by sub-check colwriter): `ColumnWriter.WriteRowValues` never looks
    at the row counter of the row group, so the same 5 rows written through the column writer under
    `MaxRowsPerRowGroup(2)` are ONE row group of 5 rows (`rg.numRows` stays 0). -/
theorem colpath_ignores_max_rows :
    let v : Val := ⟨true, false, 8⟩
    let s := cwWrite .optional 1000 RGW.init (List.replicate 5 v)
    s.numRows = 0 ∧ (writeRowGroup .optional s).groups.map (·.1) = [5] ∧
    ¬ (∀ g ∈ (writeRowGroup .optional s).groups, g.1 ≤ 2) := by decide

end PqModel.Props.C11ColWriterRows
