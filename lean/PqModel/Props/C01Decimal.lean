import PqModel.LogicalDecimal

/-! # C01 — binary DECIMAL (`*big.Float` on BYTE_ARRAY / FIXED_LEN_BYTE_ARRAY) and TIME(unit) /
    `time.Duration` conversions round-trip, with their exact domains

DECIMAL: `bigIntToByteArray` followed by the two's-complement reader of `decimalType.AssignValue` is the
identity on EVERY integer (`decimal_bytes_read_write`); on FIXED_LEN_BYTE_ARRAY(n) the writer succeeds and
round-trips exactly when `2*|i| < 256^n` and panics otherwise (`decimal_flba_read_write`,
`decimal_flba_domain`), which covers every value of the largest precision the format allows for `n` bytes
(`decimal_flba_precision`) but not `-2^(8n-1)`, which the format can represent (`decimal_flba_edge`).
Both mirrors meet the SPEC value of the format (`decimal_write_spec`, `decimal_read_spec`).

TIME: a `time.Duration` reads back cut down to whole units toward zero (`duration_read_write`); for
TIME(MILLIS) only if the millisecond count fits the INT32 column (`duration_milli_overflow`: 2^31 ms,
about 24.9 days, comes back negative — the writer truncates silently). Every stored INT32 TIME(MILLIS) leaf
and every INT64 leaf whose nanosecond count fits `int64` is rebuilt exactly (`time_leaf_exact`,
`time_leaf_micro_overflow` for the rest). All three write paths of a `time.Duration` field store the same leaf
(`duration_paths_agree`, `duration_read_write_all_paths`); `*_before_fix` are the violations of the typed and
`Schema.Deconstruct` paths before library commit 21a275d, proved on the old mirror `durWriteBeforeFix`. -/
namespace PqModel.Props.C01Decimal
open PqModel.Stats PqModel.LogicalDecimal

/-! ## DECIMAL -/

/-- the write mirror meets the SPEC: for every integer the bytes are the big-endian two's complement of it -/
theorem decimal_write_spec (i : Int) :
    IsBytes (bigIntToByteArray i) ∧ decimalValue (bigIntToByteArray i) = i :=
  ⟨(bigIntToByteArray_spec i).1, (bigIntToByteArray_spec i).2.1⟩

/-- the read mirror meets the SPEC on every byte string (also non-minimal and empty ones) -/
theorem decimal_read_spec (data : List Nat) (h : IsBytes data) : readDecimal data = decimalValue data :=
  readDecimal_eq_spec data h

/-- **BYTE_ARRAY DECIMAL: read ∘ write = id on every integer** (no domain restriction) -/
theorem decimal_bytes_read_write (i : Int) :
    ∃ b, writeDecimal none i = some b ∧ readDecimal b = i := by
  refine ⟨_, rfl, ?_⟩
  rw [readDecimal_eq_spec _ (bigIntToByteArray_spec i).1]
  exact (bigIntToByteArray_spec i).2.1
example : writeDecimal none (-129) = some [255, 127] ∧ readDecimal [255, 127] = -129 := by decide

/-- **FIXED_LEN_BYTE_ARRAY(n) DECIMAL: read ∘ write = id on `2*|i| < 256^n`**, and the page value has
    exactly `n` bytes -/
theorem decimal_flba_read_write (i : Int) (n : Nat) (h : 2 * i.natAbs < 256 ^ n) :
    ∃ b, writeDecimal (some n) i = some b ∧ b.length = n ∧ IsBytes b ∧ readDecimal b = i := by
  have ⟨hb, hv, hs⟩ := bigIntToByteArray_spec i
  have hl := (bigIntToByteArray_length_le i n).mpr h
  simp only [writeDecimal, padToFixedLen]
  split
  · rename_i he
    exact ⟨_, rfl, he, hb, by rw [readDecimal_eq_spec _ hb]; exact hv⟩
  · rw [if_neg (by omega)]
    refine ⟨_, rfl, by simp; omega, ?_, ?_⟩
    · apply isBytes_append _ hb
      apply isBytes_replicate; split <;> omega
    · have hpad := decimalValue_pad (n - (bigIntToByteArray i).length) (bigIntToByteArray i)
      rw [hs] at hpad
      rw [readDecimal_eq_spec]
      · rw [hpad]; exact hv
      · apply isBytes_append _ hb
        apply isBytes_replicate; split <;> omega
example : writeDecimal (some 3) (-2) = some [255, 255, 254] ∧ 2 * (-2 : Int).natAbs < 256 ^ 3 := by decide

/-- the domain is exact: outside it the writer panics ("decimal value requires %d bytes ...") -/
theorem decimal_flba_domain (i : Int) (n : Nat) :
    writeDecimal (some n) i = none ↔ ¬ 2 * i.natAbs < 256 ^ n := by
  rw [← bigIntToByteArray_length_le]
  simp only [writeDecimal, padToFixedLen]
  constructor
  · intro h
    split at h
    · cases h
    · split at h
      · omega
      · cases h
  · intro h
    rw [if_neg (by omega), if_pos (by omega)]
example : writeDecimal (some 1) 128 = none := by decide

/-- every unscaled value of precision `p` fits when `n` bytes can hold precision `p`
    (LogicalTypes.md: `p ≤ floor(log10(2^(8n-1) - 1))`, i.e. `10^p ≤ 2^(8n-1)`) -/
theorem decimal_flba_precision (i : Int) (n p : Nat) (hp : 2 * 10 ^ p ≤ 256 ^ n) (hi : i.natAbs < 10 ^ p) :
    ∃ b, writeDecimal (some n) i = some b ∧ b.length = n ∧ readDecimal b = i := by
  have ⟨b, h1, h2, _, h4⟩ := decimal_flba_read_write i n (by omega)
  exact ⟨b, h1, h2, h4⟩
example : 2 * 10 ^ 2 ≤ 256 ^ 1 ∧ (-99 : Int).natAbs < 10 ^ 2 := by decide

/-- outside the domain but inside the format: `-2^(8n-1)` has an `n`-byte two's complement (`0x80`), the
    writer asks for `n+1` bytes and panics (no value of a legal precision is affected) -/
theorem decimal_flba_edge :
    decimalValue [128] = -128 ∧ bigIntToByteArray (-128) = [255, 128] ∧ writeDecimal (some 1) (-128) = none := by
  decide

/-- rewriting what was read keeps the VALUE of every stored byte string, not the bytes: a non-minimal
    BYTE_ARRAY encoding is normalised -/
theorem decimal_leaf_value_exact (data : List Nat) (h : IsBytes data) :
    decimalValue (bigIntToByteArray (readDecimal data)) = decimalValue data := by
  rw [(bigIntToByteArray_spec _).2.1, readDecimal_eq_spec data h]
theorem decimal_leaf_bytes_witness : bigIntToByteArray (readDecimal [0, 1]) = [1] := by decide

/-! ## TIME(unit) <-> time.Duration -/

theorem quoT_pos (a b : Int) (_hb : 0 < b) :
    quoT a b = if 0 ≤ a then a / b else -((-a) / b) := by
  simp only [quoT]
  split
  · rename_i h; exact Int.tdiv_eq_ediv_of_nonneg h
  · have : a = -(-a) := by omega
    rw [this, Int.neg_tdiv, Int.tdiv_eq_ediv_of_nonneg (by omega)]; simp

/-- **Read after write**: a duration reads back cut down to whole units toward zero; for TIME(MILLIS)
    under the hypothesis that the millisecond count fits the INT32 column -/
theorem duration_read_write (u : TUnit) (d : Int) (hd : IsInt64 d)
    (hm : u = .milli → IsInt32 (quoT d 1000000)) :
    durOfLeaf u (durToLeaf u d) = truncTo u d := by
  simp only [IsInt64] at hd
  cases u with
  | milli =>
    have hm := hm rfl
    simp only [IsInt32] at hm
    simp only [durOfLeaf, durToLeaf, truncTo, TUnit.nanos, wrap32, wrap64]
    rw [Int.bmod_eq_of_le (n := quoT d 1000000) (by omega) (by omega)]
    rw [quoT_pos d 1000000 (by omega)] at hm ⊢
    apply Int.bmod_eq_of_le <;> (split <;> omega)
  | micro =>
    simp only [durOfLeaf, durToLeaf, truncTo, TUnit.nanos, wrap64]
    rw [quoT_pos d 1000 (by omega)]
    apply Int.bmod_eq_of_le <;> (split <;> omega)
  | nano =>
    simp only [durOfLeaf, durToLeaf, truncTo, TUnit.nanos, wrap64, quoT, Int.tdiv_one, Int.mul_one]
    apply Int.bmod_eq_of_le <;> omega
example : IsInt64 (-1500000) ∧ IsInt32 (quoT (-1500000) 1000000) ∧
    durOfLeaf .milli (durToLeaf .milli (-1500000)) = -1000000 := by decide

/-- the hypothesis of TIME(MILLIS) is needed: 2^31 ms (24 d 20 h 31 min 23.648 s) is stored as -2^31 and
    reads back negative; `writeDuration` converts with `int32(...)` and reports nothing -/
theorem duration_milli_overflow :
    IsInt64 2147483648000000 ∧ durToLeaf .milli 2147483648000000 = -2147483648 ∧
    durOfLeaf .milli (durToLeaf .milli 2147483648000000) = -2147483648000000 := by decide

/-- **Leaf exactness**: a stored TIME leaf whose nanosecond count fits `int64` — every INT32 leaf of
    TIME(MILLIS) — is rebuilt into a duration that writes back to the same leaf -/
theorem time_leaf_exact (u : TUnit) (v : Int) (hv : IsInt64 (v * u.nanos))
    (hm : u = .milli → IsInt32 v) : durToLeaf u (durOfLeaf u v) = v := by
  simp only [IsInt64] at hv
  cases u with
  | milli =>
    have hm := hm rfl
    simp only [IsInt32] at hm
    simp only [TUnit.nanos] at hv
    simp only [durOfLeaf, durToLeaf, TUnit.nanos, wrap32, wrap64]
    rw [Int.bmod_eq_of_le (n := v * 1000000) (by omega) (by omega), quoT_pos _ _ (by omega)]
    have hq : (if 0 ≤ v * 1000000 then v * 1000000 / 1000000 else -(-(v * 1000000) / 1000000)) = v := by
      split <;> omega
    rw [hq]
    apply Int.bmod_eq_of_le <;> omega
  | micro =>
    simp only [TUnit.nanos] at hv
    simp only [durOfLeaf, durToLeaf, TUnit.nanos, wrap64]
    rw [Int.bmod_eq_of_le (n := v * 1000) (by omega) (by omega), quoT_pos _ _ (by omega)]
    split <;> omega
  | nano =>
    simp only [TUnit.nanos, Int.mul_one] at hv
    simp only [durOfLeaf, durToLeaf, TUnit.nanos, wrap64, Int.mul_one]
    apply Int.bmod_eq_of_le <;> omega

/-- every INT32 leaf satisfies the first hypothesis of `time_leaf_exact` -/
theorem time_leaf_milli_fits (v : Int) (h : IsInt32 v) : IsInt64 (v * TUnit.milli.nanos) := by
  simp only [IsInt32, IsInt64, TUnit.nanos] at *; omega
example : durToLeaf .milli (durOfLeaf .milli (-2147483648)) = -2147483648 := by decide

/-- an INT64 TIME(MICROS) leaf above 2^63/1000 µs (292 years; not a time of day) does not survive -/
theorem time_leaf_micro_overflow :
    IsInt64 9223372036854776 ∧ durToLeaf .micro (durOfLeaf .micro 9223372036854776) ≠ 9223372036854776 := by
  decide

/-! ## the three write paths of a `time.Duration` field -/

/-- **All write paths agree**: on every TIME unit and every duration, `GenericWriter[T]` / `GenericBuffer[T]`
    (typed), `Writer.Write` (deconstruct) and `GenericWriter[any]` (reflect) store the leaf of `writeDuration` -/
theorem duration_paths_agree (p : DurPath) (u : TUnit) (d : Int) : durWrite p u d = some (durToLeaf u d) := by
  cases p <;> cases u <;> rfl
example : durWrite .typed .micro 5000000000 = some 5000000 := by decide

/-- **Read after write on every path**: whatever the writer, a duration reads back cut down to whole units
    toward zero (TIME(MILLIS): when the millisecond count fits the INT32 column) -/
theorem duration_read_write_all_paths (p : DurPath) (u : TUnit) (d : Int) (hd : IsInt64 d)
    (hm : u = .milli → IsInt32 (quoT d 1000000)) :
    (durWrite p u d).map (durOfLeaf u) = some (truncTo u d) := by
  rw [duration_paths_agree, Option.map_some, duration_read_write u d hd hm]
example : (durWrite .deconstruct .milli 5000000000).map (durOfLeaf .milli) = some 5000000000 := by decide

/-! ### regression facts about the code before the repair (library commit 21a275d) -/

/-- before the repair the paths agreed on TIME(NANOS) only -/
theorem duration_paths_nano_before_fix (p : DurPath) (d : Int) : durWriteBeforeFix p .nano d = some d := by
  cases p <;> rfl

/-- **Violation before the repair (typed path, `GenericWriter[T]` / `GenericBuffer[T]`)**: 5 s on a
    TIME(MICROS) column was stored as 5000000000 (its nanoseconds) and read back as 1h23m20s; on TIME(MILLIS)
    it was stored as `int32(5000000000)` = 705032704 and read back as 195h50m32.704s -/
theorem duration_typed_violation_before_fix :
    (durWriteBeforeFix .typed .micro 5000000000).map (durOfLeaf .micro) = some 5000000000000 ∧
    (durWriteBeforeFix .typed .milli 5000000000).map (durOfLeaf .milli) = some 705032704000000 ∧
    truncTo .micro 5000000000 = 5000000000 ∧ truncTo .milli 5000000000 = 5000000000 := by decide

/-- **Violation before the repair (`Writer.Write` / `Schema.Deconstruct`)**: a TIME(MILLIS) field panicked, a
    TIME(MICROS) field stored the nanoseconds -/
theorem duration_deconstruct_violation_before_fix :
    durWriteBeforeFix .deconstruct .milli 5000000000 = none ∧
    (durWriteBeforeFix .deconstruct .micro 5000000000).map (durOfLeaf .micro) = some 5000000000000 := by decide

end PqModel.Props.C01Decimal
