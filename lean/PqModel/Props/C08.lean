import PqModel.Seek
import PqModel.SliceRepeated

/-! # C08 — Seeking to a row then reading equals skipping to that row sequentially

Page-granularity state machine of `FilePages` (see `PqModel/Seek.lean`).
`stepFixed` mirrors the repaired code (proposed_fixes/F11.diff), `stepAsis` the code as it stands
before the repair; `SpecOK`/`RunOK` is the reference reader (a row counter) written from the
property statement. `abs` is the abstraction map of the property: the suffix of the chunk's rows
the reader will still deliver. -/
namespace PqModel.Props.C08
open PqModel.Seek

/-- abstraction: the rows (any payload `α`) the reader in state `s` will still deliver -/
def abs {α} (c : Chunk) (R : List α) (s : St) : List α := R.drop (next c.rows s)

/-- **C08 (repaired mirror, every reachable state).** For every state reachable by any finite
    history of seeks (forward, backward, repeated, to the end, beyond the end) / reads / lazy
    loading of the offset index, with or without offset index and dictionary page:
    * `seek k` either succeeds and then the reader will deliver exactly `R.drop k`, or it is refused,
      which happens only beyond the last row and leaves the state unchanged;
    * `readPage` pops a non-empty prefix of `abs` (the rest of the page holding the next row, cut
      from the right page `p`), or reports EOF exactly when `abs` is empty;
    * loading the offset index does not move the reader. -/
theorem seek_refines {α} (c : Chunk) (hpos : ∀ r ∈ c.rows, 0 < r) (R : List α) (hR : R.length = total c)
    (hi : Bool) (s : St) (h : ReachFixed c hi s) :
    (∀ k, ((stepFixed c s (.seek k)).2 = .ok ∧ abs c R (stepFixed c s (.seek k)).1 = R.drop k) ∨
          ((stepFixed c s (.seek k)).2 = .err ∧ (stepFixed c s (.seek k)).1 = s ∧ R.length < k)) ∧
    (match (stepFixed c s .readPage).2 with
      | .page p st len => 0 < len ∧ st + len ≤ R.length ∧
          abs c R s = (R.drop st).take len ++ abs c R (stepFixed c s .readPage).1 ∧
          firstRow c.rows p ≤ st ∧ st + len = firstRow c.rows (p + 1)
      | .eof => abs c R s = [] ∧ abs c R (stepFixed c s .readPage).1 = []
      | _ => False) ∧
    abs c R (stepFixed c s .loadIndex).1 = abs c R s := by
  have hinv := reachFixed_inv c hpos hi s h
  refine ⟨?_, ?_, rfl⟩
  · intro k
    rcases (seekFixed_spec c s k hinv).2 with ⟨h1, h2⟩ | ⟨h1, h2, h3⟩
    · exact Or.inl ⟨h1, by show R.drop (next c.rows (seekFixed c s k).1) = R.drop k; rw [h2]⟩
    · exact Or.inr ⟨h1, h2, by omega⟩
  · have hr := readPage_spec c.rows hpos s hinv.1
    obtain ⟨_, _, h3⟩ := hr
    show match (readPage c.rows s).2 with
      | .page p st len => 0 < len ∧ st + len ≤ R.length ∧
          abs c R s = (R.drop st).take len ++ abs c R (readPage c.rows s).1 ∧
          firstRow c.rows p ≤ st ∧ st + len = firstRow c.rows (p + 1)
      | .eof => abs c R s = [] ∧ abs c R (readPage c.rows s).1 = []
      | _ => False
    cases ho : (readPage c.rows s).2 with
    | ok => simp [ho] at h3
    | err => simp [ho] at h3
    | eof =>
      simp only [ho] at h3
      simp only [abs]
      have htot : total c = c.rows.sum := rfl
      exact ⟨List.drop_eq_nil_of_le (by omega), List.drop_eq_nil_of_le (by omega)⟩
    | page p st len =>
      simp only [ho] at h3
      obtain ⟨e1, e2, e3, e4, e5, e6⟩ := h3
      have htot : total c = c.rows.sum := rfl
      refine ⟨e2, by omega, ?_, e5, e6⟩
      simp only [abs]
      rw [e3, ← e1, ← List.drop_drop, List.take_append_drop]

/-- **C08 for whole histories (repaired mirror).** The outputs of every history, from a fresh
    reader, are a run of the reference reader started before row 0: every page returned is the
    rest of the page holding the reader's current row, EOF comes exactly at the end. -/
theorem history_refines (c : Chunk) (hpos : ∀ r ∈ c.rows, 0 < r) (hi : Bool) (ops : List Op) :
    RunOK c 0 ops (outs (stepFixed c) (init hi) ops) := by
  have := run_refines c (stepFixed c) (SInv c.rows) (fun _ _ => true)
    (fun s op hI _ => stepFixed_inv c hpos s op hI)
    (fun s op hI _ => stepFixed_spec c hpos s op hI)
    ops (init hi) (init_inv c.rows hi) (allOk_true _ ops _)
  rwa [next_init] at this

/-- non-vacuity: ten pages of ten rows satisfy the hypotheses, and a history that seeks away from
    and back into the cached page delivers the right pages -/
example : ∀ r ∈ c10.rows, 0 < r := by decide
example : outs (stepFixed c10) (init true) histA =
    [.ok, .page 2 20 10, .ok, .ok, .page 2 25 5, .page 3 30 10] := by decide
example : outs (stepFixed c10) (init true) [.seek 99, .readPage, .readPage, .seek 100, .readPage, .seek 0, .readPage] =
    [.ok, .page 9 99 1, .eof, .ok, .eof, .ok, .page 0 0 10] := by decide

/-- **F11 on the mirror of the unchanged code (negation witnesses).** The histories
    A (`seek 20, read, seek 70, seek 25, read, read` → rows 25..29 then 70..),
    B (`seek 20, read, seek 25, seek 72, read` → rows 22..29) and
    C (no index, dictionary: `seek 5, read, load offset index, seek 12, read` → rows 2..9)
    are not runs of the reference reader. -/
theorem asis_violates_stream_left_behind :
    ¬ RunOK c10 0 histA (outs (stepAsis c10) (init true) histA) :=
  fun h => absurd (runOK_check c10 0 _ _ h) (by decide)

theorem asis_violates_stale_serve :
    ¬ RunOK c10 0 histB (outs (stepAsis c10) (init true) histB) :=
  fun h => absurd (runOK_check c10 0 _ _ h) (by decide)

theorem asis_violates_lazy_index_dictionary :
    ¬ RunOK c10d 0 histC (outs (stepAsis c10d) (init false) histC) :=
  fun h => absurd (runOK_check c10d 0 _ _ h) (by decide)

-- OPEN (false for the code as it stands, see the three witnesses above):
--   theorem asis_history_refines (c) (hpos) (hi) (ops) : RunOK c 0 ops (outs (stepAsis c) (init hi) ops)

/-- **C08 for the unchanged code, partial.** Histories that never seek (with an offset index)
    into the page recorded as cached and never load the offset index lazily after the no-index
    path ran on a chunk with a dictionary are runs of the reference reader. What is missing is
    exactly the cached-page shortcut (F11). -/
theorem asis_history_refines_partial (c : Chunk) (hpos : ∀ r ∈ c.rows, 0 < r) (hi : Bool) (ops : List Op)
    (hsafe : AllOk (stepAsis c) (safeOp c) (init hi) ops = true) :
    RunOK c 0 ops (outs (stepAsis c) (init hi) ops) := by
  have := run_refines c (stepAsis c) (AInv c) (safeOp c)
    (fun s op hI hok => stepAsis_inv c hpos s op hI hok)
    (fun s op hI hok => stepAsis_spec c hpos s op hI hok)
    ops (init hi) (init_ainv c hi) hsafe
  rwa [next_init] at this

/-- non-vacuity of the partial theorem: a safe history with forward, backward and end seeks -/
example : AllOk (stepAsis c10) (safeOp c10) (init true)
    [.seek 20, .readPage, .seek 70, .readPage, .seek 5, .readPage, .readPage, .seek 100, .readPage] = true := by decide
/-- the F11 histories are exactly what the hypothesis excludes -/
example : AllOk (stepAsis c10) (safeOp c10) (init true) histA = false := by decide
example : AllOk (stepAsis c10d) (safeOp c10d) (init false) histC = false := by decide

/-- **slice_spec** (`repeatedPage.Slice`, used by `ReadPage` to cut the page a seek lands in):
    for a page made of well-formed rows (`0 :: levels without 0`), the index range computed by the
    mirror of the two scan loops selects exactly the repetition levels of rows `i..j-1`. -/
theorem slice_spec (rows : List (List Nat)) (h : ∀ r ∈ rows, RowWF r) (i j : Nat)
    (hij : i ≤ j) (hj : j ≤ rows.length) :
    sliceIdx rows.flatten i j = ((rows.take i).flatten.length, (rows.take j).flatten.length) ∧
    (rows.flatten.drop (sliceIdx rows.flatten i j).1).take
        ((sliceIdx rows.flatten i j).2 - (sliceIdx rows.flatten i j).1) =
      ((rows.drop i).take (j - i)).flatten :=
  ⟨sliceIdx_spec rows h i j hij hj, slice_levels rows h i j hij hj⟩

/-- the bounds passed on to the base page's `Slice` are the numbers of non-null values in front
    of the two cuts -/
theorem slice_base_spec (maxDef : Nat) (rep dfn : List Nat) (i j : Nat)
    (hlen : dfn.length = rep.length) (hab : (sliceIdx rep i j).1 ≤ (sliceIdx rep i j).2)
    (hb : (sliceIdx rep i j).2 ≤ rep.length) :
    (sliceRepeated maxDef rep dfn i j).2 =
      (((dfn.take (sliceIdx rep i j).1).filter (· == maxDef)).length,
       ((dfn.take (sliceIdx rep i j).2).filter (· == maxDef)).length) :=
  slice_base_bounds maxDef rep dfn i j hlen hab hb

example : ∀ r ∈ [[0, 1, 1], [0], [0, 2]], RowWF r := by
  intro r hr
  simp at hr
  rcases hr with rfl | rfl | rfl
  · exact ⟨[1, 1], rfl, by decide⟩
  · exact ⟨[], rfl, by decide⟩
  · exact ⟨[2], rfl, by decide⟩
example : sliceRepeated 2 [0, 1, 1, 0, 0, 2] [2, 2, 1, 0, 2, 2] 1 3 = (([0, 0, 2], [0, 2, 2]), (2, 4)) := by decide

end PqModel.Props.C08
