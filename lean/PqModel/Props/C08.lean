import PqModel.Seek
import PqModel.SliceRepeated
import PqModel.RowsSeek

/-! # C08 — Seeking to a row then reading equals skipping to that row sequentially

Page-granularity state machine of `FilePages` (see `PqModel/Seek.lean`).
`stepFixed` mirrors the repaired code (the `fix:` commits on FilePages), `stepAsis` the code
before the repairs; `SpecOK`/`RunOK` is the reference reader (a row counter) written from the
property statement. `abs` is the abstraction map of the property: the suffix of the chunk's rows
the reader will still deliver. -/
namespace PqModel.Props.C08
open PqModel.Seek

/-- abstraction: the rows (any payload `α`) the reader in state `s` will still deliver; `none`
    between a failed read (checksum mismatch) and the next seek -/
def abs {α} (c : Chunk) (R : List α) (s : St) : Option (List α) := (npos c.rows s).map R.drop

/-- **C08 (repaired mirror, every reachable state).** For every state reachable by any finite
    history of seeks (forward, backward, repeated, to the end, beyond the end) / reads (failing
    on pages whose checksum does not match) / lazy loading of the offset index, with or without
    offset index and dictionary page:
    * `seek k` either succeeds and then the reader will deliver exactly `R.drop k` — also right
      after a failed read —, or it is refused, which happens only beyond the last row and leaves the
      state unchanged;
    * from a defined position `readPage` pops a non-empty prefix of `abs` (the rest of the page
      holding the next row, cut from the right page `p`, which is not a corrupted one), reports
      EOF exactly when `abs` is empty, or fails — only if a corrupted page starts at or before the
      next row — and then the position is undefined; while undefined it stays undefined;
    * loading the offset index does not move the reader. -/
theorem seek_refines {α} (c : Chunk) (hpos : ∀ r ∈ c.rows, 0 < r) (R : List α) (hR : R.length = total c)
    (hi : Bool) (s : St) (h : ReachFixed c hi s) :
    (∀ k, ((stepFixed c s (.seek k)).2 = .ok ∧ abs c R (stepFixed c s (.seek k)).1 = some (R.drop k)) ∨
          ((stepFixed c s (.seek k)).2 = .err ∧ (stepFixed c s (.seek k)).1 = s ∧ R.length < k)) ∧
    (match abs c R s, (stepFixed c s .readPage).2 with
      | some rest, .page p st len => 0 < len ∧ st + len ≤ R.length ∧ p ∉ c.bad ∧
          (∃ rest', abs c R (stepFixed c s .readPage).1 = some rest' ∧ rest = (R.drop st).take len ++ rest') ∧
          firstRow c.rows p ≤ st ∧ st + len = firstRow c.rows (p + 1)
      | some rest, .eof => rest = [] ∧ abs c R (stepFixed c s .readPage).1 = some []
      | some _, .corrupt => abs c R (stepFixed c s .readPage).1 = none ∧ c.bad ≠ []
      | none, _ => abs c R (stepFixed c s .readPage).1 = none
      | _, _ => False) ∧
    abs c R (stepFixed c s .loadIndex).1 = abs c R s := by
  have hinv := reachFixed_inv c hpos hi s h
  have htot : total c = c.rows.sum := rfl
  refine ⟨?_, ?_, rfl⟩
  · intro k
    rcases (seekFixed_spec c s k hinv).2 with ⟨h1, h2, h3⟩ | ⟨h1, h2, h3⟩
    · refine Or.inl ⟨h1, ?_⟩
      show (npos c.rows (seekFixed c s k).1).map R.drop = some (R.drop k)
      rw [npos_of_lost_false _ _ h2, h3]; rfl
    · exact Or.inr ⟨h1, h2, by omega⟩
  · have hr := readPage_spec c.rows c.bad hpos s hinv.1
    show match abs c R s, (readPage c.rows c.bad s).2 with
      | some rest, .page p st len => 0 < len ∧ st + len ≤ R.length ∧ p ∉ c.bad ∧
          (∃ rest', abs c R (readPage c.rows c.bad s).1 = some rest' ∧ rest = (R.drop st).take len ++ rest') ∧
          firstRow c.rows p ≤ st ∧ st + len = firstRow c.rows (p + 1)
      | some rest, .eof => rest = [] ∧ abs c R (readPage c.rows c.bad s).1 = some []
      | some _, .corrupt => abs c R (readPage c.rows c.bad s).1 = none ∧ c.bad ≠ []
      | none, _ => abs c R (readPage c.rows c.bad s).1 = none
      | _, _ => False
    cases hl : s.lost with
    | true =>
      rw [hl] at hr
      have hlost := readOK_lost _ _ _ _ hr
      have e1 : abs c R s = none := by simp [abs, npos, hl]
      have e2 : abs c R (readPage c.rows c.bad s).1 = none := by simp [abs, npos, hlost]
      rw [e1]
      exact e2
    | false =>
      rw [hl] at hr
      obtain ⟨_, _, h3⟩ := hr
      have e1 : abs c R s = some (R.drop (next c.rows s)) := by simp [abs, npos, hl]
      rw [e1]
      cases ho : (readPage c.rows c.bad s).2 with
      | ok => simp [ho] at h3
      | err => simp [ho] at h3
      | corrupt =>
        simp only [ho] at h3
        obtain ⟨hl', q, hq, _, _⟩ := h3
        refine ⟨by simp [abs, npos, hl'], ?_⟩
        intro hnil; simp [hnil] at hq
      | eof =>
        simp only [ho] at h3
        obtain ⟨hl', h4, h5⟩ := h3
        refine ⟨List.drop_eq_nil_of_le (by omega), ?_⟩
        simp only [abs, npos, hl', h5]
        simp
        omega
      | page p st len =>
        simp only [ho] at h3
        obtain ⟨hl', eb, e1', e2, e3, e4, e5, e6⟩ := h3
        refine ⟨e2, by omega, eb, ⟨R.drop (st + len), ?_, ?_⟩, e5, e6⟩
        · simp [abs, npos, hl', e3]
        · rw [← e1', ← List.drop_drop, List.take_append_drop]

/-- **C08 for whole histories (repaired mirror).** The outputs of every history, from a fresh
    reader, are a run of the reference reader started before row 0: every page returned is the
    rest of the page holding the reader's current row and not a corrupted one, EOF comes exactly
    at the end, a failure only where a corrupted page is in the way, and the first read after a
    seek that follows a failure is again exact. -/
theorem history_refines (c : Chunk) (hpos : ∀ r ∈ c.rows, 0 < r) (hi : Bool) (ops : List Op) :
    RunOK c (some 0) ops (outs (stepFixed c) (init hi) ops) := by
  have := run_refines c (stepFixed c) (SInv c) (fun _ _ => true)
    (fun s op hI _ => stepFixed_inv c hpos s op hI)
    (fun s op hI _ => stepFixed_spec c hpos s op hI)
    ops (init hi) (init_inv c hi) (allOk_true _ ops _)
  rwa [npos_init] at this

/-- non-vacuity: ten pages of ten rows satisfy the hypotheses, and a history that seeks away from
    and back into the cached page delivers the right pages; with a corrupted page the retry seek
    fails again instead of returning the next page -/
example : ∀ r ∈ c10.rows, 0 < r := by decide
example : outs (stepFixed c10) (init true) histA =
    [.ok, .page 2 20 10, .ok, .ok, .page 2 25 5, .page 3 30 10] := by decide
example : outs (stepFixed c10) (init true) [.seek 99, .readPage, .readPage, .seek 100, .readPage, .seek 0, .readPage] =
    [.ok, .page 9 99 1, .eof, .ok, .eof, .ok, .page 0 0 10] := by decide
example : outs (stepFixed c3bad) (init true) (histD ++ [.seek 200, .readPage, .seek 99, .readPage]) =
    [.page 0 0 100, .corrupt, .ok, .corrupt, .ok, .page 2 200 100, .ok, .page 0 99 1] := by decide

/-- **The findings on the mirror of the unchanged code (negation witnesses).** The histories
    A (`seek 20, read, seek 70, seek 25, read, read` → rows 25..29 then 70..),
    B (`seek 20, read, seek 25, seek 72, read` → rows 22..29),
    C (no index, dictionary: `seek 5, read, load offset index, seek 12, read` → rows 2..9) and
    D (page 1 corrupted: `read, read (fails), seek 150, read` → rows 250..299 of page 2)
    are not runs of the reference reader. -/
theorem asis_violates_stream_left_behind :
    ¬ RunOK c10 (some 0) histA (outs (stepAsis c10) (init true) histA) :=
  fun h => absurd (runOK_check c10 _ _ _ h) (by decide)

theorem asis_violates_stale_serve :
    ¬ RunOK c10 (some 0) histB (outs (stepAsis c10) (init true) histB) :=
  fun h => absurd (runOK_check c10 _ _ _ h) (by decide)

theorem asis_violates_lazy_index_dictionary :
    ¬ RunOK c10d (some 0) histC (outs (stepAsis c10d) (init false) histC) :=
  fun h => absurd (runOK_check c10d _ _ _ h) (by decide)

theorem asis_violates_seek_after_failed_read :
    ¬ RunOK c3bad (some 0) histD (outs (stepAsis c3bad) (init true) histD) :=
  fun h => absurd (runOK_check c3bad _ _ _ h) (by decide)

-- OPEN (false for the code before the repairs, see the four witnesses above):
--   theorem asis_history_refines (c) (hpos) (hi) (ops) : RunOK c (some 0) ops (outs (stepAsis c) (init hi) ops)

/-- **C08 for the code before the repairs, partial.** Histories that never seek after a failed
    read, never seek (with an offset index) into the page recorded as cached and never load the
    offset index lazily after the no-index path ran on a chunk with a dictionary are runs of the
    reference reader. What is missing is exactly what the four repairs address. -/
theorem asis_history_refines_partial (c : Chunk) (hpos : ∀ r ∈ c.rows, 0 < r) (hi : Bool) (ops : List Op)
    (hsafe : AllOk (stepAsis c) (safeOp c) (init hi) ops = true) :
    RunOK c (some 0) ops (outs (stepAsis c) (init hi) ops) := by
  have := run_refines c (stepAsis c) (AInv c) (safeOp c)
    (fun s op hI hok => stepAsis_inv c hpos s op hI hok)
    (fun s op hI hok => stepAsis_spec c hpos s op hI hok)
    ops (init hi) (init_ainv c hi) hsafe
  rwa [npos_init] at this

/-- non-vacuity of the partial theorem: a safe history with forward, backward and end seeks -/
example : AllOk (stepAsis c10) (safeOp c10) (init true)
    [.seek 20, .readPage, .seek 70, .readPage, .seek 5, .readPage, .readPage, .seek 100, .readPage] = true := by decide
/-- the histories of the findings are exactly what the hypothesis excludes -/
example : AllOk (stepAsis c10) (safeOp c10) (init true) histA = false := by decide
example : AllOk (stepAsis c10d) (safeOp c10d) (init false) histC = false := by decide
example : AllOk (stepAsis c3bad) (safeOp c3bad) (init true) histD = false := by decide

/-- **slice_spec** (`repeatedPage.Slice`, used by `ReadPage` to cut the page a seek lands in):
    for a page made of well-formed rows (`0 :: levels without 0`), the index range computed by the
    mirror of the two scan loops selects exactly the repetition levels of rows `i..j-1`. -/
theorem slice_spec (rows : List (List Nat)) (h : ∀ r ∈ rows, RowWF r) (i j : Nat)
    (hij : i ≤ j) (hj : j ≤ rows.length) :
    sliceIdx rows.flatten i j = ((rows.take i).flatten.length, (rows.take j).flatten.length) ∧
    (rows.flatten.drop (sliceIdx rows.flatten i j).1).take
        ((sliceIdx rows.flatten i j).2 - (sliceIdx rows.flatten i j).1) =
      ((rows.drop i).take (j - i)).flatten :=
  ⟨sliceIdx_spec rows h i j hij hj, slice_levels rows h i j hij hj⟩

/-- the bounds passed on to the base page's `Slice` are the numbers of non-null values in front
    of the two cuts -/
theorem slice_base_spec (maxDef : Nat) (rep dfn : List Nat) (i j : Nat)
    (hlen : dfn.length = rep.length) (hab : (sliceIdx rep i j).1 ≤ (sliceIdx rep i j).2)
    (hb : (sliceIdx rep i j).2 ≤ rep.length) :
    (sliceRepeated maxDef rep dfn i j).2 =
      (((dfn.take (sliceIdx rep i j).1).filter (· == maxDef)).length,
       ((dfn.take (sliceIdx rep i j).2).filter (· == maxDef)).length) :=
  slice_base_bounds maxDef rep dfn i j hlen hab hb

example : ∀ r ∈ [[0, 1, 1], [0], [0, 2]], RowWF r := by
  intro r hr
  simp at hr
  rcases hr with rfl | rfl | rfl
  · exact ⟨[1, 1], rfl, by decide⟩
  · exact ⟨[], rfl, by decide⟩
  · exact ⟨[2], rfl, by decide⟩
example : sliceRepeated 2 [0, 1, 1, 0, 0, 2] [2, 2, 1, 0, 2, 2] 1 3 = (([0, 0, 2], [0, 2, 2]), (2, 4)) := by decide

/-- **Row reader (`rowGroupRows`), repaired mirror.** Every history of SeekToRow / ReadRows /
    Reset — with any of the reads failing in a column — is a run of the reference reader: a
    read returns the rows at the reference position (after `Reset`: row 0, after `SeekToRow k`:
    row `k`, also when `k` is where the reader believed to be), never misaligned columns, and
    between a failed read and the next seek reads keep failing. -/
theorem rows_history_refines (total : Nat) (ops : List RowsSeek.Op) :
    RowsSeek.check total (some 0) ops (RowsSeek.outs (RowsSeek.stepFixed total) RowsSeek.init ops) = true :=
  RowsSeek.fixed_refines total ops RowsSeek.init (some 0) RowsSeek.init_rel

/-- the code before the repairs: `read 5, Reset, SeekToRow 5, read` returns rows 0..4 -/
theorem rows_asis_violates_reset :
    RowsSeek.check 100 (some 0) RowsSeek.histReset
      (RowsSeek.outs (RowsSeek.stepAsis 100) RowsSeek.init RowsSeek.histReset) = false := by decide

/-- the code before the repairs: a failed read, `SeekToRow rowIndex`, read returns misaligned columns -/
theorem rows_asis_violates_failed_read :
    RowsSeek.check 100 (some 0) RowsSeek.histFail
      (RowsSeek.outs (RowsSeek.stepAsis 100) RowsSeek.init RowsSeek.histFail) = false := by decide

end PqModel.Props.C08
