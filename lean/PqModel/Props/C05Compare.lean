import PqModel.CompareTypes

/-! # C05, round 6: `Type.Compare` of the column types IS the spec order the statistics theorems quantify over.

MIRRORS (PqModel/CompareTypes.lean): `compareBool`, `compareInt32/64` (`compareSigned`), `compareUint32/64`
(`compareUnsigned`), `compareFloat32/64` (`compareFloat 8 23` / `11 52`, Go's float `<` read as the IEEE-754
comparison of the denoted numbers), `bytesCompare` (`bytes.Compare`), `compareBE128`, `lessBE128`,
`intTypeCompare` (`(*intType).Compare`), all of compare.go / type_*.go.
SPEC: the column orders `sint`, `uint`, `float`, `bytes` of Stats.lean (which every bounds / index / skip theorem of
C05 takes as its lawful order), the denotations `BitVec.toInt`, `BitVec.toNat`, `fDenote`, `intTypeDenote`.
`Compare.Lawful` is the total-preorder interface of the merge / sort theorems (C09, C10). -/
namespace PqModel.Props.C05
open PqModel PqModel.Stats PqModel.CompareTypes

/-! ## each mirror = the three-way reading of its spec order -/

/-- INT32 / INT64 (and DATE, TIME, TIMESTAMP, DECIMAL on them, which delegate): the order of the signed numbers;
    UINT32 / UINT64: the order of the unsigned numbers. Any width. -/
theorem compareInt_spec {w : Nat} (a b : BitVec w) :
    compareSigned a b = three ((sint w).lt a b) ((sint w).lt b a) ∧
    compareSigned a b = Compare.cmpInt a.toInt b.toInt ∧
    compareUnsigned a b = three ((uint w).lt a b) ((uint w).lt b a) ∧
    compareUnsigned a b = Compare.cmpInt (a.toNat : Int) (b.toNat : Int) := by
  refine ⟨compareSigned_eq a b, ?_, compareUnsigned_eq a b, ?_⟩
  · simp only [compareSigned, three, BitVec.slt, Compare.cmpInt, decide_eq_true_eq]
  · simp only [compareUnsigned, three, BitVec.ult, Compare.cmpInt, decide_eq_true_eq, Int.ofNat_lt]

example : compareInt32 (BitVec.ofInt 32 (-1)) 1#32 = -1 ∧ compareUint32 (BitVec.ofInt 32 (-1)) 1#32 = 1 := by decide

/-- BOOLEAN: `false < true` -/
theorem compareBool_spec (a b : Bool) :
    compareBool a b = Compare.cmpInt (a.toNat : Int) (b.toNat : Int) := by
  cases a <;> cases b <;> decide

/-- FLOAT / DOUBLE, every IEEE binary format: Go's `<` (comparison of the numbers the bit patterns denote, false
    on NaN) is the `lt` of the sign-magnitude column order `Stats.float`, the NaN tests agree, and so
    `compareFloat32/64` is the three-way reading of that order. NaN included: no hypothesis. -/
theorem compareFloat_spec (e m : Nat) (a b : BitVec (1 + e + m)) :
    ieeeIsNaN e m a = fIsNaN e m a ∧
    ieeeLt e m a b = (float e m).lt a b ∧
    compareFloat e m a b = three ((float e m).lt a b) ((float e m).lt b a) := by
  refine ⟨ieeeIsNaN_eq e m a, ieeeLt_eq e m a b, ?_⟩
  simp only [compareFloat, ieeeLt_eq]

/-- what the order of `Stats.float` means: on non-NaN patterns it is the order of the denoted numbers -/
theorem float_order_is_ieee (e m : Nat) (a b : BitVec (1 + e + m))
    (ha : fIsNaN e m a = false) (hb : fIsNaN e m b = false) :
    (float e m).lt a b = decide (fDenote e m a < fDenote e m b) := by
  rw [← ieeeLt_eq]
  simp [ieeeLt, ieeeIsNaN_eq, ha, hb]

-- 1.0 < 2.0, -0.0 = +0.0, -inf < -1.0, smallest subnormal > 0, NaN is not below +inf
example : compareFloat32 0x3f800000#32 0x40000000#32 = -1 ∧ compareFloat32 0x80000000#32 0x00000000#32 = 0 ∧
    compareFloat32 0xff800000#32 0xbf800000#32 = -1 ∧ compareFloat32 0x00000001#32 0x00000000#32 = 1 ∧
    fIsNaN 8 23 0x3f800000#32 = false ∧ fDenote 8 23 0x3f800000#32 < fDenote 8 23 0x40000000#32 := by decide

/-- BYTE_ARRAY, FIXED_LEN_BYTE_ARRAY, STRING, JSON, BSON, ENUM: `bytes.Compare` is the unsigned lexicographic order -/
theorem bytesCompare_spec (a b : List Nat) :
    bytesCompare a b = three (Stats.bytes.lt a b) (Stats.bytes.lt b a) := bytesCompare_eq a b

example : bytesCompare [1, 2] [1, 2, 0] = -1 ∧ bytesCompare [255] [1, 2] = 1 ∧ bytesCompare [] [] = 0 := by decide

/-- be128 / UUID: comparing the two big-endian 64-bit halves is `bytes.Compare` on 16-byte values, and `lessBE128`
    is its `< 0`; so the be128 column order is `Stats.bytes` like every other fixed-length byte array. -/
theorem compareBE128_spec (a b : List Nat) (la : a.length = 16) (lb : b.length = 16)
    (ha : IsBytes a) (hb : IsBytes b) :
    compareBE128 a b = bytesCompare a b ∧ lessBE128 a b = Stats.bytes.lt a b := by
  have hta : IsBytes (a.take 8) := fun x hx => ha x (List.mem_of_mem_take hx)
  have htb : IsBytes (b.take 8) := fun x hx => hb x (List.mem_of_mem_take hx)
  have hda : IsBytes (a.drop 8) := fun x hx => ha x (List.mem_of_mem_drop hx)
  have hdb : IsBytes (b.drop 8) := fun x hx => hb x (List.mem_of_mem_drop hx)
  have e1 := bytesCompare_beNat (a.take 8) (b.take 8) (by simp [la, lb]) hta htb
  have e2 := bytesCompare_beNat (a.drop 8) (b.drop 8) (by simp [la, lb]) hda hdb
  have e3 := bytesCompare_append (a.take 8) (b.take 8) (a.drop 8) (b.drop 8) (by simp [la, lb])
  rw [List.take_append_drop, List.take_append_drop] at e3
  have hc : compareBE128 a b = bytesCompare a b := by
    rw [e3, e1, e2]
    simp only [compareBE128, three]
    by_cases h1 : beNat (a.take 8) < beNat (b.take 8)
    · simp [h1]
    · by_cases h2 : beNat (a.take 8) > beNat (b.take 8)
      · simp [h1, h2]
      · simp [h1, h2]
  refine ⟨hc, ?_⟩
  have hl : lessBE128 a b = decide (compareBE128 a b < 0) := by
    simp only [lessBE128, compareBE128, three]
    by_cases h1 : beNat (a.take 8) < beNat (b.take 8)
    · simp [h1]
    · by_cases h2 : beNat (a.take 8) > beNat (b.take 8)
      · simp [h1, h2]
      · simp only [h1, h2, if_false]
        by_cases h3 : beNat (a.drop 8) < beNat (b.drop 8)
        · simp [h3]
        · by_cases h4 : beNat (a.drop 8) > beNat (b.drop 8)
          · simp [h3, h4]
          · simp [h3, h4]
  rw [hl, hc, bytesCompare_eq]
  rw [Bool.eq_iff_iff]
  simp only [decide_eq_true_eq, three_lt, Stats.bytes]

example : compareBE128 [0,0,0,0,0,0,0,1, 255,255,255,255,255,255,255,255] [0,0,0,0,0,0,0,2, 0,0,0,0,0,0,0,0] = -1 ∧
    lessBE128 [0,0,0,0,0,0,0,1, 0,0,0,0,0,0,0,5] [0,0,0,0,0,0,0,1, 0,0,0,0,0,0,0,4] = false := by decide

/-- INT(bitWidth, isSigned) logical types: `(*intType).Compare` orders by the number the bits denote under the
    logical type, for every bit width and signedness (the 8/16/32-bit types read the low 32 bits). -/
theorem intTypeCompare_spec (bitWidth : Nat) (isSigned : Bool) (a b : BitVec 64) :
    intTypeCompare bitWidth isSigned a b =
      Compare.cmpInt (intTypeDenote bitWidth isSigned a) (intTypeDenote bitWidth isSigned b) := by
  unfold intTypeCompare intTypeDenote
  by_cases hw : bitWidth = 64 <;> cases isSigned <;> simp only [hw, if_true, if_false, Bool.false_eq_true]
  · exact (compareInt_spec a b).2.2.2
  · exact (compareInt_spec a b).2.1
  · exact (compareInt_spec _ _).2.2.2
  · exact (compareInt_spec _ _).2.1

-- UINT_32 sees 0xFFFFFFFF above 1, INT_32 below; the high half of the payload is ignored by the narrow types
example : intTypeCompare 32 false 0xFFFFFFFF#64 1#64 = 1 ∧ intTypeCompare 32 true 0xFFFFFFFF#64 1#64 = -1 ∧
    intTypeCompare 8 true 0x100000005#64 5#64 = 0 ∧ intTypeCompare 64 false 0x8000000000000000#64 1#64 = 1 := by
  decide

/-! ## total preorder -/

/-- The three-way reading of ANY lawful column order is reflexive and antisymmetric in sign everywhere, and
    transitive through every value that takes part in the order (`ok`, i.e. not NaN). -/
theorem three_of_lawful {α} {o : ColOrder α} (h : Lawful o) :
    (∀ a, three (o.lt a a) (o.lt a a) = 0) ∧
    (∀ a b, three (o.lt a b) (o.lt b a) < 0 ↔ 0 < three (o.lt b a) (o.lt a b)) ∧
    (∀ a b d, o.ok b = true → three (o.lt a b) (o.lt b a) ≤ 0 → three (o.lt b d) (o.lt d b) ≤ 0 →
      three (o.lt a d) (o.lt d a) ≤ 0) := by
  have asym : ∀ a b, o.lt a b = true → o.lt b a = false := by
    intro a b h1
    cases h2 : o.lt b a
    · rfl
    · have := h.trans a b a h1 h2; rw [h.irrefl] at this; cases this
  refine ⟨fun a => by simp [three, h.irrefl], ?_, ?_⟩
  · intro a b
    rw [three_lt, three_gt _ _ (asym b a)]
  · intro a b d hb h1 h2
    rw [three_le _ _ (asym a b)] at h1
    rw [three_le _ _ (asym b d)] at h2
    rw [three_le _ _ (asym a d)]
    cases hda : o.lt d a
    · rfl
    · rcases h.negtrans d b a hb hda with h' | h'
      · rw [h2] at h'; cases h'
      · rw [h1] at h'; cases h'

/-- `Type.Compare` of the integer, boolean and byte-string column types is a total preorder on ALL values: the
    mirrors satisfy the comparator interface (`Compare.Lawful`) under which the merge and sort theorems are proved. -/
theorem typeCompare_lawful :
    (∀ w, Compare.Lawful (compareSigned (w := w))) ∧ (∀ w, Compare.Lawful (compareUnsigned (w := w))) ∧
    Compare.Lawful compareBool ∧ Compare.Lawful bytesCompare ∧
    (∀ bw s, Compare.Lawful (intTypeCompare bw s)) := by
  have key : ∀ {α} (o : ColOrder α), Lawful o → (∀ v, o.ok v = true) →
      Compare.Lawful (fun a b => three (o.lt a b) (o.lt b a)) := by
    intro α o h hok
    obtain ⟨h1, h2, h3⟩ := three_of_lawful h
    exact ⟨h1, h2, fun a b d => h3 a b d (hok b)⟩
  have onInt : ∀ {α} (f : α → Int), Compare.Lawful (fun a b => Compare.cmpInt (f a) (f b)) :=
    fun f => Compare.onCol_lawful f Compare.cmpInt_lawful
  refine ⟨fun w => ?_, fun w => ?_, ?_, ?_, fun bw s => ?_⟩
  · have := key (sint w) (sint_lawful w) (fun _ => rfl)
    exact (funext fun a => funext fun b => compareSigned_eq a b) ▸ this
  · have := key (uint w) (uint_lawful w) (fun _ => rfl)
    exact (funext fun a => funext fun b => compareUnsigned_eq a b) ▸ this
  · have := onInt (fun a : Bool => (a.toNat : Int))
    exact (funext fun a => funext fun b => compareBool_spec a b) ▸ this
  · have := key Stats.bytes bytes_lawful (fun _ => rfl)
    exact (funext fun a => funext fun b => bytesCompare_eq a b) ▸ this
  · have := onInt (intTypeDenote bw s)
    exact (funext fun a => funext fun b => intTypeCompare_spec bw s a b) ▸ this

/-- FLOAT / DOUBLE: `compareFloat32/64` is a total preorder on the non-NaN values (`-0.0` and `+0.0` compare
    equal and are interchangeable), for every IEEE binary format. -/
theorem compareFloat_preorder_on_non_nan (e m : Nat) :
    (∀ a, compareFloat e m a a = 0) ∧
    (∀ a b, compareFloat e m a b < 0 ↔ 0 < compareFloat e m b a) ∧
    (∀ a b d, ieeeIsNaN e m b = false → compareFloat e m a b ≤ 0 → compareFloat e m b d ≤ 0 →
      compareFloat e m a d ≤ 0) := by
  obtain ⟨h1, h2, h3⟩ := three_of_lawful (float_lawful e m)
  simp only [compareFloat, ieeeLt_eq]
  refine ⟨h1, h2, fun a b d hb => h3 a b d ?_⟩
  rw [ieeeIsNaN_eq] at hb
  simp [float, ofKey, hb]

example : ieeeIsNaN 8 23 0x3f800000#32 = false ∧ ieeeIsNaN 11 52 0x7ff0000000000000#64 = false := by decide

/-! ## the per-type arms of the row comparator are `Type.Compare` -/

/-- For EVERY leaf type the hand-written arm of `compareRowsFuncOfIndexAscending` performs exactly the comparison
    of that type's `Compare` method, and the arm of `compareRowsFuncOfIndexDescending` its negation: the fast
    positional comparator used for sorting and merging orders a column the way its statistics do. -/
theorem arms_are_typeCompare (t : LeafType) (a b : Val) :
    armAscending t a b = typeCompare t a b ∧ armDescending t a b = - typeCompare t a b := by
  cases t
  case time u => cases u <;> simp only [armAscending, armDescending, typeCompare] <;> simp
  case int bw sg =>
    simp only [armAscending, armDescending, typeCompare, intTypeCompare, Val.int32, Val.int64]
    by_cases h : bw = 64 <;> cases sg <;> simp [h]
  all_goals simp only [armAscending, armDescending, typeCompare, and_self]

example : armDescending (.int 32 false) ⟨0xFFFFFFFFFFFFFFFF#64, []⟩ ⟨1#64, []⟩ = -1 ∧
    armAscending .uuid ⟨16#64, List.replicate 16 0⟩ ⟨16#64, List.replicate 15 0 ++ [1]⟩ = -1 := by decide

/-- `Type.Compare` of every leaf type that reads neither floats nor 16-byte values is a total preorder on all
    values, and so are both of its row-comparator arms (`Compare.Lawful` is the hypothesis of the C09 / C10 theorems). -/
theorem typeCompare_lawful_leaf (t : LeafType) (hf : t.isFloat = false) (h128 : t.is128 = false) :
    Compare.Lawful (typeCompare t) ∧ Compare.Lawful (armAscending t) ∧ Compare.Lawful (armDescending t) := by
  obtain ⟨hs, hu, hb, hy, hi⟩ := typeCompare_lawful
  have via : ∀ {β : Type} (get : Val → β) (c : β → β → Int), Compare.Lawful c →
      (∀ a b, typeCompare t a b = c (get a) (get b)) → Compare.Lawful (typeCompare t) := by
    intro β get c hc he
    have : typeCompare t = Compare.onCol get c := funext fun a => funext fun b => he a b
    exact this ▸ Compare.onCol_lawful get hc
  have base : Compare.Lawful (typeCompare t) := by
    cases t
    case float => cases hf
    case double => cases hf
    case be128 => cases h128
    case uuid => cases h128
    case int32 => exact via Val.int32 _ (hs 32) (fun a b => by simp only [typeCompare])
    case uint32 => exact via Val.int32 _ (hu 32) (fun a b => by simp only [typeCompare])
    case int64 => exact via Val.int64 _ (hs 64) (fun a b => by simp only [typeCompare])
    case uint64 => exact via Val.int64 _ (hu 64) (fun a b => by simp only [typeCompare])
    case boolean => exact via Val.boolean _ hb (fun a b => by simp only [typeCompare])
    case date => exact via Val.int32 _ (hs 32) (fun a b => by simp only [typeCompare])
    case timestamp => exact via Val.int64 _ (hs 64) (fun a b => by simp only [typeCompare])
    case decimalInt32 => exact via Val.int32 _ (hs 32) (fun a b => by simp only [typeCompare])
    case decimalInt64 => exact via Val.int64 _ (hs 64) (fun a b => by simp only [typeCompare])
    case time u =>
      cases u
      · exact via Val.int64 _ (hs 64) (fun a b => by simp [typeCompare])
      · exact via Val.int32 _ (hs 32) (fun a b => by simp [typeCompare])
    case int bw sg => exact via Val.u64 _ (hi bw sg) (fun a b => by simp only [typeCompare])
    all_goals exact via Val.bytes _ hy (fun a b => by simp only [typeCompare])
  have e1 : armAscending t = typeCompare t := funext fun a => funext fun b => (arms_are_typeCompare t a b).1
  have e2 : armDescending t = Compare.descending (typeCompare t) :=
    funext fun a => funext fun b => (arms_are_typeCompare t a b).2
  exact ⟨base, e1 ▸ base, e2 ▸ Compare.descending_lawful base⟩

example : (LeafType.int 16 true).isFloat = false ∧ (LeafType.int 16 true).is128 = false ∧
    LeafType.string.isFloat = false ∧ LeafType.string.is128 = false := by decide

/-! ## NaN -/

/-- A NaN compares EQUAL to every value, in both argument positions, in every format: `Type.Compare` of a float
    column returns 0 as soon as one side is NaN. -/
theorem compareFloat_nan_equals_everything (e m : Nat) (n x : BitVec (1 + e + m)) (hn : ieeeIsNaN e m n = true) :
    compareFloat e m n x = 0 ∧ compareFloat e m x n = 0 := by
  simp [compareFloat, ieeeLt, hn, three]

/-- Hence with NaN in the domain `compareFloat32` / `compareFloat64` are NOT total preorders: 1.0 = NaN and
    NaN = 2.0 by `Compare`, yet 1.0 < 2.0. This is why the statistics theorems carry `ok` (non-NaN) and why sorting
    or merging a float column that holds NaN is outside the `Compare.Lawful` theorems. -/
theorem compareFloat_not_lawful_with_nan :
    ¬ Compare.Lawful compareFloat32 ∧ ¬ Compare.Lawful compareFloat64 := by
  constructor
  · intro h
    have h1 : compareFloat32 0x40000000#32 0x7fc00000#32 ≤ 0 := by decide
    have h2 : compareFloat32 0x7fc00000#32 0x3f800000#32 ≤ 0 := by decide
    have h3 := h.trans _ _ _ h1 h2
    exact absurd h3 (by decide)
  · intro h
    have h1 : compareFloat64 0x4000000000000000#64 0x7ff8000000000000#64 ≤ 0 := by decide
    have h2 : compareFloat64 0x7ff8000000000000#64 0x3ff0000000000000#64 ≤ 0 := by decide
    have h3 := h.trans _ _ _ h1 h2
    have h4 : compareFloat64 0x4000000000000000#64 0x3ff0000000000000#64 = 1 := by decide +kernel
    omega

end PqModel.Props.C05
