import PqModel.Spec.SizeStats

/-! C02, statistics that are functions of the decoded data. SPEC definitions (in
    `Spec/SizeStats.lean`): `unencodedBytes vals` = sum of the lengths of the non-null byte-array
    values; `levelHistogram max levels`; `streamBytes` = the same sum read off a Dremel stream
    (the `(value, rep, def)` entries `file.dump` returns and the harness compares with the rows
    written). The theorems tie the number the spec reader compares the footer with to those
    streams, and the mirror of the writer's dictionary branch to the spec definition. -/
namespace PqModel.Props.C02SizeStats
open PqModel.Spec PqModel.Spec.SizeStats

theorem unencodedBytes_append (a b : List Value) :
    unencodedBytes (a ++ b) = unencodedBytes a + unencodedBytes b := by
  induction a with
  | nil => simp [unencodedBytes]
  | cons v vs ih => simp only [List.cons_append, unencodedBytes, ih]; omega

theorem unencodedBytes_reverse (a : List Value) : unencodedBytes a.reverse = unencodedBytes a := by
  induction a with
  | nil => rfl
  | cons v vs ih => simp only [List.reverse_cons, unencodedBytes_append, unencodedBytes, ih]; omega

/-- the spec definition in closed form: the sum of the lengths -/
theorem unencodedBytes_eq_sum (vs : List Value) : unencodedBytes vs = (vs.map List.length).sum := by
  induction vs with
  | nil => rfl
  | cons v vs ih => simp only [unencodedBytes, List.map_cons, List.sum_cons, ih]

/-- number of definition levels equal to the maximum = number of non-null entries -/
def nonNull (maxDef : Nat) : List Nat → Nat
  | [] => 0
  | x :: xs => (if x == maxDef then 1 else 0) + nonNull maxDef xs

/-- **Page level.** For every page whose decoded parts are consistent (one repetition level per
    definition level, one value per definition level equal to the maximum; the clauses
    `decodeDataPage` reports otherwise), the bytes held by the non-null values of the Dremel
    entries the spec reader builds from the page are exactly `unencodedBytes` of its values: the
    number compared with `unencoded_byte_array_data_bytes` is the one the decoded stream holds. -/
theorem streamBytes_zipTriples (maxDef : Nat) (reps defs : List Nat) (vals : List Value) (acc : List Triple)
    (hlen : reps.length = defs.length) (hvals : vals.length = nonNull maxDef defs) :
    streamBytes (zipTriples maxDef reps defs vals acc) = unencodedBytes vals + streamBytes acc := by
  induction reps generalizing defs vals acc with
  | nil =>
    cases defs with
    | nil =>
      cases vals with
      | nil => simp [zipTriples, unencodedBytes]
      | cons v vs => simp [nonNull] at hvals
    | cons d ds => simp at hlen
  | cons r rs ih =>
    cases defs with
    | nil => simp at hlen
    | cons dl ds =>
      simp only [List.length_cons, Nat.add_right_cancel_iff] at hlen
      simp only [zipTriples]
      by_cases h : (dl == maxDef) = true
      · simp only [h, if_true]
        cases vals with
        | nil => simp [nonNull, h] at hvals; omega
        | cons v vs =>
          simp only [nonNull, h, if_true, List.length_cons] at hvals
          rw [ih ds vs _ hlen (by omega)]
          simp only [streamBytes, unencodedBytes]; omega
      · have h' : (dl == maxDef) = false := by simpa using h
        simp only [h', Bool.false_eq_true, ↓reduceIte]
        simp only [nonNull, h', Bool.false_eq_true, ↓reduceIte, Nat.zero_add] at hvals
        rw [ih ds vals _ hlen hvals]
        simp [streamBytes]

/-- a page whose decoded parts are consistent -/
def PageOk (maxDef : Nat) (pd : PageData) : Prop :=
  pd.reps.length = pd.defs.length ∧ pd.vals.length = nonNull maxDef pd.defs

/-- **Chunk level.** The sum over the pages of a chunk of `unencodedBytes` (what the spec reader
    compares with `ColumnMetaData.size_statistics.unencoded_byte_array_data_bytes`, and page by
    page with the offset index) is the number of bytes the non-null values of the chunk's
    decoded stream hold, for any number of pages. -/
theorem chunk_unencodedBytes (maxDef : Nat) (pds : List PageData) (acc : List Triple)
    (h : ∀ pd ∈ pds, PageOk maxDef pd) :
    streamBytes (chunkStream maxDef pds acc) = (pds.map fun pd => unencodedBytes pd.vals).sum + streamBytes acc := by
  induction pds generalizing acc with
  | nil => simp [chunkStream]
  | cons pd rest ih =>
    have hp := h pd (by simp)
    have := ih (zipTriples maxDef pd.reps pd.defs pd.vals acc) (fun q hq => h q (by simp [hq]))
    simp only [chunkStream, List.foldl_cons] at this ⊢
    rw [this, streamBytes_zipTriples maxDef _ _ _ _ hp.1 hp.2]
    simp only [List.map_cons, List.sum_cons]; omega

-- the hypotheses are satisfiable: an optional column page `null, "ab", "ab"`
example : PageOk 1 { reps := [0, 0, 0], defs := [0, 1, 1], vals := [[97, 98], [97, 98]], rows := 3, nulls := 1 } := by
  unfold PageOk; decide

theorem lookupAll_bytes (dict : Array Value) (idx : List Nat) (acc out : List Value) (last : Option Nat) (s : Nat)
    (h : lookupAll dict idx acc = .ok out) :
    dictBranchSize false dict idx last (s + unencodedBytes acc) = s + unencodedBytes out := by
  induction idx generalizing acc last s with
  | nil =>
    simp only [lookupAll, Except.ok.injEq] at h
    subst h
    simp [dictBranchSize, unencodedBytes_reverse]
  | cons i is ih =>
    simp only [lookupAll] at h
    cases hd : dict[i]? with
    | none => simp [hd] at h
    | some v =>
      simp only [hd] at h
      have := ih (v :: acc) (some i) s h
      simp only [unencodedBytes] at this
      simp only [dictBranchSize, Bool.false_and, Bool.false_eq_true, ↓reduceIte, hd, Option.getD_some]
      rw [← this]
      congr 1; omega

/-- **The writer's dictionary branch computes the spec number.** The mirror of the loop of
    `computeUnencodedByteArraySize` over the indexes of a dictionary-encoded page returns
    `unencodedBytes` of the values a reader obtains by looking the indexes up (`lookupAll`, the
    step of the spec decoder for PLAIN_DICTIONARY / RLE_DICTIONARY pages): runs of equal indexes
    count once per element. -/
theorem dictBranchSize_spec (dict : Array Value) (idx : List Nat) (vals : List Value)
    (h : lookupAll dict idx [] = .ok vals) :
    dictBranchSize false dict idx none 0 = unencodedBytes vals := by
  have := lookupAll_bytes dict idx [] vals none 0 h
  simpa [unencodedBytes] using this

example : lookupAll #[[1, 2], [3]] [0, 0, 1] [] = .ok [[1, 2], [1, 2], [3]] := by decide

/-- the last-index-cache variant (seed C02-7a) violates `dictBranchSize_spec`: two adjacent
    equal indexes of a two-byte value are counted as 2 bytes, the values hold 4 -/
theorem dictBranchSize_runCache_undercounts :
    lookupAll #[[1, 2]] [0, 0] [] = .ok [[1, 2], [1, 2]] ∧
    dictBranchSize true #[[1, 2]] [0, 0] none 0 = 2 ∧ unencodedBytes [[1, 2], [1, 2]] = 4 := by
  decide

/-- the level histogram has `max + 1` entries and they add up to the number of in-range levels;
    for levels within the schema maximum: to the number of entries (`num_values`) -/
theorem levelHistogram_length (maxLevel : Nat) (levels : List Nat) :
    (levelHistogram maxLevel levels).length = maxLevel + 1 := by
  simp [levelHistogram]

end PqModel.Props.C02SizeStats
