import PqModel.BloomPending
import PqModel.Props.C07Segments

/-! # C07, rows pending in the writer when `WriteRowGroup` is called (round 7)

Definitions: `PqModel/BloomPending.lean`. Only property theorems here. -/
namespace PqModel.Props.C07Pending
open PqModel.XxHash PqModel.Bloom PqModel.BloomWriter PqModel.BloomSegments PqModel.BloomPending
open PqModel.Props.C07 PqModel.Props.C07Writer PqModel.Props.C07Segments

/-- `flushFilterPages` on the actual filter state agrees with the `presized` reading of BloomWriter.lean
    whenever the state is what that reading assumes: a filter of `c.presized` bytes that saw every page
    (`incremental`). The point of this file is that the state is NOT always that. -/
theorem flushFilterOn_of_incremental (c : ChunkWrite) :
    flushFilterOn c (c.presized, incremental c) = flushFilter c := by
  unfold flushFilterOn flushFilter
  cases c.dictionary <;> rfl

/-- AS THE CODE IS (filters configured after `w.writer.flush()`): while the pending rows' pages are
    written, early or last, the filter stays unallocated and nothing is inserted. -/
theorem pending_events_in_order (kind : Kind) (bits : Nat) (p : Pending) :
    frun kind bits (0, []) (pendingEvents p none) = (0, incremental (p.chunk kind bits)) := by
  have e : pendingEvents p none = p.pages.map FEv.page := by
    simp [pendingEvents, Pending.pages]
  rw [e, frun_pages]
  simp [incremental, insertedInto, Pending.chunk]

/-- … hence the implicitly flushed row group gets exactly the filter of a chunk that was never
    pre-sized: every page, early ones included, is re-read (or covered by the dictionary). -/
theorem pending_filter_is_flushFilter (kind : Kind) (bits : Nat) (p : Pending) :
    pendingFilter kind bits p none = flushFilter (p.chunk kind bits) := by
  unfold pendingFilter
  rw [pending_events_in_order]
  exact flushFilterOn_of_incremental (p.chunk kind bits)

/-- END TO END for the rows pending when `WriteRowGroup` is called: any number of early pages, any last
    pages, dictionary or not, fallen back or not — every value of every page of the pending row group is
    found in the filter stored for that row group. -/
theorem pending_written_value_is_found (kind : Kind) (bits : Nat) (p : Pending)
    (ok : ChunkOk (p.chunk kind bits)) (hb : 1 ≤ bits)
    (pg : WPage) (hp : pg ∈ p.early ∨ pg ∈ p.last) (v : Value) (hv : v ∈ pg.values) :
    let f := pendingFilter kind bits p none
    checkBytes (filterBytes (build (f.1 / 32) (f.2.map UInt64.toBitVec))) (hashRead v).toBitVec = true := by
  intro f
  show checkBytes (filterBytes (build ((pendingFilter kind bits p none).1 / 32)
    ((pendingFilter kind bits p none).2.map UInt64.toBitVec))) (hashRead v).toBitVec = true
  rw [pending_filter_is_flushFilter]
  apply written_value_is_found_every_strategy (p.chunk kind bits) ok hb v
  show v ∈ (p.early ++ p.last).flatMap (·.values)
  exact List.mem_flatMap.mpr ⟨pg, List.mem_append.mpr hp, hv⟩

/-- THE SLIP, in general (C07-7a): with the filters configured before the flush, the pending row
    group of a column without dictionary ends with a filter sized for the INCOMING group that holds the
    last page(s) only — whatever the early pages were, they are never inserted, because
    `flushFilterPages` takes an allocated filter for a complete one. -/
theorem hoisted_filter_forgets_early_pages (kind : Kind) (bits : Nat) (p : Pending) (n : Nat)
    (hd : p.dictionary = none) (hn : 0 < filterSize bits n) :
    pendingFilter kind bits p (some n) = (filterSize bits n, insertedInto kind (filterSize bits n) p.last) := by
  unfold pendingFilter
  have e : pendingEvents p (some n) = p.early.map FEv.page ++ FEv.resize n :: p.last.map FEv.page := by
    simp [pendingEvents]
  rw [e, resize_forgets]
  unfold flushFilterOn
  simp only [Pending.chunk, hd]
  simp [hn]

/-- the incoming row group, as the code is: sized by `configureBloomFilters`, filled page by page — the
    pre-sized chunk `flushFilter` assumes -/
theorem incoming_filter_presized (c : ChunkWrite) (k : Nat) :
    incomingFilter c (some k) false = flushFilter { c with presized := filterSize c.bits k } := by
  have e : incomingEvents c (some k) false = [] ++ FEv.resize k :: c.pages.map FEv.page := by
    simp [incomingEvents]
  unfold incomingFilter
  rw [e, resize_forgets]
  exact flushFilterOn_of_incremental { c with presized := filterSize c.bits k }

/-- the incoming row group under the slip: `reset` truncated the early sizing, the group is re-read — a
    complete filter as well, which is why only the implicitly flushed group shows the defect -/
theorem incoming_filter_under_slip (c : ChunkWrite) (n : Option Nat) :
    incomingFilter c n true = flushFilter { c with presized := 0 } := by
  have e : incomingEvents c n true = c.pages.map FEv.page := by
    simp [incomingEvents]
  unfold incomingFilter
  rw [e, frun_pages]
  exact flushFilterOn_of_incremental { c with presized := 0 }

/-! ### sample: 30 distinct int64 in three PLAIN pages, two written early, one still buffered -/

def samplePending : Pending :=
  { early := [⟨(List.range 10).map (fun i => Value.int64 (UInt64.ofNat (i * 1000003))), false⟩,
              ⟨(List.range 10).map (fun i => Value.int64 (UInt64.ofNat ((10 + i) * 1000003))), false⟩],
    last := [⟨(List.range 10).map (fun i => Value.int64 (UInt64.ofNat ((20 + i) * 1000003))), false⟩],
    dictionary := none, switched := false, numValues := 30 }

def samplePendingChunk : ChunkWrite := samplePending.chunk .int64 10

set_option maxRecDepth 100000 in
example : ChunkOk samplePendingChunk where
  kinds := by decide +kernel
  noDict := by intro _; decide +kernel
  covers := by intro d h; cases h
  dictKinds := by intro d h; cases h
  dictWritten := by intro d h; cases h
  allIndexed := by intro _ h; cases h
  count := by decide
  presizedBlocks := by decide

example : (1 : Nat) ≤ 10 ∧ 0 < filterSize 10 20 := by decide

/-- as the code is, the implicitly flushed row group of the sample misses nothing … -/
theorem pending_sample_misses_nothing :
    missing samplePendingChunk (pendingFilter .int64 10 samplePending none) = 0 := by
  decide +kernel

/-- … C07-7a (seeded): `WriteRowGroup` of a 20-value row group with `configureBloomFilters` hoisted
    above `w.writer.flush()`: the 20 values of the two early pages are all reported absent. -/
theorem hoisted_configure_loses_early_pages :
    missing samplePendingChunk (pendingFilter .int64 10 samplePending (some 20)) = 20 := by
  decide +kernel

end PqModel.Props.C07Pending
