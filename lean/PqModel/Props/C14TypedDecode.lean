import PqModel.ThriftDecodeProofs
import PqModel.ThriftDecodeAlloc
import PqModel.ThriftDecodeFuel
import PqModel.ThriftDecodeCut
import PqModel.Props.C14Footer

/-! C14, the TYPED footer decoder (`PqModel.ThriftDecode`: MIRROR of `structDecoder.decode`,
    `decodeFuncSliceOf` / `Slice[T].DecodeFunc`, the scalar decoders and `unionDecoder.decode` of
    encoding/thrift over the bytes-backed compact reader, driven by a schema description).
    All theorems hold for every schema `fs`, every input `d` and every allocator `mem`. -/
namespace PqModel.Props.C14TypedDecode
open PqModel.IoFault PqModel.ThriftSkip PqModel.ThriftDecode PqModel.Props.C14Footer

/-- the typed decoder at any fuel, from offset 0, against `skipStruct` -/
theorem decT_fields_walk (mem : Option Nat) (fs : List FieldD) (d : Bytes) (f e : Nat)
    (h : decT mem d f (.fields fs true 0 []) 0 = .ok e) : skipStruct d = .ok e := by
  obtain ⟨f', h'⟩ := decT_walk mem d f _ 0 e h
  simp only [erase] at h'
  rw [skipStruct_ok_iff]
  have hm := skipT_fuel_mono d (.fields true) 0 (Nat.le_max_left f' (fuelFor d)) _ h'
  rw [skipStruct_eq_of_fuel d _ (Nat.le_max_right f' (fuelFor d))] at hm
  exact hm

/-- **typed_reads_what_walk_reads.** Whatever the schema, the typed decoder accepts only inputs the
structure walk accepts and consumes exactly the bytes the walk consumes (`r.BytesRead()` is the end of
the struct): unknown fields, fields and lists of another type than the schema's, coalesced booleans,
unions and nested lists never make it read more or less than `skipStruct`. -/
theorem typed_reads_what_walk_reads (mem : Option Nat) (fs : List FieldD) (d : Bytes) (e : Nat)
    (h : decStruct mem fs d = .ok e) : skipStruct d = .ok e :=
  decT_fields_walk mem fs d _ e h

/-- an accepted struct is not empty and ends inside the input -/
theorem typed_end_bounds (mem : Option Nat) (fs : List FieldD) (d : Bytes) (e : Nat)
    (h : decStruct mem fs d = .ok e) : 0 < e ∧ e ≤ d.length :=
  walk_end_bounds d e (typed_reads_what_walk_reads mem fs d e h)

/-- **typed_cut_never_accepted.** If the typed decoder accepts `d` as a struct ending at `e`, then `d`
cut anywhere before `e` is accepted by NO run of the typed decoder - at any fuel (so the statement
does not depend on the model's fuel), under any schema and any allocator. -/
theorem typed_cut_never_accepted (mem : Option Nat) (fs : List FieldD) (d : Bytes) (e m : Nat)
    (h : decStruct mem fs d = .ok e) (hm : m < e)
    (mem' : Option Nat) (fs' : List FieldD) (f e' : Nat) :
    decT mem' (d.take m) f (.fields fs' true 0 []) 0 ≠ .ok e' := by
  intro hc
  have h1 := decT_fields_walk mem' fs' (d.take m) f e' hc
  obtain ⟨err, h2⟩ := walk_cut_rejected d e m (typed_reads_what_walk_reads mem fs d e h) hm
  rw [h1] at h2
  cases h2

/-- **typed_cut_rejected.** Every strict prefix of an accepted struct is rejected. -/
theorem typed_cut_rejected (mem : Option Nat) (fs : List FieldD) (d : Bytes) (e m : Nat)
    (h : decStruct mem fs d = .ok e) (hm : m < e) :
    ∃ err, decStruct mem fs (d.take m) = .error err := by
  cases hc : decStruct mem fs (d.take m) with
  | error err => exact ⟨err, rfl⟩
  | ok e' => exact absurd hc (typed_cut_never_accepted mem fs d e m h hm mem fs _ e')

/-- **unmarshal_prefix_rejected.** `thrift.Unmarshal` (decode, then no trailing bytes) accepts no strict
prefix of an input it accepts: a footer cut anywhere is an error of the typed decoder. -/
theorem unmarshal_prefix_rejected (mem : Option Nat) (fs : List FieldD) (d : Bytes) (m : Nat)
    (h : unmarshal mem fs d = .ok ()) (hm : m < d.length) :
    ∃ err, unmarshal mem fs (d.take m) = .error (.dec err) := by
  unfold unmarshal at h
  cases hd : decStruct mem fs d with
  | error e => rw [hd] at h; cases h
  | ok e =>
    rw [hd] at h
    simp only at h
    split at h
    · cases h
    · rename_i hz
      have hb := typed_end_bounds mem fs d e hd
      have he : e = d.length := by
        have : d.length - e = 0 := by simpa using hz
        omega
      obtain ⟨err, h2⟩ := typed_cut_rejected mem fs d e m hd (by omega)
      exact ⟨err, by unfold unmarshal; rw [h2]⟩

/-! ## required fields -/

theorem foldl_missing_none (seen : List Int) : ∀ (fs : List FieldD) (acc : Option Int),
    fs.foldl (fun acc fd =>
      if fd.2.1 && !seen.contains fd.1 then
        (match acc with
         | none => some fd.1
         | some a => some (if fd.1 < a then fd.1 else a))
      else acc) acc = none →
    acc = none ∧ ∀ fd ∈ fs, ¬ (fd.2.1 = true ∧ fd.1 ∉ seen) := by
  intro fs
  induction fs with
  | nil => intro acc h; exact ⟨h, fun _ hm => by cases hm⟩
  | cons x xs ih =>
    intro acc h
    simp only [List.foldl_cons] at h
    obtain ⟨h1, h2⟩ := ih _ h
    split at h1
    · cases acc <;> simp at h1
    · rename_i hx
      refine ⟨h1, fun fd hm => ?_⟩
      cases hm with
      | head => intro hc; apply hx; simp [hc.1, hc.2]
      | tail _ hm' => exact h2 fd hm'

theorem foldl_missing_some (seen : List Int) : ∀ (fs : List FieldD) (acc : Option Int) (id : Int),
    fs.foldl (fun acc fd =>
      if fd.2.1 && !seen.contains fd.1 then
        (match acc with
         | none => some fd.1
         | some a => some (if fd.1 < a then fd.1 else a))
      else acc) acc = some id →
    acc = some id ∨ ∃ fd ∈ fs, fd.2.1 = true ∧ fd.1 ∉ seen ∧ fd.1 = id := by
  intro fs
  induction fs with
  | nil => intro acc id h; exact Or.inl h
  | cons x xs ih =>
    intro acc id h
    simp only [List.foldl_cons] at h
    rcases ih _ id h with h1 | ⟨fd, hm, hfd⟩
    · split at h1
      · rename_i hx
        have hx' : x.2.1 = true ∧ x.1 ∉ seen := by simpa using hx
        cases acc with
        | none =>
          simp only [Option.some.injEq] at h1
          exact Or.inr ⟨x, List.mem_cons_self, hx'.1, hx'.2, h1⟩
        | some a =>
          simp only [Option.some.injEq] at h1
          split at h1
          · exact Or.inr ⟨x, List.mem_cons_self, hx'.1, hx'.2, h1⟩
          · exact Or.inl (by rw [h1])
      · exact Or.inl h1
    · exact Or.inr ⟨fd, List.mem_cons_of_mem _ hm, hfd⟩

/-- the check after STOP passes exactly when every required field of the schema was seen -/
theorem firstMissing_none_iff (fs : List FieldD) (seen : List Int) :
    firstMissing fs seen = none ↔ ∀ fd ∈ fs, fd.2.1 = true → fd.1 ∈ seen := by
  constructor
  · intro h fd hm hr
    have := (foldl_missing_none seen fs none h).2 fd hm
    apply Decidable.byContradiction
    intro hn
    exact this ⟨hr, hn⟩
  · intro h
    cases hc : firstMissing fs seen with
    | none => rfl
    | some id =>
      exfalso
      rcases foldl_missing_some seen fs none id hc with h1 | ⟨fd, hm, hr, hn, _⟩
      · cases h1
      · exact hn (h fd hm hr)

/-- the id it reports is that of a required field that was not seen -/
theorem firstMissing_some (fs : List FieldD) (seen : List Int) (id : Int) (h : firstMissing fs seen = some id) :
    ∃ fd ∈ fs, fd.2.1 = true ∧ fd.1 ∉ seen ∧ fd.1 = id := by
  rcases foldl_missing_some seen fs none id h with h1 | h1
  · cases h1
  · exact h1

/-- **missing_required_reported.** When the field loop of `structDecoder.decode` meets STOP (the reader
answers a STOP header at `pos`) while a required field of the schema has not been seen, the decoder
answers `MissingField` for a required, unseen field - whatever was read before; it accepts at a STOP
only if every required field has been seen. -/
theorem missing_required_reported (mem : Option Nat) (d : Bytes) (f : Nat) (fs : List FieldD)
    (first : Bool) (last : Int) (seen : List Int) (pos p : Nat)
    (hstop : readFieldT d pos = .ok (none, p)) :
    (∀ fd ∈ fs, fd.2.1 = true → fd.1 ∈ seen) ∧ decT mem d (f + 1) (.fields fs first last seen) pos = .ok p
    ∨ ∃ fd ∈ fs, fd.2.1 = true ∧ fd.1 ∉ seen ∧
        decT mem d (f + 1) (.fields fs first last seen) pos = .error (.missing fd.1) := by
  simp only [decT, hstop, lift]
  cases hc : firstMissing fs seen with
  | none => exact Or.inl ⟨(firstMissing_none_iff fs seen).1 hc, rfl⟩
  | some id =>
    obtain ⟨fd, hm, hr, hn, he⟩ := firstMissing_some fs seen id hc
    exact Or.inr ⟨fd, hm, hr, hn, by rw [he]⟩

/-- the empty struct is rejected by every schema that has a required field -/
theorem empty_struct_missing (mem : Option Nat) (fs : List FieldD) (fd : FieldD) (hm : fd ∈ fs)
    (hr : fd.2.1 = true) : ∃ id, decStruct mem fs [0] = .error (.missing id) := by
  have hstop : readFieldT [0] 0 = .ok (none, 1) := by decide
  rcases missing_required_reported mem [0] (fuelD [0] - 1) fs true 0 [] 0 1 hstop with ⟨hall, _⟩ | ⟨fd', _, _, _, h⟩
  · exact absurd (hall fd hm hr) (by simp)
  · exact ⟨fd'.1, h⟩

/-! ## witnesses -/

/-- a cut-down `format.FileMetaData`: 1 version i32, 2 schema list<struct>, 3 num_rows i64,
    4 row_groups list<struct{1: list<struct{}>, 2: i64, 3: i64}>, all required; 5 key/values optional -/
def miniMeta : List FieldD :=
  [(1, true, .i32), (2, true, .list (.struct [(4, true, .binary)])), (3, true, .i64),
   (4, true, .list (.struct [(1, true, .list (.struct [])), (2, true, .i64), (3, true, .i64)])),
   (5, false, .list (.struct [(1, true, .binary), (2, false, .binary)]))]

/-- version=1, schema=[{name="r"}], num_rows=0, row_groups=[] -/
def miniFooter : Bytes := [0x15, 0x02, 0x19, 0x1c, 0x48, 0x01, 0x72, 0x00, 0x16, 0x00, 0x19, 0x0c, 0x00]

example : decStruct none miniMeta miniFooter = .ok miniFooter.length := by decide
example : unmarshal none miniMeta miniFooter = .ok () := by decide
example : ∀ m, m < miniFooter.length → (decStruct none miniMeta (miniFooter.take m)).toBool = false := by decide

/-- **walk accepts, typed decoder rejects**: the same footer without `num_rows` (field 3) is a
well-formed struct for the walk and a `MissingField 3` for the typed decoder; with the element of
`schema` lacking its required name the nested struct reports `MissingField 4`. -/
theorem missing_field_witness :
    skipStruct [0x15, 0x02, 0x19, 0x1c, 0x48, 0x01, 0x72, 0x00, 0x29, 0x0c, 0x00] = .ok 11 ∧
    decStruct none miniMeta [0x15, 0x02, 0x19, 0x1c, 0x48, 0x01, 0x72, 0x00, 0x29, 0x0c, 0x00] = .error (.missing 3) ∧
    decStruct none miniMeta [0x15, 0x02, 0x19, 0x1c, 0x00, 0x16, 0x00, 0x19, 0x0c, 0x00] = .error (.missing 4) := by
  decide

/-- **announced_list_size_not_bounded.** The announced list length is NOT checked against the remaining
input before the slice is allocated (decode.go:259-267 `reflect.MakeSlice(t, size, size)`, list.go:79-85
`make(Slice[T], size)`): on this 9-byte input (version, then `schema` announcing 2^31-1 structs and
nothing else) the decoder asks the allocator for 2147483647 elements - an allocator that grants at most as
many elements as the input has bytes refuses -, and only when the allocation is granted does it find the
input short (io.ErrUnexpectedEOF). -/
theorem announced_list_size_not_bounded :
    let d : Bytes := [0x15, 0x02, 0x19, 0xfc, 0xff, 0xff, 0xff, 0xff, 0x07]
    decStruct (some d.length) miniMeta d = .error (.oom 2147483647) ∧
    decStruct none miniMeta d = .error (.sk .ueof) := by
  decide

/-- **accepted_alloc_bounded.** The positive half: on every input the decoder ACCEPTS, every list size
it handed to the allocator was at most the number of input bytes (each element consumes at least one byte),
so the run under an allocator bounded by `d.length` elements per slice is the same accepting run. The
unbounded allocation is confined to inputs that are then rejected. -/
theorem accepted_alloc_bounded (fs : List FieldD) (d : Bytes) (e : Nat)
    (h : decStruct none fs d = .ok e) : decStruct (some d.length) fs d = .ok e :=
  decT_alloc d _ _ 0 e h

/-! ## the model's fuel, and the class of the error of a cut -/

/-- **typed_never_out_of_fuel.** The fuel of the mirror is never exhausted: `decStruct`'s answer is that of
the unbounded recursion of the Go code, for every schema, input and allocator. -/
theorem typed_never_out_of_fuel (mem : Option Nat) (fs : List FieldD) (d : Bytes) :
    decStruct mem fs d ≠ .error (.sk .fuel) := decStruct_nofuel mem fs d

/-- more fuel changes nothing -/
theorem typed_fuel_irrelevant (mem : Option Nat) (fs : List FieldD) (d : Bytes) (f : Nat) (h : fuelD d ≤ f) :
    decT mem d f (.fields fs true 0 []) 0 = decStruct mem fs d := decStruct_eq_of_fuel mem fs d f h

theorem fuelD_take (d : Bytes) (m : Nat) : fuelD (d.take m) ≤ fuelD d := by
  unfold fuelD fuelFor; rw [List.length_take]; omega

/-- **typed_cut_eof.** The cut of an accepted struct is rejected with io.EOF or io.ErrUnexpectedEOF and
nothing else: the cut run reads the same bytes and takes the same branches up to the cut, so neither the
required-field check (it runs at STOP only) nor a range check nor the allocator can answer first. -/
theorem typed_cut_eof (mem : Option Nat) (fs : List FieldD) (d : Bytes) (e m : Nat)
    (h : decStruct mem fs d = .ok e) (hm : m < e) :
    decStruct mem fs (d.take m) = .error (.sk .eof) ∨ decStruct mem fs (d.take m) = .error (.sk .ueof) := by
  obtain ⟨err, h4, hc⟩ := ((decT_rel mem d m (fuelD d) _ 0 e h).2 (Nat.zero_le _)).2 hm
  rw [decStruct_eq_of_fuel mem fs (d.take m) (fuelD d) (fuelD_take d m)] at h4
  rcases hc with hc | hc <;> subst hc
  · exact Or.inl h4
  · exact Or.inr h4

/-- **typed_cut_after.** A cut at or after the end of the struct changes nothing: the bytes that follow a
struct play no part in its acceptance. -/
theorem typed_cut_after (mem : Option Nat) (fs : List FieldD) (d : Bytes) (e m : Nat)
    (h : decStruct mem fs d = .ok e) (hm : e ≤ m) : decStruct mem fs (d.take m) = .ok e := by
  have h4 := ((decT_rel mem d m (fuelD d) _ 0 e h).2 (Nat.zero_le _)).1 hm
  rw [decStruct_eq_of_fuel mem fs (d.take m) (fuelD d) (fuelD_take d m)] at h4
  exact h4

example : decStruct none miniMeta (miniFooter.take 5) = .error (.sk .ueof) := by decide
example : decStruct none miniMeta (miniFooter ++ [7, 7]) = .ok miniFooter.length := by decide

end PqModel.Props.C14TypedDecode
