import PqModel.DeltaProofs
import PqModel.DeltaGoProofs
import PqModel.DeltaKernel
import PqModel.DeltaUnpack
import PqModel.DeltaAmd64

/-! # C04 (part DELTA) — DELTA_BINARY_PACKED, DELTA_LENGTH_BYTE_ARRAY and DELTA_BYTE_ARRAY are
lossless and conform to the format, for every input.

`specDecode*` are decoders written from Encodings.md (PqModel/Delta.lean, SPEC side); they reject
streams that break the format (bad block/miniblock sizes, bit widths above the physical type,
negative lengths, prefixes longer than the previous value, truncation), so `specDecode (encode xs) =
ok xs` says both "conformant" and "lossless". `mirrorEncode*` transliterate the portable Go
encoders of `encoding/delta` (MIRROR side). Every theorem quantifies over all value lists: all
lengths (0, 1, partial last block, many blocks) and all values (deltas that overflow wrap in
`BitVec`, as in Go). -/
namespace PqModel.Props.C04Delta
open PqModel.Delta

/-- INT32: decoding the encoder's bytes returns the input and consumes the stream exactly. -/
theorem delta32_roundtrip (xs : List (BitVec 32)) :
    specDecode32 (mirrorEncode32 xs) = .ok (xs, []) := by
  have := specDecode_mirrorEncode (by decide : 32 ≤ 64) xs []
  simpa [specDecode32, mirrorEncode32] using this

/-- INT64 twin. -/
theorem delta64_roundtrip (xs : List (BitVec 64)) :
    specDecode64 (mirrorEncode64 xs) = .ok (xs, []) := by
  have := specDecode_mirrorEncode (by decide : 64 ≤ 64) xs []
  simpa [specDecode64, mirrorEncode64] using this

/-- Stream-length form: whatever follows the stream is handed back untouched (this is what lets
DELTA_LENGTH_BYTE_ARRAY / DELTA_BYTE_ARRAY concatenate streams and data). -/
theorem delta32_roundtrip_stream (xs : List (BitVec 32)) (tail : List Nat) :
    specDecode32 (mirrorEncode32 xs ++ tail) = .ok (xs, tail) :=
  specDecode_mirrorEncode (by decide : 32 ≤ 64) xs tail

theorem delta64_roundtrip_stream (xs : List (BitVec 64)) (tail : List Nat) :
    specDecode64 (mirrorEncode64 xs ++ tail) = .ok (xs, tail) :=
  specDecode_mirrorEncode (by decide : 64 ≤ 64) xs tail

/-- Per-block form (any previous value, any number `rem` of values still expected, the block
holding `min 128 rem` of them; the padding and the minimum computed over the padded block do not
matter). -/
theorem delta_block_roundtrip {n : Nat} (hn : n ≤ 64) (chunk : List (BitVec n)) (last : BitVec n)
    (rem : Nat) (tail : List Nat) (hk : chunk.length = min 128 rem) :
    decBlock n 32 4 rem last ((encBlock chunk last).1 ++ tail) = .ok (chunk, tail) :=
  decBlock_encBlock hn chunk last rem tail hk

example : ∃ (chunk : List (BitVec 32)) (rem : Nat), chunk.length = min 128 rem ∧ chunk ≠ [] :=
  ⟨[0x7fffffff#32, 0x80000000#32], 2, by decide, by decide⟩

/-- DELTA_LENGTH_BYTE_ARRAY. Lengths are INT32 in the format, hence the (decidable) bound. -/
theorem dlba_roundtrip (vs : List (List Nat)) (h : ∀ v ∈ vs, v.length < 2 ^ 31) :
    specDecodeDLBA (mirrorEncodeDLBA vs) = .ok (vs, []) := by
  simpa using specDecodeDLBA_mirror vs [] h

example : ∀ v ∈ [[1, 2, 3], [], [255]], v.length < 2 ^ 31 := by decide

/-- DELTA_LENGTH_BYTE_ARRAY through the raw `(src, offsets)` entry point of the Go API, for ANY
offsets window: non-empty, non-decreasing offsets that end inside `src` (they may start after 0
and stop before `len(src)`, as `Page.Slice` builds them). The stream decodes to exactly the
values the offsets denote and nothing trails it. -/
theorem dlba_raw_roundtrip (src : List Nat) (o : Nat) (rest : List Nat)
    (hm : nondecreasing (o :: rest) = true) (hl : lastOff o rest ≤ src.length)
    (h31 : ∀ v ∈ windowValues src (o :: rest), v.length < 2 ^ 31) :
    specDecodeDLBA (mirrorEncodeDLBARaw src (o :: rest)) = .ok (windowValues src (o :: rest), []) := by
  rw [mirrorEncodeDLBARaw_eq src o rest hm hl]; exact dlba_roundtrip _ h31

example : nondecreasing (2 :: [5, 6]) = true ∧ lastOff 2 [5, 6] ≤ [0xaa, 0xaa, 1, 2, 3, 4, 0xbb].length ∧
    ∀ v ∈ windowValues [0xaa, 0xaa, 1, 2, 3, 4, 0xbb] (2 :: [5, 6]), v.length < 2 ^ 31 := by decide

/-- **Regression fact** (finding `dlba-encode-ignores-offsets-window-*`, repaired by
`fix: DELTA_LENGTH_BYTE_ARRAY encodes the offsets window, not the whole buffer`): before the
repair `EncodeByteArray` appended the whole of `src`. Witness: `src = aa 62 63`, offsets `[1,2,3]`
(the values `62`, `63`): the stream decoded to `aa`, `62` with `63` trailing. -/
theorem dlba_window_violation_before_fix :
    ∃ src offsets, specDecodeDLBA (mirrorEncodeDLBARawBeforeFix src offsets) ≠ .ok (windowValues src offsets, []) :=
  ⟨[0xaa, 0x62, 0x63], [1, 2, 3], by decide +kernel⟩

example : specDecodeDLBA (mirrorEncodeDLBARawBeforeFix [0xaa, 0x62, 0x63] [1, 2, 3]) = .ok ([[0xaa], [0x62]], [0x63]) := by
  decide +kernel

example : specDecodeDLBA (mirrorEncodeDLBARaw [0xaa, 0x62, 0x63] [1, 2, 3]) = .ok ([[0x62], [0x63]], []) := by
  decide +kernel

/-- DELTA_BYTE_ARRAY: prefix lengths found by the Go word search + suffixes give back every value. -/
theorem dba_roundtrip (vs : List (List Nat)) (h : ∀ v ∈ vs, v.length < 2 ^ 31) :
    specDecodeDBA (mirrorEncodeDBA vs) = .ok (vs, []) := by
  simpa using specDecodeDBA_mirror vs [] h

example : ∀ v ∈ [[1, 2, 3], [1, 2, 4, 5], [], [255]], v.length < 2 ^ 31 := by decide

/-- The Go prefix search (8-byte words, then bytes) is the longest common prefix: no cap, and
never longer than either value. -/
theorem dba_prefix_is_common_prefix (a b : List Nat) :
    searchPrefixLength a b = commonPrefix a b ∧
    searchPrefixLength a b ≤ a.length ∧ searchPrefixLength a b ≤ b.length ∧
    a.take (searchPrefixLength a b) = b.take (searchPrefixLength a b) := by
  rw [searchPrefixLength_eq]
  exact ⟨rfl, (commonPrefix_le a b).1, (commonPrefix_le a b).2, commonPrefix_take a b⟩

/-- FIXED_LEN_BYTE_ARRAY through DELTA_BYTE_ARRAY: decoding yields values of `size` bytes whose
concatenation is the source buffer. -/
theorem dba_flba_roundtrip (size : Nat) (src : List Nat) (hs : 0 < size) (hb : size < 2 ^ 31)
    (hm : src.length % size = 0) :
    ∃ vs, specDecodeDBA (mirrorEncodeFLBA size src) = .ok (vs, []) ∧ vs.flatten = src ∧
      ∀ v ∈ vs, v.length = size := by
  refine ⟨chunksOf size src.length src, ?_, chunksOf_flatten size _ src hs (Nat.le_refl _) hm,
    chunksOf_length size _ src⟩
  have := specDecodeDBA_mirror (chunksOf size src.length src) [] (by
    intro v hv; rw [chunksOf_length size _ src v hv]; exact hb)
  simpa [mirrorEncodeFLBA] using this

example : (0 < 2) ∧ (2 < 2 ^ 31) ∧ ([1, 2, 3, 4] : List Nat).length % 2 = 0 := by decide

/-! What the encoder emits for no value and for one value (header only, first value 0 resp. the
value, zigzag), and for two values (the minimum is taken over the zero padded block: deltas
5, then 0 - 10 = -10 for the padding, so min delta = -10, zigzag 19, width 4 for 15 = 5 - -10). -/
example : mirrorEncode32 [] = [128, 1, 4, 0, 0] := by decide
example : mirrorEncode32 [7#32] = [128, 1, 4, 1, 14] := by decide
example : (mirrorEncode32 [5#32, 10#32]).take 11 = [128, 1, 4, 2, 10, 19, 4, 0, 0, 0, 15] := by decide +kernel
example : (mirrorEncode32 [5#32, 10#32]).length = 26 := by decide +kernel

/-! ## The Go decoders (mirror of `decodeInt32/64`, `LengthByteArrayEncoding.DecodeByteArray`,
portable `ByteArrayEncoding.DecodeByteArray`, PqModel/DeltaGo.lean) against the format -/

/-- On EVERY stream the spec decoder reads — every conformant stream, any legal block/miniblock
geometry, widths, frame of reference — the Go INT32 decoder returns the same values and the same
remaining bytes, or refuses the stream with one of Go's documented limits (`GoErr.isLimit`). -/
theorem goDecode32_eq_spec (bs : List Nat) (xs : List (BitVec 32)) (r : List Nat)
    (h : specDecode32 bs = .ok (xs, r)) :
    goDecode32 bs = .ok (xs, r) ∨ ∃ e, goDecode32 bs = .error e ∧ e.isLimit = true :=
  goDecode_of_specDecode 32 h

/-- INT64 twin. -/
theorem goDecode64_eq_spec (bs : List Nat) (xs : List (BitVec 64)) (r : List Nat)
    (h : specDecode64 bs = .ok (xs, r)) :
    goDecode64 bs = .ok (xs, r) ∨ ∃ e, goDecode64 bs = .error e ∧ e.isLimit = true :=
  goDecode_of_specDecode 64 h

example : specDecode32 (mirrorEncode32 [5#32, 10#32]) = .ok ([5#32, 10#32], []) := delta32_roundtrip _

/-- Go decoder ∘ Go encoder = identity (both mirrors), for every list of fewer than 2^31 values
(Go's decoder refuses more than MaxInt32 values). -/
theorem goDecode32_mirrorEncode32 (xs : List (BitVec 32)) (tail : List Nat) (hl : xs.length < 2 ^ 31) :
    goDecode32 (mirrorEncode32 xs ++ tail) = .ok (xs, tail) :=
  goDecode_mirrorEncode (Or.inl rfl) xs tail hl

theorem goDecode64_mirrorEncode64 (xs : List (BitVec 64)) (tail : List Nat) (hl : xs.length < 2 ^ 31) :
    goDecode64 (mirrorEncode64 xs ++ tail) = .ok (xs, tail) :=
  goDecode_mirrorEncode (Or.inr rfl) xs tail hl

example : ([5#32, 10#32] : List (BitVec 32)).length < 2 ^ 31 := by decide

/-- The one place where Go accepts more than the format (besides the header checks it omits):
miniblock bodies are read as if the input were followed by zero bytes. -/
theorem go_truncated_tail_is_zero_extension (n vpm : Nat) (ws : List Nat) (tot : Nat) (src : List Nat) (k : Nat) :
    (goMinis n vpm ws tot (src ++ List.replicate k 0)).map (fun p => (p.1, p.2.1))
      = (goMinis n vpm ws tot src).map (fun p => (p.1, p.2.1)) :=
  goMinis_zero_extension n vpm ws tot src k

/-- DELTA_LENGTH_BYTE_ARRAY decoder: same values as the spec on every stream the spec reads
(values totalling less than 4 GiB: Go's offsets are `uint32`), or a documented limit. -/
theorem goDecodeDLBA_eq_spec (bs : List Nat) (vs : List (List Nat)) (r : List Nat)
    (h : specDecodeDLBA bs = .ok (vs, r)) (hb : vs.flatten.length < 2 ^ 32) :
    goDecodeDLBA bs = .ok (vs.flatten, offsetsFrom 0 vs) ∨ ∃ e, goDecodeDLBA bs = .error e ∧ e.isLimit = true :=
  goDecodeDLBA_of_spec h hb

example : specDecodeDLBA (mirrorEncodeDLBA [[1, 2], []]) = .ok ([[1, 2], []], []) ∧
    ([[1, 2], []] : List (List Nat)).flatten.length < 2 ^ 32 :=
  ⟨dlba_roundtrip _ (by decide), by decide⟩

/-- DELTA_BYTE_ARRAY decoder (portable variant): same values as the spec on every stream the spec
reads, or a documented limit. -/
theorem goDecodeDBA_eq_spec (bs : List Nat) (vs : List (List Nat)) (r : List Nat)
    (h : specDecodeDBA bs = .ok (vs, r)) :
    goDecodeDBA bs = .ok vs ∨ ∃ e, goDecodeDBA bs = .error e ∧ e.isLimit = true :=
  goDecodeDBA_of_spec h

example : specDecodeDBA (mirrorEncodeDBA [[1, 2], [1, 3]]) = .ok ([[1, 2], [1, 3]], []) :=
  dba_roundtrip _ (by decide)

/-! ## The bit packing kernel: word-level OR = LSB-first packing -/

/-- `encodeMiniBlockInt32` (binary_packed_purego.go:9-28, mirrored word by word in
PqModel/DeltaKernel.lean) leaves in a zero-filled buffer exactly the LSB-first packing of the 32
values, for every width 1..32 and all values that fit the width. -/
theorem kernel32_is_lsb_first_packing (w L : Nat) (mb : List (BitVec 32)) (hl : mb.length = 32)
    (hw0 : 0 < w) (hw : w ≤ 32) (hv : ∀ v ∈ mb, v.toNat < 2 ^ w) (hL : w + 1 ≤ L) :
    kernelBytes w L mb = packMini w mb :=
  kernel32_eq_packMini w L mb hl hw0 hw hv hL

/-- `encodeMiniBlockInt64` (binary_packed_purego.go:30-49), widths 1..64. -/
theorem kernel64_is_lsb_first_packing (w L : Nat) (mb : List (BitVec 64)) (hl : mb.length = 32)
    (hw0 : 0 < w) (hw : w ≤ 64) (hv : ∀ v ∈ mb, v.toNat < 2 ^ w) (hL : w / 2 + 2 ≤ L) :
    kernelBytes w L mb = packMini w mb :=
  kernel64_eq_packMini w L mb hl hw0 hw hv hL

example : ∃ (mb : List (BitVec 32)), mb.length = 32 ∧ (∀ v ∈ mb, v.toNat < 2 ^ 3) ∧ mb ≠ List.replicate 32 0 :=
  ⟨List.replicate 32 5#32, by simp, by intro v hv; rw [List.eq_of_mem_replicate hv]; decide, by decide +kernel⟩

/-- The encoder transliterated down to the word OR-ing (`mirrorEncodeK`, what the driver runs and
L2 compares with the real bytes) is the encoder the round-trip theorems are about. -/
theorem mirrorEncodeK32_eq (xs : List (BitVec 32)) : mirrorEncodeK xs = mirrorEncode32 xs :=
  mirrorEncodeK_eq (Or.inl rfl) xs

theorem mirrorEncodeK64_eq (xs : List (BitVec 64)) : mirrorEncodeK xs = mirrorEncode64 xs :=
  mirrorEncodeK_eq (Or.inr rfl) xs

/-- end to end with nothing abstracted in the encoder: spec decoder and Go decoder on the
word-level encoder -/
theorem delta32_roundtrip_wordlevel (xs : List (BitVec 32)) :
    specDecode32 (mirrorEncodeK xs) = .ok (xs, []) := by
  rw [mirrorEncodeK32_eq]; exact delta32_roundtrip xs

theorem delta64_roundtrip_wordlevel (xs : List (BitVec 64)) :
    specDecode64 (mirrorEncodeK xs) = .ok (xs, []) := by
  rw [mirrorEncodeK64_eq]; exact delta64_roundtrip xs

/-! ## The unpacking kernels the decoders call: `bitpack.Unpack` (portable) = LSB-first unpacking -/

/-- `bitpack.Unpack` for int64 (portable `unpackInt64`, github.com/parquet-go/bitpack
unpack_int64_purego.go:5-27, transliterated in PqModel/DeltaUnpack.lean: 32-bit words, a value
assembled from up to three of them) returns what `Bits.unpackBits` — the function the decoder
mirror `goMinis` and the spec decoder are written with — returns, for every width up to 64, any
number of values that fit the buffer, any buffer content. -/
theorem unpack64_kernel (w n : Nat) (p : List Nat) (hw : w ≤ 64) (hb : ∀ b ∈ p, b < 256)
    (hn : n * w ≤ 8 * p.length) : goUnpackInt64 w n p = PqModel.Bits.unpackBits w n (PqModel.Bits.bytesToBits p) :=
  goUnpackInt64_eq w n p hw hb hn

/-- INT32 twin: the kernel is shared with the RLE decoder and proved in the RLE slice
(`PqModel.Rle.goUnpackInt32_eq`); restated here because `decodeInt32` depends on it. -/
theorem unpack32_kernel (w n : Nat) (p : List Nat) (hw : w ≤ 32) (hb : ∀ b ∈ p, b < 256)
    (hn : n * w ≤ 8 * p.length) :
    PqModel.Rle.goUnpackInt32 w n p = PqModel.Bits.unpackBits w n (PqModel.Bits.bytesToBits p) :=
  PqModel.Rle.goUnpackInt32_eq w n p hw hb hn

example : (61 : Nat) ≤ 64 ∧ (∀ b ∈ List.replicate 16 0xA7, b < 256) ∧ 2 * 61 ≤ 8 * (List.replicate 16 0xA7).length := by
  decide

/-- The hypothesis `n * w ≤ 8 * p.length` holds for every call the decoders make: a miniblock of
`vpm` values (a multiple of 8, since it is a multiple of 32) at width `w` is given `vpm * w / 8`
bytes (completed with zeros when the input is shorter) and `cnt ≤ vpm` values are read. -/
theorem unpack_call_fits (vpm w cnt : Nat) (data : List Nat) (h8 : vpm % 8 = 0) (hc : cnt ≤ vpm)
    (hl : data.length = vpm * w / 8) : cnt * w ≤ 8 * data.length :=
  mini_fits vpm w cnt data h8 hc hl

example : (32 : Nat) % 8 = 0 ∧ 7 ≤ 32 ∧ (List.replicate 12 0).length = 32 * 3 / 8 := by decide

/-! ## The amd64 Go wrapper of the DELTA_BYTE_ARRAY decoder (what the default build runs) -/

/-- `decodeByteArray` of byte_array_amd64.go (split scan from the end of the suffix lengths, AVX2
kernel on the first `k` values — replaced by its contract —, reconstruction of the read position
`j = len(src) - n` and of the previous value `dst[i-(prefix[k-1]+suffix[k-1]):]`, scalar loop on
the rest; transliterated in PqModel/DeltaAmd64.lean) returns the values of the portable loop
(`goJoin`, the one `goDecodeDBA_eq_spec` and `conformant_dba_go` are about) whenever that loop
accepts the lengths and the suffix bytes end where `src` ends, as they do in a data page. -/
theorem dba_amd64_wrapper_eq_portable (src : List Nat) (ps ss : List (BitVec 32)) (vs : List (List Nat))
    (hl : ps.length = ss.length) (h : goJoin [] ps ss src = .ok vs)
    (hend : (ss.map BitVec.toNat).sum = src.length) :
    amd64Vals src (ps.map BitVec.toNat) (ss.map BitVec.toNat) = vs :=
  amd64Vals_of_goJoin src ps ss vs hl h hend

example : goJoin [] [0#32, 1#32] [2#32, 1#32] [0xab, 0xcd, 0xef] = .ok [[0xab, 0xcd], [0xab, 0xef]] ∧
    (([2#32, 1#32] : List (BitVec 32)).map BitVec.toNat).sum = [0xab, 0xcd, 0xef].length := by decide

/-- The hypothesis on the end of `src` is needed — with bytes after the suffixes the amd64 wrapper
reads the values left to its scalar loop from the wrong place (observation
`maldba-trailing-bytes-change-values`): 70 one-byte values `00 01 02 …` followed by one stray byte;
the portable loop returns the 70 bytes, the wrapper shifts the last 64 by one. -/
theorem dba_amd64_wrapper_needs_exact_end :
    ∃ (src ps ss : List Nat), validLens 0 ps ss ∧ ps.length = ss.length ∧ ss.sum < src.length ∧
      amd64Vals src ps ss ≠ loopVals src [] 0 ps ss :=
  ⟨List.range 71, List.replicate 70 0, List.replicate 70 1, by decide +kernel, by decide +kernel,
    by decide +kernel, by decide +kernel⟩

/-- `decodeFixedLenByteArray` of byte_array_amd64.go (FIXED_LEN_BYTE_ARRAY values through
DELTA_BYTE_ARRAY on the default build: same split scan, kernel by contract — the 128-bit kernel for
`size == 16`, the 256-bit one otherwise —, previous value reconstructed as `dst[i-size:]`, scalar loop;
`amd64FlbaVals`, PqModel/DeltaAmd64.lean) returns the values of the portable loop whenever that loop
accepts the lengths, every value has `size` bytes (`allSize`: prefix + suffix = size, what a column
of that type holds) and the suffix bytes end where `src` ends. -/
theorem flba_amd64_wrapper_eq_portable (size : Nat) (src : List Nat) (ps ss : List (BitVec 32))
    (vs : List (List Nat)) (hl : ps.length = ss.length) (h : goJoin [] ps ss src = .ok vs)
    (hsz : allSize size (ps.map BitVec.toNat) (ss.map BitVec.toNat))
    (hend : (ss.map BitVec.toNat).sum = src.length) :
    amd64FlbaVals size src (ps.map BitVec.toNat) (ss.map BitVec.toNat) = vs :=
  amd64FlbaVals_of_goJoin size src ps ss vs hl h hsz hend

example : goJoin [] [0#32, 1#32] [2#32, 1#32] [0xab, 0xcd, 0xef] = .ok [[0xab, 0xcd], [0xab, 0xef]] ∧
    allSize 2 (([0#32, 1#32] : List (BitVec 32)).map BitVec.toNat) (([2#32, 1#32] : List (BitVec 32)).map BitVec.toNat) ∧
    (([2#32, 1#32] : List (BitVec 32)).map BitVec.toNat).sum = [0xab, 0xcd, 0xef].length := by decide

/-- The size hypothesis is needed: `DecodeFixedLenByteArray` does not check that the values have
`size` bytes, and on a stream whose values are shorter than the declared size (70 one-byte values,
size 2) the wrapper rebuilds a wrong previous value where the portable loop does not. -/
theorem flba_amd64_wrapper_needs_value_size :
    ∃ (size : Nat) (src ps ss : List Nat), validLens 0 ps ss ∧ ps.length = ss.length ∧ ss.sum = src.length ∧
      amd64FlbaVals size src ps ss ≠ loopVals src [] 0 ps ss :=
  ⟨2, List.range 6 ++ List.range 64, List.replicate 6 0 ++ List.replicate 64 1, List.replicate 6 1 ++ List.replicate 64 1,
    by decide +kernel, by decide +kernel, by decide +kernel, by decide +kernel⟩

end PqModel.Props.C04Delta
