import PqModel.DeltaProofs

/-! # C04 (part DELTA) — DELTA_BINARY_PACKED, DELTA_LENGTH_BYTE_ARRAY and DELTA_BYTE_ARRAY are
lossless and conform to the format, for every input.

`specDecode*` are decoders written from Encodings.md (PqModel/Delta.lean, SPEC side); they reject
streams that break the format (bad block/miniblock sizes, bit widths above the physical type,
negative lengths, prefixes longer than the previous value, truncation), so `specDecode (encode xs) =
ok xs` says both "conformant" and "lossless". `mirrorEncode*` transliterate the portable Go
encoders of `encoding/delta` (MIRROR side). Every theorem quantifies over all value lists: all
lengths (0, 1, partial last block, many blocks) and all values (deltas that overflow wrap in
`BitVec`, as in Go). -/
namespace PqModel.Props.C04Delta
open PqModel.Delta

/-- INT32: decoding the encoder's bytes returns the input and consumes the stream exactly. -/
theorem delta32_roundtrip (xs : List (BitVec 32)) :
    specDecode32 (mirrorEncode32 xs) = .ok (xs, []) := by
  have := specDecode_mirrorEncode (by decide : 32 ≤ 64) xs []
  simpa [specDecode32, mirrorEncode32] using this

/-- INT64 twin. -/
theorem delta64_roundtrip (xs : List (BitVec 64)) :
    specDecode64 (mirrorEncode64 xs) = .ok (xs, []) := by
  have := specDecode_mirrorEncode (by decide : 64 ≤ 64) xs []
  simpa [specDecode64, mirrorEncode64] using this

/-- Stream-length form: whatever follows the stream is handed back untouched (this is what lets
DELTA_LENGTH_BYTE_ARRAY / DELTA_BYTE_ARRAY concatenate streams and data). -/
theorem delta32_roundtrip_stream (xs : List (BitVec 32)) (tail : List Nat) :
    specDecode32 (mirrorEncode32 xs ++ tail) = .ok (xs, tail) :=
  specDecode_mirrorEncode (by decide : 32 ≤ 64) xs tail

theorem delta64_roundtrip_stream (xs : List (BitVec 64)) (tail : List Nat) :
    specDecode64 (mirrorEncode64 xs ++ tail) = .ok (xs, tail) :=
  specDecode_mirrorEncode (by decide : 64 ≤ 64) xs tail

/-- Per-block form (any previous value, any number `rem` of values still expected, the block
holding `min 128 rem` of them; the padding and the minimum computed over the padded block do not
matter). -/
theorem delta_block_roundtrip {n : Nat} (hn : n ≤ 64) (chunk : List (BitVec n)) (last : BitVec n)
    (rem : Nat) (tail : List Nat) (hk : chunk.length = min 128 rem) :
    decBlock n 32 4 rem last ((encBlock chunk last).1 ++ tail) = .ok (chunk, tail) :=
  decBlock_encBlock hn chunk last rem tail hk

example : ∃ (chunk : List (BitVec 32)) (rem : Nat), chunk.length = min 128 rem ∧ chunk ≠ [] :=
  ⟨[0x7fffffff#32, 0x80000000#32], 2, by decide, by decide⟩

/-- DELTA_LENGTH_BYTE_ARRAY. Lengths are INT32 in the format, hence the (decidable) bound. -/
theorem dlba_roundtrip (vs : List (List Nat)) (h : ∀ v ∈ vs, v.length < 2 ^ 31) :
    specDecodeDLBA (mirrorEncodeDLBA vs) = .ok (vs, []) := by
  simpa using specDecodeDLBA_mirror vs [] h

example : ∀ v ∈ [[1, 2, 3], [], [255]], v.length < 2 ^ 31 := by decide

/-- DELTA_LENGTH_BYTE_ARRAY through the raw `(src, offsets)` entry point of the Go API, for ANY
offsets window: non-empty, non-decreasing offsets that end inside `src` (they may start after 0
and stop before `len(src)`, as `Page.Slice` builds them). The stream decodes to exactly the
values the offsets denote and nothing trails it. -/
theorem dlba_raw_roundtrip (src : List Nat) (o : Nat) (rest : List Nat)
    (hm : nondecreasing (o :: rest) = true) (hl : lastOff o rest ≤ src.length)
    (h31 : ∀ v ∈ windowValues src (o :: rest), v.length < 2 ^ 31) :
    specDecodeDLBA (mirrorEncodeDLBARaw src (o :: rest)) = .ok (windowValues src (o :: rest), []) := by
  rw [mirrorEncodeDLBARaw_eq src o rest hm hl]; exact dlba_roundtrip _ h31

example : nondecreasing (2 :: [5, 6]) = true ∧ lastOff 2 [5, 6] ≤ [0xaa, 0xaa, 1, 2, 3, 4, 0xbb].length ∧
    ∀ v ∈ windowValues [0xaa, 0xaa, 1, 2, 3, 4, 0xbb] (2 :: [5, 6]), v.length < 2 ^ 31 := by decide

/-- **Regression fact** (finding `dlba-encode-ignores-offsets-window-*`, repaired by
`fix: DELTA_LENGTH_BYTE_ARRAY encodes the offsets window, not the whole buffer`): before the
repair `EncodeByteArray` appended the whole of `src`. Witness: `src = aa 62 63`, offsets `[1,2,3]`
(the values `62`, `63`): the stream decoded to `aa`, `62` with `63` trailing. -/
theorem dlba_window_violation_before_fix :
    ∃ src offsets, specDecodeDLBA (mirrorEncodeDLBARawBeforeFix src offsets) ≠ .ok (windowValues src offsets, []) :=
  ⟨[0xaa, 0x62, 0x63], [1, 2, 3], by decide +kernel⟩

example : specDecodeDLBA (mirrorEncodeDLBARawBeforeFix [0xaa, 0x62, 0x63] [1, 2, 3]) = .ok ([[0xaa], [0x62]], [0x63]) := by
  decide +kernel

example : specDecodeDLBA (mirrorEncodeDLBARaw [0xaa, 0x62, 0x63] [1, 2, 3]) = .ok ([[0x62], [0x63]], []) := by
  decide +kernel

/-- DELTA_BYTE_ARRAY: prefix lengths found by the Go word search + suffixes give back every value. -/
theorem dba_roundtrip (vs : List (List Nat)) (h : ∀ v ∈ vs, v.length < 2 ^ 31) :
    specDecodeDBA (mirrorEncodeDBA vs) = .ok (vs, []) := by
  simpa using specDecodeDBA_mirror vs [] h

example : ∀ v ∈ [[1, 2, 3], [1, 2, 4, 5], [], [255]], v.length < 2 ^ 31 := by decide

/-- The Go prefix search (8-byte words, then bytes) is the longest common prefix: no cap, and
never longer than either value. -/
theorem dba_prefix_is_common_prefix (a b : List Nat) :
    searchPrefixLength a b = commonPrefix a b ∧
    searchPrefixLength a b ≤ a.length ∧ searchPrefixLength a b ≤ b.length ∧
    a.take (searchPrefixLength a b) = b.take (searchPrefixLength a b) := by
  rw [searchPrefixLength_eq]
  exact ⟨rfl, (commonPrefix_le a b).1, (commonPrefix_le a b).2, commonPrefix_take a b⟩

/-- FIXED_LEN_BYTE_ARRAY through DELTA_BYTE_ARRAY: decoding yields values of `size` bytes whose
concatenation is the source buffer. -/
theorem dba_flba_roundtrip (size : Nat) (src : List Nat) (hs : 0 < size) (hb : size < 2 ^ 31)
    (hm : src.length % size = 0) :
    ∃ vs, specDecodeDBA (mirrorEncodeFLBA size src) = .ok (vs, []) ∧ vs.flatten = src ∧
      ∀ v ∈ vs, v.length = size := by
  refine ⟨chunksOf size src.length src, ?_, chunksOf_flatten size _ src hs (Nat.le_refl _) hm,
    chunksOf_length size _ src⟩
  have := specDecodeDBA_mirror (chunksOf size src.length src) [] (by
    intro v hv; rw [chunksOf_length size _ src v hv]; exact hb)
  simpa [mirrorEncodeFLBA] using this

example : (0 < 2) ∧ (2 < 2 ^ 31) ∧ ([1, 2, 3, 4] : List Nat).length % 2 = 0 := by decide

/-! What the encoder emits for no value and for one value (header only, first value 0 resp. the
value, zigzag), and for two values (the minimum is taken over the zero padded block: deltas
5, then 0 - 10 = -10 for the padding, so min delta = -10, zigzag 19, width 4 for 15 = 5 - -10). -/
example : mirrorEncode32 [] = [128, 1, 4, 0, 0] := by decide
example : mirrorEncode32 [7#32] = [128, 1, 4, 1, 14] := by decide
example : (mirrorEncode32 [5#32, 10#32]).take 11 = [128, 1, 4, 2, 10, 19, 4, 0, 0, 0, 15] := by decide +kernel
example : (mirrorEncode32 [5#32, 10#32]).length = 26 := by decide +kernel

end PqModel.Props.C04Delta
