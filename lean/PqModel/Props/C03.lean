import PqModel.Dremel

/-! # C03 — All ingestion paths shred a Go value into the same Dremel column streams -/
namespace PqModel.Props.C03
open PqModel.Dremel

/-- Re-assembling the shredded columns of any conforming value of any well-formed schema yields the value. -/
theorem assemble_shred_roundtrip (n : Node) (v : Val) (hwf : wfN n = true) (hc : confN n v = true) :
    asmN n 0 0 (shredN n 0 0 0 v) = v :=
  assemble_shred n v hwf hc

end PqModel.Props.C03
