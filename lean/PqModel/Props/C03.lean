import PqModel.Dremel
import PqModel.NullScan
import PqModel.DremelLevels
import PqModel.TypedPath

/-! # C03 — All ingestion paths shred a Go value into the same Dremel column streams -/
namespace PqModel.Props.C03
open PqModel.Dremel PqModel.NullScan PqModel.TypedPath

/-- Re-assembling the shredded columns of any conforming value of any well-formed schema yields the value. -/
theorem assemble_shred_roundtrip (n : Node) (v : Val) (hwf : wfN n = true) (hc : confN n v = true) :
    asmN n 0 0 (shredN n 0 0 0 v) = v :=
  assemble_shred n v hwf hc

/-- Levels are well-formed: for every schema and every value (conforming or not), column by column
in column order (`Pairs` relates the i-th stream with the i-th `(maxDef, maxRep)` pair of
`boundsN`), the stream of a row is non-empty, its first triple has repetition level 0, and every
triple has `def ≤ maxDef column` and `rep ≤ maxRep column`. -/
theorem shred_levels_wf (n : Node) (v : Val) :
    Pairs (fun (c : List Triple) (b : Nat × Nat) =>
        (∃ t ts, c = t :: ts ∧ t.rep = 0) ∧ ∀ t ∈ c, t.dfn ≤ b.1 ∧ t.rep ≤ b.2)
      (shredN n 0 0 0 v) (boundsN n 0 0) :=
  shredN_levels n 0 0 0 v (Nat.le_refl _)

/-- `boundsN` on `{ optional a; repeated group { optional b; required c } }` -/
example : boundsN (.group (.cons (.opt .leaf) (.cons (.rpt (.group (.cons (.opt .leaf) (.cons .leaf .nil)))) .nil))) 0 0
    = [(1, 0), (2, 1), (1, 1)] := by simp [boundsN, boundsF]

/-! ## the null bitmap scan of optional non-pointer fields (typed path)

`acquireBitmap(n)` hands the scan `(n+63)/64` words when the bitmap comes from the pool and `n`
words when it is freshly allocated (`bitmap.go:29-34`), all zero, and `nullIndex` only sets bits
below `n`; the theorem needs neither the exact length nor the zero padding: `n ≤ 64 * words` is
enough, whatever the bits at and beyond `n` are. -/

/-- MIRROR `nullRuns` (the loop of `writeRowsFuncOfOptional` as repaired), for every bitmap and every
row count it can index: the loop finishes within `n` iterations without an index out of range, and
the runs it hands to `writeRows` are non-empty, contiguous, cover exactly `[0, n)`, every row of a
run is written null iff its bit is clear, and consecutive runs differ in kind. -/
theorem nullRuns_spec (ws : List (BitVec 64)) (n : Nat) (hn : n ≤ 64 * ws.length) :
    ∃ runs, nullRuns ws n = .ok runs ∧ Chain ws 0 n runs ∧ Alternates runs :=
  scan_spec ws n hn n 0 (Nat.zero_le _) (by omega)

example : (3 : Nat) ≤ 64 * [0b010#64].length := by decide

/-- The same, flattened: the kinds of the runs repeated over their lengths are the null pattern of
the rows `0 … n-1`. -/
theorem nullRuns_flatten (ws : List (BitVec 64)) (n : Nat) (hn : n ≤ 64 * ws.length) :
    ∃ runs, nullRuns ws n = .ok runs ∧
      runs.flatMap (fun r => List.replicate (r.j - r.i) r.isNull) =
        (List.range n).map (fun p => !bitAt ws p) := by
  rcases nullRuns_spec ws n hn with ⟨runs, h1, h2, _⟩
  refine ⟨runs, h1, ?_⟩
  rw [chain_flatten h2, List.range_eq_range', Nat.sub_zero]

/-- The scan before the repair (all-ones test against `(1<<y)-1`): rows null, value, null — the
third row is handed to `writeRows` as part of the non-null run. -/
theorem nullRuns_before_fix_witness :
    scanBeforeFix [0b010#64] 3 = .ok [⟨true, 0, 1⟩, ⟨false, 1, 3⟩] ∧
      bitAt [0b010#64] 2 = false ∧
      nullRuns [0b010#64] 3 = .ok [⟨true, 0, 1⟩, ⟨false, 1, 2⟩, ⟨true, 2, 3⟩] := by decide

/-- MIRROR `nullIndex` (portable kernel on a zeroed pool bitmap): `(n+63)/64` words, bit `p` set
exactly when row `p` exists and is not the zero value — so the precondition of `nullRuns_spec`
holds and the padding is zero. -/
theorem nullIndex_bits {α : Type} (nonzero : α → Bool) (vs : List α) :
    (nullIndex nonzero vs).length = (vs.length + 63) / 64 ∧
    vs.length ≤ 64 * (nullIndex nonzero vs).length ∧
    ∀ p, bitAt (nullIndex nonzero vs) p = (vs[p]?.map nonzero).getD false :=
  nullIndex_spec nonzero vs

/-! ## the typed path against the reflection path -/

/-- Path equivalence as a theorem about two Lean functions: for every Go type built from the
wrappers of `TNode` (required leaf, `optional` non-pointer leaf with its bitmap scan, struct,
pointer, slice, `list`, `optional`+`list`, map, `optional` map with the bitmap scan over nil-ness,
`optional` non-pointer struct with the bitmap scan over zero-ness, nested in any way; the leaf kinds with value conversions — narrow ints, time.Time, decimal, uuid
text — are leaves of the model, their payload being whatever the conversion yields) and every batch of rows — conforming
or not —, the MIRROR of the typed write path (`typedWrite`: the `writeRowsFunc` closures composed
over the level bookkeeping of the leaf column buffers, one call for the whole batch) appends to
every leaf column exactly the triples `shredN` (the reflection path, theorem
`assemble_shred_roundtrip`) emits for the rows, row after row. In particular the null positions of
both paths are the same. -/
theorem typed_eq_reflect (n : TNode) (batch : List Val) :
    typedWrite n batch = joinSegs (leavesN (erase n)) (batch.map (shredN (erase n) 0 0 0)) :=
  typedWrite_eq_shred n batch

/-- a conforming row of `struct { A int32 optional; B []struct{ P *int32; Q int32 optional }; C [][]int32 optional,list; D int32 }` -/
example :
    let T : TNode := .struct (.cons .optLeaf (.cons (.slice (.struct (.cons (.ptr .leaf) (.cons .optLeaf .nil))))
      (.cons (.optList (.list .leaf)) (.cons .leaf .nil))))
    let row : Val := .struct [.some (.prim 1),
      .list [.struct [.some (.prim 2), .none], .struct [.none, .some (.prim 3)]],
      .some (.struct [.list [.struct [.struct [.list [.struct [.prim 4], .struct [.prim 5]]]]]]), .prim 9]
    wfN (erase T) = true ∧ confN (erase T) row = true := by
  simp [erase, eraseF, listNode, wfN, wfF, leavesN, leavesF, confN, confF]

/-- a conforming row of `struct { M map[K]V optional; L []struct{ N map[K]*V } }` -/
example :
    let T : TNode := .struct (.cons (.optMap .leaf .leaf) (.cons (.slice (.struct (.cons (.map .leaf (.ptr .leaf)) .nil))) .nil))
    let row : Val := .struct [.some (.struct [.list [.struct [.prim 1, .prim 2]]]),
      .list [.struct [.struct [.list [.struct [.prim 3, .none], .struct [.prim 4, .some (.prim 5)]]]], .struct [.struct [.list []]]]]
    wfN (erase T) = true ∧ confN (erase T) row = true := by
  simp [erase, eraseF, mapNode, pairNode, wfN, wfF, leavesN, leavesF, confN, confF]

/-- The bitmap branch of `writeRowsFuncOfOptional` keeps any writer sound: if the wrapped
`writeRowsFunc` writes `shred` of its node, the absent node for the empty array, and one placeholder
per row for rows holding the zero value below its definition level (the three clauses of `Sound`),
then the optional wrapper — null index, run scan, one call per run — does the same for the optional
node, for every batch; in particular a null run of an ENCLOSING optional wrapper passes through it
as one null run. (Instances: the optional leaf of every kind, the optional map, the optional
non-pointer struct.) Since round 4 the side condition on null runs of round 3 is a clause of `Sound`
and proved for every wrapper. -/
theorem typed_optional_wrapper_sound {n : Node} {f : Nat → WriteRows} (h : Sound n f) :
    Sound (.opt n) (fun dm => wrOptional (leavesN n) (f (dm + 1))) :=
  wrOptional_sound h

/-- the hypotheses are satisfiable: the leaf writer -/
example : Sound .leaf wrLeaf := wrLeaf_sound

/-- An `optional` map distinguishes the nil map (null: the placeholder entry of key and value sits
at the parent's definition level) from the empty non-nil map (present, no entries: one level up)
and from a populated map, on the typed path exactly as `shred` does — the three rows below give
definition levels 0, 1, 2 in the key and in the value column. -/
theorem typed_optional_map_nil_vs_empty :
    typedWrite (.struct (.cons (.optMap .leaf .leaf) .nil))
      [.struct [.none], .struct [.some (.struct [.list []])],
       .struct [.some (.struct [.list [.struct [.prim 7, .prim 8]]])]] =
    [[⟨none, 0, 0⟩, ⟨none, 0, 1⟩, ⟨some 7, 0, 2⟩], [⟨none, 0, 0⟩, ⟨none, 0, 1⟩, ⟨some 8, 0, 2⟩]] := by
  rw [typedWrite_eq_shred]
  decide

/-- Zero values below a node's definition level — what the rows of a null run of an enclosing
`optional` non-pointer field (zero scalar, nil map, zero struct) are for every field writer
underneath — are written as the absent node, once per row, by the typed writer of EVERY Go type of
`TNode`: the rows of a null run never show up as values or shift the streams of the columns below. -/
theorem typed_zero_rows_write_absent (n : TNode) (dm r k d c : Nat) (hd : d < dm) :
    tyN n dm r k d (List.replicate (c + 1) Val.none) =
      joinSegs (leavesN (erase n)) (List.replicate (c + 1) (absentN (erase n) r d)) :=
  (tyN_sound n dm r k).2.2 d hd c

example : (0 : Nat) < 1 := by decide

/-- An `optional` NON-pointer struct `struct{ X int32; Y string optional }`: the zero struct is null
(definition level 0 in both columns), any other value is present — the typed path (`typedWrite`,
bitmap scan over the struct null index) writes what `shred` writes. Rows: zero struct, `{7, ""}`,
`{0, "s"}` (the abstraction of the required zero scalar is a leaf without payload). -/
theorem typed_optional_struct_zero_is_null :
    typedWrite (.struct (.cons (.optStruct (.cons .leaf (.cons .optLeaf .nil))) .nil))
      [.struct [.none], .struct [.some (.struct [.prim 7, .none])],
       .struct [.some (.struct [.none, .some (.prim 9)])]] =
    [[⟨none, 0, 0⟩, ⟨some 7, 0, 1⟩, ⟨none, 0, 1⟩], [⟨none, 0, 0⟩, ⟨none, 0, 1⟩, ⟨some 9, 0, 2⟩]] := by
  rw [typedWrite_eq_shred]
  decide

/-- A map whose values carry the `optional` tag on a non-pointer Go type
(`map[K]V` with `parquet-value:",optional"`; since the round-4 repair `writeRowsFuncOfMap` wraps the
value writer with the optional wrapper): an entry holding the zero value is a null value one level
below an entry holding any other value, in the stream of the value column; the key column is not
affected. Rows: `{a: 0}`, `{a: 7, b: 0}`, nil map. -/
theorem typed_map_optional_value_zero_is_null :
    typedWrite (.struct (.cons (.map .leaf .optLeaf) .nil))
      [.struct [.struct [.list [.struct [.prim 1, .none]]]],
       .struct [.struct [.list [.struct [.prim 1, .some (.prim 7)], .struct [.prim 2, .none]]]],
       .struct [.none]] =
    [[⟨some 1, 0, 1⟩, ⟨some 1, 0, 1⟩, ⟨some 2, 1, 1⟩, ⟨none, 0, 0⟩],
     [⟨none, 0, 1⟩, ⟨some 7, 0, 2⟩, ⟨none, 1, 1⟩, ⟨none, 0, 0⟩]] := by
  rw [typedWrite_eq_shred]
  decide

/-- The typed path BEFORE the repair (`nullIndexStruct` set every bit: a non-pointer struct was never
null): the zero struct of the first row is written one definition level up, as a present group,
whereas the repaired wrapper and `shred` (the reflection paths, `isNullValue`) write the null group. -/
theorem typed_optional_struct_before_fix_witness :
    wrOptionalAllPresent 2 (fun r k d vs => tyF (.cons .leaf (.cons .optLeaf .nil)) 1 r k d (vs.map fieldsOf))
        0 0 0 [.none, .some (.struct [.prim 7, .none])] =
      [[⟨none, 0, 1⟩, ⟨some 7, 0, 1⟩], [⟨none, 0, 1⟩, ⟨none, 0, 1⟩]] ∧
    wrOptional 2 (fun r k d vs => tyF (.cons .leaf (.cons .optLeaf .nil)) 1 r k d (vs.map fieldsOf))
        0 0 0 [.none, .some (.struct [.prim 7, .none])] =
      [[⟨none, 0, 0⟩, ⟨some 7, 0, 1⟩], [⟨none, 0, 0⟩, ⟨none, 0, 1⟩]] ∧
    joinSegs 2 ([Val.none, .some (.struct [.prim 7, .none])].map
        (shredN (.opt (.group (.cons .leaf (.cons (.opt .leaf) .nil)))) 0 0 0)) =
      [[⟨none, 0, 0⟩, ⟨some 7, 0, 1⟩], [⟨none, 0, 0⟩, ⟨none, 0, 1⟩]] := by
  refine ⟨by decide, by decide, by decide⟩

/-- Round-5 seed C03-5a (`writeRowsFuncOfMap` drops the optional wrapper for one value kind, there
`[]byte`): MIRROR of the slip = `wrMap` over the bare leaf writer of the value column (maximum
definition level 2) instead of `wrOptional 1 (wrLeaf 2)`. The non-zero value 7 of the first entry
is written one definition level short, i.e. as a null, where the wrapper composition of the
unmodified code (`tyN (.map .leaf .optLeaf)`, equal to `shred` by `typed_eq_reflect`) stores it at
level 2; keys and the zero value agree. -/
theorem typed_map_value_wrapper_dropped_witness :
    wrMap 1 1 (wrLeaf 1) (wrLeaf 2) 0 0 0
        [.struct [.list [.struct [.prim 1, .some (.prim 7)], .struct [.prim 2, .none]]]] =
      [[⟨some 1, 0, 1⟩, ⟨some 2, 1, 1⟩], [⟨none, 0, 1⟩, ⟨none, 1, 1⟩]] ∧
    tyN (.map .leaf .optLeaf) 0 0 0 0
        [.struct [.list [.struct [.prim 1, .some (.prim 7)], .struct [.prim 2, .none]]]] =
      [[⟨some 1, 0, 1⟩, ⟨some 2, 1, 1⟩], [⟨some 7, 0, 2⟩, ⟨none, 1, 1⟩]] := by
  refine ⟨by decide, by decide⟩

end PqModel.Props.C03
