import PqModel.CopyPath

/-! # C11 (round 6) — the verbatim copy and the destination's dictionary size limit

A chunk written under `DictionaryMaxBytes(L)` that outgrew its dictionary holds a dictionary page,
dictionary-encoded data pages and PLAIN data pages (writer.go:2157-2190, `fallbackDictionaryToPlain`).
Whether the row path under the DESTINATION's configuration would write such a chunk depends on the
destination's own limit, which `columnChunkIsCopyable` never reads (it is not a field of `DstCol`).
The copy predicate is therefore only sound because `encodingStatsMatch` (writer_copy.go:377-410)
demands that EVERY data page carries the destination's configured encoding: a chunk that fell back
is never spliced, whatever the two limits are.

MIRROR: `encodingStatsLoopF` = the loop of `encodingStatsMatch` with a flag; `false` is the library
(`loopF_false_is_mirror`: identical to `CopyPath.encodingStatsLoop`), `true` the slipped variant
that also accepts PLAIN pages for a dictionary-encoded destination.
SPEC: `HonoursDictLimit` (from the documentation of `DictionaryMaxBytes`, config.go:809-820): a data
page departs from the configured encoding only as a PLAIN page of a dictionary column whose
dictionary exceeded a limit that is set. -/
namespace PqModel.Props.C11Fallback
open PqModel.CopyPath

/-- MIRROR (flagged) of writer_copy.go:377-410, the loop of `encodingStatsMatch`; `acceptPlain` =
    the variant `s.Encoding != wantEncoding && !(wantDict && s.Encoding == format.Plain)` -/
def encodingStatsLoopF (acceptPlain : Bool) (d : DstCol) : List EncStat → Bool → Bool
  | [], saw => d.dict == saw
  | s :: rest, saw =>
    if s.pageType = 2 then
      if !d.dict then false else encodingStatsLoopF acceptPlain d rest true
    else if s.pageType = 0 ∨ s.pageType = 3 then
      if s.pageType ≠ d.pageType then false
      else if s.encoding ≠ d.encoding ∧ !(acceptPlain && d.dict && s.encoding == 0) = true then false
      else encodingStatsLoopF acceptPlain d rest saw
    else false

def encodingStatsMatchF (acceptPlain : Bool) (stats : List EncStat) (d : DstCol) : Bool :=
  if stats.isEmpty then false else encodingStatsLoopF acceptPlain d stats false

/-- the flag switched off is the mirror the cascade theorems of `Props.C11` are about -/
theorem loopF_false_is_mirror (d : DstCol) (stats : List EncStat) (saw : Bool) :
    encodingStatsLoopF false d stats saw = encodingStatsLoop d stats saw := by
  induction stats generalizing saw with
  | nil => rfl
  | cons s rest ih =>
    simp only [encodingStatsLoopF, encodingStatsLoop, ih, Bool.false_and, Bool.false_eq_true, decide_false,
      Bool.not_false, and_true]

theorem matchF_false_is_mirror (stats : List EncStat) (d : DstCol) :
    encodingStatsMatchF false stats d = encodingStatsMatch stats d := by
  simp only [encodingStatsMatchF, encodingStatsMatch, loopF_false_is_mirror]

/-- every entry the loop accepts is a dictionary page or a data page of the destination's page
    version AND the destination's configured encoding -/
theorem loop_exact (d : DstCol) (stats : List EncStat) (saw : Bool)
    (h : encodingStatsLoop d stats saw = true) :
    ∀ s ∈ stats, s.pageType = 2 ∨ (s.pageType = d.pageType ∧ s.encoding = d.encoding) := by
  induction stats generalizing saw with
  | nil => intro s hs; cases hs
  | cons s rest ih =>
    intro t ht
    simp only [encodingStatsLoop] at h
    split at h
    · rename_i h2
      split at h
      · cases h
      · rcases List.mem_cons.mp ht with rfl | hr
        · exact Or.inl h2
        · exact ih _ h t hr
    · split at h
      · split at h
        · cases h
        · split at h
          · cases h
          · rename_i hpt henc
            rcases List.mem_cons.mp ht with rfl | hr
            · exact Or.inr ⟨by simpa using hpt, by simpa using henc⟩
            · exact ih _ h t hr
      · cases h

/-- SPEC: the data pages of a chunk honour the encoding setting of the destination column under a
    dictionary limit `limit` (0 = none), `dictBytes` being the size of the chunk's dictionary: a
    page is written in the configured encoding, or it is a PLAIN page of a dictionary column whose
    dictionary outgrew a limit that is set. -/
def HonoursDictLimit (limit dictBytes : Nat) (d : DstCol) (c : ChunkMeta) : Prop :=
  ∀ p ∈ c.pages, p.encoding = d.encoding ∨
    (d.dict = true ∧ p.encoding = 0 ∧ limit > 0 ∧ dictBytes > limit)

/-- A chunk the copy predicate accepts holds data pages of the destination's configured encoding
    only — no page written after a dictionary fallback — for either variant of the predicate. -/
theorem spliced_pages_exact (v : Variant) (d : DstCol) (c : ChunkMeta)
    (h : columnChunkIsCopyable v d c = true) (hf : EncStatsFaithful c) :
    ∀ p ∈ c.pages, p.ptype = d.pageType ∧ p.encoding = d.encoding := by
  have hm : encodingStatsMatch c.encStats d = true := by
    by_cases hm : encodingStatsMatch c.encStats d = true
    · exact hm
    · simp [columnChunkIsCopyable, hm] at h
  have hl : encodingStatsLoop d c.encStats false = true := by
    unfold encodingStatsMatch at hm
    split at hm
    · cases hm
    · exact hm
  intro p hp
  obtain ⟨hne, s, hs, hpt, henc⟩ := hf.1 p hp
  rcases loop_exact d c.encStats false hl s hs with h2 | ⟨h1, h2⟩
  · exact absurd (hpt ▸ h2) hne
  · exact ⟨hpt ▸ h1, henc ▸ h2⟩

/-- The spliced chunk honours the destination's encoding setting under EVERY dictionary limit the
    destination may have and whatever size the source's dictionary has: the predicate need not
    (and does not) look at the limit, because it never accepts a chunk that fell back. -/
theorem verbatim_honours_dict_limit (v : Variant) (d : DstCol) (c : ChunkMeta) (limit dictBytes : Nat)
    (h : columnChunkIsCopyable v d c = true) (hf : EncStatsFaithful c) :
    HonoursDictLimit limit dictBytes d (copied d c) := by
  intro p hp
  have hp' : p ∈ c.pages := by
    unfold copied at hp
    split at hp <;> exact hp
  exact Or.inl (spliced_pages_exact v d c h hf p hp').2

/-! ### The slipped variant: PLAIN pages accepted for a dictionary-encoded destination -/

/-- source chunk written under a small `DictionaryMaxBytes`: dictionary page (95 bytes), one
    RLE_DICTIONARY page, two PLAIN pages -/
def fallbackSource : ChunkMeta :=
  { type := 6, codec := 0, encStats := [⟨2, 0, 1⟩, ⟨0, 8, 1⟩, ⟨0, 0, 2⟩],
    columnIndexOffset := 100, offsetIndexOffset := 200,
    bloomOffset := 0, bloomLength := 0, bloomHeader := none, encrypted := false, numValues := 100,
    nullCount := 0, rows := 100, hasDictPage := true,
    pages := [⟨0, 8, false, false, 0, 2, 2⟩, ⟨0, 0, false, false, 0, 2, 2⟩, ⟨0, 0, false, false, 0, 2, 2⟩],
    hasMinMax := true, hasDeprecated := false }

/-- destination: the same column, dictionary encoded, no dictionary limit -/
def dictCol : DstCol :=
  { kind := 6, codec := 0, encoding := 8, dict := true, pageType := 0, filterBpv := none,
    filterCompressed := false, encrypted := false, pageStats := false, pageBounds := true,
    deprecatedStats := false, indexLimit := 16 }

theorem fallbackSource_faithful : EncStatsFaithful fallbackSource := by
  refine ⟨?_, ?_⟩
  · intro p hp
    simp only [fallbackSource, List.mem_cons, List.not_mem_nil, or_false] at hp
    rcases hp with rfl | rfl | rfl
    · exact ⟨by decide, ⟨0, 8, 1⟩, by simp [fallbackSource], rfl, rfl⟩
    · exact ⟨by decide, ⟨0, 0, 2⟩, by simp [fallbackSource], rfl, rfl⟩
    · exact ⟨by decide, ⟨0, 0, 2⟩, by simp [fallbackSource], rfl, rfl⟩
  · exact ⟨fun _ => ⟨⟨2, 0, 1⟩, by simp [fallbackSource], rfl⟩, fun _ => rfl⟩

/-- NEGATION WITNESS for the slipped variant: its encoding-stats check accepts a faithful source
    chunk that fell back from its dictionary, and the chunk spliced as it is does not honour the
    encoding setting of a destination without a dictionary limit (nor of one with a limit of 1000
    bytes, which the 95-byte dictionary never reached). -/
theorem slipped_accepts_fallback_chunk :
    encodingStatsMatchF true fallbackSource.encStats dictCol = true ∧
    EncStatsFaithful fallbackSource ∧
    ¬ HonoursDictLimit 0 95 dictCol (copied dictCol fallbackSource) ∧
    ¬ HonoursDictLimit 1000 95 dictCol (copied dictCol fallbackSource) := by
  refine ⟨by decide, fallbackSource_faithful, ?_, ?_⟩ <;>
  · intro h
    have := h ⟨0, 0, false, false, 0, 2, 2⟩ (by simp [copied, dictCol, fallbackSource])
    simp [dictCol] at this

/-- the library's predicate rejects the same chunk (and so does the whole column check) -/
theorem mirror_rejects_fallback_chunk :
    encodingStatsMatchF false fallbackSource.encStats dictCol = false ∧
    columnChunkIsCopyable .repaired dictCol fallbackSource = false := by decide

/-- non-vacuity of `spliced_pages_exact` / `verbatim_honours_dict_limit`: the same source without
    its PLAIN pages is accepted -/
def dictSource : ChunkMeta :=
  { type := 6, codec := 0, encStats := [⟨2, 0, 1⟩, ⟨0, 8, 3⟩],
    columnIndexOffset := 100, offsetIndexOffset := 200,
    bloomOffset := 0, bloomLength := 0, bloomHeader := none, encrypted := false, numValues := 100,
    nullCount := 0, rows := 100, hasDictPage := true,
    pages := [⟨0, 8, false, false, 0, 2, 2⟩, ⟨0, 8, false, false, 0, 2, 2⟩, ⟨0, 8, false, false, 0, 2, 2⟩],
    hasMinMax := true, hasDeprecated := false }
example : columnChunkIsCopyable .repaired dictCol dictSource = true := by decide
example : EncStatsFaithful dictSource := by
  refine ⟨?_, ⟨fun _ => ⟨⟨2, 0, 1⟩, by simp [dictSource], rfl⟩, fun _ => rfl⟩⟩
  intro p hp
  simp only [dictSource, List.mem_cons, List.not_mem_nil, or_false] at hp
  rcases hp with rfl | rfl | rfl <;>
    exact ⟨by decide, ⟨0, 8, 3⟩, by simp [dictSource], rfl, rfl⟩

end PqModel.Props.C11Fallback
