import PqModel.AsyncClose

/-! # C15 — termination of `asyncPages.Close` (page.go:163-184)

`Props/C15.lean` proves that the protocol cannot deadlock (`async_no_deadlock`) and that `ReadPage`
returns under strong fairness of the producer's select. This file does the same for `Close`, over
the same transition system (`Async.lean`), for every wrapped reader `U` and from every state in
which the consumer is inside `Close` (`cpc = closing`).

The fairness assumption, stated exactly. A `Run` takes a step at every index: the scheduler never
stops both goroutines (a step is always available: `async_no_deadlock`). On top of that, `Close`
needs the `<-done` case of the producer's select (page.go:318-321) not to be starved forever:

* `async_close_terminates_select_fair`: if that case, being ready infinitely often, is taken at
  least once (`SelectFairDone`, strong fairness in its weakest form; Go's select chooses uniformly at
  random among ready cases, so this holds with probability 1), `Close` returns;
* `async_close_terminates_fair`: quantitatively, if the range loop of `Close` receives no page
  item from index `N` on, `Close` returns before index `10 + 3·N`;
* `async_close_weak_fairness_insufficient`: WEAK fairness — of the producer goroutine, and even
  of every single transition — is NOT enough. For every wrapped reader there is an infinite,
  weakly fair run, starting in a reachable state, along which `Close` never returns: the select
  chooses `read <-` every time (the range loop of `Close` is a ready receiver), the `done` case is
  ready at every select and disabled while the producer runs the loop body in between, so it is
  never *continuously* enabled. The requested statement "Close terminates under weak fairness of
  the producer goroutine" is therefore false of the model, and of the code the model transliterates:
  nothing in `readPages` looks at `done` except that three-way select. -/
namespace PqModel.Props.C15Close
open PqModel PqModel.Async

/-- Ranking function: while `Close` has not returned, every step of either goroutine decreases
    `psi` (producer program counter, pending send, seek buffered in the 1-slot channel, pending
    `continue` of the loop body; at most 9), except the rendezvous in which `Close` receives a page
    item from the select, which raises it by at most 2. -/
theorem async_close_rank (U : Under) {g g' : G} {e : Ev} (hcl : g.cpc = .closing)
    (h : Step U g e g') (he : e ≠ .closeEnd) :
    g'.cpc = .closing ∧ psi U g ≤ 9 ∧
      (if e = .closeRecv then psi U g' ≤ psi U g + 2 else psi U g' + 1 ≤ psi U g) := by
  have he' : isCloseEnd e = false := by
    revert he; cases e <;> simp [isCloseEnd]
  obtain ⟨h1, h2⟩ := psi_step hcl h he'
  refine ⟨h1, psi_le, ?_⟩
  by_cases hr : e = .closeRecv
  · subst hr; simpa [isCloseRecv] using h2
  · have : isCloseRecv e = false := by
      revert hr; cases e <;> simp [isCloseRecv]
    simp only [this] at h2
    simpa [hr] using h2

/-- Bounded form of termination: while `Close` has not returned, the number of steps taken (by
    either goroutine) is at most `9 + 3·r`, `r` = number of page items the range loop of `Close`
    has received, i.e. the number of times the producer's select sent on `read` although its `done`
    case was ready. Holds from EVERY state with the consumer in `Close`, reachable or not. -/
theorem async_close_wait_bounded (U : Under) {g g' : G} {es : List Ev} (hcl : g.cpc = .closing)
    (hp : Path U g es g') (hne : ∀ e ∈ es, e ≠ .closeEnd) :
    es.length ≤ 9 + 3 * recvs es := by
  have hne' : ∀ e ∈ es, isCloseEnd e = false := by
    intro e he
    have := hne e he
    revert this; cases e <;> simp [isCloseEnd]
  have h := (close_bounded hcl hp hne').1
  have := psi_le (U := U) (g := g)
  omega

/-- `Close` can always complete (no livelock trap): from every reachable state in which the
    consumer is in `Close` there is a path of at most 9 steps, none of which hands a page item to
    `Close`, followed by the return of `Close`. -/
theorem async_close_can_complete (U : Under) {g : G} (hr : Reachable U g) (hcl : g.cpc = .closing) :
    ∃ es g', Path U g (es ++ [.closeEnd]) g' ∧ es.length ≤ 9 ∧
      (∀ e ∈ es, isCloseRecv e = false) ∧ g'.cpc = .closed :=
  close_can_complete_aux 9 g psi_le hcl
    ((data_reachable hr).1.closing_done (Or.inl hcl)).1

/-- Termination, quantitative form: in every infinite run that starts with the consumer in `Close`,
    if `Close` receives a page item only finitely often (none from index `N` on) then `Close`
    returns before index `10 + 3·N`, with the producer exited. -/
theorem async_close_terminates_fair (U : Under) (ρ : Run U) (hcl : (ρ.st 0).cpc = .closing)
    (N : Nat) (hN : ∀ n, N ≤ n → ρ.ev n ≠ .closeRecv) :
    ∃ n, n < 10 + 3 * N ∧ ρ.ev n = .closeEnd ∧
      (ρ.st (n + 1)).cpc = .closed ∧ (ρ.st (n + 1)).ppc = .exited := by
  have hN' : ∀ n, N ≤ n → isCloseRecv (ρ.ev n) = false := by
    intro n hn
    have := hN n hn
    revert this; cases ρ.ev n <;> simp [isCloseRecv]
  obtain ⟨n, h1, h2⟩ := close_returns_of_fin_recvs ρ hcl N hN'
  have hs := ρ.step n
  rw [h2] at hs
  exact ⟨n, h1, h2, closeEnd_post hs⟩

/-- Termination under STRONG fairness of the select's `done` case: in every infinite run that
    starts in a reachable state with the consumer in `Close`, if the `done` case, whenever it is
    ready infinitely often, is taken at least once, then `Close` returns. -/
theorem async_close_terminates_select_fair (U : Under) (ρ : Run U) (hr : Reachable U (ρ.st 0))
    (hcl : (ρ.st 0).cpc = .closing) (hf : SelectFairDone ρ) :
    ∃ n, ρ.ev n = .closeEnd ∧ (ρ.st (n + 1)).cpc = .closed ∧ (ρ.st (n + 1)).ppc = .exited := by
  obtain ⟨n, h2⟩ := close_returns_of_fair_done ρ hr hcl hf
  have hs := ρ.step n
  rw [h2] at hs
  exact ⟨n, h2, closeEnd_post hs⟩

/-- The whole call: `Close` called (index 0) in ANY reachable state between two calls returns under
    the same assumption. -/
theorem async_close_call_terminates (U : Under) (ρ : Run U) (hr : Reachable U (ρ.st 0))
    (h0 : ρ.ev 0 = .closeBegin) (hf : SelectFairDone ρ) :
    ∃ n, ρ.ev n = .closeEnd ∧ (ρ.st (n + 1)).cpc = .closed := by
  have hs := ρ.step 0
  rw [h0] at hs
  have hcl : ((ρ.drop 1).st 0).cpc = .closing := closeBegin_post hs
  have hr1 : Reachable U ((ρ.drop 1).st 0) := ρ.reachable hr 1
  have hf1 : SelectFairDone (ρ.drop 1) := by
    intro hinf
    have : ∀ N, ∃ n, N ≤ n ∧ DoneReady (ρ.st n) := by
      intro N
      obtain ⟨n, hn, hd⟩ := hinf N
      exact ⟨n + 1, by omega, hd⟩
    obtain ⟨n, hn⟩ := hf this
    cases n with
    | zero => rw [h0] at hn; cases hn
    | succ n => exact ⟨n, hn⟩
  obtain ⟨n, h1, h2, _⟩ := async_close_terminates_select_fair U (ρ.drop 1) hr1 hcl hf1
  exact ⟨n + 1, h1, h2⟩

/-- The exact gap: WEAK fairness is not enough. From EVERY reachable state in which the consumer is
    in `Close` and the producer is in its loop (running the body or offering in the select) there
    is an infinite run that is weakly fair for every transition (none is enabled continuously
    without being taken), in which the producer goroutine runs again and again, the `done` case of
    its select is ready infinitely often and never taken, and `Close` never returns. -/
theorem async_close_weak_fairness_insufficient_from (U : Under) {g : G} (hr : Reachable U g)
    (hcl : g.cpc = .closing) (hp : g.ppc = .top ∨ ∃ it, g.ppc = .send it) :
    ∃ ρ : Run U, ρ.st 0 = g ∧ WeakFair ρ ∧ ProducerRuns ρ ∧
      (∀ N, ∃ n, N ≤ n ∧ DoneReady (ρ.st n)) ∧ (∀ n, ρ.ev n ≠ .selDone) ∧
      (∀ n, ρ.ev n ≠ .closeEnd ∧ (ρ.st n).cpc = .closing) := by
  have hsp : Spinning g := ⟨hcl, hp⟩
  let ρ := spinRun U g hsp
  have hne : ∀ n, ρ.ev n ≠ .closeEnd := fun n => spinEv_ne.1
  have hnd : ∀ n, ρ.ev n ≠ .selDone := fun n => spinEv_ne.2
  refine ⟨ρ, rfl, spinRun_weakFair _, spinRun_producer _, ?_, hnd,
    fun n => ⟨hne n, (spinSt_spinning hsp n).1⟩⟩
  -- the `done` case is ready infinitely often: otherwise `Close` would return
  apply Classical.byContradiction
  intro hfin
  obtain ⟨n, hn⟩ := close_returns_of_fair_done ρ hr hcl (fun hinf => absurd hinf hfin)
  exact hne n hn

/-- … and such a state is reachable whatever the wrapped reader is (`Close` on a fresh reader whose
    producer passed its first select on the `init` case): the statement "Close terminates under
    weak fairness of the producer goroutine" is false for every `U`. -/
theorem async_close_weak_fairness_insufficient (U : Under) :
    ∃ ρ : Run U, Reachable U (ρ.st 0) ∧ (ρ.st 0).cpc = .closing ∧
      WeakFair ρ ∧ ProducerRuns ρ ∧
      (∀ N, ∃ n, N ≤ n ∧ DoneReady (ρ.st n)) ∧ (∀ n, ρ.ev n ≠ .selDone) ∧
      (∀ n, ρ.ev n ≠ .closeEnd ∧ (ρ.st n).cpc = .closing) := by
  obtain ⟨ρ, h0, h1, h2, h3, h4, h5⟩ :=
    async_close_weak_fairness_insufficient_from U closingTop_reachable rfl (Or.inl rfl)
  exact ⟨ρ, h0 ▸ closingTop_reachable, h0 ▸ rfl, h1, h2, h3, h4, h5⟩

/-- … and the length of a `Close` is unbounded already on finite paths: for every `k` there is a
    path of `2k` steps from a reachable closing state along which `Close` does not return. -/
theorem async_close_unbounded (U : Under) (k : Nat) :
    ∃ g es g', Reachable U g ∧ g.cpc = .closing ∧ Path U g es g' ∧ es.length = 2 * k ∧
      (∀ e ∈ es, e ≠ .closeEnd) ∧ g'.cpc = .closing := by
  let ρ := spinRun U closingTop closingTop_spinning
  refine ⟨ρ.st 0, ρ.prefixEvents (2 * k), ρ.st (2 * k), closingTop_reachable, rfl,
    ρ.prefix_path _, ρ.prefix_length _, ?_, (spinSt_spinning closingTop_spinning _).1⟩
  intro e he
  obtain ⟨m, _, rfl⟩ := ρ.prefix_mem _ e he
  exact spinEv_ne.1

/-! ### non-vacuity -/

/-- three pages of two rows each, then EOF; every seek succeeds (as in `Props/C15.lean`) -/
def U0 : Under :=
  { next := fun p => p + 2 - p % 2,
    rd := fun p => if p < 6 then .page else .eof,
    sk := fun _ => .ok }

/-- a read, then `Close` while the producer offers the prefetched page: `Close` receives one item,
    the select then takes `done` -/
def logClose : List Ev :=
  [.readBegin, .initPass, .pollEmpty, .bodyOffer (.page 0) 0, .handoff, .deliver (.page 0) 0,
   .bodyOffer (.page 2) 0, .closeBegin, .closeRecv, .bodyOffer (.page 4) 0, .selDone, .closeFinal,
   .closeEnd]

example : ∃ g, Path U0 init logClose g ∧ g.cpc = .closed ∧ g.released = [2, 1] ∧ g.handed = [0] := by
  obtain ⟨g, hp, hq⟩ := check_path (U := U0) (es := logClose)
    (p := fun g => decide (g.cpc = .closed ∧ g.released = [2, 1] ∧ g.handed = [0])) (by decide)
  exact ⟨g, hp, by simpa using hq⟩

/-- the hypotheses of the run theorems are satisfiable: a run in which `Close` is called on a fresh
    reader, the select takes `done` at once, and the closed reader is closed again forever -/
def closeRun : Run U0 :=
  { st := fun n =>
      match n with
      | 0 => closingTop
      | 1 => { closingTop with loc := ⟨2, none, none⟩, ppc := .send ⟨.page 0, 0, 0⟩, nprod := 1 }
      | 2 => { closingTop with loc := ⟨2, none, none⟩, ppc := .final, nprod := 1, released := [0] }
      | 3 => { closingTop with loc := ⟨2, none, none⟩, ppc := .exited, nprod := 1, released := [0] }
      | _ => { closingTop with loc := ⟨2, none, none⟩, ppc := .exited, nprod := 1, released := [0],
                               cpc := .closed }
    ev := fun n =>
      match n with
      | 0 => .bodyOffer (.page 0) 0
      | 1 => .selDone
      | 2 => .closeFinal
      | 3 => .closeEnd
      | _ => .closeAgain
    step := fun n =>
      match n with
      | 0 => next?_sound (by decide)
      | 1 => next?_sound (by decide)
      | 2 => next?_sound (by decide)
      | 3 => next?_sound (by decide)
      | _ + 4 => Step.closeAgain rfl }

example : Reachable U0 (closeRun.st 0) ∧ (closeRun.st 0).cpc = .closing ∧ SelectFairDone closeRun ∧
    (∀ n, 0 ≤ n → closeRun.ev n ≠ .closeRecv) :=
  ⟨closingTop_reachable, rfl, fun _ => ⟨1, rfl⟩, fun n _ => by
    match n with
    | 0 | 1 | 2 | 3 => simp [closeRun]
    | _ + 4 => simp [closeRun]⟩

/-- a reachable closing state for `async_close_can_complete` / `async_close_wait_bounded` /
    `async_close_weak_fairness_insufficient_from` -/
example : ∃ g, Reachable U0 g ∧ g.cpc = .closing ∧ (g.ppc = .top ∨ ∃ it, g.ppc = .send it) :=
  ⟨closingTop, closingTop_reachable, rfl, Or.inl rfl⟩

end PqModel.Props.C15Close
