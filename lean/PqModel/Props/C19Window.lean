import PqModel.VariantWindowHist

/-! # C19 (round 6) — the leaf windows of the columnar VariantReader

`readWindow`, `ensurePage`, `cellsOf`/`pageOK`, `starts`, `slotOf`, `step` (`Next`, `SeekToRow`, lazy
`open`) are MIRRORS of variant_column_reader.go; `specRun`, `rowOK`, `grpOK`, `offsets`, `dropRows` /
`seekLeaf` (the contract of `Pages.SeekToRow`, C08) are SPEC. A column is given by its rows
(`rows : List (List Cell)`, every row starting at repetition level 0 and nowhere else); the pages
are ANY cut of the cell stream (page boundaries inside rows, empty pages included) that passes
`checkPageValues`. -/
namespace PqModel.Props.C19Window
open PqModel.VariantWindow

/-- `readWindow(n)`: on a leaf standing at a row start, whatever the pagination of what follows, the
    window is exactly the next `n` rows and the leaf stands at the row after them. -/
theorem window_takes_rows (maxDef n : Nat) (l : Leaf) (rows : List (List Cell))
    (hok : restOK maxDef l.rest) (hs : stream maxDef l = rows.flatten)
    (hrows : ∀ row ∈ rows, rowOK row = true) (hn : 0 < n) (hle : n ≤ rows.length) :
    ∃ l', readWindow maxDef n l = .ok ((rows.take n).flatten, l') ∧
      stream maxDef l' = (rows.drop n).flatten ∧ restOK maxDef l'.rest :=
  readWindow_take maxDef n l rows hok hs hrows hn hle

/-- a row of 3 cells cut over two pages and an empty page in between -/
example : readWindow 1 1 ⟨[], [⟨[(1, 0), (0, 1)], [7]⟩, ⟨[], []⟩, ⟨[(1, 1), (1, 0)], [8, 9]⟩]⟩
    = .ok ([⟨1, 0, some 7⟩, ⟨0, 1, none⟩, ⟨1, 1, some 8⟩], ⟨[⟨1, 0, some 9⟩], []⟩) := by rfl

/-- a column chunk that ends before the rows the window asks for (a leaf column shorter than its
    siblings / than the row group's row count) is an error ("column ended after ... rows"), never a
    short or shifted window. -/
theorem short_column_is_reported (maxDef n : Nat) (l : Leaf) (rows : List (List Cell))
    (hok : restOK maxDef l.rest) (hs : stream maxDef l = rows.flatten)
    (hrows : ∀ row ∈ rows, rowOK row = true) (hlt : rows.length < n) :
    readWindow maxDef n l = .error .ended :=
  readWindow_short maxDef n l rows hok hs hrows hlt

example : readWindow 1 2 ⟨[], [⟨[(1, 0), (0, 1)], [7]⟩]⟩ = .error .ended := by rfl

/-- For EVERY history of `Next(n)` / `SeekToRow(k)` / cursor creation on a well-formed column chunk:
    every call answers what the position spec says — `Next(n)` at row `pos` shows the rows
    `pos .. pos + min n (numRows - pos)` of the column, `io.EOF` at the end, an out-of-range seek is
    refused and changes nothing, and the reader never enters its error state. In particular a leaf
    first opened after the reader has moved (`open` sets `pendingSeek = rowOffset`) and a leaf with a
    pending seek show the same rows as a leaf read from the start. -/
theorem history_windows_are_row_ranges {maxDef : Nat} {col : List Page} {rows : List (List Cell)}
    (hc : ColOK maxDef col rows) (ops : List Op) :
    run maxDef col (init rows.length) ops = specRun rows 0 false ops :=
  run_spec hc ops _ 0 false (good_init maxDef rows)

example : ColOK 1 [⟨[(1, 0), (0, 1)], [7]⟩, ⟨[(1, 1), (1, 0)], [8, 9]⟩]
    [[⟨1, 0, some 7⟩, ⟨0, 1, none⟩, ⟨1, 1, some 8⟩], [⟨1, 0, some 9⟩]] where
  ok := by intro p hp; simp at hp; rcases hp with h | h <;> subst h <;> decide
  cells := by decide
  rows := by intro r hr; simp at hr; rcases hr with h | h <;> subst h <;> decide

/-- what `Next(n)` shows at row `k` (SPEC) -/
def nextAt (rows : List (List Cell)) (k n : Nat) : Out :=
  if n = 0 then .rows 0
  else if rows.length ≤ k then .eof
  else
    let n' := if n > rows.length - k then rows.length - k else n
    .win n' ((rows.drop k).take n').flatten

/-- final position of a history (SPEC) -/
def specEnd (rows : List (List Cell)) : Nat → List Op → Nat
  | pos, [] => pos
  | pos, .attach :: ops => specEnd rows pos ops
  | pos, .seek k :: ops => if k > rows.length then specEnd rows pos ops else specEnd rows k ops
  | pos, .next n :: ops =>
    if n = 0 then specEnd rows pos ops
    else if rows.length ≤ pos then specEnd rows pos ops
    else specEnd rows (pos + (if n > rows.length - pos then rows.length - pos else n)) ops

theorem specRun_append (rows : List (List Cell)) : ∀ (h t : List Op) (pos : Nat),
    specRun rows pos true (h ++ t) = specRun rows pos true h ++ specRun rows (specEnd rows pos h) true t := by
  intro h
  induction h with
  | nil => intro t pos; simp [specRun, specEnd]
  | cons op h ih =>
    intro t pos
    cases op with
    | attach => simp [specRun, specEnd, ih]
    | seek k => simp only [List.cons_append, specRun, specEnd]; split <;> simp [ih]
    | next n =>
      simp only [List.cons_append, specRun, specEnd]
      split
      · simp [ih]
      · split <;> simp [ih]

/-- Reading from row `k` = suffix of reading everything: after ANY earlier history `h` (windows of
    any sizes, seeks forwards and backwards, end of the row group reached or not), `SeekToRow(k)`
    then `Next(n)` shows exactly the rows `k .. k + n'` of the column — the same window a fresh reader
    shows after reading the first `k` rows sequentially. -/
theorem read_after_seek_is_suffix {maxDef : Nat} {col : List Page} {rows : List (List Cell)}
    (hc : ColOK maxDef col rows) (h : List Op) (k n : Nat) (hk : k ≤ rows.length) :
    (run maxDef col (init rows.length) (.attach :: (h ++ [.seek k, .next n]))).getLast? = some (nextAt rows k n) ∧
    (run maxDef col (init rows.length) [.attach, .next k, .next n]).getLast? = some (nextAt rows k n) := by
  have hk' : ¬ k > rows.length := by omega
  have two : ∀ pos, specRun rows pos true [.seek k, .next n] = [.nothing, nextAt rows k n] := by
    intro pos
    by_cases hn : n = 0 <;> by_cases hl : rows.length ≤ k <;> simp [specRun, nextAt, hk', hn, hl]
  constructor
  · rw [history_windows_are_row_ranges hc]
    simp only [specRun]
    rw [specRun_append, two]
    have e : Out.nothing :: (specRun rows 0 true h ++ [Out.nothing, nextAt rows k n]) =
        (Out.nothing :: (specRun rows 0 true h ++ [Out.nothing])) ++ [nextAt rows k n] := by simp
    rw [e, List.getLast?_concat]
  · rw [history_windows_are_row_ranges hc]
    by_cases h0 : k = 0
    · subst h0
      by_cases hn : n = 0 <;> by_cases hl : rows.length ≤ 0 <;> simp [specRun, nextAt, hn, hl]
    · have hlt : ¬ rows.length ≤ 0 := by omega
      have hkk : ¬ rows.length < k := by omega
      by_cases hn : n = 0 <;> by_cases hl : rows.length ≤ k <;>
        simp [specRun, nextAt, hn, hl, h0, hlt, hkk]


/-! ## dense values -/

/-- `setPage`/`consumeSlot`/`appendValue` on a page that passes `checkPageValues`: the slots keep the
    page's levels, a slot carries a value exactly when its definition level is `maxDef`, and the
    values taken are the page's first `countLevelsEqual(defs, maxDef)` values in order (`values[pdense]`
    never runs past the decoded data). -/
theorem page_cells (maxDef : Nat) : ∀ (lv : List (Nat × Nat)) (vals : List Nat),
    countDef maxDef lv ≤ vals.length →
    (cellsOf maxDef lv vals).map (fun c => (c.d, c.r)) = lv ∧
    (∀ c ∈ cellsOf maxDef lv vals, (c.v.isSome = true ↔ c.d = maxDef)) ∧
    winValues (cellsOf maxDef lv vals) = vals.take (countDef maxDef lv) := by
  intro lv
  induction lv with
  | nil => intro vals _; simp [cellsOf, countDef, winValues]
  | cons p lv ih =>
    intro vals h
    obtain ⟨d, r⟩ := p
    by_cases hd : d = maxDef
    · cases vals with
      | nil => simp [countDef, hd] at h
      | cons v vs =>
        have h' : countDef maxDef lv ≤ vs.length := by simp [countDef, hd] at h; omega
        obtain ⟨a, b, c⟩ := ih vs h'
        refine ⟨by simp only [cellsOf, hd, if_true, List.map_cons, a], ?_, ?_⟩
        · intro x hx
          simp only [cellsOf, hd, if_true, List.mem_cons] at hx
          rcases hx with rfl | hx
          · simp
          · exact b x hx
        · simp only [cellsOf, hd, if_true, countDef]
          simp only [winValues, List.filterMap_cons] at c ⊢
          rw [c, Nat.add_comm, List.take_succ_cons]
    · have h' : countDef maxDef lv ≤ vals.length := by simp [countDef, hd] at h; omega
      obtain ⟨a, b, c⟩ := ih vals h'
      refine ⟨by simp [cellsOf, hd, a], ?_, ?_⟩
      · intro x hx
        simp only [cellsOf, hd, if_false, List.mem_cons] at hx
        rcases hx with rfl | hx
        · simp [hd]
        · exact b x hx
      · simp only [cellsOf, hd, if_false, countDef]
        simp only [winValues, List.filterMap_cons] at c ⊢
        simpa using c

/-- `denseIdx`: slot `i` of a window points at its own value in the dense buffers, and null slots
    carry -1 (the counter `w.dense` of `consumeSlot`, started at `k`). -/
theorem denseIdx_points_to_value : ∀ (w : List Cell) (k i : Nat) (c : Cell), w[i]? = some c →
    match c.v with
    | some x => ∃ j, (denseIdxFrom k w)[i]? = some (((k + j : Nat) : Int)) ∧ (winValues w)[j]? = some x
    | none => (denseIdxFrom k w)[i]? = some (-1) := by
  intro w
  induction w with
  | nil => intro k i c h; simp at h
  | cons c0 w ih =>
    intro k i c h
    cases i with
    | zero =>
      simp at h; subst h
      cases hv : c0.v with
      | some x => exact ⟨0, by simp [denseIdxFrom, hv], by simp [winValues, hv]⟩
      | none => simp [denseIdxFrom, hv]
    | succ i =>
      simp at h
      cases hv0 : c0.v with
      | some y =>
        have := ih (k + 1) i c h
        cases hv : c.v with
        | some x =>
          rw [hv] at this
          obtain ⟨j, h1, h2⟩ := this
          refine ⟨j + 1, ?_, by simp [winValues, hv0]; exact h2⟩
          simp [denseIdxFrom, hv0, h1]; omega
        | none => rw [hv] at this; simp [denseIdxFrom, hv0, this]
      | none =>
        have := ih k i c h
        cases hv : c.v with
        | some x =>
          rw [hv] at this
          obtain ⟨j, h1, h2⟩ := this
          exact ⟨j, by simp [denseIdxFrom, hv0, h1], by simp [winValues, hv0]; exact h2⟩
        | none => rw [hv] at this; simp [denseIdxFrom, hv0, this]

example : denseIdxFrom 0 [⟨1, 0, some 7⟩, ⟨0, 1, none⟩, ⟨1, 1, some 8⟩] = [0, -1, 1] := by decide

/-! ## slot groups -/

/-- `starts(depth)` / `slotOf(depth, g)`: for a window whose repetition levels are the concatenation
    of depth-`d` groups (first level ≤ d, the others > d) — at least one —, `starts(d)` lists the first
    slot of every group plus the sentinel `numSlots`, `slotOf(d, g)` is the first slot of group `g`,
    i.e. the number of slots of the groups before it, and is refused exactly from `g = #groups` on. -/
theorem slotOf_is_group_offset (depth : Nat) (gs : List (List Nat)) (hgs : gs ≠ [])
    (h : ∀ g ∈ gs, grpOK depth g = true) :
    starts gs.flatten gs.flatten.length depth = offsets 0 gs ++ [gs.flatten.length] ∧
    ∀ g, slotOf gs.flatten gs.flatten.length depth g =
      if g < gs.length then some (gs.take g).flatten.length else none := by
  have hne : gs.flatten ≠ [] := by
    cases gs with
    | nil => exact absurd rfl hgs
    | cons g gs' =>
      have hg := h g (by simp)
      cases g with
      | nil => simp [grpOK] at hg
      | cons r t => simp
  have hst : starts gs.flatten gs.flatten.length depth = offsets 0 gs ++ [gs.flatten.length] := by
    simp only [starts, hne, if_false]
    rw [startsFrom_groups depth gs 0 h]
  refine ⟨hst, ?_⟩
  intro g
  simp only [slotOf, hne, if_false, hst]
  have hl : (offsets 0 gs ++ [gs.flatten.length]).length - 1 = gs.length := by
    simp [offsets_length]
  rw [hl]
  by_cases hg : g < gs.length
  · have : ¬ g ≥ gs.length := by omega
    simp only [this, if_false, hg, if_true]
    rw [List.getElem?_append_left (by rw [offsets_length]; exact hg), offsets_get gs 0 g hg]
    simp
  · have : g ≥ gs.length := by omega
    simp [this, hg]

example : (∀ g ∈ [[0, 2], [1, 2], [1], [0, 2]], grpOK 1 g = true) ∧
    starts [0, 2, 1, 2, 1, 0, 2] 7 1 = [0, 2, 4, 5, 7] := by decide

/-- a non-repeated window (`len(w.reps) == 0`): every slot is its own group at every depth -/
theorem slotOf_flat (nslots depth g : Nat) :
    slotOf [] nslots depth g = if g < nslots then some g else none := by
  simp only [slotOf, if_true]
  split <;> split <;> first | rfl | omega

/-- the depth-0 groups of a window are its rows: after `Next`, `slotOf(0, i)` is the first slot of
    window row `i` (what `metadataFor` / `computeOwn` index with) -/
theorem window_row_slots (rows : List (List Cell)) (hne : rows ≠ []) (hrows : ∀ row ∈ rows, rowOK row = true)
    (i : Nat) :
    slotOf (rows.flatten.map (·.r)) rows.flatten.length 0 i =
      if i < rows.length then some (rows.take i).flatten.length else none := by
  have hg : ∀ g ∈ rows.map (fun row => row.map (·.r)), grpOK 0 g = true := by
    intro g hg
    simp at hg
    obtain ⟨row, hrow, rfl⟩ := hg
    obtain ⟨c, t, rfl, hc, ht⟩ := rowOK_cons (hrows row hrow)
    simp [grpOK, hc]
    intro x hx; have := ht x hx; omega
  have hfl : rows.flatten.map (·.r) = (rows.map (fun row => row.map (·.r))).flatten := by
    simp [List.map_flatten]
  have hlen : rows.flatten.length = (rows.map (fun row => row.map (·.r))).flatten.length := by
    rw [← hfl, List.length_map]
  have := (slotOf_is_group_offset 0 (rows.map (fun row => row.map (·.r))) (by simpa using hne) hg).2 i
  rw [hfl, hlen, this]
  simp only [List.length_map]
  split
  · congr 1
    rw [← List.map_take, ← List.map_flatten, List.length_map]
  · rfl

end PqModel.Props.C19Window
