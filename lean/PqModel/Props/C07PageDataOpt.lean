import PqModel.PageDataOpt
import PqModel.Props.C07PageDataBatch

/-! # C07, part 7: optional columns — nulls never reach the filter, every non-null value does -/
namespace PqModel.Props.C07PageData
open PqModel.XxHash PqModel.Bloom PqModel.PageDataBuf

theorem optStep_fold (maxDef : Nat) : ∀ (xs : List LValue) (st : List (List Value) × List Value),
    (xs.foldl (optStep maxDef) st).1.flatten ++ (xs.foldl (optStep maxDef) st).2
      = st.1.flatten ++ st.2 ++ nonNull maxDef xs
  | [], st => by simp [nonNull]
  | x :: xs, st => by
    simp only [List.foldl_cons]
    rw [optStep_fold maxDef xs]
    unfold optStep nonNull
    by_cases h : x.defLevel = maxDef
    · simp [h]
    · by_cases he : st.2.isEmpty
      · simp [h, he]
      · simp [h, he]

/-- the base buffer receives exactly the non-null values, in order -/
theorem optBatches_flatten (maxDef : Nat) (xs : List LValue) : (optBatches maxDef xs).flatten = nonNull maxDef xs := by
  have := optStep_fold maxDef xs ([], [])
  simp only [List.flatten_nil, List.nil_append] at this
  unfold optBatches
  dsimp only
  split
  · rename_i he
    have h2 : (xs.foldl (optStep maxDef) ([], [])).2 = [] := by simpa using he
    rw [h2, List.append_nil] at this
    exact this
  · simpa using this

theorem specStep_writes : ∀ (bs : List (List Value)) (vs : List Value),
    (bs.map BufOp.write).foldl specStep vs = vs ++ bs.flatten
  | [], vs => by simp
  | b :: bs, vs => by
    simp only [List.map_cons, List.foldl_cons, specStep, List.flatten_cons]
    rw [specStep_writes bs, List.append_assoc]

theorem optBaseOps_values (maxDef : Nat) : ∀ (ops : List OptOp) (vs : List Value),
    (optBaseOps maxDef ops).foldl specStep vs = ops.foldl (optSpecStep maxDef) vs
  | [], _ => rfl
  | .write xs :: ops, vs => by
    simp only [optBaseOps, List.foldl_append, List.foldl_cons, optSpecStep]
    rw [specStep_writes, optBatches_flatten, optBaseOps_values maxDef ops]
  | .reset :: ops, vs => by
    simp only [optBaseOps, List.foldl_cons, optSpecStep, specStep]
    exact optBaseOps_values maxDef ops []

/-- every non-null value of every write is of the column's kind -/
def OptOk (maxDef : Nat) (kind : Kind) (ops : List OptOp) : Prop :=
  ∀ op ∈ ops, ∀ xs, op = .write xs → ∀ x ∈ xs, x.defLevel = maxDef → x.v.kindOk kind = true

theorem optBaseOps_ok (maxDef : Nat) (kind : Kind) : ∀ (ops : List OptOp), OptOk maxDef kind ops →
    OpsOk kind (optBaseOps maxDef ops)
  | [], _ => by intro op hop; simp [optBaseOps] at hop
  | .reset :: ops, h => by
    intro op hop vs hvs v hv
    simp only [optBaseOps, List.mem_cons] at hop
    rcases hop with rfl | hop
    · cases hvs
    · exact optBaseOps_ok maxDef kind ops (fun o ho => h o (by simp [ho])) op hop vs hvs v hv
  | .write xs :: ops, h => by
    intro op hop vs hvs v hv
    simp only [optBaseOps, List.mem_append, List.mem_map] at hop
    rcases hop with ⟨b, hb, rfl⟩ | hop
    · cases hvs
      have hmem : v ∈ nonNull maxDef xs := by
        rw [← optBatches_flatten]; exact List.mem_flatten.mpr ⟨_, hb, hv⟩
      simp only [nonNull, List.mem_map, List.mem_filter, decide_eq_true_eq] at hmem
      obtain ⟨x, ⟨hx, hd⟩, rfl⟩ := hmem
      exact h (.write xs) (by simp) xs rfl x hx hd
    · exact optBaseOps_ok maxDef kind ops (fun o ho => h o (by simp [ho])) op hop vs hvs v hv

/-- OPTIONAL columns, every physical type, every history of `WriteValues` (any mix of nulls and
    values, any run structure) and `Reset`: the filter receives the read-side hash of every non-null
    value written since the last `Reset`; for every kind but BOOLEAN exactly those, once each, in order
    — no null is ever hashed. -/
theorem optional_buffer_hashes (junk : UInt8) (maxDef : Nat) (kind : Kind) (ops : List OptOp)
    (hok : OptOk maxDef kind ops) :
    (∀ v ∈ ops.foldl (optSpecStep maxDef) [], hashRead v ∈ hashWriteStaged (runData junk kind (optBaseOps maxDef ops))) ∧
    (kind ≠ .boolean → hashWriteStaged (runData junk kind (optBaseOps maxDef ops))
        = (ops.foldl (optSpecStep maxDef) []).map hashRead) := by
  have hb := optBaseOps_ok maxDef kind ops hok
  have hv : runValues (optBaseOps maxDef ops) = ops.foldl (optSpecStep maxDef) [] := optBaseOps_values maxDef ops []
  refine ⟨fun v hm => buffered_value_is_hashed junk kind _ hb v (by rw [hv]; exact hm), fun hk => ?_⟩
  rw [buffer_hashes_exactly_once junk kind hk _ hb, hv]

example : OptOk 1 .int32 [.write [⟨0, .boolean false⟩, ⟨1, .int32 7⟩], .reset, .write [⟨1, .int32 9⟩]] := by
  intro op hop xs hxs x hx hd
  simp at hop
  rcases hop with rfl | rfl | rfl <;> simp at hxs <;> subst hxs <;> simp at hx
  · rcases hx with rfl | rfl
    · simp at hd
    · decide
  · subst hx; decide

end PqModel.Props.C07PageData
