import PqModel.PoolMixedTrace
/-! # C16, the per-chunk detach flag as the spy on the real reader observes it

Theorems about what sub-check `chunkflag` compares with the real `columnChunkValueReader`
(flag after every fetch, Release-versus-detach decision per page, touches of the page's values
buffer through kept rows): they tie the observable trace to `PoolMixed.chunkProgs`, the object of
`Props.C16Mixed`. -/
namespace PqModel.Props.C16ChunkFlag
open PqModel.PoolProto PqModel.PoolMixed

/-- For every chunk (any pages, any reads, any kept rows), both variants and every initial flag:
    the per-page decision read off `chunkProgs` (does the reader itself put the values buffer) is
    the negation of the traced flag, page by page. So comparing the flag after every fetch AND the
    release decision with the real reader pins down `chunkProgs` on that chunk. -/
theorem decision_is_traced_flag (slip fixedLen detach : Bool) (ps : List PageD) :
    (chunkProgs slip fixedLen detach ps).map hasPut = (flagTrace slip fixedLen detach ps).map (!·) := by
  induction ps generalizing detach with
  | nil => rfl
  | cons p ps ih => simp [chunkProgs, flagTrace, ih, hasPut_rowReaderProg]

example : (chunkProgs true true true [⟨false, 1, 1⟩, ⟨true, 1, 1⟩, ⟨false, 2, 3⟩]).map hasPut = [false, true, true] := by
  decide

/-- The code as it is, for every chunk: the flag `newRowGroupRows` set is observed unchanged after
    every fetch, no page's values buffer is put by the reader, and the buffer of page `i` is touched
    through kept rows exactly `nKept` times for a PLAIN page and never for a dictionary page. -/
theorem mirror_observation (fixedLen : Bool) (ps : List PageD) :
    flagTrace false fixedLen true ps = List.replicate ps.length true ∧
    (chunkProgs false fixedLen true ps).map hasPut = List.replicate ps.length false ∧
    (chunkProgs false fixedLen true ps).map disc = List.replicate ps.length true := by
  refine ⟨flagTrace_mirror _ _ _, ?_, ?_⟩
  · rw [decision_is_traced_flag, flagTrace_mirror]; simp
  · rw [chunkProgs_mirror]
    simp only [List.map_map]
    induction ps with
    | nil => rfl
    | cons p ps ih => simp [List.replicate_succ, rowReaderProg_disc, ih]

example : (chunkProgs false true true [⟨true, 1, 1⟩, ⟨false, 2, 3⟩]).map hasPut = [false, false] := by decide

/-- A reader whose flag is down (a column that is not byte-carrying is read with the flag down and
    holds no pointers; this is the byte-carrying program with the flag down): every page is put by
    the reader, and the discipline breaks at exactly the PLAIN pages of which a row is kept. -/
theorem flag_down_observation (slip fixedLen : Bool) (ps : List PageD) :
    (chunkProgs slip fixedLen false ps).map hasPut = List.replicate ps.length true ∧
    (chunkProgs slip fixedLen false ps).map disc = ps.map fun p => p.keptTouches == 0 := by
  rw [chunkProgs_cleared]
  constructor
  · induction ps with
    | nil => rfl
    | cons p ps ih => simp_all [List.replicate_succ, hasPut_rowReaderProg]
  · simp only [List.map_map]
    apply List.map_congr_left
    intro p _
    simp only [Function.comp]
    cases h : p.keptTouches with
    | zero => simp [rowReaderProg, disc, disc_replicate_append]
    | succ k => simpa using rowReaderSlip_disc p.nRead k

example : (chunkProgs false true false [⟨true, 1, 4⟩, ⟨false, 1, 0⟩, ⟨false, 2, 3⟩]).map disc = [true, true, false] := by
  decide

end PqModel.Props.C16ChunkFlag
