import PqModel.EncEmit

/-! # C18, leak part — values, statistics and index entries of encrypted columns never reach the file raw

Theorems over `EncEmit.emit`, the mirror of which buffers `writer.go` hands to the destination
raw and which through `encryptModule` (tied to the source by `Props/FactsCheckC18.lean`). They
hold for EVERY file structure (any number of row groups, columns, pages, dictionaries, bloom
filters, any column metadata) and every configuration (footer mode, key assignment, deferred
bloom filters). PARTIAL in one respect, stated below: `sealed_under_own_key_partial`. -/
namespace PqModel.Props.C18Leak
open PqModel.Aad PqModel.EncEmit

/-- With encryption configured and a footer key present, every region that carries values,
    statistics or index entries of a column (page header, page body, dictionary, bloom filter,
    column index, offset index, column metadata with statistics / encoding statistics / size
    histograms) goes through `encryptModule`. (Every column is an encrypted column in this API:
    a column without its own key uses the footer key.) -/
theorem encrypted_columns_never_raw (fs : FileS) (cfg : EncCfg) (he : cfg.enabled = true) (hk : cfg.footerKeySet = true) :
    ∀ p ∈ emit fs cfg, p.content.column.isSome → p.sealed.isSome := by
  intro p hp hc
  cases emit_shape fs cfg p hp with
  | framing c h => rcases h with rfl | rfl | rfl | rfl | rfl <;> simp [raw, Content.column] at hc
  | plainMeta rg col m h => rw [he] at h; cases h
  | redacted rg col ch => simp [raw, Content.column, redact_not_sensitive] at hc
  | keyed col c m h =>
    have := keyOf_isSome he hk col
    cases hk' : keyOf cfg col with
    | none => rw [hk'] at this; cases this
    | some k => simp [viaKey]
  | inFooter c h hf => simp [viaKey]

example : (⟨true, true, fun c => c == 1, false, true⟩ : EncCfg).enabled = true ∧
    (⟨.pageBody 0 1 0, some (.column 1, .dataPage 0 1 0)⟩ : Piece) ∈
      emit ⟨[[⟨true, 1, true, ColMeta.zero⟩, ⟨false, 2, true, { ColMeta.zero with stats := some ([1], [2]) }⟩]]⟩ ⟨true, true, fun c => c == 1, false, true⟩ := by decide

/-- Plaintext-footer mode: the column metadata that stays raw in the footer carries no statistics,
    no encoding statistics and no size histograms (whatever the chunk's real metadata holds); only
    the bloom filter offset and length of a deferred bloom filter survive in it. -/
theorem raw_footer_carries_no_statistics (fs : FileS) (cfg : EncCfg) (he : cfg.enabled = true) (hk : cfg.footerKeySet = true) :
    ∀ p ∈ emit fs cfg, p.sealed = none → ∀ rg col m, p.content = .columnMeta rg col m →
      m.stats = none ∧ m.encodingStats = [] ∧ m.sizeHistograms = [] := by
  intro p hp hs rg col m hc
  have := encrypted_columns_never_raw fs cfg he hk p hp
  rw [hs, hc] at this
  simp only [Content.column, Option.isSome_none] at this
  cases hsens : m.sensitive with
  | true => simp [hsens] at this
  | false =>
    simp only [ColMeta.sensitive, Bool.or_eq_false_iff, Bool.not_eq_false', Option.isSome_eq_false_iff, Option.isNone_iff_eq_none,
      List.isEmpty_iff] at hsens
    exact ⟨hsens.1.1, hsens.1.2, hsens.2⟩

/-- non-vacuity: a chunk with statistics, plaintext footer: the raw copy is there and is empty -/
example : (⟨.columnMeta 0 0 ColMeta.zero, none⟩ : Piece) ∈
    emit ⟨[[⟨false, 1, false, { ColMeta.zero with stats := some ([1], [9]), encodingStats := [(0, 0, 1)] }⟩]]⟩ ⟨true, true, fun _ => false, false, false⟩ := by decide

/-- A sealed region is sealed for its own module (so that `C18.aad_injective` applies to it), or it
    is part of the footer envelope. -/
theorem sealed_for_own_module (fs : FileS) (cfg : EncCfg) :
    ∀ p ∈ emit fs cfg, ∀ k m, p.sealed = some (k, m) → m = .footer ∨ ∃ col, p.content.modCol = some (m, col) := by
  intro p hp k m hs
  cases emit_shape fs cfg p hp with
  | framing c h => simp [raw] at hs
  | plainMeta rg col m' h => simp [raw] at hs
  | redacted rg col ch => simp [raw] at hs
  | keyed col c m' h =>
    cases hk' : keyOf cfg col with
    | none => simp [viaKey, hk'] at hs
    | some k' => simp [viaKey, hk'] at hs; exact Or.inr ⟨col, by simp only [viaKey]; rw [h, hs.2]⟩
  | inFooter c h hf => simp [viaKey] at hs; exact Or.inl hs.2.symm

/-- What the code does WITHOUT a footer key (`EncryptionConfig{ColumnKeys: …}` only; the writer
    never validates the configuration): `columnKeyFor` returns nil for the columns without a key
    of their own, `c.encKey != nil` is false, and their pages are written raw until Close fails in
    `encryptModule` on the footer. Reported as an observation: no file is completed. -/
theorem without_footer_key_pages_are_raw :
    (⟨.pageBody 0 0 0, none⟩ : Piece) ∈ emit ⟨[[⟨false, 1, false, ColMeta.zero⟩]]⟩ ⟨true, false, fun _ => false, true, false⟩ := by decide

/-- PARTIAL: a column with a key of its own has its pages, dictionary, bloom filter, page index and
    (plaintext-footer mode) column metadata sealed under THAT key …
-- OPEN (false for the code as it is): "every region carrying data of a column with its own key is
-- sealed under that key". In encrypted-footer mode the column metadata, statistics included, is
-- sealed only inside the footer envelope, under the FOOTER key (writer.go:1415-1447; the format
-- document seals it separately under the column key): see `footer_key_opens_column_key_statistics`. -/
theorem sealed_under_own_key_partial (fs : FileS) (cfg : EncCfg) (he : cfg.enabled = true) (col : Nat) (hc : cfg.hasColKey col = true) :
    ∀ p ∈ emit fs cfg, p.content.column = some col →
      (∃ m, p.sealed = some (.column col, m)) ∨ (cfg.encFooter = true ∧ ∃ rg m, p.content = .columnMeta rg col m) := by
  intro p hp hcol
  have hkey : keyOf cfg col = some (.column col) := by simp [keyOf, he, hc]
  cases emit_shape fs cfg p hp with
  | framing c h => rcases h with rfl | rfl | rfl | rfl | rfl <;> simp [raw, Content.column] at hcol
  | plainMeta rg c m h => rw [he] at h; cases h
  | redacted rg c ch => simp [raw, Content.column, redact_not_sensitive] at hcol
  | keyed c' c m h =>
    obtain ⟨m', hm'⟩ := column_of_modCol hcol
    simp only [viaKey] at hm'
    rw [h] at hm'
    cases hm'
    exact Or.inl ⟨m, by simp [viaKey, hkey]⟩
  | inFooter c h hf =>
    rcases h with rfl | ⟨rg, c', m, rfl⟩
    · simp [viaKey, Content.column] at hcol
    · simp only [viaKey, Content.column] at hcol
      split at hcol
      · cases hcol; exact Or.inr ⟨hf, rg, m, rfl⟩
      · cases hcol

/-- witness for the OPEN part: encrypted footer, column 0 has its own key, its statistics are
    sealed under the footer key only -/
theorem footer_key_opens_column_key_statistics :
    (⟨.columnMeta 0 0 { ColMeta.zero with stats := some ([1], [9]) }, some (.footer, .footer)⟩ : Piece) ∈
      emit ⟨[[⟨false, 1, false, { ColMeta.zero with stats := some ([1], [9]) }⟩]]⟩ ⟨true, true, fun _ => true, true, false⟩ := by decide

end PqModel.Props.C18Leak
