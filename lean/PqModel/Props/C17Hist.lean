import PqModel.ResetHistBridge

/-! # C17 — level histograms / size statistics: the bytes after `Reset` depend on the new pages only

`Props/C17.lean` proves that `Reset` returns the writer's FIELDS to a fresh writer's. Here the step from
fields to bytes is proved for the statistics that are accumulated in slices whose backing arrays survive
the reset (`pageRepetitionLevelHistograms`, `pageDefinitionLevelHistograms`: `s = s[:0]`) and in arrays
cleared in place (`repetitionLevelHistogram`, `definitionLevelHistogram`), plus the scalar
`totalUnencodedByteArrayBytes`: what `writeRowGroup` emits into `SizeStatistics` and into the
`ColumnIndex` level histograms is the SPEC's (C05 `LevelStats.chunkHists`) function of the pages
recorded since the last reset — for every earlier history, every content of the spare capacity, every
choice the runtime makes when a slice has to grow.

Mirror = `ResetHist.step true` (the library as it stands, tied to the code by the L2 sub-check `hist`:
`accumulateAndAppendPageLevelHistogram` on dirty slices, `(*ColumnWriter).reset` on the real writer);
`ResetHist.step false` = the same code without the `clear(...)` of the re-extended region, refuted. -/

namespace PqModel.Props.C17Hist
open PqModel.ResetHist PqModel.LevelStats

/-- **stats_after_reset**: a column writer that lived through ANY history of recorded pages and resets
(`Writer.Reset`, the per-row-group `rg.reset()`), then is reset and records `pages`, emits exactly the
spec's statistics of `pages`. -/
theorem stats_after_reset (maxRep maxDef : Nat) (history : List Op) (pages : List PageIn) :
    emit (run true (step true (run true (ColStats.fresh maxRep maxDef) history) .reset) (pages.map Op.page)) =
      specEmit maxRep maxDef pages :=
  emit_clean maxRep maxDef _
    (reset_makes_clean true maxRep maxDef _ (run_ok true maxRep maxDef history _ (fresh_ok maxRep maxDef))) pages

/-- a fresh column writer emits the same -/
theorem stats_fresh (maxRep maxDef : Nat) (pages : List PageIn) :
    emit (run true (ColStats.fresh maxRep maxDef) (pages.map Op.page)) = specEmit maxRep maxDef pages :=
  emit_clean maxRep maxDef _ (fresh_clean maxRep maxDef) pages

/-- **hist_reset_equiv**: reused and fresh writers emit the same statistics for the same pages, also
when the runtime grows their slices differently (`extraRep` / `extraDef` of the two runs are unrelated). -/
theorem hist_reset_equiv (maxRep maxDef : Nat) (history : List Op) (pages pages' : List PageIn)
    (hsame : pages.map (fun p => (p.rep, p.dfn, p.bytes)) = pages'.map (fun p => (p.rep, p.dfn, p.bytes))) :
    emit (run true (step true (run true (ColStats.fresh maxRep maxDef) history) .reset) (pages.map Op.page)) =
      emit (run true (ColStats.fresh maxRep maxDef) (pages'.map Op.page)) := by
  rw [stats_after_reset, stats_fresh]
  have h1 : pages.map (·.rep) = pages'.map (·.rep) := by
    have := congrArg (List.map (fun t : List Nat × List Nat × Nat => t.1)) hsame
    simpa [List.map_map, Function.comp_def] using this
  have h2 : pages.map (·.dfn) = pages'.map (·.dfn) := by
    have := congrArg (List.map (fun t : List Nat × List Nat × Nat => t.2.1)) hsame
    simpa [List.map_map, Function.comp_def] using this
  have h3 : pages.map (·.bytes) = pages'.map (·.bytes) := by
    have := congrArg (List.map (fun t : List Nat × List Nat × Nat => t.2.2)) hsame
    simpa [List.map_map, Function.comp_def] using this
  simp only [specEmit, h1, h2, h3]

/-- the hypotheses are satisfiable, and the statement is about something: an optional list column
(max repetition level 1, max definition level 2), a first file of two pages, a Reset, one page -/
example :
    emit (run true (step true (run true (ColStats.fresh 1 2)
        [.page ⟨[0, 1, 1], [2, 2, 1], 7, 3, 0⟩, .page ⟨[0, 0], [0, 2], 1, 0, 5⟩, .reset, .page ⟨[0], [1], 0, 0, 0⟩]) .reset)
        [.page ⟨[0, 1, 0], [2, 2, 0], 4, 0, 0⟩]) =
      { sizeUnencoded := 4, sizeRep := some [2, 1], sizeDef := some [1, 0, 2],
        indexRep := some [2, 1], indexDef := some [1, 0, 2] } := by decide

/-- **reset_models_agree**: the histogram fields of the field-level model (`Reset.lean`: `levelHist`,
`pageLevelHists`, `totalUnencoded`) are the live parts of this model's state (`Refines`), a fresh column
of the one refines a fresh state of the other, and the column reset of `Reset.lean` (repaired or not)
acts on those fields as this model's reset does — so `reset_equiv` (Props/C17: the fields after Reset
are a fresh writer's) and `stats_after_reset` (the bytes computed from such fields) compose. -/
theorem reset_models_agree (clr : Bool) (c : PqModel.Reset.Col) (s : ColStats) (h : Refines c.vol s) :
    Refines (PqModel.Reset.colResetFixed c).vol (step clr s .reset) ∧
    Refines (PqModel.Reset.colResetAsIs c).vol (step clr s .reset) :=
  refines_reset clr c s h

example : Refines (PqModel.Reset.ColVol.fresh ⟨⟨0, 1⟩, ⟨0, 1⟩, ⟨0, 1⟩, ⟨0, 1⟩, 2, 0, 2, 0, 5⟩) (ColStats.fresh 1 2) :=
  refines_fresh _ 1 2 (by decide)

/-- the per-page block written by the clearing append is the spec's histogram of the page whatever the
slice's spare capacity holds (the function-level statement the L2 sub-check `hist` ties to the code) -/
theorem append_ignores_spare (col : List Nat) (ph : CapSlice) (levels : List Nat) (maxLevel extra : Nat) :
    (appendPage true col ph levels maxLevel extra).2.live = ph.live ++ pageHist maxLevel levels ∧
    (appendPage true col ph levels maxLevel extra).1 = accumulate col levels :=
  ⟨appendPage_live col ph levels maxLevel extra, rfl⟩

example : (appendPage true [5, 5] ⟨[1, 2], [9, 9, 9]⟩ [0, 1, 1] 1 0).2.live = [1, 2, 1, 2] := by decide

/-! ### without the `clear` (seeded change C17-3a) the property fails -/

/-- an optional column (max definition level 1): one page, the row group ends (`rg.reset()`), the same
page again: the second row group's ColumnIndex histogram is the SUM of both -/
theorem noClear_second_row_group_sums :
    (emit (run false (ColStats.fresh 0 1) [.page ⟨[], [0, 1, 1], 0, 0, 0⟩, .reset, .page ⟨[], [0, 1, 1], 0, 0, 0⟩])).indexDef
      = some [2, 4] ∧
    (specEmit 0 1 [⟨[], [0, 1, 1], 0, 0, 0⟩]).indexDef = some [1, 2] := by decide

/-- the full-strength statement is false for the code without the `clear` -/
theorem stats_after_reset_noClear_false :
    ¬ ∀ (maxRep maxDef : Nat) (history : List Op) (pages : List PageIn),
      emit (run false (step false (run false (ColStats.fresh maxRep maxDef) history) .reset) (pages.map Op.page)) =
        specEmit maxRep maxDef pages := by
  intro h
  have := h 0 1 [.page ⟨[], [0, 1, 1], 0, 0, 0⟩] [⟨[], [0, 1, 1], 0, 0, 0⟩]
  revert this
  decide

/-- ... while a FRESH writer is right even without the `clear` when its slices only ever grow into
zeroed memory: the defect needs a reused column writer (why single-row-group tests pass); a witness. -/
example :
    emit (run false (ColStats.fresh 0 1) [.page ⟨[], [0, 1, 1], 0, 0, 0⟩, .page ⟨[], [1], 0, 0, 0⟩]) =
      specEmit 0 1 [⟨[], [0, 1, 1], 0, 0, 0⟩, ⟨[], [1], 0, 0, 0⟩] := by decide

end PqModel.Props.C17Hist
