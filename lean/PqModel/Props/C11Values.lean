import PqModel.CopyValues

/-! # C11 — property theorems for the value batches of the column-oriented re-encode path

Mirror: `PqModel.CopyValues.copyLoop` (writer_reencode.go:219-265 over column_chunk.go:123-150).
Spec: `StartsRow` (a data page starts at the beginning of a row). All statements are for every
source page structure, every buffer capacity and every row length. -/
namespace PqModel.Props.C11Values
open PqModel.CopyValues

variable {V : Type}

theorem startsRow_append_left {isStart : V → Bool} {a : List V} (b : List V)
    (h : StartsRow isStart a) : StartsRow isStart (a ++ b) := by
  obtain ⟨v, hv, hs⟩ := h
  cases a with
  | nil => simp at hv
  | cons x xs => exact ⟨v, by simpa using hv, hs⟩

theorem startsRow_of_append {isStart : V → Bool} {a b : List V}
    (h : StartsRow isStart (a ++ b)) (ha : a ≠ []) : StartsRow isStart a := by
  obtain ⟨v, hv, hs⟩ := h
  cases a with
  | nil => exact absurd rfl ha
  | cons x xs => exact ⟨v, by simpa using hv, hs⟩

theorem startsRow_take {isStart : V → Bool} {a : List V} {e : Nat}
    (h : StartsRow isStart a) (he : 0 < e) : StartsRow isStart (a.take e) := by
  obtain ⟨v, hv, hs⟩ := h
  cases a with
  | nil => simp at hv
  | cons x xs =>
    cases e with
    | zero => omega
    | succ n => exact ⟨v, by simpa using hv, hs⟩

/-- **The values written are the values read, in order**: when the loop ends on `io.EOF`, the
    batches handed to `WriteRowValues`, one after the other, are the held-back values followed by
    everything the reader had — for repeated and flat columns, every page structure of the source,
    every buffer capacity. -/
theorem copy_writes_the_stream (rep : Bool) (isStart : V → Bool) :
    ∀ (fuel : Nat) (pages : List (List V)) (cap : Nat) (pend : List V),
      (copyLoop rep isStart fuel pages cap pend).2 = .done →
      (copyLoop rep isStart fuel pages cap pend).1.flatten = pend ++ pages.flatten := by
  intro fuel
  induction fuel with
  | zero => intro pages cap pend h; simp [copyLoop] at h
  | succ fuel ih =>
    intro pages cap pend h
    unfold copyLoop at h ⊢
    split at h
    · next hr =>
      simp only [readValues_none hr, List.append_nil]
      cases pend <;> simp
    · simp at h
    · next g got pages' hr =>
      have hs := readValues_some hr
      dsimp only at h ⊢
      have := ih pages' _ _ h
      generalize (if rep = true then lastStart isStart (pend ++ g :: got) else (pend ++ g :: got).length) = e at *
      rw [← hs]
      by_cases he : e > 0
      · simp only [he, if_true, List.flatten_cons, this]
        rw [← List.append_assoc (List.take e _), List.take_append_drop, List.append_assoc]
      · have he0 : e = 0 := by omega
        subst he0
        simp only [List.drop_zero] at this
        simp only [Nat.lt_irrefl, if_false, List.drop_zero, this, List.append_assoc]

/-- **Every batch ends at a row boundary** (repeated column): if what is to be written starts at
    the beginning of a row, every batch handed to `WriteRowValues` is non-empty and starts at the
    beginning of a row — hence so does every data page, wherever the column writer flushes. Holds
    however the loop ends. -/
theorem copy_batches_start_rows (isStart : V → Bool) :
    ∀ (fuel : Nat) (pages : List (List V)) (cap : Nat) (pend : List V),
      (pend ++ pages.flatten = [] ∨ StartsRow isStart (pend ++ pages.flatten)) →
      ∀ b ∈ (copyLoop true isStart fuel pages cap pend).1, StartsRow isStart b := by
  intro fuel
  induction fuel with
  | zero => intro pages cap pend _ b hb; simp [copyLoop] at hb
  | succ fuel ih =>
    intro pages cap pend h b hb
    unfold copyLoop at hb
    split at hb
    · next hr =>
      cases pend with
      | nil => simp at hb
      | cons x xs =>
        simp only [List.isEmpty_cons, Bool.false_eq_true, if_false, List.mem_singleton] at hb
        subst hb
        rcases h with h | h
        · simp at h
        · exact startsRow_of_append h (by simp)
    · next hr =>
      cases pend with
      | nil => simp at hb
      | cons x xs =>
        simp only [List.isEmpty_cons, Bool.false_eq_true, if_false, List.mem_singleton] at hb
        subst hb
        rcases h with h | h
        · simp at h
        · exact startsRow_of_append h (by simp)
    · next g got pages' hr =>
      have hs := readValues_some hr
      simp only [if_true] at hb
      have hbuf : StartsRow isStart (pend ++ g :: got) := by
        rcases h with h | h
        · rw [← hs] at h; simp at h
        · rw [← hs, ← List.append_assoc] at h
          exact startsRow_of_append h (by simp)
      by_cases he : 0 < lastStart isStart (pend ++ g :: got)
      · simp only [he, if_true, List.mem_cons] at hb
        rcases hb with rfl | hb
        · exact startsRow_take hbuf he
        · exact ih pages' _ _ (Or.inr (startsRow_append_left _ (lastStart_spec isStart he).2)) b hb
      · simp only [he, if_false] at hb
        have he0 : lastStart isStart (pend ++ g :: got) = 0 := by omega
        rw [he0, List.drop_zero] at hb
        exact ih pages' _ _ (Or.inr (startsRow_append_left _ hbuf)) b hb

/-- **The reader is always offered room, and the loop ends**: from a buffer that is not full
    (`copyColumnValues` starts with 1024 free slots) the loop never offers the reader an empty
    buffer — which would be `io.ErrNoProgress` from `columnChunkValueReader.ReadValues`, or a hang
    with a reader that answers `0, nil` — however long a single row is (the buffer doubles), and it
    ends on `io.EOF` after at most one iteration per value plus one. -/
theorem copy_terminates (rep : Bool) (isStart : V → Bool) :
    ∀ (fuel : Nat) (pages : List (List V)) (cap : Nat) (pend : List V),
      pend.length < cap → pages.flatten.length < fuel →
      (copyLoop rep isStart fuel pages cap pend).2 = .done := by
  intro fuel
  induction fuel with
  | zero => intro pages cap pend _ h; omega
  | succ fuel ih =>
    intro pages cap pend hp hf
    unfold copyLoop
    split
    · rfl
    · next hr => exact absurd rfl (readValues_progress (by omega) hr)
    · next g got pages' hr =>
      have hs := congrArg List.length (readValues_some hr)
      have hl := readValues_length_le hr
      simp only [List.length_append, List.length_cons] at hs hl
      apply ih
      · cases rep with
        | false => simp; omega
        | true =>
          have hlt := lastStart_lt isStart (buf := pend ++ g :: got) (by simp)
          simp only [if_true, Bool.true_and, List.length_drop, List.length_append, List.length_cons] at hlt ⊢
          split
          · next hc =>
            simp only [Bool.and_eq_true, beq_iff_eq] at hc
            omega
          · next hc =>
            simp only [Bool.and_eq_true, beq_iff_eq, not_and] at hc
            by_cases h0 : lastStart isStart (pend ++ g :: got) = 0
            · have := hc h0; omega
            · omega
      · omega

/-- `copyColumnValues` as a whole: with fuel beyond the number of values, the loop ends on EOF, has
    written exactly the source's values in order, and (repeated column, source starting at a row)
    every batch starts a row. -/
theorem copyColumnValues_correct (isStart : V → Bool) (pages : List (List V)) (fuel : Nat)
    (hf : pages.flatten.length < fuel)
    (h0 : pages.flatten = [] ∨ StartsRow isStart pages.flatten) :
    (copyColumnValues true isStart fuel pages).2 = .done ∧
    (copyColumnValues true isStart fuel pages).1.flatten = pages.flatten ∧
    ∀ b ∈ (copyColumnValues true isStart fuel pages).1, StartsRow isStart b := by
  have hd := copy_terminates true isStart fuel pages 1024 [] (by simp) hf
  exact ⟨hd, by simpa [copyColumnValues] using copy_writes_the_stream true isStart fuel pages 1024 [] hd,
    copy_batches_start_rows isStart fuel pages 1024 [] (by simpa using h0)⟩

/-- flat column: one batch per read, the values in order (every value is a row) -/
theorem copyColumnValues_flat (isStart : V → Bool) (pages : List (List V)) (fuel : Nat)
    (hf : pages.flatten.length < fuel) :
    (copyColumnValues false isStart fuel pages).2 = .done ∧
    (copyColumnValues false isStart fuel pages).1.flatten = pages.flatten := by
  have hd := copy_terminates false isStart fuel pages 1024 [] (by simp) hf
  exact ⟨hd, by simpa [copyColumnValues] using copy_writes_the_stream false isStart fuel pages 1024 [] hd⟩

/-- **Pages**: `ColumnWriter.WriteRowValues` cuts pages at ends of batches only, so the pages are
    the batches grouped in order; every page of every such grouping starts at the beginning of a row. -/
theorem pages_start_rows (isStart : V → Bool) (batches : List (List V))
    (hb : ∀ b ∈ batches, StartsRow isStart b) (groups : List (List (List V)))
    (hg : groups.flatten = batches) :
    ∀ g ∈ groups, g ≠ [] → StartsRow isStart g.flatten := by
  intro g hgm hne
  cases g with
  | nil => exact absurd rfl hne
  | cons b bs =>
    have : b ∈ batches := by
      rw [← hg]; exact List.mem_flatten.mpr ⟨b :: bs, hgm, by simp⟩
    simpa using startsRow_append_left bs.flatten (hb b this)

/-- The hypotheses are satisfiable and the buffer growth is exercised: capacity 2, rows of 3 and 2
    values in one source page: the first read fills the buffer with an unfinished row (the buffer
    doubles), the batches are the two rows. -/
example : copyLoop true id 10 [[true, false, false, true, false]] 2 [] =
    ([[true, false, false], [true, false]], .done) := by decide

example : StartsRow id [true, false, false, true, false] := ⟨true, rfl, rfl⟩

/-- **Holding back is necessary** (the loop before the repair 7625e8d, which is the loop run with
    `repeated = false`): the same source is written as batches that end in the middle of a row. -/
theorem copy_without_holdback_cuts_rows :
    ¬ ∀ b ∈ (copyLoop false id 10 [[true, false, false, true, false]] 2 []).1, StartsRow id b := by
  intro h
  have hb : [false, true] ∈ (copyLoop false id 10 [[true, false, false, true, false]] 2 []).1 := by decide
  obtain ⟨v, hv, hs⟩ := h _ hb
  simp only [List.head?_cons, Option.some.injEq] at hv
  subst hv
  simp at hs

end PqModel.Props.C11Values
