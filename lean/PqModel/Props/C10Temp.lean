import PqModel.Props.C01
import PqModel.Props.C10

/-! # C10, part 2 — the temporary file of the `SortingWriter`

`sortAndWriteBufferedRows` (`sorting.go:188-224`) copies every sorted run through a generic writer
into a temporary buffer and flushes it: one row group per run. `Close` opens that buffer as a file
and hands its row groups to `MergeRowGroups` (`sorting.go:86-113`). Here the C01 file model
(`FileModel.lean`: nondeterministic writer — any page cuts at row boundaries, any dictionary
fallback point, any codecs satisfying their round-trip hypotheses — and the reader) is instantiated
with one row group per run: every row group of the temporary file, read on its own, returns
exactly the rows of its run, in order. Hence the inputs of the merge are the sorted runs, which is
what `sorting_writer_correct_history` starts from. -/
namespace PqModel.Props.C10
open PqModel.SortBuf PqModel.Dremel PqModel.Pages PqModel.FileModel PqModel.Plain

/-- the row-group configuration of the temporary file: group `i` holds run `i` (`cfg`: the writer's
    free choices for that group — page cuts, dictionary fallback) -/
def tempGroups (cfg : List Val → Nat → ChunkCfg) (runs : List (List Val)) : List GroupCfg :=
  runs.map fun run => ⟨run.length, cfg run⟩

theorem partitionRows_runs (cfg : List Val → Nat → ChunkCfg) : ∀ (runs : List (List Val)),
    partitionRows (tempGroups cfg runs) runs.flatten = runs.map (fun run => (cfg run, run))
  | [] => rfl
  | run :: runs => by
    simp only [tempGroups, List.map_cons, List.flatten_cons, partitionRows, List.take_left', List.drop_left']
    have ih := partitionRows_runs cfg runs
    simp only [tempGroups] at ih
    rw [ih]

theorem partitionRows_single (c : Nat → ChunkCfg) (run : List Val) :
    partitionRows [⟨run.length, c⟩] run = [(c, run)] := by
  simp [partitionRows]

/-- **temporary file**: for every schema, every list of runs whose rows conform to it, every choice
    of page cuts at row boundaries / dictionary fallback per run and every codecs satisfying the
    C01 round-trip hypotheses: the file with one row group per run, read row group by row group,
    returns the runs -/
theorem tempfile_rowgroups_roundtrip {β γ} (n : Node) (cd : Nat → ColCodec β γ) (B : Nat)
    (cfg : List Val → Nat → ChunkCfg) (runs : List (List Val))
    (hwf : wfN n = true) (hB : levelsBounded B n = true) (hcd : ∀ j, j < leavesN n → (cd j).OK B)
    (hconf : ∀ run ∈ runs, ∀ v ∈ run, confN n v = true)
    (hdom : ∀ run ∈ runs, ∀ v ∈ run, valsIn (fun j => (cd j).okV) 0 (shredN n 0 0 0 v) = true)
    (hcuts : ∀ run ∈ runs, cutsAligned n [⟨run.length, cfg run⟩] run = true) :
    (writeFile n cd (tempGroups cfg runs) runs.flatten).map (fun g => readFile n cd [g]) = runs.map some := by
  simp only [writeFile, partitionRows_runs, List.map_map]
  apply List.map_congr_left
  intro run hrun
  have h := PqModel.Props.C01.roundtrip n cd B [⟨run.length, cfg run⟩] run hwf (hconf run hrun) hB hcd (hdom run hrun) (hcuts run hrun)
  simpa only [writeFile, partitionRows_single, List.map_cons, List.map_nil, Function.comp] using h

/-- non-vacuity: the C01 witness (schema, rows, INT64 codecs from the C04 theorems) as a single run -/
example : ∃ (n : Node) (runs : List (List Val)), wfN n = true ∧ (∀ run ∈ runs, ∀ v ∈ run, confN n v = true) ∧ runs ≠ [] :=
  ⟨PqModel.Props.C01.witnessSchema, [PqModel.Props.C01.witnessRows], by decide, by decide, by decide⟩

/-- **the merge inputs of `Close` are the sorted runs**: for every call history on a writer with
    `sortRowCount ≥ 1` and every run sorter returning permutations, if the rows written conform to
    the schema and lie in the codecs' value domains, the row groups read back from the temporary
    file are `cutRuns … |>.map sortRun` — the runs `sorting_writer_correct_history` merges -/
theorem sorting_writer_tempfile_inputs {β γ} (n : Node) (cd : Nat → ColCodec β γ) (B : Nat)
    (cfg : List Val → Nat → ChunkCfg) (sortRun : List Val → List Val) (hperm : ∀ run, (sortRun run).Perm run)
    {maxRows : Nat} (h1 : 1 ≤ maxRows) (ops : List (SWOp Val))
    (hwf : wfN n = true) (hB : levelsBounded B n = true) (hcd : ∀ j, j < leavesN n → (cd j).OK B)
    (hconf : ∀ v ∈ written ops, confN n v = true)
    (hdom : ∀ v ∈ written ops, valsIn (fun j => (cd j).okV) 0 (shredN n 0 0 0 v) = true)
    (hcuts : ∀ run ∈ (cutRuns maxRows ops).map sortRun, cutsAligned n [⟨run.length, cfg run⟩] run = true) :
    let sorted := (cutRuns maxRows ops).map sortRun
    (writeFile n cd (tempGroups cfg sorted) sorted.flatten).filterMap (fun g => readFile n cd [g]) = sorted := by
  intro sorted
  have hmem : ∀ run ∈ sorted, ∀ v ∈ run, v ∈ written ops := by
    intro run hrun v hv
    obtain ⟨raw, hraw, rfl⟩ := List.mem_map.mp hrun
    rw [← (cutRuns_partition h1 ops).1]
    exact List.mem_flatten.mpr ⟨raw, hraw, (hperm raw).mem_iff.mp hv⟩
  have h := tempfile_rowgroups_roundtrip n cd B cfg sorted hwf hB hcd
    (fun run hrun v hv => hconf v (hmem run hrun v hv)) (fun run hrun v hv => hdom v (hmem run hrun v hv)) hcuts
  have e : ∀ (l : List (Option (List Val))) (r : List (List Val)), l = r.map some → l.filterMap id = r := by
    intro l r hl; subst hl; induction r with
    | nil => rfl
    | cons a r ih => simp [ih]
  have := e _ _ h
  rwa [List.filterMap_map] at this

end PqModel.Props.C10
