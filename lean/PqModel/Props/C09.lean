import PqModel.Merge
namespace PqModel.Props.C09
end PqModel.Props.C09
