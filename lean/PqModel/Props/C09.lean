import PqModel.MergeProgress
import PqModel.MergeAbstract
import PqModel.MergeRanges

/-! # C09 — Merging sorted row groups yields a sorted, complete, per-input-stable sequence

Objects (see `PqModel/Merge.lean`, MIRROR of merge.go / dedupe.go; `PqModel/MergeSpec.lean`, SPEC):
* `Reader.new inputs refills` is what `mergeRowReaders` builds for `inputs.length` readers
  (0: empty, 1: the reader itself, 2: `mergedRowReader2`, ≥ 3: `mergedRowReader` with the loser
  tree as an array); `refills` is the parameter stream that decides how many rows every source
  `ReadRows` delivers, `Reader.session r batches` performs one `ReadRows(len = b)` per batch size
  until io.EOF. All theorems quantify over **every** `refills` and `batches`.
* rows are `(key, input, seq)`; `tagInputs keys` attaches the hidden payload.
* `IsMerge ins out`: `out` is sorted by key, a permutation of `ins.flatten`, and for every input
  `i` the rows of `out` that come from `i` are exactly `ins[i]` in their original order. -/
namespace PqModel.Props.C09
open PqModel.Merge

/-! ## runLength -/

/-- `runLength` (gallop + binary search, merge.go:1023) on a window sorted by the comparison returns
    the length of the maximal prefix with `compare(row, bound) <= max`, for both `max = 0`
    (run mode, ties included) and `max = -1` (`emitRun`, ties excluded) and any other `max`. -/
theorem runLength_spec (window : List Row) (bound : Row) (mx : Int) (hs : SortedK window) :
    runLength window bound mx ≤ window.length ∧
    (∀ x ∈ window.take (runLength window bound mx), cmp x bound ≤ mx) ∧
    (∀ x ∈ window.drop (runLength window bound mx), ¬ cmp x bound ≤ mx) := by
  obtain ⟨h1, h2, h3⟩ := runLength_spec' window bound mx hs
  refine ⟨h1, fun x hx => leMax_iff.mp (h2 x hx), fun x hx hc => ?_⟩
  have := h3 x hx
  rw [leMax_iff.mpr hc] at this; cases this

example : SortedK [⟨1, 0, 0⟩, ⟨2, 0, 1⟩, ⟨2, 0, 2⟩, ⟨5, 0, 3⟩] ∧
    runLength [⟨1, 0, 0⟩, ⟨2, 0, 1⟩, ⟨2, 0, 2⟩, ⟨5, 0, 3⟩] ⟨2, 1, 0⟩ 0 = 3 ∧
    runLength [⟨1, 0, 0⟩, ⟨2, 0, 1⟩, ⟨2, 0, 2⟩, ⟨5, 0, 3⟩] ⟨2, 1, 0⟩ (-1) = 1 := by decide

/-! ## the tournament tree of losers, as the array the code uses -/

/-- In a valid tree (`TInv`: every internal node stores the loser of the game between the winners
    of its two subtrees) the overall winner is minimal among the heads of all live inputs. -/
theorem tree_winner_min {k : Nat} {H : Heads} {losers : List Int} {win : Nat → Int}
    (h : TInv k H losers win) (x : Nat) (hx : x < k) (ha : H.alive x = true) :
    ∃ w : Nat, win 0 = (w : Int) ∧ H.alive w = true ∧ H.key w ≤ H.key x := by
  obtain ⟨w, hw, hal, _⟩ := h.winner_alive x hx ha
  have := h.tree_min x hx ha
  rw [hw, pk_nat hal, leInf_some] at this
  exact ⟨w, hw, hal, this⟩

/-- `playInitialGames` (merge.go:896) builds a valid tree over the inputs that delivered rows. -/
theorem playInitialGames_valid {bufs : List Buf} {leaves : List Int} {H : Heads}
    (hl : LeavesOk bufs leaves H) (L : List Int) (hL : L.length = bufs.length) :
    ∃ win, TInv bufs.length H (playInitialGames bufs leaves bufs.length 0 L).2 win ∧
      win 0 = (playInitialGames bufs leaves bufs.length 0 L).1 :=
  ⟨_, init_inv hl L hL⟩

/-- `replayGames` (merge.go:927) restores the invariant: if the tree was valid for heads `H` with
    winner `w0`, and the heads now are `H'` which differ from `H` at `w0` only (its head changed, or it
    was exhausted and enters the replay as `-1`), the loop from the winner's leaf to the root leaves
    a valid tree for `H'` and returns its winner. -/
theorem replayGames_preserves_tree {k : Nat} {H H' : Heads} {losers : List Int} {win : Nat → Int}
    {w0 : Nat} {bufs : List Buf} (hinv : TInv k H losers win) (hw : win 0 = (w0 : Int))
    (hag : ∀ x, x ≠ w0 → H'.alive x = H.alive x ∧ H'.key x = H.key x)
    (hb : ∀ x, H'.alive x = true → (headOf bufs (x : Int)).key = H'.key x) :
    ∃ win', TInv k H' (replayLoop bufs k ((k + w0 - 1) / 2) (if H'.alive w0 = true then (w0 : Int) else -1) losers).2 win' ∧
      win' 0 = (replayLoop bufs k ((k + w0 - 1) / 2) (if H'.alive w0 = true then (w0 : Int) else -1) losers).1 :=
  replay_inv hinv hw hag hb

/-- `runBound` (merge.go:880): the minimum over the losers stored on the winner's path is the minimum
    head among the live inputs other than the winner: a lower bound, attained, and `nil` iff the
    winner is the only live input. -/
theorem runBound_is_min {k : Nat} {H : Heads} {losers : List Int} {win : Nat → Int} {w0 : Nat}
    {bufs : List Buf} (hinv : TInv k H losers win) (hw : win 0 = (w0 : Int))
    (hb : ∀ x, x ≠ w0 → H.alive x = true → (headOf bufs (x : Int)).key = H.key x) :
    (∀ x, x < k → x ≠ w0 → H.alive x = true →
        ∃ b, runBoundLoop bufs losers k ((k + w0 - 1) / 2) none = some b ∧ b.key ≤ H.key x) ∧
    (∀ b, runBoundLoop bufs losers k ((k + w0 - 1) / 2) none = some b →
        ∃ x, x < k ∧ x ≠ w0 ∧ H.alive x = true ∧ b = headOf bufs (x : Int)) :=
  runBound_min hinv hw hb

/-- the invariant is satisfiable: the tree `playInitialGames` builds for three live inputs with
    heads 5, 3, 4 has winner 1 and losers `[2, 0, -1]` -/
example : let bufs : List Buf := [⟨[], [], [⟨5, 0, 0⟩], 24, false⟩, ⟨[], [], [⟨3, 1, 0⟩], 24, false⟩, ⟨[], [], [⟨4, 2, 0⟩], 24, false⟩]
    playInitialGames bufs [0, 1, 2] 3 0 [0, 0, 0] = (1, [2, 0, -1]) := by decide

/-! ## the merge readers -/

/-- **Safety, for every prefix of a session**: whatever the number of inputs, the refill pattern of
    the sources and the batch sizes (zero included), the rows emitted so far are sorted, every input
    is split into what was emitted from it (in order) followed by what is left of it, nothing is
    lost or duplicated, and everything emitted is at most equal to everything still to come. -/
theorem merge_prefix (keys : List (List Int)) (refills : List (List Nat)) (batches : List Nat)
    (hs : ∀ ks ∈ keys, ks.Pairwise (· ≤ ·)) :
    let r := (Reader.new (tagInputs keys) refills).session batches
    let out := r.1.flatten
    SortedK out ∧
    (∀ (i : Nat) (l : List Row), (tagInputs keys)[i]? = some l →
        ∃ l', r.2.2.rem[i]? = some l' ∧ proj i out ++ l' = l) ∧
    (out ++ r.2.2.rem.flatten).Perm (tagInputs keys).flatten ∧
    (∀ x ∈ out, ∀ l ∈ r.2.2.rem, ∀ y ∈ l, x.key ≤ y.key) := by
  intro r out
  have hsort := tagInputs_sorted keys hs
  have hE := (Reader.session_emits batches (Reader.new (tagInputs keys) refills) (Reader.new_ok _ _)
    (by rw [Reader.new_rem]; exact hsort)).1
  rw [Reader.new_rem] at hE
  obtain ⟨s1, s2, _⟩ := emits_sorted hE hsort
  exact ⟨s1, emits_proj hE (tagInputs_wellTagged keys), emits_perm hE, s2⟩

/-- **Completeness at io.EOF**: a session that ended with io.EOF has emitted a sorted, complete,
    per-input-stable merge of the inputs. -/
theorem merge_at_eof (keys : List (List Int)) (refills : List (List Nat)) (batches : List Nat)
    (hs : ∀ ks ∈ keys, ks.Pairwise (· ≤ ·))
    (heof : ((Reader.new (tagInputs keys) refills).session batches).2.1 = true) :
    IsMerge (tagInputs keys) ((Reader.new (tagInputs keys) refills).session batches).1.flatten := by
  have hsort := tagInputs_sorted keys hs
  obtain ⟨hE, hdone⟩ := Reader.session_emits batches (Reader.new (tagInputs keys) refills) (Reader.new_ok _ _)
    (by rw [Reader.new_rem]; exact hsort)
  rw [Reader.new_rem] at hE
  exact isMerge_of_emits hE (hdone heof) hsort (tagInputs_wellTagged keys)

/-- **Progress**: a `ReadRows` call with a non-empty buffer returns rows or io.EOF, so every session
    of positive batch sizes that is longer than the number of rows reaches io.EOF. -/
theorem merge_reaches_eof (keys : List (List Int)) (refills : List (List Nat)) (batches : List Nat)
    (hs : ∀ ks ∈ keys, ks.Pairwise (· ≤ ·)) (hpos : ∀ b ∈ batches, 1 ≤ b)
    (hlen : (tagInputs keys).flatten.length < batches.length) :
    ((Reader.new (tagInputs keys) refills).session batches).2.1 = true := by
  apply Reader.session_eof batches _ (Reader.new_ok _ _)
  · rw [Reader.new_rem]; exact tagInputs_sorted keys hs
  · exact hpos
  · simp only [Reader.size, Reader.new_rem]; exact hlen

/-- **C09 for the row readers**: for any number of sorted inputs, any overlap pattern, any refill
    pattern of the sources and any sequence of positive read batch sizes (long enough to drain the
    inputs), the rows returned by `MergeRowReaders` are globally sorted, are exactly the multiset union
    of the inputs, and keep each input's rows in their original relative order. -/
theorem merge_sorted_complete_stable (keys : List (List Int)) (refills : List (List Nat)) (batches : List Nat)
    (hs : ∀ ks ∈ keys, ks.Pairwise (· ≤ ·)) (hpos : ∀ b ∈ batches, 1 ≤ b)
    (hlen : (tagInputs keys).flatten.length < batches.length) :
    let out := ((Reader.new (tagInputs keys) refills).session batches).1.flatten
    SortedK out ∧ out.Perm (tagInputs keys).flatten ∧
    ∀ (i : Nat) (l : List Row), (tagInputs keys)[i]? = some l → out.filter (fun r => r.inp == i) = l := by
  have h := merge_at_eof keys refills batches hs (merge_reaches_eof keys refills batches hs hpos hlen)
  exact ⟨h.sorted, h.perm, h.stable⟩

/-- the two-input reader `mergedRowReader2` (streak counter, `emitRun`) -/
theorem merge2_sorted_complete_stable (a b : List Int) (refills : List (List Nat)) (batches : List Nat)
    (ha : a.Pairwise (· ≤ ·)) (hb : b.Pairwise (· ≤ ·)) (hpos : ∀ x ∈ batches, 1 ≤ x)
    (hlen : (tagInputs [a, b]).flatten.length < batches.length) :
    ∃ s : M2, Reader.new (tagInputs [a, b]) refills = .two s ∧
      IsMerge (tagInputs [a, b]) ((Reader.two s).session batches).1.flatten := by
  refine ⟨_, rfl, ?_⟩
  have hs : ∀ ks ∈ [a, b], ks.Pairwise (· ≤ ·) := by
    intro ks hks; simp at hks; rcases hks with rfl | rfl <;> assumption
  exact merge_at_eof [a, b] refills batches hs (merge_reaches_eof [a, b] refills batches hs hpos hlen)

/-- the k-way reader `mergedRowReader` (loser tree, run mode, `runLength`), k ≥ 3 -/
theorem mergeK_sorted_complete_stable (a b c : List Int) (rest : List (List Int)) (refills : List (List Nat))
    (batches : List Nat) (hs : ∀ ks ∈ a :: b :: c :: rest, ks.Pairwise (· ≤ ·)) (hpos : ∀ x ∈ batches, 1 ≤ x)
    (hlen : (tagInputs (a :: b :: c :: rest)).flatten.length < batches.length) :
    ∃ s : MK, Reader.new (tagInputs (a :: b :: c :: rest)) refills = .many s ∧
      IsMerge (tagInputs (a :: b :: c :: rest)) ((Reader.many s).session batches).1.flatten := by
  have hnew : ∃ s : MK, Reader.new (tagInputs (a :: b :: c :: rest)) refills = .many s := by
    simp only [tagInputs, List.length_cons, List.range_succ_eq_map, List.map_cons, Reader.new]
    exact ⟨_, rfl⟩
  obtain ⟨s, hs'⟩ := hnew
  refine ⟨s, hs', ?_⟩
  have := merge_at_eof (a :: b :: c :: rest) refills batches hs
    (merge_reaches_eof (a :: b :: c :: rest) refills batches hs hpos hlen)
  rwa [hs'] at this

/-- hypotheses satisfiable, conclusion evaluated: three overlapping inputs with duplicate keys, refills
    of 1 and 2 rows, batches of 2 -/
example :
    (∀ ks ∈ [[1, 3, 3], [2, 3], [0, 3, 9]], List.Pairwise (· ≤ ·) (ks : List Int)) ∧
    (((Reader.new (tagInputs [[1, 3, 3], [2, 3], [0, 3, 9]]) [[1, 1], [2], []]).session
        [2, 2, 2, 2, 2, 2, 2, 2, 2]).1.flatten.map (fun r => (r.key, r.inp, r.seq)))
      = [(0, 2, 0), (1, 0, 0), (2, 1, 0), (3, 1, 1), (3, 0, 1), (3, 0, 2), (3, 2, 1), (9, 2, 2)] := by
  decide

/-- which of several rows with equal keys comes first is NOT independent of the read batch size
    (`mergedRowReader2` emits ties pairwise r0, r1 only while the output buffer has room): the property
    does not promise it, and refinement/dedupe must not rely on it -/
theorem merge2_tie_order_depends_on_batch_size :
    (((Reader.new (tagInputs [[0, 0], [0]]) []).session [1, 1, 1, 1]).1.flatten.map (fun r => (r.inp, r.seq)))
      ≠ (((Reader.new (tagInputs [[0, 0], [0]]) []).session [4, 4]).1.flatten.map (fun r => (r.inp, r.seq))) := by
  decide

/-! ## duplicate dropping -/

/-- `DedupeRowReader` over any batching of a sorted sequence returns exactly one row per distinct key:
    a subsequence of the input whose keys are strictly increasing and cover every key of the input;
    the `lastRow` carried across batches makes the result independent of the batch boundaries. -/
theorem dedupe_one_row_per_key (batches : List (List Row)) (hs : SortedK batches.flatten) :
    let out := dedupeReader none batches
    out.Sublist batches.flatten ∧ out.Pairwise (fun a b => a.key < b.key) ∧
    (∀ x ∈ batches.flatten, ∃ y ∈ out, y.key = x.key) ∧
    out = dedupeReader none [batches.flatten] := by
  intro out
  have e : out = (dedupeBatch none batches.flatten).1 := dedupeReader_flatten batches none
  obtain ⟨h1, h2, _, h4⟩ := dedupeBatch_sorted batches.flatten none hs (by intro l hl; cases hl)
  refine ⟨e ▸ h1, e ▸ h2, ?_, ?_⟩
  · intro x hx
    rcases h4 x hx with h | ⟨l, hl, _⟩
    · exact e ▸ h
    · cases hl
  · rw [e, dedupeReader_flatten]; simp

example : SortedK ([[⟨1, 0, 0⟩, ⟨1, 1, 0⟩], [⟨1, 0, 1⟩, ⟨2, 0, 2⟩], [], [⟨2, 1, 1⟩]] : List (List Row)).flatten ∧
    (dedupeReader none [[⟨1, 0, 0⟩, ⟨1, 1, 0⟩], [⟨1, 0, 1⟩, ⟨2, 0, 2⟩], [], [⟨2, 1, 1⟩]]).map (fun r => (r.key, r.inp, r.seq))
      = [(1, 0, 0), (2, 0, 2)] := by decide

/-- merge + `DropDuplicatedRows`: exactly one row per distinct sort key of the inputs remains, for
    every refill pattern and batch-size sequence -/
theorem merge_dedupe_one_row_per_key (keys : List (List Int)) (refills : List (List Nat)) (batches : List Nat)
    (hs : ∀ ks ∈ keys, ks.Pairwise (· ≤ ·)) (hpos : ∀ b ∈ batches, 1 ≤ b)
    (hlen : (tagInputs keys).flatten.length < batches.length) :
    let out := dedupeReader none ((Reader.new (tagInputs keys) refills).session batches).1
    out.Pairwise (fun a b => a.key < b.key) ∧
    (∀ y ∈ out, y ∈ (tagInputs keys).flatten) ∧
    (∀ x ∈ (tagInputs keys).flatten, ∃ y ∈ out, y.key = x.key) := by
  intro out
  obtain ⟨m1, m2, _⟩ := merge_sorted_complete_stable keys refills batches hs hpos hlen
  obtain ⟨d1, d2, d3, _⟩ := dedupe_one_row_per_key _ m1
  refine ⟨d2, ?_, ?_⟩
  · intro y hy
    exact m2.mem_iff.mp (d1.subset hy)
  · intro x hx
    exact d3 x (m2.mem_iff.mpr hx)

/-! ## segment refinement (merge_refine.go) -/

/-- Any plan that cuts the inputs into consecutive parts, groups the parts into segments that are
    ordered in key space, merges every segment correctly on its own (a lone part is its own merge) and
    concatenates the segment outputs in order, is a correct merge of the whole inputs. The computation
    of the cuts from column/offset indexes (`newCutLookups`, `refineSegment`) is tied by the
    correspondence check only. -/
theorem refined_plan_is_merge {k : Nat} (segments : List (List (List Row))) (outs : List (List Row))
    (h : Plan.Good (k := k) segments outs) : IsMerge (joinSegments k segments) outs.flatten :=
  plan_isMerge segments outs h

example : Plan.Good (k := 2)
    [[[⟨1, 0, 0⟩], []], [[⟨2, 0, 1⟩], [⟨2, 1, 0⟩]], [[], [⟨3, 1, 1⟩]]]
    [[⟨1, 0, 0⟩], [⟨2, 0, 1⟩, ⟨2, 1, 0⟩], [⟨3, 1, 1⟩]] := by
  refine ⟨rfl, ⟨by decide, by decide, ?_⟩, by decide, rfl, ⟨by decide, by decide, ?_⟩, by decide, rfl,
    ⟨by decide, by decide, ?_⟩, by decide, trivial⟩
  all_goals
    intro i l hl
    match i, hl with
    | 0, hl => simp at hl; subst hl; decide
    | 1, hl => simp at hl; subst hl; decide
    | i + 2, hl => simp at hl

/-! ## F12 (repaired): row-group key ranges used to ignore nulls

On the as-it-was mirror of `rowGroupRangeOfSortedColumns` / `overlappingRowGroups`
(`nullAware = false`, one page per row group): inputs `[10, null]` and `[17, 17, 18]`, both sorted
ascending with nulls last, got the key ranges `[10,10]` and `[17,18]`, were declared non-overlapping,
and the merged row group was their concatenation `10, null, 17, 17, 18`, which is not sorted
(harness key `nullable-key-ranges-ignore-nulls`). On the mirror of the code as it is now
(`nullAware = true`) the first range is `[10, null]`, the two row groups form one segment and go
through the merge reader. -/

theorem nullable_key_ranges_ignore_nulls_violates_sortedness_before_fix :
    sortedNullsLast [some 10, none] = true ∧ sortedNullsLast [some 17, some 17, some 18] = true ∧
    segmentsOf false false [[some 10, none], [some 17, some 17, some 18]] = [[(0, 2)], [(1, 3)]] ∧
    concatSingles [[some 10, none], [some 17, some 17, some 18]]
      (segmentsOf false false [[some 10, none], [some 17, some 17, some 18]]) = some [some 10, none, some 17, some 17, some 18] ∧
    sortedNullsLast [some 10, none, some 17, some 17, some 18] = false := by decide

theorem nullable_key_ranges_overlap_after_fix :
    segmentsOf true false [[some 10, none], [some 17, some 17, some 18]] = [[(0, 2), (1, 3)]] ∧
    segmentsOf true true [[none, some 10], [some 3, some 4]] = [[(0, 2), (1, 2)]] ∧
    segmentsOf true false [[some 1, some 2], [some 3, none], [some 9, none]] = [[(0, 2)], [(1, 2), (2, 2)]] ∧
    segmentsOf true false [[some 1, some 2], [some 3, none], [none]] = [[(0, 2), (1, 2), (2, 1)]] := by decide

/-! ## the abstract schedule theorems (MergeAbstract.lean) are instances of the above -/

/-- the spike's `Merges` relation is `Emits` down to empty inputs (kept for reference) -/
theorem abstract_merges_sorted {ins : List (List Int)} {out : List PqModel.MergeAbstract.Tagged}
    (h : PqModel.MergeAbstract.Merges ins out) (hs : ∀ l ∈ ins, PqModel.MergeAbstract.Sorted l) :
    PqModel.MergeAbstract.Sorted (out.map (·.2)) :=
  PqModel.MergeAbstract.merges_sorted h hs

end PqModel.Props.C09
