import PqModel.MergeProgress
import PqModel.MergeAbstract
import PqModel.MergeRanges
import PqModel.MergeRefinePlan
import PqModel.MergeZero
import PqModel.MergeRetry
import PqModel.MergeNested
import PqModel.MergeRefineOrder
import PqModel.MergeShape

/-! # C09 — Merging sorted row groups yields a sorted, complete, per-input-stable sequence

Objects (see `PqModel/Merge.lean`, MIRROR of merge.go / dedupe.go; `PqModel/MergeSpec.lean`, SPEC):
* `Reader.new inputs refills` is what `mergeRowReaders` builds for `inputs.length` readers
  (0: empty, 1: the reader itself, 2: `mergedRowReader2`, ≥ 3: `mergedRowReader` with the loser
  tree as an array); `refills` is the parameter stream that decides how many rows every source
  `ReadRows` delivers, `Reader.session r batches` performs one `ReadRows(len = b)` per batch size
  until io.EOF. All theorems quantify over **every** `refills` and `batches`.
* rows are `(key, input, seq)`; `tagInputs keys` attaches the hidden payload.
* `IsMerge ins out`: `out` is sorted by key, a permutation of `ins.flatten`, and for every input
  `i` the rows of `out` that come from `i` are exactly `ins[i]` in their original order. -/
namespace PqModel.Props.C09
open PqModel.Merge

/-! ## runLength -/

/-- `runLength` (gallop + binary search, merge.go:1023) on a window sorted by the comparison returns
    the length of the maximal prefix with `compare(row, bound) <= max`, for both `max = 0`
    (run mode, ties included) and `max = -1` (`emitRun`, ties excluded) and any other `max`. -/
theorem runLength_spec (window : List Row) (bound : Row) (mx : Int) (hs : SortedK window) :
    runLength window bound mx ≤ window.length ∧
    (∀ x ∈ window.take (runLength window bound mx), cmp x bound ≤ mx) ∧
    (∀ x ∈ window.drop (runLength window bound mx), ¬ cmp x bound ≤ mx) := by
  obtain ⟨h1, h2, h3⟩ := runLength_spec' window bound mx hs
  refine ⟨h1, fun x hx => leMax_iff.mp (h2 x hx), fun x hx hc => ?_⟩
  have := h3 x hx
  rw [leMax_iff.mpr hc] at this; cases this

example : SortedK [⟨1, 0, 0⟩, ⟨2, 0, 1⟩, ⟨2, 0, 2⟩, ⟨5, 0, 3⟩] ∧
    runLength [⟨1, 0, 0⟩, ⟨2, 0, 1⟩, ⟨2, 0, 2⟩, ⟨5, 0, 3⟩] ⟨2, 1, 0⟩ 0 = 3 ∧
    runLength [⟨1, 0, 0⟩, ⟨2, 0, 1⟩, ⟨2, 0, 2⟩, ⟨5, 0, 3⟩] ⟨2, 1, 0⟩ (-1) = 1 := by decide

/-! ## the tournament tree of losers, as the array the code uses -/

/-- In a valid tree (`TInv`: every internal node stores the loser of the game between the winners
    of its two subtrees) the overall winner is minimal among the heads of all live inputs. -/
theorem tree_winner_min {k : Nat} {H : Heads} {losers : List Int} {win : Nat → Int}
    (h : TInv k H losers win) (x : Nat) (hx : x < k) (ha : H.alive x = true) :
    ∃ w : Nat, win 0 = (w : Int) ∧ H.alive w = true ∧ H.key w ≤ H.key x := by
  obtain ⟨w, hw, hal, _⟩ := h.winner_alive x hx ha
  have := h.tree_min x hx ha
  rw [hw, pk_nat hal, leInf_some] at this
  exact ⟨w, hw, hal, this⟩

/-- `playInitialGames` (merge.go:896) builds a valid tree over the inputs that delivered rows. -/
theorem playInitialGames_valid {bufs : List Buf} {leaves : List Int} {H : Heads}
    (hl : LeavesOk bufs leaves H) (L : List Int) (hL : L.length = bufs.length) :
    ∃ win, TInv bufs.length H (playInitialGames bufs leaves bufs.length 0 L).2 win ∧
      win 0 = (playInitialGames bufs leaves bufs.length 0 L).1 :=
  ⟨_, init_inv hl L hL⟩

/-- `replayGames` (merge.go:927) restores the invariant: if the tree was valid for heads `H` with
    winner `w0`, and the heads now are `H'` which differ from `H` at `w0` only (its head changed, or it
    was exhausted and enters the replay as `-1`), the loop from the winner's leaf to the root leaves
    a valid tree for `H'` and returns its winner. -/
theorem replayGames_preserves_tree {k : Nat} {H H' : Heads} {losers : List Int} {win : Nat → Int}
    {w0 : Nat} {bufs : List Buf} (hinv : TInv k H losers win) (hw : win 0 = (w0 : Int))
    (hag : ∀ x, x ≠ w0 → H'.alive x = H.alive x ∧ H'.key x = H.key x)
    (hb : ∀ x, H'.alive x = true → (headOf bufs (x : Int)).key = H'.key x) :
    ∃ win', TInv k H' (replayLoop bufs k ((k + w0 - 1) / 2) (if H'.alive w0 = true then (w0 : Int) else -1) losers).2 win' ∧
      win' 0 = (replayLoop bufs k ((k + w0 - 1) / 2) (if H'.alive w0 = true then (w0 : Int) else -1) losers).1 :=
  replay_inv hinv hw hag hb

/-- `runBound` (merge.go:880): the minimum over the losers stored on the winner's path is the minimum
    head among the live inputs other than the winner: a lower bound, attained, and `nil` iff the
    winner is the only live input. -/
theorem runBound_is_min {k : Nat} {H : Heads} {losers : List Int} {win : Nat → Int} {w0 : Nat}
    {bufs : List Buf} (hinv : TInv k H losers win) (hw : win 0 = (w0 : Int))
    (hb : ∀ x, x ≠ w0 → H.alive x = true → (headOf bufs (x : Int)).key = H.key x) :
    (∀ x, x < k → x ≠ w0 → H.alive x = true →
        ∃ b, runBoundLoop bufs losers k ((k + w0 - 1) / 2) none = some b ∧ b.key ≤ H.key x) ∧
    (∀ b, runBoundLoop bufs losers k ((k + w0 - 1) / 2) none = some b →
        ∃ x, x < k ∧ x ≠ w0 ∧ H.alive x = true ∧ b = headOf bufs (x : Int)) :=
  runBound_min hinv hw hb

/-- the invariant is satisfiable: the tree `playInitialGames` builds for three live inputs with
    heads 5, 3, 4 has winner 1 and losers `[2, 0, -1]` -/
example : let bufs : List Buf := [⟨[], [], [⟨5, 0, 0⟩], 24, false⟩, ⟨[], [], [⟨3, 1, 0⟩], 24, false⟩, ⟨[], [], [⟨4, 2, 0⟩], 24, false⟩]
    playInitialGames bufs [0, 1, 2] 3 0 [0, 0, 0] = (1, [2, 0, -1]) := by decide

/-! ## the merge readers -/

/-- **Safety, for every prefix of a session**: whatever the number of inputs, the refill pattern of
    the sources and the batch sizes (zero included), the rows emitted so far are sorted, every input
    is split into what was emitted from it (in order) followed by what is left of it, nothing is
    lost or duplicated, and everything emitted is at most equal to everything still to come. -/
theorem merge_prefix (keys : List (List Int)) (refills : List (List Nat)) (batches : List Nat)
    (hs : ∀ ks ∈ keys, ks.Pairwise (· ≤ ·)) :
    let r := (Reader.new (tagInputs keys) refills).session batches
    let out := r.1.flatten
    SortedK out ∧
    (∀ (i : Nat) (l : List Row), (tagInputs keys)[i]? = some l →
        ∃ l', r.2.2.rem[i]? = some l' ∧ proj i out ++ l' = l) ∧
    (out ++ r.2.2.rem.flatten).Perm (tagInputs keys).flatten ∧
    (∀ x ∈ out, ∀ l ∈ r.2.2.rem, ∀ y ∈ l, x.key ≤ y.key) := by
  intro r out
  have hsort := tagInputs_sorted keys hs
  have hE := (Reader.session_emits batches (Reader.new (tagInputs keys) refills) (Reader.new_ok _ _)
    (by rw [Reader.new_rem]; exact hsort)).1
  rw [Reader.new_rem] at hE
  obtain ⟨s1, s2, _⟩ := emits_sorted hE hsort
  exact ⟨s1, emits_proj hE (tagInputs_wellTagged keys), emits_perm hE, s2⟩

/-- **Completeness at io.EOF**: a session that ended with io.EOF has emitted a sorted, complete,
    per-input-stable merge of the inputs. -/
theorem merge_at_eof (keys : List (List Int)) (refills : List (List Nat)) (batches : List Nat)
    (hs : ∀ ks ∈ keys, ks.Pairwise (· ≤ ·))
    (heof : ((Reader.new (tagInputs keys) refills).session batches).2.1 = true) :
    IsMerge (tagInputs keys) ((Reader.new (tagInputs keys) refills).session batches).1.flatten := by
  have hsort := tagInputs_sorted keys hs
  obtain ⟨hE, hdone⟩ := Reader.session_emits batches (Reader.new (tagInputs keys) refills) (Reader.new_ok _ _)
    (by rw [Reader.new_rem]; exact hsort)
  rw [Reader.new_rem] at hE
  exact isMerge_of_emits hE (hdone heof) hsort (tagInputs_wellTagged keys)

/-- **Progress**: a `ReadRows` call with a non-empty buffer returns rows or io.EOF, so every session
    of positive batch sizes that is longer than the number of rows reaches io.EOF. -/
theorem merge_reaches_eof (keys : List (List Int)) (refills : List (List Nat)) (batches : List Nat)
    (hs : ∀ ks ∈ keys, ks.Pairwise (· ≤ ·)) (hpos : ∀ b ∈ batches, 1 ≤ b)
    (hlen : (tagInputs keys).flatten.length < batches.length) :
    ((Reader.new (tagInputs keys) refills).session batches).2.1 = true := by
  apply Reader.session_eof batches _ (Reader.new_ok _ _)
  · rw [Reader.new_rem]; exact tagInputs_sorted keys hs
  · exact hpos
  · simp only [Reader.size, Reader.new_rem]; exact hlen

/-- **C09 for the row readers**: for any number of sorted inputs, any overlap pattern, any refill
    pattern of the sources and any sequence of positive read batch sizes (long enough to drain the
    inputs), the rows returned by `MergeRowReaders` are globally sorted, are exactly the multiset union
    of the inputs, and keep each input's rows in their original relative order. -/
theorem merge_sorted_complete_stable (keys : List (List Int)) (refills : List (List Nat)) (batches : List Nat)
    (hs : ∀ ks ∈ keys, ks.Pairwise (· ≤ ·)) (hpos : ∀ b ∈ batches, 1 ≤ b)
    (hlen : (tagInputs keys).flatten.length < batches.length) :
    let out := ((Reader.new (tagInputs keys) refills).session batches).1.flatten
    SortedK out ∧ out.Perm (tagInputs keys).flatten ∧
    ∀ (i : Nat) (l : List Row), (tagInputs keys)[i]? = some l → out.filter (fun r => r.inp == i) = l := by
  have h := merge_at_eof keys refills batches hs (merge_reaches_eof keys refills batches hs hpos hlen)
  exact ⟨h.sorted, h.perm, h.stable⟩

/-- the two-input reader `mergedRowReader2` (streak counter, `emitRun`) -/
theorem merge2_sorted_complete_stable (a b : List Int) (refills : List (List Nat)) (batches : List Nat)
    (ha : a.Pairwise (· ≤ ·)) (hb : b.Pairwise (· ≤ ·)) (hpos : ∀ x ∈ batches, 1 ≤ x)
    (hlen : (tagInputs [a, b]).flatten.length < batches.length) :
    ∃ s : M2, Reader.new (tagInputs [a, b]) refills = .two s ∧
      IsMerge (tagInputs [a, b]) ((Reader.two s).session batches).1.flatten := by
  refine ⟨_, rfl, ?_⟩
  have hs : ∀ ks ∈ [a, b], ks.Pairwise (· ≤ ·) := by
    intro ks hks; simp at hks; rcases hks with rfl | rfl <;> assumption
  exact merge_at_eof [a, b] refills batches hs (merge_reaches_eof [a, b] refills batches hs hpos hlen)

/-- the k-way reader `mergedRowReader` (loser tree, run mode, `runLength`), k ≥ 3 -/
theorem mergeK_sorted_complete_stable (a b c : List Int) (rest : List (List Int)) (refills : List (List Nat))
    (batches : List Nat) (hs : ∀ ks ∈ a :: b :: c :: rest, ks.Pairwise (· ≤ ·)) (hpos : ∀ x ∈ batches, 1 ≤ x)
    (hlen : (tagInputs (a :: b :: c :: rest)).flatten.length < batches.length) :
    ∃ s : MK, Reader.new (tagInputs (a :: b :: c :: rest)) refills = .many s ∧
      IsMerge (tagInputs (a :: b :: c :: rest)) ((Reader.many s).session batches).1.flatten := by
  have hnew : ∃ s : MK, Reader.new (tagInputs (a :: b :: c :: rest)) refills = .many s := by
    simp only [tagInputs, List.length_cons, List.range_succ_eq_map, List.map_cons, Reader.new]
    exact ⟨_, rfl⟩
  obtain ⟨s, hs'⟩ := hnew
  refine ⟨s, hs', ?_⟩
  have := merge_at_eof (a :: b :: c :: rest) refills batches hs
    (merge_reaches_eof (a :: b :: c :: rest) refills batches hs hpos hlen)
  rwa [hs'] at this

/-- hypotheses satisfiable, conclusion evaluated: three overlapping inputs with duplicate keys, refills
    of 1 and 2 rows, batches of 2 -/
example :
    (∀ ks ∈ [[1, 3, 3], [2, 3], [0, 3, 9]], List.Pairwise (· ≤ ·) (ks : List Int)) ∧
    (((Reader.new (tagInputs [[1, 3, 3], [2, 3], [0, 3, 9]]) [[1, 1], [2], []]).session
        [2, 2, 2, 2, 2, 2, 2, 2, 2]).1.flatten.map (fun r => (r.key, r.inp, r.seq)))
      = [(0, 2, 0), (1, 0, 0), (2, 1, 0), (3, 1, 1), (3, 0, 1), (3, 0, 2), (3, 2, 1), (9, 2, 2)] := by
  decide

/-- which of several rows with equal keys comes first is NOT independent of the read batch size
    (`mergedRowReader2` emits ties pairwise r0, r1 only while the output buffer has room): the property
    does not promise it, and refinement/dedupe must not rely on it -/
theorem merge2_tie_order_depends_on_batch_size :
    (((Reader.new (tagInputs [[0, 0], [0]]) []).session [1, 1, 1, 1]).1.flatten.map (fun r => (r.inp, r.seq)))
      ≠ (((Reader.new (tagInputs [[0, 0], [0]]) []).session [4, 4]).1.flatten.map (fun r => (r.inp, r.seq))) := by
  decide

/-! ## duplicate dropping -/

/-- `DedupeRowReader` over any batching of a sorted sequence returns exactly one row per distinct key:
    a subsequence of the input whose keys are strictly increasing and cover every key of the input;
    the `lastRow` carried across batches makes the result independent of the batch boundaries. -/
theorem dedupe_one_row_per_key (batches : List (List Row)) (hs : SortedK batches.flatten) :
    let out := dedupeReader none batches
    out.Sublist batches.flatten ∧ out.Pairwise (fun a b => a.key < b.key) ∧
    (∀ x ∈ batches.flatten, ∃ y ∈ out, y.key = x.key) ∧
    out = dedupeReader none [batches.flatten] := by
  intro out
  have e : out = (dedupeBatch none batches.flatten).1 := dedupeReader_flatten batches none
  obtain ⟨h1, h2, _, h4⟩ := dedupeBatch_sorted batches.flatten none hs (by intro l hl; cases hl)
  refine ⟨e ▸ h1, e ▸ h2, ?_, ?_⟩
  · intro x hx
    rcases h4 x hx with h | ⟨l, hl, _⟩
    · exact e ▸ h
    · cases hl
  · rw [e, dedupeReader_flatten]; simp

example : SortedK ([[⟨1, 0, 0⟩, ⟨1, 1, 0⟩], [⟨1, 0, 1⟩, ⟨2, 0, 2⟩], [], [⟨2, 1, 1⟩]] : List (List Row)).flatten ∧
    (dedupeReader none [[⟨1, 0, 0⟩, ⟨1, 1, 0⟩], [⟨1, 0, 1⟩, ⟨2, 0, 2⟩], [], [⟨2, 1, 1⟩]]).map (fun r => (r.key, r.inp, r.seq))
      = [(1, 0, 0), (2, 0, 2)] := by decide

/-- merge + `DropDuplicatedRows`: exactly one row per distinct sort key of the inputs remains, for
    every refill pattern and batch-size sequence -/
theorem merge_dedupe_one_row_per_key (keys : List (List Int)) (refills : List (List Nat)) (batches : List Nat)
    (hs : ∀ ks ∈ keys, ks.Pairwise (· ≤ ·)) (hpos : ∀ b ∈ batches, 1 ≤ b)
    (hlen : (tagInputs keys).flatten.length < batches.length) :
    let out := dedupeReader none ((Reader.new (tagInputs keys) refills).session batches).1
    out.Pairwise (fun a b => a.key < b.key) ∧
    (∀ y ∈ out, y ∈ (tagInputs keys).flatten) ∧
    (∀ x ∈ (tagInputs keys).flatten, ∃ y ∈ out, y.key = x.key) := by
  intro out
  obtain ⟨m1, m2, _⟩ := merge_sorted_complete_stable keys refills batches hs hpos hlen
  obtain ⟨d1, d2, d3, _⟩ := dedupe_one_row_per_key _ m1
  refine ⟨d2, ?_, ?_⟩
  · intro y hy
    exact m2.mem_iff.mp (d1.subset hy)
  · intro x hx
    exact d3 x (m2.mem_iff.mpr hx)

/-! ## segment refinement (merge_refine.go) -/

/-- Any plan that cuts the inputs into consecutive parts, groups the parts into segments that are
    ordered in key space, merges every segment correctly on its own (a lone part is its own merge) and
    concatenates the segment outputs in order, is a correct merge of the whole inputs. The computation
    of the cuts from column/offset indexes (`newCutLookups`, `refineSegment`) is tied by the
    correspondence check only. -/
theorem refined_plan_is_merge {k : Nat} (segments : List (List (List Row))) (outs : List (List Row))
    (h : Plan.Good (k := k) segments outs) : IsMerge (joinSegments k segments) outs.flatten :=
  plan_isMerge segments outs h

example : Plan.Good (k := 2)
    [[[⟨1, 0, 0⟩], []], [[⟨2, 0, 1⟩], [⟨2, 1, 0⟩]], [[], [⟨3, 1, 1⟩]]]
    [[⟨1, 0, 0⟩], [⟨2, 0, 1⟩, ⟨2, 1, 0⟩], [⟨3, 1, 1⟩]] := by
  refine ⟨rfl, ⟨by decide, by decide, ?_⟩, by decide, rfl, ⟨by decide, by decide, ?_⟩, by decide, rfl,
    ⟨by decide, by decide, ?_⟩, by decide, trivial⟩
  all_goals
    intro i l hl
    match i, hl with
    | 0, hl => simp at hl; subst hl; decide
    | 1, hl => simp at hl; subst hl; decide
    | i + 2, hl => simp at hl

/-! ## F12 (repaired): row-group key ranges used to ignore nulls

On the as-it-was mirror of `rowGroupRangeOfSortedColumns` / `overlappingRowGroups`
(`nullAware = false`, one page per row group): inputs `[10, null]` and `[17, 17, 18]`, both sorted
ascending with nulls last, got the key ranges `[10,10]` and `[17,18]`, were declared non-overlapping,
and the merged row group was their concatenation `10, null, 17, 17, 18`, which is not sorted
(harness key `nullable-key-ranges-ignore-nulls`). On the mirror of the code as it is now
(`nullAware = true`) the first range is `[10, null]`, the two row groups form one segment and go
through the merge reader. -/

theorem nullable_key_ranges_ignore_nulls_violates_sortedness_before_fix :
    sortedNullsLast [some 10, none] = true ∧ sortedNullsLast [some 17, some 17, some 18] = true ∧
    segmentsOf false false [[some 10, none], [some 17, some 17, some 18]] = [[(0, 2)], [(1, 3)]] ∧
    concatSingles [[some 10, none], [some 17, some 17, some 18]]
      (segmentsOf false false [[some 10, none], [some 17, some 17, some 18]]) = some [some 10, none, some 17, some 17, some 18] ∧
    sortedNullsLast [some 10, none, some 17, some 17, some 18] = false := by decide

theorem nullable_key_ranges_overlap_after_fix :
    segmentsOf true false [[some 10, none], [some 17, some 17, some 18]] = [[(0, 2), (1, 3)]] ∧
    segmentsOf true true [[none, some 10], [some 3, some 4]] = [[(0, 2), (1, 2)]] ∧
    segmentsOf true false [[some 1, some 2], [some 3, none], [some 9, none]] = [[(0, 2)], [(1, 2), (2, 2)]] ∧
    segmentsOf true false [[some 1, some 2], [some 3, none], [none]] = [[(0, 2), (1, 2), (2, 1)]] := by decide

/-! ## the comparator chain of compare.go, and C09 over an arbitrary lawful comparator -/

section comparator
open PqModel.Compare

/-- the lexicographic combination of column comparators (compare.go:217-226, 478-503) is a total
    preorder as soon as every column comparator is one -/
theorem column_chain_lawful {ρ : Type} (cs : List (ρ → ρ → Int)) (h : ∀ c ∈ cs, Lawful c) : Lawful (cmpLex cs) :=
  cmpLex_lawful cs h

/-- `CompareDescending`, `CompareNullsFirst`, `CompareNullsLast` preserve the order laws -/
theorem wrappers_lawful {α : Type} {c : α → α → Int} (h : Lawful c) :
    Lawful (descending c) ∧ Lawful (nullsFirst c) ∧ Lawful (nullsLast c) :=
  ⟨descending_lawful h, nullsFirst_lawful h, nullsLast_lawful h⟩

/-- the comparator `compareRowsFuncOf` builds for any list of sorting columns (ascending or descending,
    nulls first or last, any number of columns) is a total preorder: reflexive, antisymmetric in sign,
    transitive -/
theorem cmpRows_total_preorder (specs : List ColSpec) : Lawful (cmpRows specs) := cmpRows_lawful specs

example : cmpRows [⟨false, false⟩, ⟨true, true⟩] [some 1, none] [some 1, some 5] < 0 ∧
    cmpRows [⟨false, false⟩, ⟨true, true⟩] [some 1, some 9] [some 1, some 5] < 0 ∧
    cmpRows [⟨false, false⟩] [none] [some 5] > 0 := by decide

/-- on the rows of a merge a lawful comparator is the order of integer ranks: this is what lets the
    mirror run on ranks take exactly the decisions the code takes with `c` -/
theorem comparator_is_rank_order {α : Type} {c : α → α → Int} (h : Lawful c) {L : List α} {a b : α}
    (ha : a ∈ L) (hb : b ∈ L) :
    (c a b < 0 ↔ rankIn c L a < rankIn c L b) ∧ (c a b = 0 ↔ rankIn c L a = rankIn c L b) ∧
    (0 < c a b ↔ rankIn c L b < rankIn c L a) := rank_sign h ha hb

/-- **C09 for an arbitrary lawful comparator** on any row type: for every number of inputs sorted by
    `c`, refill pattern and sequence of positive batch sizes, the merged rows are sorted by `c`, are a
    permutation of the union of the inputs, and each input's rows keep their order. Only `Lawful c` is
    assumed. -/
theorem merge_sorted_complete_stable_any_comparator {α : Type} [Inhabited α] {c : α → α → Int} (h : Lawful c)
    (inputs : List (List α)) (refills : List (List Nat)) (batches : List Nat)
    (hs : ∀ l ∈ inputs, l.Pairwise (fun a b => c a b ≤ 0)) (hpos : ∀ b ∈ batches, 1 ≤ b)
    (hlen : inputs.flatten.length < batches.length) :
    let out := mergeC c inputs refills batches
    (out.map (orig inputs)).Pairwise (fun a b => c a b ≤ 0) ∧
    (out.map (orig inputs)).Perm inputs.flatten ∧
    ∀ (i : Nat) (l : List α), inputs[i]? = some l → ((out.filter (fun r => r.inp == i)).map (orig inputs)) = l :=
  mergeC_sorted_complete_stable h inputs refills batches hs hpos hlen

/-- instance: nullable, descending, multi-column integer keys with the comparator of compare.go -/
theorem merge_sorted_complete_stable_compound_keys (specs : List ColSpec) (inputs : List (List KeyRow))
    (refills : List (List Nat)) (batches : List Nat)
    (hs : ∀ l ∈ inputs, l.Pairwise (fun a b => cmpRows specs a b ≤ 0)) (hpos : ∀ b ∈ batches, 1 ≤ b)
    (hlen : inputs.flatten.length < batches.length) :
    let out := mergeC (cmpRows specs) inputs refills batches
    (out.map (orig inputs)).Pairwise (fun a b => cmpRows specs a b ≤ 0) ∧
    (out.map (orig inputs)).Perm inputs.flatten ∧
    ∀ (i : Nat) (l : List KeyRow), inputs[i]? = some l → ((out.filter (fun r => r.inp == i)).map (orig inputs)) = l :=
  mergeC_sorted_complete_stable (cmpRows_lawful specs) inputs refills batches hs hpos hlen

example : (∀ l ∈ [[[some 1, none], [some 1, some 5]], [[some 1, some 9], [none, some 0]]],
      List.Pairwise (fun a b => cmpRows [⟨false, false⟩, ⟨true, true⟩] a b ≤ 0) (l : List KeyRow)) ∧
    ((mergeC (cmpRows [⟨false, false⟩, ⟨true, true⟩]) [[[some 1, none], [some 1, some 5]], [[some 1, some 9], [none, some 0]]]
        [] [3, 3, 3, 3, 3]).map (fun r => (r.inp, r.seq))) = [(0, 0), (1, 0), (0, 1), (1, 1)] := by decide

/-- dedupe for an arbitrary lawful comparator: a subsequence with strictly increasing keys in which
    every key occurs, whatever the batch boundaries -/
theorem dedupe_one_row_per_key_any_comparator {α : Type} [Inhabited α] {c : α → α → Int} (h : Lawful c)
    (L : List α) (hs : L.Pairwise (fun a b => c a b ≤ 0)) (batches : List (List Row))
    (hb : batches.flatten = rankList c L 0 L) :
    let out := (dedupeReader none batches).map (orig [L])
    out.Sublist L ∧ out.Pairwise (fun a b => c a b < 0) ∧ ∀ x ∈ L, ∃ y ∈ out, c y x = 0 :=
  dedupeC_one_row_per_key h L hs batches hb

/-- segment plans for an arbitrary order and tagging of rows -/
theorem refined_plan_is_merge_any_order {α : Type} {le : α → α → Prop} {tag : α → Nat} {k : Nat}
    (segs : List (List (List α))) (outs : List (List α)) (h : PlanGoodBy le tag k segs outs) :
    IsMergeBy le tag (joinSegmentsG k segs) outs.flatten := planBy_isMerge segs outs h

end comparator

/-! ## the planner of merge_refine.go: cuts and slices -/

section planner
open PqModel.Refine PqModel.Compare

/-- `cutAbove`: every row at or after the cut has a first-column key strictly after the key's -/
theorem cutAbove_is_conservative {desc : Bool} {t : Target} {vals : List Int} (h : PagesOk desc t vals)
    (key : KeyRow) (kv : Int) (hk : key.getD 0 none = some kv) :
    ∀ r, cutAbove desc t key ≤ r → r < t.numRows → ord desc kv < vals.getD r 0 :=
  cutAbove_conservative h key kv hk

/-- `cutBelow`: every row before the cut has a first-column key strictly before the key's -/
theorem cutBelow_is_conservative {desc : Bool} {t : Target} {vals : List Int} (h : PagesOk desc t vals)
    (key : KeyRow) (kv : Int) (hk : key.getD 0 none = some kv) :
    ∀ r, r < cutBelow desc t key → vals.getD r 0 < ord desc kv :=
  cutBelow_conservative h key kv hk

/-- the page index of a two-page row group with rows 1,1,2 | 2,5 satisfies `PagesOk` -/
example : PagesOk false
    { idx := 0, numRows := 5, cols := [[⟨false, false, some 1, some 2⟩, ⟨false, false, some 2, some 5⟩]], firstRows := [0, 3] }
    [1, 1, 2, 2, 5] := by
  refine ⟨rfl, by decide, by decide, rfl, ?_, ?_⟩
  · intro p hp
    have : p = 0 ∨ p = 1 := by simp at hp; omega
    rcases this with rfl | rfl <;> decide
  · intro p r hp h1 h2
    have : p = 0 ∨ p = 1 := by simp at hp; omega
    rcases this with rfl | rfl
    · have : r = 0 ∨ r = 1 ∨ r = 2 := by simp [pageEnd] at h2; omega
      rcases this with rfl | rfl | rfl <;> decide
    · have : r = 3 ∨ r = 4 := by simp [pageEnd] at h1 h2; omega
      rcases this with rfl | rfl <;> decide

/-- the per-slice step of the planner's order argument, on the merge's own comparator (all sorting
    columns, any directions and null orders): a lone slice `[off, e)` cut with `cutAbove(leftK) ≤ off`
    and `e ≤ cutBelow(rightK)` lies strictly after every row that is at most `leftK` (the row groups
    that ended) and strictly before every row that is at least `rightK` (those that start later).
    -- OPEN: `cuts_form_good_plan` still lacks the sweep invariant that supplies `ha` / `hb` at every slice. -/
theorem lone_slice_lies_between_its_keys (s : ColSpec) (ss : List ColSpec) {t : Target} {vals : List Int}
    (h : PagesOk s.desc t vals) (rows : List KeyRow) (hf : FirstCol s.desc rows vals)
    (leftK rightK : KeyRow) (kl kr : Int) (hl : leftK.getD 0 none = some kl) (hr : rightK.getD 0 none = some kr)
    (off e : Nat) (ho : cutAbove s.desc t leftK ≤ off) (he : e ≤ cutBelow s.desc t rightK) (hen : e ≤ t.numRows)
    (a b : KeyRow) (ha : cmpRows (s :: ss) a leftK ≤ 0) (hb : cmpRows (s :: ss) rightK b ≤ 0) :
    ∀ r, off ≤ r → r < e →
      cmpRows (s :: ss) a (rows.getD r []) < 0 ∧ cmpRows (s :: ss) (rows.getD r []) b < 0 :=
  lone_slice_between s ss h rows hf leftK rightK kl kr hl hr off e ho he hen a b ha hb

/-- the hypotheses are satisfiable: rows 1,1,2 | 2,5 (two key columns), `leftK = (1, 9)`, `rightK = (5, 0)`:
    the slice is the second page without its last row -/
example : FirstCol false [[some 1, some 0], [some 1, some 7], [some 2, some 3], [some 2, some 4], [some 5, some 0]] [1, 1, 2, 2, 5] ∧
    cutAbove false { idx := 0, numRows := 5, cols := [[⟨false, false, some 1, some 2⟩, ⟨false, false, some 2, some 5⟩]], firstRows := [0, 3] }
      [some 1, some 9] = 3 ∧
    cutBelow false { idx := 0, numRows := 5, cols := [[⟨false, false, some 1, some 2⟩, ⟨false, false, some 2, some 5⟩]], firstRows := [0, 3] }
      [some 5, some 0] = 3 ∧
    cmpRows [⟨false, false⟩, ⟨false, false⟩] [some 1, some 7] [some 1, some 9] ≤ 0 := by
  refine ⟨⟨rfl, ?_⟩, by decide, by decide, by decide⟩
  intro r hr
  have : r = 0 ∨ r = 1 ∨ r = 2 ∨ r = 3 ∨ r = 4 := by simp at hr; omega
  rcases this with rfl | rfl | rfl | rfl | rfl <;> simp [ord]

/-- whatever the page statistics and keys, the plan of `refineSegment` cuts every row group into
    consecutive parts from its first to its last row, at most one part per region -/
theorem refineSegment_partitions_row_groups (strict : Bool) (specs : List ColSpec) (ts : List Refine.RG) (plan : List (List Part))
    (h : refineSegment strict specs ts = some plan) :
    (∀ i, i < ts.length → Refine.walk i 0 plan.flatten = some (numRowsOf ts i)) ∧
    (∀ R ∈ plan, (R.map (·.index)).Nodup ∧ ∀ p ∈ R, p.index < ts.length) :=
  refineSegment_partition strict specs ts plan h

/-- read region after region, the slices give back every row group whole and in order -/
theorem cuts_reassemble_row_groups {α : Type} (strict : Bool) (specs : List ColSpec) (ts : List Refine.RG) (plan : List (List Part))
    (h : refineSegment strict specs ts = some plan) (rows : List (List α)) (hlen : rows.length = ts.length)
    (hrows : ∀ i, i < ts.length → (rows.getD i []).length = numRowsOf ts i) :
    joinSegmentsG ts.length (plan.map (slicesOf rows ts.length)) = rows :=
  cuts_partition_rows strict specs ts plan h rows hlen hrows

/-- `cuts_form_good_plan_partial`: with the partition and the conservative cuts proved, a refined plan
    whose regions are key-ordered and individually merged is a merge of the whole row groups.
    -- OPEN: cuts_form_good_plan (full): derive the key order of the regions (the `PlanGoodBy`
    -- hypothesis) from the event sweep of `refineSegment` and `PagesOk`; the sweep invariant tying
    -- `pendingLeftK` / `active` / cursors to the keys of the rows not yet planned is not proved; it is
    -- covered by the L1 oracle and the plan L2 on compound-key multi-page files only. -/
theorem cuts_form_good_plan_partial {α : Type} (strict : Bool) (specs : List ColSpec) (ts : List Refine.RG) (plan : List (List Part))
    (h : refineSegment strict specs ts = some plan) (rows : List (List α)) (hlen : rows.length = ts.length)
    (hrows : ∀ i, i < ts.length → (rows.getD i []).length = numRowsOf ts i)
    (le : α → α → Prop) (tag : α → Nat) (outs : List (List α))
    (hgood : PlanGoodBy le tag ts.length (plan.map (slicesOf rows ts.length)) outs) :
    IsMergeBy le tag rows outs.flatten :=
  Refine.cuts_form_good_plan_partial strict specs ts plan h rows hlen hrows le tag outs hgood

/-- the hypothesis `refineSegment … = some plan` is satisfiable: two row groups of 3000 rows in 3 pages
    each, overlapping in the middle page: the plan is slice / merged region / slice -/
example : refineSegment false [⟨false, false⟩]
    [{ t := { idx := 0, numRows := 3000, cols := [[⟨false, false, some 0, some 9⟩, ⟨false, false, some 10, some 19⟩, ⟨false, false, some 20, some 29⟩]],
              firstRows := [0, 1200, 1800] }, lo := [some 0], hi := [some 29] },
     { t := { idx := 1, numRows := 3000, cols := [[⟨false, false, some 20, some 29⟩, ⟨false, false, some 30, some 39⟩, ⟨false, false, some 40, some 49⟩]],
              firstRows := [0, 600, 1800] }, lo := [some 20], hi := [some 49] }]
    = some [[⟨0, 0, 1800⟩], [⟨0, 1800, 1200⟩, ⟨1, 0, 600⟩], [⟨1, 600, 2400⟩]] := by decide

/-- FINDING (cut lookups ignore nulls in mixed pages): on the mirror of the code as it is
    (`strict = false`) a row group `B` = 1774 rows, keys 43..1778 followed by 38 nulls (nulls last;
    the last page holds values *and* nulls, so it is not a "null page") and a row group `A` = keys from
    3544: the ranges overlap (`B`'s upper bound is null), but `cutBelow(3544)` only sees the non-null
    bound 1778 of `B`'s last page and slices all of `B`, nulls included, in front of `A`, although
    `B`'s last row sorts after `A`'s first. With pages holding nulls refused (`strict = true`, the
    proposed fix) the two row groups go through the merge reader. Harness key
    `nullable-key-cuts-ignore-nulls`. -/
theorem cut_lookups_ignore_nulls_in_mixed_pages :
    let B : Refine.RG := { t := { idx := 0, numRows := 1774, cols := [[⟨false, false, some 43, some 1000⟩, ⟨false, true, some 1001, some 1778⟩]],
                                   firstRows := [0, 900] }, lo := [some 43], hi := [none] }
    let A : Refine.RG := { t := { idx := 1, numRows := 2281, cols := [[⟨false, true, some 3544, some 5780⟩]], firstRows := [0] },
                           lo := [some 3544], hi := [none] }
    refineSegment false [⟨false, false⟩] [B, A] = some [[⟨0, 0, 1774⟩], [⟨1, 0, 2281⟩]] ∧
    cmpRows [⟨false, false⟩] B.hi A.lo > 0 ∧
    refineSegment true [⟨false, false⟩] [B, A] = none := by decide

end planner

/-! ## sources that answer `(0, nil)`

A `RowReader` may answer `(0, nil)` (row.go: "less rows than requested and no error"): one of the
source chunkings the property quantifies over. `bufferedRowReader.read` reads again (at most 100
times). `Buf.readE` (MergeRetry.lean) mirrors the loop; in a refill stream the entry `0` is a
`(0, nil)` answer. -/

/-- `(0, nil)` answers are invisible to the merge: as long as a source does not stall (at most 100
    such answers in a row), a `read` over a stream with zero entries ends as `Buf.read` — the function
    all session theorems above are about — over the stream without them: same rows buffered, same
    remaining source, `io.EOF` in the same cases, never `io.ErrNoProgress`. (The readers reach their
    sources through `read` only; the composition to whole sessions is tied by L2,
    `merge-zero-read-skipped-mirror`.) -/
theorem zero_row_reads_are_invisible (b : Buf) (h : zeroRun b.sizes ≤ 100) :
    match b.readE with
    | .rows b' => b.squash.read = some b'.squash
    | .eof => b.squash.read = none
    | .noProgress => False := readE_squash b h

/-- a source that answers `(0, nil)` 101 times in a row ends the merge with `io.ErrNoProgress` -/
theorem stalled_source_is_an_error (b : Buf) (h : 101 ≤ zeroRun b.sizes) (hsrc : b.src ≠ []) :
    b.readE = .noProgress := readE_stall b h hsrc

example : zeroRun (Buf.fresh [⟨1, 0, 0⟩] [0, 0, 2]).sizes ≤ 100 ∧ (Buf.fresh [⟨1, 0, 0⟩] [0, 0, 2]).readE.kind = 0 := by decide

/-- BEFORE the retry existed (library commit 0f6ccd1; the seeded change C09-3b removes it again), on
    the as-is mirror `MergeZero.lean`: inputs `1,3,5,7` (second read answers `(0, nil)`) and `2,4,6,8`
    give `1 2 3 1 4 5 6 7 8`: `head()` of the empty buffer is the first row of the previous fill. -/
theorem zero_row_read_reemits_stale_row :
    (((M2Z.new (tagInputs [[1, 3, 5, 7], [2, 4, 6, 8]]).head! ((tagInputs [[1, 3, 5, 7], [2, 4, 6, 8]]).getD 1 [])
        [2, 0, 2, 2] [2, 2, 2]).session [10, 10, 10, 10, 10, 10, 10, 10]).flatten.map (fun r => r.key))
      = [1, 2, 3, 1, 4, 5, 6, 7, 8] := by decide

/-! ## merged row groups and merged readers as inputs of a merge (nesting) -/

/-- **a merge of merges is a merge of the leaves**, for any order relation, any grouping `g` of the
    leaves into the inputs `mids` of the outer merge, hence (the statement composes) any merge tree:
    sorted, the multiset union of the leaves, and every *leaf's* rows in their original order. -/
theorem merge_of_merges_is_merge {α : Type} {le : α → α → Prop} {tag : α → Nat} (g : Nat → Nat)
    (leaves mids : List (List α)) (out : List α)
    (hinner : ∀ j (m : List α), mids[j]? = some m → IsMergeBy le tag (maskGroup g j leaves) m)
    (hg : ∀ i, i < leaves.length → g i < mids.length)
    (houter : IsMergeBy le (fun r => g (tag r)) mids out) :
    IsMergeBy le tag leaves out := isMergeBy_nested g leaves mids out hinner hg houter

section
open PqModel.Refine PqModel.Compare

/-- the planner's range of a merged row group (pages listed member after member, rows interleaved)
    bounds every key that some non-null page bounds — whatever the order of the pages. This is the
    only thing such a page index says about the rows (`CoveredBy`); `PagesOk`, the hypothesis of the
    cut theorems, does not hold for it, and such a row group gets no cut lookups. -/
theorem interleaved_range_is_valid (s : ColSpec) (pages : List PageStat) (lo hi : Option Int)
    (hnn : pages.any (fun p => p.nullPage || p.hasNulls) = false)
    (h : colRange s pages true = some (lo, hi)) (v : Int) (hv : CoveredBy pages v) :
    ∃ a b, lo = some a ∧ hi = some b ∧ ord s.desc a ≤ ord s.desc v ∧ ord s.desc v ≤ ord s.desc b :=
  colRange_interleaved_covers s pages lo hi hnn h v hv

theorem interleaved_row_group_is_never_sliced (strict : Bool) (t : Target) (h : t.interleaved = true) :
    hasCuts strict t = false := interleaved_no_cuts strict t h

/-- FINDING (round 3, fixed in the library clone): `Merge(Merge(A[0..100], B[50..60]), C[70..80])`.
    With the first-page / last-page rule the inner merge got the range `[0, 60]` although it holds
    the key 70; `C` was appended after it. Harness keys `unsorted nested path=…`. -/
theorem nested_merge_range_misses_rows_before_fix :
    CoveredBy nestedWitnessPages 70 ∧
    colRange { desc := false, nullsFirst := false } nestedWitnessPages false = some (some 0, some 60) ∧
    colRange { desc := false, nullsFirst := false } nestedWitnessPages true = some (some 0, some 100) :=
  firstLast_misses_row

end

/-! ## which row groups the planner may read by their chunks (MergeShape.lean, round 4)

`Shape` is the tree of row-group views (`leaf` = file / buffer, `merged`, `segments`, `multi`, `dedup`,
`range`, `converted`); `interleaves`, `dropsRows`, `readsChunksInOrder` mirror
`rowGroupInterleavesChunks`, `rowGroupDropsRows`, `rowGroupReadsChunksInOrder`; `chunks s` is what the
column chunks (hence page and offset indexes and row-range views) hold, `rows fixed m d s` what
`Rows()` delivers for an arbitrary merge function `m` and deduplication `d`. -/
section
open PqModel.Shape PqModel.Refine

/-- **a row group for which both `rowGroupInterleavesChunks` and `rowGroupDropsRows` answer false
    delivers exactly the rows of its column chunks, in their order**, for every nesting of views and
    whatever the merge and the deduplication compute. This is the fact behind `PagesOk` (first / last
    page bound the first / last row) and behind the row positions of the cut lookups. -/
theorem rows_are_the_chunks_unless_interleaved_or_deduplicating {α : Type}
    (m : List (List α) → List α) (d : List α → List α) (s : Shape α)
    (hi : interleaves s = false) (hd : dropsRows s = false) : rows true m d s = chunks s :=
  rows_eq_chunks m d s hi hd

/-- such a row group may be sliced by row positions: the row-range view is the slice of its rows -/
theorem sliced_row_group_is_the_slice_of_its_rows {α : Type}
    (m : List (List α) → List α) (d : List α → List α) (s : Shape α) (off len : Nat)
    (hi : interleaves s = false) (hd : dropsRows s = false) :
    rows true m d (.range s off len) = ((rows true m d s).drop off).take len :=
  range_is_slice_of_rows m d s off len hi hd

/-- `rowGroupReadsChunksInOrder` (the sources `ConvertRowGroup` masks, the members whose concatenated
    chunks `multiRowGroup.Rows()` reads) is sound, before and after the fix of `ConvertRowGroup` -/
theorem reads_chunks_in_order_is_sound {α : Type} (fixed : Bool)
    (m : List (List α) → List α) (d : List α → List α) (s : Shape α)
    (h : readsChunksInOrder s = true) : rows fixed m d s = chunks s :=
  readsChunksInOrder_sound fixed m d s h

/-- a converted view delivers the rows of its source (library fix 6a492b8), so the conversion of a
    merge is the merge; before the fix it delivered the chunks of the source -/
theorem conversion_keeps_the_rows {α : Type} (m : List (List α) → List α) (d : List α → List α) (s : Shape α) :
    rows true m d (.converted s) = rows true m d s ∧ rows false m d (.converted s) = chunks s :=
  converted_rows m d s

/-- planner mirror: a deduplicating view gets no cut lookups, like an interleaved row group -/
theorem deduplicating_view_is_never_sliced (strict : Bool) (t : Target) (h : t.dropsRows = true) :
    hasCuts strict t = false := by
  unfold hasCuts
  split
  · rfl
  · simp [h]

/-- planner mirror: a row group whose rows `rowRangeOf` cannot slice (`supportsRowRanges` false: a
    sequence of segments, a deduplicating or merged view, an empty row group) gets no cut lookups -/
theorem unsupported_view_is_never_sliced (strict : Bool) (t : Target) (h : t.supportsRanges = false) :
    hasCuts strict t = false := by
  unfold hasCuts
  split
  · rfl
  · simp [h]

/-- what the planner cuts, `rowRangeOf` slices: for every row group `supportsRowRanges` accepts (file
    row groups, buffers, range views, multi row groups of such, plain row groups, and conversions of
    these to any depth) the range is the slice of its rows, whatever merge and deduplication compute -/
theorem supported_row_group_ranges_slice_its_rows {α : Type}
    (m : List (List α) → List α) (d : List α → List α) (s : Shape α) (off len : Nat)
    (h : supportsRowRanges s = true) :
    rows true m d (rangeOf s off len) = ((rows true m d s).drop off).take len :=
  supported_range_is_slice_of_rows m d off len s h

example : supportsRowRanges (.converted (.converted (.multi [.leaf [1, 2], .range (.leaf [3, 4]) 0 1])) : Shape Nat) = true ∧
    supportsRowRanges (.segments false [.leaf [1], .leaf [2]] : Shape Nat) = false := by decide

example : interleaves (.converted (.segments false [.leaf [1, 2], .range (.leaf [3, 4, 5, 6]) 1 2]) : Shape Nat) = false ∧
    dropsRows (.converted (.segments false [.leaf [1, 2], .range (.leaf [3, 4, 5, 6]) 1 2]) : Shape Nat) = false := by decide

/-- seed C09-4b: segments one of which is a loser-tree merge do interleave their chunks (the seeded
    variant answered false for every `sortedSegmentRowGroup`) -/
theorem segments_holding_a_merge_interleave :
    let s : Shape Nat := .segments false [.leaf [1, 2], .merged false [.leaf [10, 20], .leaf [15, 16]]]
    interleaves s = true ∧ dropsRows s = false ∧
    rows true mergeNat dedupNat s = [1, 2, 10, 15, 16, 20] ∧ chunks s = [1, 2, 10, 20, 15, 16] :=
  segments_with_a_merged_segment_interleave

/-- FINDING (round 4, fixed in the library clone, 6a492b8): `Merge(evens, odds)` converted to another
    schema by an enclosing merge came out as the evens followed by the odds, and the planner took the
    converted view for a row group with its pages in row order. Harness keys `unsorted nested converted …`. -/
theorem converted_merge_was_not_the_merge_before_fix :
    let s : Shape Nat := .converted (.merged false [.leaf [0, 2, 4], .leaf [1, 3, 5]])
    rows false mergeNat dedupNat s = [0, 2, 4, 1, 3, 5] ∧ rows true mergeNat dedupNat s = [0, 1, 2, 3, 4, 5] ∧
    interleaves (.converted (.leaf (chunks s)) : Shape Nat) = false ∧ interleaves s = true :=
  converted_merge_before_fix_is_not_the_merge

/-- FINDING (round 4, fixed in the library clone): a row-range view reads the chunks of its base, so
    slicing a deduplicating view brings back the rows it dropped. Harness key
    `deduplicated-rows-reappear …`. -/
theorem slicing_a_deduplicating_view_brings_rows_back :
    let s : Shape Nat := .dedup (.leaf [1, 1, 2, 2, 3, 3])
    rows true mergeNat dedupNat s = [1, 2, 3] ∧
    rows true mergeNat dedupNat (.range s 0 2) = [1, 1] ∧
    ((rows true mergeNat dedupNat s).drop 0).take 2 = [1, 2] ∧
    dropsRows s = true ∧ interleaves s = false :=
  range_of_dedup_view_brings_rows_back

/-- the null count of an in-memory column index (`hasNulls` of the planner's page statistics): positive
    exactly when some definition level is below the maximum, for any maximum level -/
theorem buffer_null_count_sees_every_null (maxDef : Nat) (defs : List Nat) :
    0 < nullCount maxDef defs ↔ ∃ d ∈ defs, d ≠ maxDef := nullCount_pos_iff maxDef defs

example : 0 < nullCount 2 [2, 1, 2] := by decide

/-- seed C09-4a (`countLevelsEqual(levels, 0)`): equal on flat optional columns, blind to the null
    leaf of a present group (level 1 of 2) -/
theorem seeded_null_count_misses_nested_null :
    (∀ defs : List Nat, (∀ d ∈ defs, d ≤ 1) → nullCountSeeded defs = nullCount 1 defs) ∧
    nullCount 2 [2, 1, 2] = 1 ∧ nullCountSeeded [2, 1, 2] = 0 :=
  ⟨nullCountSeeded_eq_flat, nullCountSeeded_misses_null_leaf⟩

end

/-! ## round 5: the per-type arms of the positional comparator (compare.go:229-395)

The comparator theorems above take `Type.Compare` of a key column as integer order. The positional
comparator has one hand-written arm per type and direction; `armCmp32` (Compare.lean) mirrors an arm
by the two decisions it makes (accessor, minus sign). Written as in compare.go every arm is the declared
order on the numbers the keys denote; the two seeded slips are witnesses of what goes wrong otherwise.
Tie: c09CmpChecks / the merge cases run every arm on keys of its type on both sides of zero (L1 against
the declared order, L2 `merge.cmp` against `cmpRows` on the decoded keys). -/

theorem comparator_arm_is_the_declared_order (unsignedType desc : Bool) (a b : BitVec 32) :
    PqModel.Compare.armCmp32 (!unsignedType) desc a b =
      (if desc then PqModel.Compare.descending PqModel.Compare.cmpInt else PqModel.Compare.cmpInt)
        (PqModel.Compare.denote32 unsignedType a) (PqModel.Compare.denote32 unsignedType b) :=
  PqModel.Compare.armCmp32_is_declared_order unsignedType desc a b

example : PqModel.Compare.armCmp32 true true (BitVec.ofInt 32 (-3)) (BitVec.ofInt 32 4) = 1 := by decide

/-- seed C09-5b (the ascending DATE arm reads `uint32()`): -1 sorts after 1 -/
theorem seeded_date_arm_misorders_negative_keys :
    PqModel.Compare.armCmp32 false false (BitVec.ofInt 32 (-1)) (BitVec.ofInt 32 1) = 1 ∧
    PqModel.Compare.cmpInt (PqModel.Compare.denote32 false (BitVec.ofInt 32 (-1)))
      (PqModel.Compare.denote32 false (BitVec.ofInt 32 1)) = -1 :=
  PqModel.Compare.arm_read_unsigned_misorders_negative_keys

/-- seed C09-5a (the descending TIMESTAMP arm lost its minus sign): it is the ascending arm, on every pair -/
theorem seeded_descending_arm_is_ascending (signed : Bool) (a b : BitVec 32) :
    PqModel.Compare.armCmp32 signed false a b = - PqModel.Compare.armCmp32 signed true a b :=
  PqModel.Compare.descending_arm_without_negation_is_ascending signed a b

example : PqModel.Compare.armCmp32 true false (BitVec.ofInt 32 1) (BitVec.ofInt 32 2) = -1 := by decide

/-! ## the abstract schedule theorems (MergeAbstract.lean) are instances of the above -/

/-- the spike's `Merges` relation is `Emits` down to empty inputs (kept for reference) -/
theorem abstract_merges_sorted {ins : List (List Int)} {out : List PqModel.MergeAbstract.Tagged}
    (h : PqModel.MergeAbstract.Merges ins out) (hs : ∀ l ∈ ins, PqModel.MergeAbstract.Sorted l) :
    PqModel.MergeAbstract.Sorted (out.map (·.2)) :=
  PqModel.MergeAbstract.merges_sorted h hs

end PqModel.Props.C09
