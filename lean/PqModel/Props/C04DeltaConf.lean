import PqModel.DeltaConfBytes
import PqModel.DeltaAmd64

/-! # C04 (part DELTA, conformance) — every spec-conformant DELTA stream is read back, by the format's
decoder and by the Go decoders.

`ConfStream n` (PqModel/DeltaConf.lean, SPEC side, written from Encodings.md) describes every
stream a conformant writer may emit for a list of `n`-bit integers: any legal block/miniblock
geometry, per block any frame of reference, per needed miniblock any sufficient bit width, ANY
padding values in the last needed miniblock, and ANY width bytes (with no body) for the unneeded
miniblocks of the last block — parquet-java leaves stale non-zero widths there. `s.bytes` is the
stream, `s.values` its meaning, `s.OK` the decidable well-formedness condition.

The statements quantify over all streams of the family (all lengths, geometries, widths, paddings)
and over whatever follows the stream (`tail`): DELTA_LENGTH_BYTE_ARRAY and DELTA_BYTE_ARRAY put
their value bytes right after such a stream, so "hands back exactly `tail`" is the part that
matters there. `goDecode*` are the mirrors of the Go decoders (PqModel/DeltaGo.lean), tied to the
real code by the L2 comparisons (values AND the number of unread bytes). -/
namespace PqModel.Props.C04DeltaConf
open PqModel.Delta

/-- The decoder written from the format reads every conformant INT32 stream: its meaning, and
exactly the bytes that follow. -/
theorem conformant32_spec (s : ConfStream 32) (tail : List Nat) (h : s.OK) :
    specDecode32 (s.bytes ++ tail) = .ok (s.values, tail) :=
  specDecode_conf (by decide) s tail h

theorem conformant64_spec (s : ConfStream 64) (tail : List Nat) (h : s.OK) :
    specDecode64 (s.bytes ++ tail) = .ok (s.values, tail) :=
  specDecode_conf (by decide) s tail h

/-- The Go INT32 decoder (`decodeInt32`) reads every conformant stream with a block size of at
most 65536 and fewer than 2^31 values: same values, same rest — no error alternative. In
particular the width bytes of unneeded miniblocks are skipped without consuming input whatever
their value (seeded change C04-3a breaks exactly this: L2 `delta-32-decoder-rest`, L1
`delta32-decode-conformant-foreign-rest`). -/
theorem conformant32_go (s : ConfStream 32) (tail : List Nat) (h : s.OK)
    (hbs : s.blockSize ≤ 65536) (ht : s.total < 2 ^ 31) :
    goDecode32 (s.bytes ++ tail) = .ok (s.values, tail) :=
  goDecode_conf (Or.inl rfl) s tail h hbs ht

/-- INT64 twin (`decodeInt64`). -/
theorem conformant64_go (s : ConfStream 64) (tail : List Nat) (h : s.OK)
    (hbs : s.blockSize ≤ 65536) (ht : s.total < 2 ^ 31) :
    goDecode64 (s.bytes ++ tail) = .ok (s.values, tail) :=
  goDecode_conf (Or.inr rfl) s tail h hbs ht

/-- a stream of the family with everything the library's own encoder never does: frame of
reference −1 (not the minimum), width 3 for values that need 3 bits, padding 7,7,…, stale width
bytes 17, 255, 3 for the three unneeded miniblocks -/
def exampleStream : ConfStream 32 :=
  { blockSize := 128, minis := 4, total := 3, first := 5#32,
    blocks := [{ minD := (-1 : BitVec 64), minis := [⟨3, [6, 1] ++ List.replicate 30 7⟩], stale := [17, 255, 3] }] }

example : exampleStream.OK ∧ exampleStream.blockSize ≤ 65536 ∧ exampleStream.total < 2 ^ 31 := by decide
example : exampleStream.values = [5#32, 10#32, 10#32] := by decide +kernel
example : exampleStream.bytes.take 10 = [128, 1, 4, 3, 10, 1, 3, 17, 255, 3] := by decide +kernel

/-- The grammar form: `ValidDelta n xs bs` ("bs is a conformant encoding of xs") implies that the
spec decoder returns `xs` — soundness of the oracle for every conformant writer. -/
theorem valid32_spec {xs : List (BitVec 32)} {bs : List Nat} (h : ValidDelta 32 xs bs) (tail : List Nat) :
    specDecode32 (bs ++ tail) = .ok (xs, tail) :=
  validDelta_specDecode (by decide) h tail

theorem valid64_spec {xs : List (BitVec 64)} {bs : List Nat} (h : ValidDelta 64 xs bs) (tail : List Nat) :
    specDecode64 (bs ++ tail) = .ok (xs, tail) :=
  validDelta_specDecode (by decide) h tail

example : ValidDelta 32 [5#32, 10#32, 10#32] exampleStream.bytes :=
  ⟨exampleStream, by decide, rfl, by decide +kernel⟩

/-! ## byte arrays over any conformant length streams -/

/-- DELTA_LENGTH_BYTE_ARRAY: any conformant stream of the lengths, then the bytes: the spec decoder
returns the values. -/
theorem conformant_dlba_spec (s : ConfStream 32) (vs : List (List Nat)) (tail : List Nat) (hs : s.OK)
    (hv : s.values = lensOf vs) (h31 : ∀ v ∈ vs, v.length < 2 ^ 31) :
    specDecodeDLBA (s.bytes ++ (vs.flatten ++ tail)) = .ok (vs, tail) :=
  specDecodeDLBA_conf s vs tail hs hv h31

/-- DELTA_LENGTH_BYTE_ARRAY, Go decoder: the concatenated values and their offsets. -/
theorem conformant_dlba_go (s : ConfStream 32) (vs : List (List Nat)) (tail : List Nat) (hs : s.OK)
    (hv : s.values = lensOf vs) (h31 : ∀ v ∈ vs, v.length < 2 ^ 31)
    (hbs : s.blockSize ≤ 65536) (ht : s.total < 2 ^ 31) (hb : vs.flatten.length < 2 ^ 32) :
    goDecodeDLBA (s.bytes ++ (vs.flatten ++ tail)) = .ok (vs.flatten, offsetsFrom 0 vs) :=
  goDecodeDLBA_conf s vs tail hs hv h31 hbs ht hb

/-- lengths 1, 0 in a stream with stale widths after the needed miniblock -/
def exampleLens : ConfStream 32 :=
  { blockSize := 128, minis := 4, total := 2, first := 1#32,
    blocks := [{ minD := (-1 : BitVec 64), minis := [⟨1, [0] ++ List.replicate 31 1⟩], stale := [8, 8, 8] }] }

example : exampleLens.OK ∧ exampleLens.values = lensOf [[0xab], []] ∧ (∀ v ∈ [[0xab], ([] : List Nat)], v.length < 2 ^ 31) ∧
    exampleLens.blockSize ≤ 65536 ∧ exampleLens.total < 2 ^ 31 ∧ ([[0xab], []] : List (List Nat)).flatten.length < 2 ^ 32 := by
  decide +kernel

/-- DELTA_BYTE_ARRAY: any conformant prefix-length stream whose prefixes are shared with the
previous value (not necessarily the longest shared prefix), any conformant suffix-length stream,
the suffix bytes: the spec decoder returns the values. -/
theorem conformant_dba_spec (sp ss : ConfStream 32) (ps : List Nat) (vs : List (List Nat)) (tail : List Nat)
    (hsp : sp.OK) (hss : ss.OK) (hpv : sp.values = ps.map (BitVec.ofNat 32))
    (hp : prefixesOK [] ps vs) (hsv : ss.values = lensOf (cutSuffixes ps vs))
    (h31 : ∀ v ∈ vs, v.length < 2 ^ 31) :
    specDecodeDBA (sp.bytes ++ (ss.bytes ++ ((cutSuffixes ps vs).flatten ++ tail))) = .ok (vs, tail) :=
  specDecodeDBA_conf sp ss ps vs tail hsp hss hpv hp hsv h31

/-- DELTA_BYTE_ARRAY, portable Go decoder (`DecodeByteArray`, and `DecodeFixedLenByteArray` which
runs the same loop and returns the concatenation). -/
theorem conformant_dba_go (sp ss : ConfStream 32) (ps : List Nat) (vs : List (List Nat)) (tail : List Nat)
    (hsp : sp.OK) (hss : ss.OK) (hpv : sp.values = ps.map (BitVec.ofNat 32))
    (hp : prefixesOK [] ps vs) (hsv : ss.values = lensOf (cutSuffixes ps vs))
    (h31 : ∀ v ∈ vs, v.length < 2 ^ 31)
    (hb1 : sp.blockSize ≤ 65536) (ht1 : sp.total < 2 ^ 31) (hb2 : ss.blockSize ≤ 65536) (ht2 : ss.total < 2 ^ 31) :
    goDecodeDBA (sp.bytes ++ (ss.bytes ++ ((cutSuffixes ps vs).flatten ++ tail))) = .ok vs :=
  goDecodeDBA_conf sp ss ps vs tail hsp hss hpv hp hsv h31 hb1 ht1 hb2 ht2

/-- DELTA_BYTE_ARRAY as the default (assembly) build decodes it: the mirror of `DecodeByteArray` with
the amd64 Go wrapper (PqModel/DeltaAmd64.lean; AVX2 kernels by contract) returns the values of
every conformant stream that ends with its suffix bytes, as the values section of a data page does. -/
theorem conformant_dba_go_amd64 (sp ss : ConfStream 32) (ps : List Nat) (vs : List (List Nat))
    (hsp : sp.OK) (hss : ss.OK) (hpv : sp.values = ps.map (BitVec.ofNat 32))
    (hp : prefixesOK [] ps vs) (hsv : ss.values = lensOf (cutSuffixes ps vs))
    (h31 : ∀ v ∈ vs, v.length < 2 ^ 31)
    (hb1 : sp.blockSize ≤ 65536) (ht1 : sp.total < 2 ^ 31) (hb2 : ss.blockSize ≤ 65536) (ht2 : ss.total < 2 ^ 31) :
    goDecodeDBAamd64 (sp.bytes ++ (ss.bytes ++ (cutSuffixes ps vs).flatten)) = .ok vs := by
  have h := goDecodeDBA_conf sp ss ps vs [] hsp hss hpv hp hsv h31 hb1 ht1 hb2 ht2
  simp only [List.append_nil] at h
  have h1 := goDecode_conf (Or.inl rfl) sp (ss.bytes ++ (cutSuffixes ps vs).flatten) hsp hb1 ht1
  have h2 := goDecode_conf (Or.inl rfl) ss ((cutSuffixes ps vs).flatten) hss hb2 ht2
  obtain ⟨_, hsn⟩ := natLens_ok (natLens_lensOf (cutSuffixes ps vs) (cutSuffixes_lt vs ps h31))
  refine goDecodeDBAamd64_eq _ _ _ _ _ vs h1 h2 h ?_
  rw [hsv, ← hsn, List.length_flatten]

/-- FIXED_LEN_BYTE_ARRAY(size) through DELTA_BYTE_ARRAY as the default (assembly) build decodes it:
the mirror of `DecodeFixedLenByteArray` with the amd64 Go wrapper of `decodeFixedLenByteArray`
(kernels by contract) returns the values of every conformant stream whose values have `size` bytes
(prefix length + suffix length = size at every position) and that ends with its suffix bytes. -/
theorem conformant_flba_go_amd64 (size : Nat) (sp ss : ConfStream 32) (ps : List Nat) (vs : List (List Nat))
    (hsp : sp.OK) (hss : ss.OK) (hpv : sp.values = ps.map (BitVec.ofNat 32))
    (hp : prefixesOK [] ps vs) (hsv : ss.values = lensOf (cutSuffixes ps vs))
    (h31 : ∀ v ∈ vs, v.length < 2 ^ 31)
    (hsz : allSize size (sp.values.map BitVec.toNat) (ss.values.map BitVec.toNat))
    (hb1 : sp.blockSize ≤ 65536) (ht1 : sp.total < 2 ^ 31) (hb2 : ss.blockSize ≤ 65536) (ht2 : ss.total < 2 ^ 31) :
    goDecodeFLBAamd64 size (sp.bytes ++ (ss.bytes ++ (cutSuffixes ps vs).flatten)) = .ok vs := by
  have h := goDecodeDBA_conf sp ss ps vs [] hsp hss hpv hp hsv h31 hb1 ht1 hb2 ht2
  simp only [List.append_nil] at h
  have h1 := goDecode_conf (Or.inl rfl) sp (ss.bytes ++ (cutSuffixes ps vs).flatten) hsp hb1 ht1
  have h2 := goDecode_conf (Or.inl rfl) ss ((cutSuffixes ps vs).flatten) hss hb2 ht2
  obtain ⟨_, hsn⟩ := natLens_ok (natLens_lensOf (cutSuffixes ps vs) (cutSuffixes_lt vs ps h31))
  refine goDecodeFLBAamd64_eq size _ _ _ _ _ vs h1 h2 h hsz ?_
  rw [hsv, ← hsn, List.length_flatten]

/-- prefixes 0, 1 (the longest shared prefix of the second value would be 2) for `ab cd`, `ab cd ef` -/
example : prefixesOK [] [0, 1] [[0xab, 0xcd], [0xab, 0xcd, 0xef]] ∧
    cutSuffixes [0, 1] [[0xab, 0xcd], [0xab, 0xcd, 0xef]] = [[0xab, 0xcd], [0xcd, 0xef]] := by decide

/-- what "shared prefix" means: the value is rebuilt from the previous one -/
theorem prefixes_rebuild (vs : List (List Nat)) (ps : List Nat) (h : prefixesOK [] ps vs) :
    joinPrefix [] ps (cutSuffixes ps vs) = .ok vs :=
  joinPrefix_any vs ps [] h

end PqModel.Props.C04DeltaConf
