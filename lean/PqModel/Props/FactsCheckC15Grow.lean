import PqModel.Generated.Facts

/-! # C15 — source-level fact: in internal/memory a put is the last touch

`Generated/Facts.lean` is rewritten by `tools/factgen` (family `poolputs`) from the current source on
every run: for every `putSliceToPool(x, ..)` / `<pool>.Put(x)` in internal/memory, whether a
statement that runs later in the same function still names the object or storage that aliases it
(name-based forward walk over go/ast; the invariant `b.data` aliases `b.slice.data` of SliceBuffer
is assumed on entry). `Props/C15Grow.slicebuffer_grow_exclusive` needs exactly this of every
ending of a storage generation (`disc`: no touch after the put). With seed C15-7a applied the row of
reserve's growth branch reads
`("SliceBuffer.reserve", "putSliceToPool(oldSlice, elemSize)", true, "b.slice.data = append(b.slice.data, b.data...)")`.
The analysis is trusted (AST level, no types, does not follow calls). -/
namespace PqModel.Props.FactsCheckC15Grow
open PqModel.Generated.Facts

/-- no function of internal/memory touches an object, or storage aliasing it, after handing it to a
    pool -/
theorem memory_put_is_last_touch : memoryPutSites.all (fun r => !r.2.2.1) = true := by decide

/-- the put sites of the reviewed source (the endings mirrored by `PoolGrow.ending`, the chunk
    buffer's Reset, and the two layers of the pool itself): a new one changes the table and must be
    given a program in the pool model -/
def expectedPutSites : List (String × String) := [
  ("ChunkBuffer.Reset", "slicePools[bucketIndex].Put(b.chunks[i])"),
  ("Pool.Put", "p.pool.Put(v)"),
  ("SliceBuffer.reserve", "putSliceToPool(b.slice, elemSize)"),
  ("SliceBuffer.reserve", "putSliceToPool(oldSlice, elemSize)"),
  ("SliceBuffer.AppendFunc", "putSliceToPool(b.slice, int(unsafe.Sizeof(*new(T))))"),
  ("SliceBuffer.Reset", "putSliceToPool(b.slice, elemSize)"),
  ("putSliceToPool", "slicePools[bucketIndex].Put(byteSlice)")]

theorem memory_put_sites_expected :
    memoryPutSites.map (fun r => (r.1, r.2.1)) = expectedPutSites := by decide

end PqModel.Props.FactsCheckC15Grow
