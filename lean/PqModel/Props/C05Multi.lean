import PqModel.Props.C05
import PqModel.StatsMulti

/-! # C05, round 4: the boundary order claimed by the column index of several row groups (`MultiRowGroup`)

MIRRORS: `multiAsc`/`multiDesc` (+ `ascSeams`/`descSeams`) of the REPAIRED
`(*multiColumnIndex).IsAscending/IsDescending` (multi_row_group.go), `multiAsc_before_fix`/`multiDesc_before_fix`
of the code before the repair. SPEC: `multiPages` (the members' pages one after the other) and "sorted" as
`Pairwise` over the entries of the non-null pages (the reader's view, as in `boundaryOrder_sound`). -/
namespace PqModel.Props.C05
open PqModel PqModel.Stats

/-- A claimed order of the combined index is TRUE: if every member chunk that claims an order has bounds that take
    part in the column order with `min ≤ max` (what `pageBounds_bound` + the NaN guard of the indexers give) and its
    own claim is true of its non-null pages (`boundaryOrder_sound*`), then `IsAscending()` of the
    `multiColumnIndex` implies that the mins and the maxs of ALL non-null pages of the view are ascending, and
    `IsDescending()` that they are descending — any number of members, members without pages, members made of
    null pages only anywhere, null pages at the borders. -/
theorem multiOrder_sound {α} {o : ColOrder α} (h : Lawful o) (cs : List (MChunk α))
    (hok : ∀ c ∈ cs, (c.asc = true ∨ c.desc = true) →
      ∀ p ∈ pairsOf c.pages, o.ok p.1 = true ∧ o.ok p.2 = true ∧ o.lt p.2 p.1 = false)
    (hasc : ∀ c ∈ cs, c.asc = true →
      (nonNullMins c.pages).Pairwise (fun a b => o.lt b a = false) ∧
      (nonNullMaxs c.pages).Pairwise (fun a b => o.lt b a = false))
    (hdesc : ∀ c ∈ cs, c.desc = true →
      (nonNullMins c.pages).Pairwise (fun a b => o.lt a b = false) ∧
      (nonNullMaxs c.pages).Pairwise (fun a b => o.lt a b = false)) :
    (multiAsc o cs = true →
      (nonNullMins (multiPages cs)).Pairwise (fun a b => o.lt b a = false) ∧
      (nonNullMaxs (multiPages cs)).Pairwise (fun a b => o.lt b a = false)) ∧
    (multiDesc o cs = true →
      (nonNullMins (multiPages cs)).Pairwise (fun a b => o.lt a b = false) ∧
      (nonNullMaxs (multiPages cs)).Pairwise (fun a b => o.lt a b = false)) := by
  have hflat : pairsOf (multiPages cs) = ((cs.map (fun c => pairsOf c.pages))).flatten := by
    simp only [multiPages, pairsOf_flatten, List.map_map]; rfl
  constructor
  · intro hm
    simp only [multiAsc, Bool.and_eq_true, List.all_eq_true] at hm
    obtain ⟨⟨_, hall⟩, hseams⟩ := hm
    have := ascSeams_sound h (cs.map (fun c => pairsOf c.pages)) none
      (by
        intro l hl p hp
        obtain ⟨c, hc, rfl⟩ := List.mem_map.mp hl
        exact hok c hc (Or.inl (hall c hc)) p hp)
      (by
        intro l hl
        obtain ⟨c, hc, rfl⟩ := List.mem_map.mp hl
        have := hasc c hc (hall c hc)
        rwa [nonNullMins_eq, nonNullMaxs_eq] at this)
      hseams
    rw [nonNullMins_eq, nonNullMaxs_eq, hflat]
    exact ⟨this.1, this.2.1⟩
  · intro hm
    simp only [multiDesc, Bool.and_eq_true, List.all_eq_true] at hm
    obtain ⟨⟨_, hall⟩, hseams⟩ := hm
    rw [descSeams_eq_flip] at hseams
    -- the descending loop is the ascending loop of the flipped order over the swapped entries
    have hs' : ascSeams o.flip.lt none
        ((cs.map (fun c => pairsOf c.pages)).map (fun l => l.map (Prod.swap (α := α) (β := α)))) = true := hseams
    have := ascSeams_sound h.flip _ none
      (by
        intro l hl p hp
        obtain ⟨l', hl', rfl⟩ := List.mem_map.mp hl
        obtain ⟨c, hc, rfl⟩ := List.mem_map.mp hl'
        obtain ⟨q, hq, rfl⟩ := List.mem_map.mp hp
        have := hok c hc (Or.inr (hall c hc)) q hq
        exact ⟨this.2.1, this.1, this.2.2⟩)
      (by
        intro l hl
        obtain ⟨l', hl', rfl⟩ := List.mem_map.mp hl
        obtain ⟨c, hc, rfl⟩ := List.mem_map.mp hl'
        have := hdesc c hc (hall c hc)
        rw [nonNullMins_eq, nonNullMaxs_eq] at this
        simp only [List.map_map]
        exact ⟨this.2, this.1⟩)
      hs'
    rw [nonNullMins_eq, nonNullMaxs_eq, hflat]
    have hsw : ∀ L : List (List (α × α)), (L.map (fun l => l.map Prod.swap)).flatten = L.flatten.map Prod.swap := by
      intro L
      induction L with
      | nil => rfl
      | cons l rest ih => simp only [List.map_cons, List.flatten_cons, List.map_append, ih]
    rw [hsw, List.map_map, List.map_map] at this
    exact ⟨this.2.1, this.1⟩

-- non-vacuity: two ascending members that line up, a member of null pages only in between, null pages at the border
example : multiAsc (sint 32)
    [⟨[some (0#32, 5#32), some (10#32, 50#32), none], true, false⟩, ⟨[none, none], true, false⟩,
     ⟨[none, some (50#32, 51#32), some (60#32, 61#32)], true, false⟩] = true := by decide
example : multiDesc (sint 32)
    [⟨[some (10#32, 12#32), some (8#32, 9#32)], false, true⟩, ⟨[some (1#32, 8#32), some (0#32, 0#32)], false, true⟩] = true := by
  decide

/-- Members written by the numeric indexers (`indexOrder`: null pages stored as `z`, no claim when a stored bound is
    NaN): the only hypothesis left is that each recorded entry has `min ≤ max` (true of `Bounds()` by
    `pageBounds_bound`). -/
theorem multiOrder_sound_writer {α} {o : ColOrder α} (h : Lawful o) (z : α) (members : List (List (Option (α × α))))
    (hmm : ∀ pages ∈ members, ∀ p ∈ pairsOf pages, o.lt p.2 p.1 = false) :
    let cs := members.map (fun pages => (⟨pages, indexOrder o z pages == 1, indexOrder o z pages == 2⟩ : MChunk α))
    (multiAsc o cs = true →
      (nonNullMins members.flatten).Pairwise (fun a b => o.lt b a = false) ∧
      (nonNullMaxs members.flatten).Pairwise (fun a b => o.lt b a = false)) ∧
    (multiDesc o cs = true →
      (nonNullMins members.flatten).Pairwise (fun a b => o.lt a b = false) ∧
      (nonNullMaxs members.flatten).Pairwise (fun a b => o.lt a b = false)) := by
  intro cs
  have hpages : multiPages cs = members.flatten := by
    simp [cs, multiPages, Function.comp_def]
  have key := multiOrder_sound h cs
    (by
      intro c hc hclaim p hp
      obtain ⟨pages, hpg, rfl⟩ := List.mem_map.mp hc
      -- a claim is made only when every stored bound takes part in the order
      have hguard : ((storedMins z pages).all o.ok && (storedMaxs z pages).all o.ok) = true := by
        cases hg : ((storedMins z pages).all o.ok && (storedMaxs z pages).all o.ok) with
        | true => rfl
        | false =>
          have h0 : indexOrder o z pages = 0 := by simp only [indexOrder, hg]; rfl
          simp only [h0] at hclaim
          rcases hclaim with hclaim | hclaim <;> exact absurd hclaim (by decide)
      simp only [Bool.and_eq_true, List.all_eq_true] at hguard
      have hmem : some p ∈ pages := by
        simpa [pairsOf, List.mem_filterMap] using hp
      refine ⟨hguard.1 p.1 ?_, hguard.2 p.2 ?_, hmm pages hpg p hp⟩
      · exact List.mem_map.mpr ⟨some p, hmem, rfl⟩
      · exact List.mem_map.mpr ⟨some p, hmem, rfl⟩)
    (by
      intro c hc hclaim
      obtain ⟨pages, _, rfl⟩ := List.mem_map.mp hc
      exact (boundaryOrder_sound h z pages).1 (by simpa using hclaim))
    (by
      intro c hc hclaim
      obtain ⟨pages, _, rfl⟩ := List.mem_map.mp hc
      exact (boundaryOrder_sound h z pages).2 (by simpa using hclaim))
  rw [hpages] at key
  exact key

example : indexOrder (sint 32) 0#32 [some (0#32, 5#32), some (10#32, 50#32)] = 1 ∧
    indexOrder (sint 32) 0#32 [some (50#32, 51#32), some (60#32, 61#32)] = 1 := by decide

/-- Members indexed by the BYTE_ARRAY indexer with ANY size limit (entries truncated, `orderOfBytes` over the
    truncated entries, null pages stored as the empty string): a claim of the view is true of the TRUNCATED
    entries a reader sees. Hypotheses: the exact bounds are byte strings with `min ≤ max`. -/
theorem multiOrder_sound_bytes (lim : Nat) (members : List (List (Option (List Nat × List Nat))))
    (hb : ∀ pages ∈ members, ∀ p ∈ pairsOf pages, (∀ x ∈ p.2, x ≤ 255) ∧ Trunc.lexLe p.1 p.2 = true) :
    let cs := members.map (fun pages =>
      (⟨recordedBytes lim pages, bytesIndexOrder lim pages == 1, bytesIndexOrder lim pages == 2⟩ : MChunk (List Nat)))
    (multiAsc bytes cs = true →
      (nonNullMins (multiPages cs)).Pairwise (fun a b => lexLt b a = false) ∧
      (nonNullMaxs (multiPages cs)).Pairwise (fun a b => lexLt b a = false)) ∧
    (multiDesc bytes cs = true →
      (nonNullMins (multiPages cs)).Pairwise (fun a b => lexLt a b = false) ∧
      (nonNullMaxs (multiPages cs)).Pairwise (fun a b => lexLt a b = false)) := by
  intro cs
  refine multiOrder_sound bytes_lawful cs ?_ ?_ ?_
  · intro c hc _ p hp
    obtain ⟨pages, hpg, rfl⟩ := List.mem_map.mp hc
    -- p is the truncation of an exact entry q of the member
    have : ∃ q ∈ pairsOf pages, p = (truncMinLim q.1 lim, truncMaxLim q.2 lim) := by
      simp only [pairsOf, recordedBytes, List.mem_filterMap, List.mem_map, id] at hp ⊢
      obtain ⟨a, ⟨b, hbm, rfl⟩, hap⟩ := hp
      cases b with
      | none => simp at hap
      | some q => exact ⟨q, ⟨some q, hbm, rfl⟩, by simpa using hap.symm⟩
    obtain ⟨q, hq, rfl⟩ := this
    obtain ⟨hbytes, hle⟩ := hb pages hpg q hq
    refine ⟨rfl, rfl, ?_⟩
    have h1 : Trunc.lexLe (truncMinLim q.1 lim) q.1 = true := by
      unfold truncMinLim; split
      · exact truncMin_le _ _
      · exact (lexLe_total q.1 q.1).elim id id
    have h2 : Trunc.lexLe q.2 (truncMaxLim q.2 lim) = true := by
      unfold truncMaxLim; split
      · exact truncMax_ge _ _ hbytes
      · exact (lexLe_total q.2 q.2).elim id id
    have := lexLe_trans _ _ _ (lexLe_trans _ _ _ h1 hle) h2
    simp [bytes, lexLt, this]
  · intro c hc hclaim
    obtain ⟨pages, _, rfl⟩ := List.mem_map.mp hc
    have := (boundaryOrder_sound_bytes lim pages).1 (by simpa using hclaim)
    rwa [nonNullOf_bytesIndexMins, nonNullOf_bytesIndexMaxs] at this
  · intro c hc hclaim
    obtain ⟨pages, _, rfl⟩ := List.mem_map.mp hc
    have := (boundaryOrder_sound_bytes lim pages).2 (by simpa using hclaim)
    rwa [nonNullOf_bytesIndexMins, nonNullOf_bytesIndexMaxs] at this

-- limit 2: "abc".."abz" | "ac".."b" are recorded as "ab".."ac" | "ac".."b" and line up
example : bytesIndexOrder 2 [some ([97, 98, 99], [97, 98, 122]), some ([97, 98, 122], [97, 98, 122, 1])] = 1 ∧
    multiAsc bytes [⟨recordedBytes 2 [some ([97, 98, 99], [97, 98, 122]), some ([97, 98, 122], [97, 98, 122, 1])], true, false⟩,
      ⟨recordedBytes 2 [some ([97, 99], [98]), some ([98], [98, 1])], true, false⟩] = true := by decide

/-- Regression fact (the library before the repair): `IsDescending` compared the FIRST non-null page of a member
    with the LAST one of the next, so members (10,12)(1,2) | (8,9)(0,0) — each descending — were claimed descending
    as a whole although the mins 10,1,8,0 are not. The repaired mirror refuses the claim. -/
theorem multiDesc_before_fix_unsound :
    let cs : List (MChunk (BitVec 32)) :=
      [⟨[some (10#32, 12#32), some (1#32, 2#32)], false, true⟩, ⟨[some (8#32, 9#32), some (0#32, 0#32)], false, true⟩]
    multiDesc_before_fix (sint 32) cs = true ∧
    ¬ (nonNullMins (multiPages cs)).Pairwise (fun a b => (sint 32).lt a b = false) ∧
    multiDesc (sint 32) cs = false := by
  refine ⟨by decide, ?_, by decide⟩
  intro hp
  have := (List.pairwise_cons.mp (List.pairwise_cons.mp hp).2).1 8#32 (by decide)
  exact absurd this (by decide)

/-- Regression fact: both flags compared ADJACENT members only and skipped a pair when one side had no non-null
    page, so a member made of null pages only (which claims ASCENDING itself) hid the border between its
    neighbours: (5,9)(10,20) | null,null | (0,1)(2,3) was claimed ascending. -/
theorem multiAsc_before_fix_blind_across_null_chunk :
    let cs : List (MChunk (BitVec 32)) :=
      [⟨[some (5#32, 9#32), some (10#32, 20#32)], true, false⟩, ⟨[none, none], true, false⟩,
       ⟨[some (0#32, 1#32), some (2#32, 3#32)], true, false⟩]
    multiAsc_before_fix (sint 32) cs = true ∧
    ¬ (nonNullMins (multiPages cs)).Pairwise (fun a b => (sint 32).lt b a = false) ∧
    multiAsc (sint 32) cs = false := by
  refine ⟨by decide, ?_, by decide⟩
  intro hp
  have := (List.pairwise_cons.mp hp).1 0#32 (by decide)
  exact absurd this (by decide)

/-- The seeded slip C05-4a / C06-3a (seam compared on the MIN of the last page): with a seam loop that carries the
    min instead of the max, members (0,5)(10,50) | (20,30)(35,60) pass although the maxs 5,50,30,60 are not
    ascending; the mirror of the real loop refuses them. (The slip itself is `border_check_on_min_misses` in C06.) -/
theorem multiAsc_seam_needs_max :
    let cs : List (MChunk (BitVec 32)) :=
      [⟨[some (0#32, 5#32), some (10#32, 50#32)], true, false⟩, ⟨[some (20#32, 30#32), some (35#32, 60#32)], true, false⟩]
    multiAsc (sint 32) cs = false ∧
    ¬ (nonNullMaxs (multiPages cs)).Pairwise (fun a b => (sint 32).lt b a = false) := by
  refine ⟨by decide, ?_⟩
  intro hp
  have := (List.pairwise_cons.mp (List.pairwise_cons.mp hp).2).1 30#32 (by decide)
  exact absurd this (by decide)

end PqModel.Props.C05
