import PqModel.LogicalTime

/-! # C01 — `time.Time` leaves: TIMESTAMP and DATE conversions round-trip

For every unit, every stored INT64 leaf is rebuilt into an instant that writes back to the same 64
bits (`timestamp_leaf_exact`), and every instant whose unit count fits `int64` — for MILLIS and
MICROS that is every `time.Time` Go can hold in years 1..9999 — reads back as itself cut down to the
unit (`timestamp_read_write`), hence unchanged exactly when it is a whole number of units
(`timestamp_exact_iff`). Same for DATE (`date_leaf_exact`, `date_read_write`, `date_day_holds`).
The read conversion before the round-4 repair violates this (`timestamp_old_violation`), and so did
`daysSinceUnixEpoch` (`date_old_violation`): found by the L1 oracle of sub-check `logical`. -/
namespace PqModel.Props.C01Logical
open PqModel.LogicalTime

theorem perSec_nanos (u : TUnit) : u.perSec * u.nanos = 1000000000 := by cases u <;> rfl

/-- **Leaf exactness**: whatever 64 bits a TIMESTAMP column holds, the instant the reader builds
    from them converts back to the same bits. -/
theorem timestamp_leaf_exact (u : TUnit) (v : BitVec 64) : toUnit u (ofUnit u v) = v := by
  have key : unitsOf u (ofUnit u v) = v.toInt := by
    cases u <;> simp only [unitsOf, ofUnit, TUnit.perSec, TUnit.nanos] <;> omega
  simp only [toUnit, key, BitVec.ofInt_toInt]
example : toUnit .milli (ofUnit .milli (-1#64)) = -1#64 := by decide

/-- **Read after write**: an instant whose unit count fits `int64` reads back as the instant cut
    down to the unit. -/
theorem timestamp_read_write (u : TUnit) (t : Instant) (hwf : t.nsec < 1000000000)
    (hlo : -(2 ^ 63) ≤ unitsOf u t) (hhi : unitsOf u t < 2 ^ 63) :
    ofUnit u (toUnit u t) = floorTo u t := by
  have hti : (toUnit u t).toInt = unitsOf u t := by
    simp only [toUnit]
    rw [BitVec.toInt_ofInt]
    have : (unitsOf u t).bmod (2 ^ 64) = unitsOf u t := by
      apply Int.bmod_eq_of_le <;> omega
    exact this
  simp only [ofUnit, hti, floorTo]
  cases u <;> simp only [unitsOf, TUnit.perSec, TUnit.nanos, Instant.mk.injEq] <;> (constructor <;> omega)
/-- 3000-01-02T03:04:05Z -/
def year3000 : Instant := ⟨32503777445, 0⟩
example : year3000.nsec < 1000000000 ∧ -(2 ^ 63) ≤ unitsOf .milli year3000 ∧ unitsOf .milli year3000 < 2 ^ 63 := by
  simp only [year3000, unitsOf, TUnit.perSec, TUnit.nanos]; omega

/-- every instant of the years 1..9999 (`-62135596800 ≤ sec ≤ 253402300799`) fits MILLIS and MICROS -/
theorem go_time_range_fits (u : TUnit) (hu : u ≠ .nano) (t : Instant) (hwf : t.nsec < 1000000000)
    (hlo : -62135596800 ≤ t.sec) (hhi : t.sec ≤ 253402300799) :
    -(2 ^ 63) ≤ unitsOf u t ∧ unitsOf u t < 2 ^ 63 := by
  cases u <;> simp only [unitsOf, TUnit.perSec, TUnit.nanos, ne_eq, not_true_eq_false] at hu ⊢ <;> omega
example : (-62135596800 : Int) ≤ 32503777445 ∧ (32503777445 : Int) ≤ 253402300799 := by decide

/-- the instant survives unchanged exactly when it is a whole number of units -/
theorem timestamp_exact_iff (u : TUnit) (t : Instant) (hwf : t.nsec < 1000000000)
    (hlo : -(2 ^ 63) ≤ unitsOf u t) (hhi : unitsOf u t < 2 ^ 63) :
    ofUnit u (toUnit u t) = t ↔ t.nsec % u.nanos = 0 := by
  rw [timestamp_read_write u t hwf hlo hhi]
  obtain ⟨s, n⟩ := t
  simp only [floorTo, Instant.mk.injEq, true_and]
  cases u <;> simp only [TUnit.nanos] <;> omega
example : (123456000 : Nat) % TUnit.nanos .micro = 0 := by decide

/-- **Violation before the repair** (`time.Unix(0, v * unit)`): 3000-01-02T03:04:05Z on a
    TIMESTAMP(MILLIS) column is stored correctly and read back as an instant in 1830; 2300-01-01 on
    MICROS likewise. -/
theorem timestamp_old_violation :
    ofUnitOld .milli (toUnit .milli ⟨32503777445, 0⟩) = ⟨-4389710703, 580896768⟩ ∧
    ofUnit .milli (toUnit .milli ⟨32503777445, 0⟩) = ⟨32503777445, 0⟩ ∧
    ofUnitOld .micro (toUnit .micro ⟨10413792000, 0⟩) ≠ ⟨10413792000, 0⟩ := by decide

/-! ## DATE -/

/-- whatever 32 bits a DATE column holds, the instant built from them converts back to them -/
theorem date_leaf_exact (d : BitVec 32) : toDays (ofDays d) = d := by
  have : dayOf (ofDays d) = d.toInt := by simp only [dayOf, ofDays]; omega
  simp only [toDays, this, BitVec.ofInt_toInt]
example : toDays (ofDays (-1#32)) = -1#32 := by decide

/-- an instant whose day fits `int32` reads back as the midnight (UTC) of its day … -/
theorem date_read_write (t : Instant) (hlo : -(2 ^ 31) ≤ dayOf t) (hhi : dayOf t < 2 ^ 31) :
    ofDays (toDays t) = ⟨dayOf t * 86400, 0⟩ := by
  have hti : (toDays t).toInt = dayOf t := by
    simp only [toDays]
    rw [BitVec.toInt_ofInt]
    have : (dayOf t).bmod (2 ^ 32) = dayOf t := by
      apply Int.bmod_eq_of_le <;> omega
    exact this
  simp only [ofDays, hti]

/-- … which holds the instant: before the epoch too (floor, not truncation) -/
theorem date_day_holds (t : Instant) : dayOf t * 86400 ≤ t.sec ∧ t.sec < dayOf t * 86400 + 86400 := by
  simp only [dayOf]; omega
example : dayOf ⟨-43200, 0⟩ = -1 ∧ -(2 ^ 31) ≤ dayOf ⟨-43200, 0⟩ ∧ dayOf ⟨-43200, 0⟩ < 2 ^ 31 := by decide

/-- **Violation before the repair** (`int(t.Sub(unixEpoch).Hours()) / 24`): 1969-12-31T12:00Z
    (−12 h) is day 0 instead of −1 (truncation), 2300-01-01 (2 892 720 h) is day 106 751 =
    2262-04-11 instead of 120 530 (`Sub` saturates). -/
theorem date_old_violation :
    toDaysOldHours (-12) = 0 ∧ dayOf ⟨-12 * 3600, 0⟩ = -1 ∧
    toDaysOldHours 2892720 = 106751 ∧ dayOf ⟨2892720 * 3600, 0⟩ = 120530 := by decide

end PqModel.Props.C01Logical
