import PqModel.SeekForeign

/-! # C08, foreign chunk layouts: a dictionary page met again is stepped over by its compressed size

The index-less `SeekToRow` of a chunk without `dictionary_page_offset` rewinds the stream to the
chunk start (`data_page_offset` is the dictionary page), and so does `ReadDictionary()` before the
first `ReadPage` (it reads through a reader of its own). The next `ReadPage` must decode the header
of the first data page. -/
namespace PqModel.Props.C08Foreign
open PqModel.Layout PqModel.SeekForeign

/-- **dict_page_met_again.** For every chunk laid out from `start` (any pages: a dictionary page
    first, none, or several), whether or not the dictionary is cached, the loop of
    `readPageInSequence` started on the first byte of the chunk decodes the header of the page it
    returns exactly where the first data page is (`specLocs`), returns a data page, and leaves the
    decoder on the first byte behind that page; at the end of a chunk without data pages it reports
    the end. -/
theorem dict_page_met_again (cached : Bool) (start : Nat) (ps : List PageOp) :
    (nextPage .compressed cached start ps).map (·.1) = ((specLocs start 0 ps).head?).map (·.offset) ∧
    ∀ r, nextPage .compressed cached start ps = some r → r.2.1.isDict = false ∧ r.2.2 = r.1 + r.2.1.size :=
  ⟨nextPage_offset cached start 0 ps, fun r h => nextPage_after .compressed cached start ps r h⟩

/-- a snappy-style chunk written at offset 4: the dictionary page body is 7 bytes compressed, 20
    uncompressed -/
def demo : List PageOp := [
  { isDict := true, hdrLen := 3, bodyLen := 7, uncompLen := 20, numValues := 0, numRows := 0 },
  { isDict := false, hdrLen := 2, bodyLen := 10, uncompLen := 30, numValues := 10, numRows := 10 },
  { isDict := false, hdrLen := 2, bodyLen := 10, uncompLen := 30, numValues := 10, numRows := 10 }]

example : (nextPage .compressed true 4 demo).map (·.1) = some 14 := by decide
example : ((specLocs 4 0 demo).head?).map (·.offset) = some 14 := by decide

/-- **dict_skip_uncompressed_refuted.** The variant that hands `UncompressedPageSize` to `Discard`
    decodes the next header 13 bytes too far on `demo`: not on a page start. -/
theorem dict_skip_uncompressed_refuted :
    (nextPage .uncompressed true 4 demo).map (·.1) ≠ ((specLocs 4 0 demo).head?).map (·.offset) := by decide

/-- **dict_skip_fields_agree.** On chunks whose dictionary pages are stored uncompressed the variant
    is indistinguishable from the code: the slip needs a codec that changes the size. -/
theorem dict_skip_fields_agree (cached : Bool) (start : Nat) (ps : List PageOp)
    (h : ∀ p ∈ ps, p.isDict = true → p.uncompLen = p.bodyLen) :
    nextPage .uncompressed cached start ps = nextPage .compressed cached start ps :=
  skip_fields_agree cached start ps h

example : ∀ p ∈ PqModel.SeekBytes.demo, p.isDict = true → p.uncompLen = p.bodyLen := by decide

end PqModel.Props.C08Foreign
