import PqModel.SortBytesFound

/-! # C10 — `byteArrayColumnBuffer.page()` as found: exactly the empty values fool it

Model: `PqModel/SortBytesFound.lean`. The defect repaired in round 4 (`page()` decided on the order of
the offsets whether the value bytes had to be rewritten in row order) is characterised from both
sides: a witness with an empty value (`bytearray_page_as_found_rows_not_intact`, `Props/C10Bytes.lean`)
and, here, correctness of the code AS FOUND on every history that writes no empty value. -/
namespace PqModel.Props.C10
open PqModel.SortBuf

/-- **code as found, no empty value written**: for every history of NON-EMPTY value writes, `Swap`s
    and (as-found) `page()` calls, the buffer's invariant holds, the rows hold what the list
    semantics says, and the page handed out by the as-found `page()` lists exactly these values in
    row order. So the defect needs an empty value next to a non-empty one — which no test of the
    library's suite (and no generator of this check before round 4) ever sorted. -/
theorem bytearray_as_found_correct_without_empty_values {B : Type} (ops : List (BAOp B))
    (hne : ∀ v, BAOp.write v ∈ ops → v ≠ []) :
    let c := ops.foldl BACol.stepFound BACol.empty
    c.BInv ∧ c.view = ops.foldl baSpecStep [] ∧ c.pageFound.pageValues = ops.foldl baSpecStep [] := by
  intro c
  have h0 : (BACol.empty : BACol B).Good := ⟨BACol.binv_empty, BACol.laid_empty, by intro l hl; simp [BACol.empty] at hl⟩
  obtain ⟨hg, hv⟩ := BACol.runFound_spec ops hne BACol.empty h0
  have he : (BACol.empty : BACol B).view = [] := rfl
  rw [he] at hv
  exact ⟨hg.inv, hv, by rw [BACol.pageFound_spec_of_nonempty hg.inv hg.laid hg.pos]; exact hv⟩

example : (([.write [1, 2], .write [3], .swap 0 1, .page, .write [4], .swap 0 2] : List (BAOp Nat)).foldl
    BACol.stepFound BACol.empty).pageFound.pageValues = [[4], [1, 2], [3]] := by decide

/-- the layout fact behind it: a rearrangement of a back-to-back layout of non-empty values whose
    offsets are in non-decreasing order IS the back-to-back layout (the offsets are then pairwise
    distinct, and two sorted rearrangements of the same pairs are equal) -/
theorem bytearray_sorted_offsets_are_contiguous {B : Type} {c : BACol B} (h : c.BInv) (hl : c.Laid)
    (hpos : ∀ l ∈ c.lengths, 0 < l) (hs : c.offsets.Pairwise (· ≤ ·)) :
    contigFrom 0 c.offsets c.lengths = true :=
  BACol.contig_of_sorted_offsets h hl hpos hs

example : ∃ c : BACol Nat, c.BInv ∧ c.Laid ∧ (∀ l ∈ c.lengths, 0 < l) ∧ c.offsets.Pairwise (· ≤ ·) :=
  ⟨(BACol.empty.write [1, 2]).write [3],
   BACol.binv_write (BACol.binv_write BACol.binv_empty _) _,
   BACol.laid_write (BACol.binv_write BACol.binv_empty _) (BACol.laid_write BACol.binv_empty BACol.laid_empty _) _,
   by decide, by decide⟩

end PqModel.Props.C10
