import PqModel.DictReset
import PqModel.Props.C04Plain

/-! # C04 (part "plain", round 4) — dictionaries reused across row groups

One dictionary object serves every row group a column writer produces: `Reset` between two row
groups, then `Insert` again. The property needs: what a row group's dictionary page and indexes are
depends on that row group's values only — "insert after Reset = insert into an empty dictionary" —
for EVERY dictionary type and every history of earlier row groups.

* `*_session_refines_spec`: for every sequence of `Insert` / `Reset` calls (any batches, any cut of a
  batch into chunks, any number of resets) the MIRROR of each Go dictionary state machine hands out
  the indexes and holds the page of the SPEC session (entries in first-occurrence order, `Reset`
  makes the dictionary empty).
* `reset_forgets`: on any machine refining the SPEC, the calls after a `Reset` answer as they do on a
  fresh empty dictionary; `generation_roundtrip`: the page after them is the first occurrences of
  that generation's values, and looking the handed-out indexes up in it gives the values back.
* the `Reset` of each family must clear its lookup accelerator: the variants that keep it hand out
  indexes of the previous row group (`*_keeping_*_is_wrong`; the fixed-len byte array one is the
  mechanism of seeded change C04-4b). -/
namespace PqModel.Props.C04DictReset
open PqModel.Plain PqModel.DictReset

section
variable {α : Type} [DecidableEq α]

/-! ## the Go state machines are the SPEC session -/

/-- int32/int64/float/double/uint32/uint64/be128 (`hashprobe` table, chunked insert): every session
    from a dictionary created over a duplicate-free page (empty for a writer) -/
theorem probe_session_refines_spec (page : List α) (h : page.Nodup) (ops : List (Op α)) :
    (probeMachine.run (probeNew page) ops).1.values = (specRun id page ops).1 ∧
    (probeMachine.run (probeNew page) ops).2 = (specRun id page ops).2 :=
  (run_refines probe_refines ops (probeNew page) (probeNew_inv page h)).2
example : ([3, 1, 2] : List Nat).Nodup := by decide

/-- fixed-len byte array and int96 (`byLen = false`), byte array (`byLen = true`): Go maps -/
theorem map_session_refines_spec (byLen : Bool) (page : List α) (h : page.Nodup) (ops : List (Op α)) :
    ((mapMachine byLen).run (mapNew page) ops).1.values = (specRun id page ops).1 ∧
    ((mapMachine byLen).run (mapNew page) ops).2 = (specRun id page ops).2 :=
  (run_refines (map_refines byLen) ops (mapNew page) (mapNew_inv page h)).2
example : ([] : List Nat).Nodup := by decide

end

/-- boolean: the SPEC insert first makes sure both values have an entry (`ensureBools`) -/
theorem bool_session_refines_spec (ops : List (Op Bool)) :
    (boolMachine.run boolNew ops).1.values = (specRun ensureBools [] ops).1 ∧
    (boolMachine.run boolNew ops).2 = (specRun ensureBools [] ops).2 :=
  (run_refines bool_refines ops boolNew boolNew_inv).2

section
variable {α : Type} [DecidableEq α]

/-! ## insert after Reset = insert into an empty dictionary -/

/-- SPEC level: whatever came before a `Reset` (and whatever the dictionary was created with) has no
    influence on the calls after it -/
theorem spec_reset_forgets (ensure : List α → List α) (d : List α) (pre post : List (Op α)) :
    specRun ensure d (pre ++ .reset :: post) =
      ((specRun ensure [] post).1, (specRun ensure d pre).2 ++ [] :: (specRun ensure [] post).2) := by
  rw [specRun_append]
  rfl

/-- on every machine that refines the SPEC: after any history `pre` from any good state `s`, a
    `Reset` followed by `post` gives the page and the indexes that `post` gives on a fresh empty
    dictionary `s0` -/
theorem reset_forgets {σ : Type} {m : Machine σ α} {ensure : List α → List α} {I : σ → Prop}
    (h : m.Refines ensure I) (s s0 : σ) (hs : I s) (hs0 : I s0) (h0 : m.values s0 = [])
    (pre post : List (Op α)) :
    m.values (m.run s (pre ++ .reset :: post)).1 = m.values (m.run s0 post).1 ∧
    (m.run s (pre ++ .reset :: post)).2 = (m.run s pre).2 ++ [] :: (m.run s0 post).2 := by
  obtain ⟨_, a1, a2⟩ := run_refines h (pre ++ .reset :: post) s hs
  obtain ⟨_, b1, b2⟩ := run_refines h post s0 hs0
  obtain ⟨_, _, c2⟩ := run_refines h pre s hs
  rw [a1, a2, b1, b2, c2, h0, spec_reset_forgets]
  exact ⟨rfl, rfl⟩

/-- the three instances, stated on the mirrors -/
theorem probe_insert_after_reset (page : List α) (h : page.Nodup) (pre post : List (Op α)) :
    (probeMachine.run (probeNew page) (pre ++ .reset :: post)).1.values
      = (probeMachine.run (probeNew []) post).1.values ∧
    (probeMachine.run (probeNew page) (pre ++ .reset :: post)).2
      = (probeMachine.run (probeNew page) pre).2 ++ [] :: (probeMachine.run (probeNew []) post).2 :=
  reset_forgets probe_refines _ _ (probeNew_inv page h) (probeNew_inv [] (by simp)) rfl pre post

theorem map_insert_after_reset (byLen : Bool) (page : List α) (h : page.Nodup) (pre post : List (Op α)) :
    ((mapMachine byLen).run (mapNew page) (pre ++ .reset :: post)).1.values
      = ((mapMachine byLen).run (mapNew []) post).1.values ∧
    ((mapMachine byLen).run (mapNew page) (pre ++ .reset :: post)).2
      = ((mapMachine byLen).run (mapNew page) pre).2 ++ [] :: ((mapMachine byLen).run (mapNew []) post).2 :=
  reset_forgets (map_refines byLen) _ _ (mapNew_inv page h) (mapNew_inv [] (by simp)) rfl pre post

/-- a reset-free generation on a fresh empty dictionary (identity `ensure`): the page is the first
    occurrences of the generation's values, and the indexes handed out, looked up in that page, are
    the values — for any cut into Insert calls and chunks -/
theorem generation_roundtrip {σ : Type} {m : Machine σ α} {I : σ → Prop}
    (h : m.Refines id I) (s0 : σ) (hs0 : I s0) (h0 : m.values s0 = [])
    (gen : List (Op α)) (hg : noReset gen = true) :
    m.values (m.run s0 gen).1 = (batchesOf gen).eraseDups ∧
    (m.run s0 gen).2.flatten.map ((m.values (m.run s0 gen).1)[·]?) = (batchesOf gen).map some := by
  obtain ⟨_, b1, b2⟩ := run_refines h gen s0 hs0
  obtain ⟨n1, n2⟩ := specRun_noReset gen (m.values s0) hg
  rw [b1, b2, n1, n2, h0]
  refine ⟨?_, ?_⟩
  · rw [insertAll_eraseDups _ [] (by simp), List.nil_append]
  · exact C04Plain.dict_insert_lookup [] _ (batchesOf gen) _ rfl
example : noReset [Op.insert [[1, 2], [2]], Op.insert [[3]]] = true := by decide

/-- so the row group written after any history of earlier row groups round-trips (probe family) -/
theorem probe_row_group_after_reset_roundtrip (page : List α) (h : page.Nodup)
    (pre gen : List (Op α)) (hg : noReset gen = true) :
    let fresh := probeMachine.run (probeNew ([] : List α)) gen
    (probeMachine.run (probeNew page) (pre ++ .reset :: gen)).1.values = (batchesOf gen).eraseDups ∧
    (probeMachine.run (probeNew page) (pre ++ .reset :: gen)).2
      = (probeMachine.run (probeNew page) pre).2 ++ [] :: fresh.2 ∧
    fresh.2.flatten.map (((batchesOf gen).eraseDups)[·]?) = (batchesOf gen).map some := by
  obtain ⟨a1, a2⟩ := probe_insert_after_reset page h pre gen
  obtain ⟨g1, g2⟩ := generation_roundtrip probe_refines (probeNew ([] : List α))
    (probeNew_inv [] (by simp)) rfl gen hg
  simp only [probeMachine] at a1 a2 g1 g2 ⊢
  exact ⟨by rw [a1, g1], a2, by rw [← g1]; exact g2⟩

/-- the same for the Go-map dictionaries (fixed-len byte array, int96, byte array) -/
theorem map_row_group_after_reset_roundtrip (byLen : Bool) (page : List α) (h : page.Nodup)
    (pre gen : List (Op α)) (hg : noReset gen = true) :
    let fresh := (mapMachine byLen).run (mapNew ([] : List α)) gen
    ((mapMachine byLen).run (mapNew page) (pre ++ .reset :: gen)).1.values = (batchesOf gen).eraseDups ∧
    ((mapMachine byLen).run (mapNew page) (pre ++ .reset :: gen)).2
      = ((mapMachine byLen).run (mapNew page) pre).2 ++ [] :: fresh.2 ∧
    fresh.2.flatten.map (((batchesOf gen).eraseDups)[·]?) = (batchesOf gen).map some := by
  obtain ⟨a1, a2⟩ := map_insert_after_reset byLen page h pre gen
  obtain ⟨g1, g2⟩ := generation_roundtrip (map_refines byLen) (mapNew ([] : List α))
    (mapNew_inv [] (by simp)) rfl gen hg
  simp only [mapMachine] at a1 a2 g1 g2 ⊢
  exact ⟨by rw [a1, g1], a2, by rw [← g1]; exact g2⟩

end

/-- boolean: the calls after a Reset answer as on a fresh dictionary -/
theorem bool_insert_after_reset (pre post : List (Op Bool)) :
    (boolMachine.run boolNew (pre ++ .reset :: post)).1.values = (boolMachine.run boolNew post).1.values ∧
    (boolMachine.run boolNew (pre ++ .reset :: post)).2
      = (boolMachine.run boolNew pre).2 ++ [] :: (boolMachine.run boolNew post).2 :=
  reset_forgets bool_refines _ _ boolNew_inv boolNew_inv rfl pre post

/-! ## every `Reset` must clear its lookup accelerator

The same machines with a `Reset` that empties the page only. Row group 1 holds the values 1, 2; row
group 2 holds 3, 1. -/

/-- VIOLATION witness on the variant (mechanism of seeded change C04-4b, fixed-len byte array and
    int96): the map still sends 1 to index 0, where the new row group's page holds 3 -/
theorem flba_reset_keeping_hashmap_is_wrong :
    let r := (mapMachineKeepingMap false).run (mapNew ([] : List Nat))
      [.insert [[1, 2]], .reset, .insert [[3, 1]]]
    r.2 = [[0, 1], [], [0, 0]] ∧ r.1.values = [3] ∧ r.1.values[0]? ≠ some 1 := by
  decide

/-- and a value of the earlier row group alone gets an index past the end of the new page -/
theorem flba_reset_keeping_hashmap_index_out_of_range :
    let r := (mapMachineKeepingMap false).run (mapNew ([] : List Nat))
      [.insert [[1, 2, 3]], .reset, .insert [[3]]]
    r.2 = [[0, 1, 2], [], [2]] ∧ r.1.values = [] := by
  decide

/-- the real `Reset` on the same calls -/
theorem flba_reset_is_right :
    let r := (mapMachine false).run (mapNew ([] : List Nat)) [.insert [[1, 2]], .reset, .insert [[3, 1]]]
    r.2 = [[0, 1], [], [0, 1]] ∧ r.1.values = [3, 1] := by
  decide

/-- byte array: a map that keeps its keys numbers the new value by its stale size -/
theorem byte_array_reset_keeping_map_is_wrong :
    let r := (mapMachineKeepingMap true).run (mapNew ([] : List Nat))
      [.insert [[1, 2]], .reset, .insert [[3, 1]]]
    r.2 = [[0, 1], [], [2, 0]] ∧ r.1.values = [3] := by
  decide

/-- hashprobe family without `d.table.Reset()`: 3 is numbered 2 and never stored, the page holds 1 -/
theorem probe_reset_keeping_table_is_wrong :
    let r := probeMachineKeepingTable.run (probeNew ([] : List Nat))
      [.insert [[1, 2]], .reset, .insert [[3, 1]]]
    r.2 = [[0, 1], [], [2, 0]] ∧ r.1.values = [1] := by
  decide

/-- boolean dictionary keeping its cached indexes: index 1 into an empty page -/
theorem bool_reset_keeping_table_is_wrong :
    let r := boolMachineKeepingTable.run boolNew [.insert [[true]], .reset, .insert [[true]]]
    r.2 = [[1], [], [1]] ∧ r.1.values = [] := by
  decide

end PqModel.Props.C04DictReset
