import PqModel.ThriftSkipProofs
import PqModel.ThriftSkipFuel

/-! C14, truncated and damaged footers: property theorems about the MIRROR of the footer decoder's
    structure walk (`PqModel.ThriftSkip`: `compactBytesReader` + `skipStruct` of encoding/thrift) and
    about `OpenFile`'s tail reading with that walk plugged in (`openWalk`). -/
namespace PqModel.Props.C14Footer
open PqModel.IoFault PqModel.ThriftSkip

/-- the walk at a fixed fuel, from offset 0 -/
theorem walk_rel (d : Bytes) (f m : Nat) :
    Rel 0 m (skipT d f (.fields true) 0) (skipT (d.take m) f (.fields true) 0) :=
  skipT_rel d m f _ 0

theorem skipStruct_ok_iff (d : Bytes) (e : Nat) :
    skipStruct d = .ok e ↔ skipT d (fuelFor d) (.fields true) 0 = .ok ((), e) := by
  unfold skipStruct
  split
  · rename_i u p h; rw [h]; constructor
    · intro h'; cases h'; rfl
    · intro h'; cases h'; rfl
  · rename_i e' h; rw [h]; constructor <;> intro h' <;> cases h'

/-- **walk_cut_rejected.** If the decoder's structure walk accepts `d` as a struct that ends at
offset `e`, it rejects `d` cut anywhere before `e`: every proper prefix of a compact-thrift struct
encoding is an error, whatever follows the struct in `d`. No hypothesis on `d` (any bytes, any
nesting of lists, sets, maps and structs, any varint lengths). -/
theorem walk_cut_rejected (d : Bytes) (e m : Nat) (h : skipStruct d = .ok e) (hm : m < e) :
    ∃ err, skipStruct (d.take m) = .error err := by
  rw [skipStruct_ok_iff] at h
  cases h' : skipStruct (d.take m) with
  | error err => exact ⟨err, rfl⟩
  | ok e' =>
    exfalso
    rw [skipStruct_ok_iff] at h'
    have hf : fuelFor (d.take m) ≤ fuelFor d := by
      unfold fuelFor; rw [List.length_take]; omega
    have h2 := skipT_fuel_mono (d.take m) (.fields true) 0 hf _ h'
    obtain ⟨_, h3⟩ := walk_rel d (fuelFor d) m () e h
    obtain ⟨err, h4, _⟩ := (h3 (Nat.zero_le _)).2 hm
    rw [h4] at h2
    cases h2

/-- **walk_cut_class.** At any fixed fuel, the error a cut produces is one of the two end-of-input
classes (`io.EOF` / `io.ErrUnexpectedEOF`): the cut run reads the same bytes and takes the same
branches as the whole run up to the cut, so no range / overflow / type check can fire. -/
theorem walk_cut_class (d : Bytes) (f e m : Nat) (h : skipT d f (.fields true) 0 = .ok ((), e)) (hm : m < e) :
    skipT (d.take m) f (.fields true) 0 = .error .eof ∨ skipT (d.take m) f (.fields true) 0 = .error .ueof := by
  obtain ⟨err, h4, hc⟩ := ((walk_rel d f m () e h).2 (Nat.zero_le _)).2 hm
  rcases hc with hc | hc <;> subst hc
  · exact Or.inl h4
  · exact Or.inr h4

/-- at a fixed fuel the walk is local: bytes after the end of the struct do not matter, a cut at or
after the end changes nothing -/
theorem walk_local (d : Bytes) (f e m : Nat) (h : skipT d f (.fields true) 0 = .ok ((), e)) (hm : e ≤ m) :
    skipT (d.take m) f (.fields true) 0 = .ok ((), e) :=
  ((walk_rel d f m () e h).2 (Nat.zero_le _)).1 hm

/-- **walk_never_out_of_fuel.** The fuel of the model (`4·|d| + 16`) is never exhausted: the mirror's
answer is that of the unbounded recursion. -/
theorem walk_never_out_of_fuel (d : Bytes) : skipStruct d ≠ .error .fuel := skipStruct_nofuel d

theorem skipStruct_take_fuel (d : Bytes) (m : Nat) :
    skipT (d.take m) (fuelFor d) (.fields true) 0 = skipT (d.take m) (fuelFor (d.take m)) (.fields true) 0 :=
  skipStruct_eq_of_fuel (d.take m) (fuelFor d) (by unfold fuelFor; rw [List.length_take]; omega)

/-- **walk_cut_eof.** The cut of an accepted struct is rejected with `io.EOF` or
`io.ErrUnexpectedEOF`, nothing else. -/
theorem walk_cut_eof (d : Bytes) (e m : Nat) (h : skipStruct d = .ok e) (hm : m < e) :
    skipStruct (d.take m) = .error .eof ∨ skipStruct (d.take m) = .error .ueof := by
  rw [skipStruct_ok_iff] at h
  have hc := walk_cut_class d (fuelFor d) e m h hm
  rw [skipStruct_take_fuel] at hc
  unfold skipStruct
  rcases hc with hc | hc <;> rw [hc]
  · exact Or.inl rfl
  · exact Or.inr rfl

/-- **walk_cut_after.** A cut at or after the end of the struct changes nothing: the bytes that
follow a struct play no part in its acceptance. -/
theorem walk_cut_after (d : Bytes) (e m : Nat) (h : skipStruct d = .ok e) (hm : e ≤ m) :
    skipStruct (d.take m) = .ok e := by
  rw [skipStruct_ok_iff] at h ⊢
  rw [← skipStruct_take_fuel]
  exact walk_local d (fuelFor d) e m h hm

/-- an accepted struct is not empty and ends inside the input -/
theorem walk_end_bounds (d : Bytes) (e : Nat) (h : skipStruct d = .ok e) : 0 < e ∧ e ≤ d.length := by
  rw [skipStruct_ok_iff] at h
  constructor
  · apply Nat.pos_of_ne_zero
    intro h0
    subst h0
    obtain ⟨_, h3⟩ := walk_rel d (fuelFor d) 0 () 0 h
    have h4 := (h3 (Nat.le_refl _)).1 (Nat.le_refl _)
    simp [fuelFor, skipT, seq, readField, readByte] at h4
  · apply Nat.le_of_not_lt
    intro hlt
    obtain ⟨_, h3⟩ := walk_rel d (fuelFor d) d.length () e h
    obtain ⟨err, h4, _⟩ := (h3 (Nat.zero_le _)).2 hlt
    rw [List.take_length] at h4
    rw [h4] at h
    cases h

/-- **encoding_prefix_rejected.** `enc` is a complete struct encoding (the walk accepts it and ends
at its last byte): every strict prefix is rejected. -/
theorem encoding_prefix_rejected (enc : Bytes) (h : skipStruct enc = .ok enc.length) (m : Nat)
    (hm : m < enc.length) : ∃ err, skipStruct (enc.take m) = .error err :=
  walk_cut_rejected enc enc.length m h hm

/-- the walk never reads the thrift input as complete when it ends inside a value: the errors a cut
produces are the end-of-input classes or a check that failed on bytes before the cut — never a
success. Stated for the open path: a footer section that holds a proper prefix of an accepted struct
makes `footerWalk` fail with a thrift error. -/
theorem footerWalk_cut (enc : Bool) (ft : Bytes) (e m : Nat) (h : skipStruct ft = .ok e) (hm : m < e) :
    footerWalk enc (ft.take m) = .error (.thrift .eof) ∨ footerWalk enc (ft.take m) = .error (.thrift .ueof) := by
  unfold footerWalk
  rcases walk_cut_eof ft e m h hm with he | he <;> rw [he]
  · exact Or.inl rfl
  · exact Or.inr rfl

theorem le32_le32Bytes (n : Nat) (h : n < 4294967296) : le32 (le32Bytes n) = n := by
  unfold le32 le32Bytes
  simp only [UInt8.toNat_ofNat']
  omega

theorem openModel_fileWith (enc : Bool) (pre ft : Bytes) (hpre : 4 ≤ pre.length)
    (hmag : isMagic (pre.take 4) enc = true) (hlen : ft.length < 4294967296) :
    openModel enc (fileWith pre ft) = .ok ft := by
  have hl : (le32Bytes ft.length).length = 4 := rfl
  have hm : magicPAR1.length = 4 := rfl
  have hlenf : (fileWith pre ft).length = pre.length + ft.length + 8 := by
    simp [fileWith, hl, hm]; omega
  have htail : (fileWith pre ft).drop ((fileWith pre ft).length - 8) = le32Bytes ft.length ++ magicPAR1 := by
    rw [hlenf]
    have : pre.length + ft.length + 8 - 8 = (pre ++ ft).length := by simp
    unfold fileWith
    rw [this, List.append_assoc (pre ++ ft), List.drop_left]
  have hhead : (fileWith pre ft).take 4 = pre.take 4 := by
    unfold fileWith
    rw [List.append_assoc, List.append_assoc, List.take_append_of_le_length hpre]
  unfold openModel openWith
  rw [if_neg (by omega), hhead, hmag]
  simp only [Bool.not_true, Bool.false_eq_true, if_false]
  rw [if_neg (by omega), htail]
  have h4 : (le32Bytes ft.length ++ magicPAR1).drop 4 = magicPAR1 := rfl
  have h5 : (le32Bytes ft.length ++ magicPAR1).take 4 = le32Bytes ft.length := rfl
  rw [h4, h5, le32_le32Bytes _ hlen]
  have hfm : isFooterMagic magicPAR1 = true := by decide
  simp only [hfm, Bool.not_true, Bool.false_eq_true, if_false]
  rw [if_neg (by omega), hlenf]
  have : pre.length + ft.length + 8 - 8 - ft.length = pre.length := by omega
  rw [this]
  unfold fileWith
  rw [List.append_assoc, List.append_assoc, List.drop_left, List.take_left]

/-- **cut_footer_rejected.** Take any file whose footer section holds a struct the walk accepts in
full (`skipStruct ft = ok |ft|`), cut the footer anywhere (`k < |ft|`) and patch the announced length
to the cut: the open path reaches the decoder (magic, length and bounds all pass) and the decoder
rejects with an end-of-input error. With `prefix_rejected` (C14.lean: a file cut anywhere fails the trailer stage unless its
tail is again `len‖magic`) this covers both ways of truncating a file. -/
theorem cut_footer_rejected (enc : Bool) (pre ft : Bytes) (hpre : 4 ≤ pre.length)
    (hmag : isMagic (pre.take 4) enc = true) (hlen : ft.length < 4294967296)
    (hft : skipStruct ft = .ok ft.length) (k : Nat) (hk : k < ft.length) :
    openWalk enc (fileWith pre (ft.take k)) = .error (.thrift .eof) ∨
      openWalk enc (fileWith pre (ft.take k)) = .error (.thrift .ueof) := by
  have he := footerWalk_cut enc ft ft.length k hft hk
  unfold openWalk
  rw [openModel_fileWith enc pre (ft.take k) hpre hmag (by rw [List.length_take]; omega)]
  exact he

/-- an accepted file holds all of the footer it announces: the bytes handed to the decoder are
exactly `len` bytes long -/
theorem open_footer_length (enc : Bool) (f ft : Bytes) (h : openModel enc f = .ok ft) :
    ft.length = le32 ((f.drop (f.length - 8)).take 4) ∧ ft.length + 8 ≤ f.length := by
  unfold openModel openWith at h
  split at h
  · cases h
  · split at h
    · cases h
    · split at h
      · cases h
      · simp only at h
        split at h
        · cases h
        · split at h
          · cases h
          · cases h
            rw [List.length_take, List.length_drop]
            omega

/-- **short_file_rejected.** The magic/length/bounds guards reject every file shorter than the
footer it announces plus the 8-byte trailer, whatever its bytes. -/
theorem short_file_rejected (enc : Bool) (f : Bytes)
    (h : f.length < le32 ((f.drop (f.length - 8)).take 4) + 8) :
    ∃ e, openModel enc f = .error e := by
  cases hr : openModel enc f with
  | error e => exact ⟨e, rfl⟩
  | ok ft =>
    exfalso
    have := open_footer_length enc f ft hr
    omega

/-! ## the hypotheses are satisfiable, the statements are not vacuous -/

/-- FileMetaData-shaped: `{1: i32 1, 2: list<struct>[{4: "a"}], 3: i64 0, 4: list<struct>[]}` -/
def tinyFooter : Bytes := [0x15, 0x02, 0x19, 0x1C, 0x48, 0x01, 0x61, 0x00, 0x16, 0x00, 0x19, 0x0C, 0x00]

example : skipStruct tinyFooter = .ok tinyFooter.length := by decide
example : ∀ m, m < tinyFooter.length → (skipStruct (tinyFooter.take m)).toBool = false := by decide
example : openWalk false (fileWith magicPAR1 tinyFooter) = .ok 13 := by decide
example : openWalk false (fileWith magicPAR1 (tinyFooter.take 7)) = .error (.thrift .ueof) := by decide
example : openWalk false (fileWith magicPAR1 []) = .error (.thrift .eof) := by decide
/-- trailing bytes after the struct: rejected unless they are 28 bytes and keys were given -/
example : openWalk false (fileWith magicPAR1 (tinyFooter ++ [0])) = .error (.trailing 1) := by decide
/-- damage other than a cut meets the other classes: an 11-byte varint, an i16 out of range, a type
code the decoder does not know -/
example : skipStruct [0x16, 0x80, 0x80, 0x80, 0x80, 0x80, 0x80, 0x80, 0x80, 0x80, 0x02, 0x00] = .error .overflow ∧
    skipStruct [0x14, 0xFF, 0xFF, 0x0F, 0x00] = .error .range ∧ skipStruct [0x1E, 0x00] = .error .badType := by decide
/-- a struct can end on a delta header whose type nibble is STOP (compact.go:507-509 then
decode.go:795): `0x10` closes the struct like `0x00` does — as in the code -/
example : skipStruct [0x15, 0x02, 0x10] = .ok 3 := by decide

end PqModel.Props.C14Footer
