import PqModel.Reset

/-! # C17 — output bytes are a function of input and options only

The file bytes are produced from the writer state by the (deterministic) page / footer model of
C01; what can make two writes of the same rows differ is the STATE the writer starts from. The
theorems below are about that state: after `Reset`, a writer that lived through ANY history of
Write / Flush / Close / SetKeyValueMetadata / Reset — with arbitrary per-column effects, failed
flushes, failed footers — is observationally a fresh writer. `observe` is everything the next
file's bytes depend on (slices read through the shared heap).

The one field the code keeps across `Reset` on purpose is `w.metadata` (`SetKeyValueMetadata`
edits the list the `KeyValueMetadata` option initialises; `writer.reset` does not touch it): the
theorems say "fresh writer with the metadata list the old one had" and, for histories without
`SetKeyValueMetadata`, "fresh writer".

Mirrors: `asIs` = the code before the repairs of F10 (in-place `Reset` of committed row groups
clears `columnPath` / `w.sortingColumns` arrays the live writer shares), F24 (the retained plain
fallback buffer keeps abandoned rows) and F25 (page statistics of an empty byte string read the
nil-ness of the column buffer's backing array, which Reset keeps allocated) and F26 (the live
column chunk's bloom filter length is not cleared); `fixed` = the
repaired code; `current` = the library now. `observe M` is the observation for mirror `M`'s code. -/

namespace PqModel.Props.C17
open PqModel.Reset

/-- the states a writer of configuration `cfg` can be in: any history from a fresh writer -/
def history (M : Mirror) (cfg : Cfg) (ops : List Op) : Writer := run M cfg ops

/-- one INT64 column `a` (configuration of the header-failure example below) -/
def cfgHdr : Cfg := ⟨[⟨[[97]], 2, 0, [0], 0, 0⟩], [], []⟩

/-- **reset_equiv** for the repaired mirror: for every reachable state `s` (any history, also one
ending in an error), `observe (reset s)` is the observation of a fresh writer of the same
configuration that carries `s`'s metadata list. -/
theorem reset_equiv_fixed (cfg : Cfg) (ops : List Op) :
    observe fixed (resetWith fixed (history fixed cfg ops)) =
      observe fixed (initWith cfg (history fixed cfg ops).metadata) := by
  have h := run_invariant ops fixed fixed_good cfg (fun s => s.dedupeLastRow = [])
    (fun s op hs _ => dedupe_step fixed fixed_good s op hs)
    (fun s _ => fixed_heap s) (init cfg) ⟨rfl, rfl, init_allOK cfg⟩
  have hs : stableOf (history fixed cfg ops) = stableOf (init cfg) := h.2.1
  have hok : AllOK (history fixed cfg ops) := h.2.2
  rw [observe_resetWith fixed _ (fixed_heap _) (fun c hc => ⟨rfl, observed_resetFixed c (hok c hc)⟩) h.1,
    observe_initWith, hs]
  rfl

example : observe fixed (resetWith fixed (history fixed ⟨[⟨[[97]], 1, 8, [0, 3, 8], 0, 2⟩], [⟨0, true, false⟩], []⟩
    [.write 2 [{ ColVol.fresh ⟨⟨0, 1⟩, ⟨0, 3⟩, ⟨0, 1⟩, ⟨0, 3⟩, 1, 8, 1, 0, 2⟩ with
                  buffered := [5, 6], plainBuffered := [7], hasSwitchedToPlain := true, encoding := 0,
                  bufAllocated := true }],
     .sortChunk [9, 9], .close (.committed 100 [] [2]) true 180])) =
    observe fixed (init ⟨[⟨[[97]], 1, 8, [0, 3, 8], 0, 2⟩], [⟨0, true, false⟩], []⟩) := by decide

/-- without `SetKeyValueMetadata` in the history: exactly a fresh writer -/
theorem reset_equiv_fixed_fresh (cfg : Cfg) (ops : List Op) (h : ∀ op ∈ ops, Op.isSetKV op = false) :
    observe fixed (resetWith fixed (history fixed cfg ops)) = observe fixed (init cfg) := by
  rw [reset_equiv_fixed, history, run, metadata_run fixed ops h]
  rfl

example : ∀ op ∈ [Op.write 1 [], .closeHeaderFailed [] 3, .flush (.failed 3 [] 0), .close (.committed 9 [1] [1]) false 12, .reset],
    Op.isSetKV op = false := by decide

/-- a Close that fails while writing the file header (sink accepts fewer than 4 bytes, no write buffer)
leaves the pages the column writers have just cut in the writer — unlike every other failed Close,
which runs the row group reset — and Reset still returns a fresh writer's observation -/
example : (history fixed cfgHdr [.write 2 [{ ColVol.fresh ⟨⟨0, 1⟩, ⟨0, 1⟩, ⟨0, 1⟩, ⟨0, 1⟩, 2, 0, 2, 0, 0⟩ with buffered := [1, 2] }],
      .closeHeaderFailed [{ ColVol.fresh ⟨⟨0, 1⟩, ⟨0, 1⟩, ⟨0, 1⟩, ⟨0, 1⟩, 2, 0, 2, 0, 0⟩ with
        pageBuffer := some [7], numPages := 1, numRows := 2 }] 3]).cols.map (·.vol.numPages) = [1] ∧
    observe fixed (resetWith fixed (history fixed cfgHdr
      [.write 2 [{ ColVol.fresh ⟨⟨0, 1⟩, ⟨0, 1⟩, ⟨0, 1⟩, ⟨0, 1⟩, 2, 0, 2, 0, 0⟩ with buffered := [1, 2] }],
       .closeHeaderFailed [{ ColVol.fresh ⟨⟨0, 1⟩, ⟨0, 1⟩, ⟨0, 1⟩, ⟨0, 1⟩, 2, 0, 2, 0, 0⟩ with
        pageBuffer := some [7], numPages := 1, numRows := 2 }] 3])) = observe fixed (init cfgHdr) := by decide

/-- **reset_equiv**, the property for the library as it stands (`current` mirror, tied to the code
by the L2 `mirror` sub-check): every reachable state resets to a fresh writer's observation,
up to the metadata list the code keeps on purpose. -/
theorem reset_equiv (cfg : Cfg) (ops : List Op) :
    observe current (resetWith current (history current cfg ops)) =
      observe current (initWith cfg (history current cfg ops).metadata) :=
  reset_equiv_fixed cfg ops

/-- ... and for histories without `SetKeyValueMetadata`, exactly a fresh writer's. -/
theorem reset_equiv_fresh (cfg : Cfg) (ops : List Op) (h : ∀ op ∈ ops, Op.isSetKV op = false) :
    observe current (resetWith current (history current cfg ops)) = observe current (init cfg) :=
  reset_equiv_fixed_fresh cfg ops h

/-! ### the code before the repairs violates the property -/

/-- one INT64 column `a`, no sorting columns -/
def cfgA : Cfg := ⟨[⟨[[97]], 2, 0, [0], 0, 0⟩], [], []⟩
/-- one column `b`, declared sorting column (descending) -/
def cfgSorted : Cfg := ⟨[⟨[[98]], 6, 0, [0], 0, 0⟩], [⟨0, true, false⟩], []⟩
/-- a dictionary column `s` -/
def cfgDict : Cfg := ⟨[⟨[[115]], 6, 8, [0, 8], 0, 0⟩], [], []⟩

def wrote (st : ColStable) (rows : List Nat) : ColVol := { ColVol.fresh st with buffered := rows }

/-- F10: `write; close; reset` on the as-is mirror leaves `columnPath = [""]` -/
theorem reset_equiv_asIs_false_F10 :
    observe asIs (resetWith asIs (history asIs cfgA
      [.write 2 [wrote ⟨⟨0, 1⟩, ⟨0, 1⟩, ⟨0, 1⟩, ⟨0, 1⟩, 2, 0, 2, 0, 0⟩ [1, 2]],
       .close (.committed 100 [] [2]) true 180])) ≠ observe asIs (init cfgA) := by decide

/-- ... what the next file gets as `path_in_schema`: one empty string -/
theorem F10_path_is_empty_string :
    ((observe asIs (resetWith asIs (history asIs cfgA
      [.write 2 [wrote ⟨⟨0, 1⟩, ⟨0, 1⟩, ⟨0, 1⟩, ⟨0, 1⟩, 2, 0, 2, 0, 0⟩ [1, 2]],
       .close (.committed 100 [] [2]) true 180]))).cols.map (·.path)) = [[[]]] ∧
    ((observe asIs (init cfgA)).cols.map (·.path)) = [[[97]]] := by decide

/-- F10 needs a committed row group, not a completed Close: `write; flush; reset` suffices -/
theorem reset_equiv_asIs_false_F10_flush :
    observe asIs (resetWith asIs (history asIs cfgA
      [.write 2 [wrote ⟨⟨0, 1⟩, ⟨0, 1⟩, ⟨0, 1⟩, ⟨0, 1⟩, 2, 0, 2, 0, 0⟩ [1, 2]],
       .flush (.committed 100 [] [2])])) ≠ observe asIs (init cfgA) := by decide

/-- F10, second face: the declared sorting columns are zeroed (`clear(r.SortingColumns)`) -/
theorem reset_equiv_asIs_false_F10_sorting :
    (observe asIs (resetWith asIs (history asIs cfgSorted
      [.write 2 [wrote ⟨⟨0, 1⟩, ⟨0, 1⟩, ⟨0, 1⟩, ⟨0, 1⟩, 6, 0, 6, 0, 0⟩ [1, 2]],
       .close (.committed 100 [] [2]) true 180]))).sorting = [⟨0, false, false⟩] ∧
    (observe asIs (init cfgSorted)).sorting = [⟨0, true, false⟩] := by decide

/-- F24: a writer ABANDONED (no Flush, no Close) after a dictionary overflow keeps the rows of its
plain fallback buffer -/
theorem reset_equiv_asIs_false_F24 :
    observe asIs (resetWith asIs (history asIs cfgDict
      [.write 3 [{ wrote ⟨⟨0, 1⟩, ⟨0, 2⟩, ⟨0, 1⟩, ⟨0, 2⟩, 6, 8, 6, 0, 0⟩ [] with
                    hasSwitchedToPlain := true, onPlainBuffer := true, columnType := 6, encoding := 0,
                    plainBuffered := [49], numPages := 2, numRows := 2 }]])) ≠ observe asIs (init cfgDict) := by decide

/-- F25: any write that allocates a column buffer is remembered: an ABANDONED writer differs from
a fresh one in what `makePageStatistics` reads for an empty-string bound -/
theorem reset_equiv_asIs_false_F25 :
    observe asIs (resetWith asIs (history asIs cfgA
      [.write 1 [{ wrote ⟨⟨0, 1⟩, ⟨0, 1⟩, ⟨0, 1⟩, ⟨0, 1⟩, 2, 0, 2, 0, 0⟩ [1] with bufAllocated := true }]])) ≠
      observe asIs (init cfgA) := by decide

/-- F26: the bloom filter length recorded for the last row group of the previous file survives
(`write; close; reset` with a bloom-filtered column; the next file shows it when that column's
dictionary stays empty) -/
theorem reset_equiv_asIs_false_F26 :
    ((observe asIs (resetWith asIs (history asIs cfgDict
      [.write 2 [{ wrote ⟨⟨0, 1⟩, ⟨0, 2⟩, ⟨0, 1⟩, ⟨0, 2⟩, 6, 8, 6, 0, 0⟩ [1, 2] with bloomLength := 47 }],
       .flush (.failed 4 [] 1)]))).cols.map (·.vol.bloomLength)) = [47] := by decide

/-- the dedupe state of a SortingWriter (`DropDuplicatedRows`): `Reset` does not clear
`dedupe.lastRow`, so the property holds only because `sortAndWriteBufferedRows` clears it after
every chunk. For a variant of the code that carries the last row to the next chunk, the last row
of the previous file survives `Reset` (and the next file silently loses a leading equal row):
history `sort a chunk ending in row [9]; close; reset`. -/
theorem reset_equiv_false_dedupeCarry :
    observe dedupeCarry (resetWith dedupeCarry (history dedupeCarry cfgA
      [.write 2 [wrote ⟨⟨0, 1⟩, ⟨0, 1⟩, ⟨0, 1⟩, ⟨0, 1⟩, 2, 0, 2, 0, 0⟩ [1, 2]], .sortChunk [9],
       .close (.committed 100 [] [2]) true 180])) ≠ observe dedupeCarry (init cfgA) := by decide

/-- the geospatial accumulator of a GEOMETRY / GEOGRAPHY column: `Reset` (and the per-row-group
reset) must clear every flag. For a variant of the code whose accumulator reset leaves `hasM` set
(seeded change C17-4a) a writer that has seen a geometry with an M coordinate (mask 1+2+16+32+64)
differs from a fresh one after `write; close; reset` — the next chunk's bounding box carries an M
range [+Inf, -Inf] — and already after the flush inside one file. -/
theorem reset_equiv_false_geoKeepsHasM :
    observe geoKeepsHasM (resetWith geoKeepsHasM (history geoKeepsHasM cfgA
      [.write 2 [{ wrote ⟨⟨0, 1⟩, ⟨0, 1⟩, ⟨0, 1⟩, ⟨0, 1⟩, 2, 0, 2, 0, 0⟩ [1, 2] with geo := 115 }],
       .close (.committed 100 [] [2]) true 180])) ≠ observe geoKeepsHasM (init cfgA) ∧
    (history geoKeepsHasM cfgA
      [.write 2 [{ wrote ⟨⟨0, 1⟩, ⟨0, 1⟩, ⟨0, 1⟩, ⟨0, 1⟩, 2, 0, 2, 0, 0⟩ [1, 2] with geo := 115 }],
       .flush (.committed 100 [] [2])]).cols.map (·.vol.geo) = [16] ∧
    (history fixed cfgA
      [.write 2 [{ wrote ⟨⟨0, 1⟩, ⟨0, 1⟩, ⟨0, 1⟩, ⟨0, 1⟩, 2, 0, 2, 0, 0⟩ [1, 2] with geo := 115 }],
       .flush (.committed 100 [] [2])]).cols.map (·.vol.geo) = [0] := by decide

/-- the full-strength statement is false for the as-is mirror -/
theorem reset_equiv_asIs_false :
    ¬ ∀ (cfg : Cfg) (ops : List Op),
      observe asIs (resetWith asIs (history asIs cfg ops)) = observe asIs (initWith cfg (history asIs cfg ops).metadata) := by
  intro h
  exact reset_equiv_asIs_false_F10 (h cfgA _)

/-- **reset_equiv_asIs_partial**: on the as-is mirror the property holds for histories in which no
row group was committed (no Flush/Close that completed a row group) when, at the time of the
Reset, the plain fallback buffers are empty, no column buffer has been allocated and no bloom
filter length is recorded (so: for writers that were configured, closed empty, failed before
buffering, ... but never held rows).
-- OPEN (false, see `reset_equiv_asIs_false`, `_F24`, `_F25`, `_F26`): the same without the hypotheses. -/
theorem reset_equiv_asIs_partial (cfg : Cfg) (ops : List Op)
    (hc : ∀ op ∈ ops, Op.commits op = false)
    (hp : ∀ c ∈ (history asIs cfg ops).cols,
      c.vol.plainBuffered = [] ∧ c.vol.bufAllocated = false ∧ c.vol.bloomLength = 0) :
    observe asIs (resetWith asIs (history asIs cfg ops)) =
      observe asIs (initWith cfg (history asIs cfg ops).metadata) := by
  have h := run_invariant ops asIs asIs_good cfg (fun s => s.rowGroups = [] ∧ s.dedupeLastRow = [])
    (fun s op hs ho => ⟨rowGroups_step_noCommit asIs s op (hc op ho) hs.1, dedupe_step asIs asIs_good s op hs.2⟩)
    (fun s hs => by rw [hs.1]; rfl) (init cfg) ⟨⟨rfl, rfl⟩, rfl, init_allOK cfg⟩
  have hr : (history asIs cfg ops).rowGroups = [] := h.1.1
  have hs : stableOf (history asIs cfg ops) = stableOf (init cfg) := h.2.1
  have hok : AllOK (history asIs cfg ops) := h.2.2
  rw [observe_resetWith asIs _ (by rw [hr]; rfl)
      (fun c hc => ⟨rfl, observed_resetAsIs c (hok c hc) (hp c hc).1 (hp c hc).2.1 (hp c hc).2.2⟩) h.1.2,
    observe_initWith, hs]
  rfl

example : (∀ op ∈ [Op.write 2 [wrote ⟨⟨0, 1⟩, ⟨0, 1⟩, ⟨0, 1⟩, ⟨0, 1⟩, 2, 0, 2, 0, 0⟩ [1, 2]],
      .flush (.failed 40 [7] 1), .setKV [107] [118]], Op.commits op = false) ∧
    (∀ c ∈ (history asIs cfgA [Op.write 2 [wrote ⟨⟨0, 1⟩, ⟨0, 1⟩, ⟨0, 1⟩, ⟨0, 1⟩, 2, 0, 2, 0, 0⟩ [1, 2]],
      .flush (.failed 40 [7] 1), .setKV [107] [118]]).cols,
      c.vol.plainBuffered = [] ∧ c.vol.bufAllocated = false ∧ c.vol.bloomLength = 0) := by decide

/-! ### key/value metadata -/

/-- **kv_sorted**: the order of the footer's key/value metadata does not depend on the order in
which the configured map was iterated (or the options were given): whatever correct sort the
code uses, two permutations of the same pairs give the same list. Spec-side statement; the
comparison is `sortKeyValueMetadata`'s (key, then value, bytewise). -/
theorem kv_sorted (in1 in2 out1 out2 : List KV) (hin : in1.Perm in2)
    (p1 : out1.Perm in1) (s1 : out1.Pairwise (fun a b => leKV a b = true))
    (p2 : out2.Perm in2) (s2 : out2.Pairwise (fun a b => leKV a b = true)) : out1 = out2 :=
  List.Perm.eq_of_pairwise (fun a b _ _ h1 h2 => leKV_antisymm a b h1 h2) s1 s2
    ((p1.trans hin).trans p2.symm)

/-- the mirror's sort is such a sort -/
theorem sortKV_spec (kvs : List KV) :
    (sortKV kvs).Perm kvs ∧ (sortKV kvs).Pairwise (fun a b => leKV a b = true) :=
  ⟨sortKV_perm kvs, sortKV_sorted kvs⟩

/-- so the metadata list a new writer starts with is a function of the SET of configured pairs -/
theorem kv_sorted_mirror (in1 in2 : List KV) (hin : in1.Perm in2) : cfgMetadata in1 = cfgMetadata in2 :=
  kv_sorted in1 in2 _ _ hin (sortKV_spec in1).1 (sortKV_spec in1).2 (sortKV_spec in2).1 (sortKV_spec in2).2

example : cfgMetadata [⟨[98], [1]⟩, ⟨[97], [2]⟩, ⟨[97, 0], [3]⟩] = cfgMetadata [⟨[97, 0], [3]⟩, ⟨[98], [1]⟩, ⟨[97], [2]⟩] ∧
    cfgMetadata [⟨[98], [1]⟩, ⟨[97], [2]⟩, ⟨[97, 0], [3]⟩] = [⟨[97], [2]⟩, ⟨[97, 0], [3]⟩, ⟨[98], [1]⟩] := by decide

end PqModel.Props.C17
