import PqModel.C19Carrier
import PqModel.Props.C01Decimal

/-!
# C19, DECIMAL carriers: a typed_value slot is used only when the value round-trips through the carrier

* `carrier_round_trip`, `carrier_domain` (SPEC, from C01's `decimal_flba_read_write` / `decimal_flba_domain`):
  the n-byte big-endian two's complement exists exactly when `2*|x| < 256^n`, has n bytes and reads back as x.
* `typed_slot_round_trips` (MIRROR of `variantToParquetValue` / `parquetToVariantValue`, every carrier
  INT32 / INT64 / FLBA(n) / BYTE_ARRAY, every precision / scale): whenever the writer puts a decimal into
  the typed column, the leaf value has the carrier's shape and the reader gives back the same primitive
  (same width, same scale, same unscaled value). Contrapositive: what does not round-trip stays in `value`.
* `spec_choice_round_trips`: the carrier-aware choice (shred a decimal16 into FLBA(n ≤ 16) when it fits)
  is read back exactly by the reader mirror: the reader side already supports narrow carriers.
* `slip_breaks_round_trip`: seed C19-7a (`be[:n]`, the high-order end) violates it; `slip_same_at_16`:
  the slipped writer is the real one wherever the existing suite looks.
-/
namespace PqModel.Props.C19Carrier
open PqModel.Stats PqModel.LogicalDecimal PqModel.Variant PqModel.Variant.Carrier

theorem carrier_round_trip (n : Nat) (x : Int) (b : List Nat) (h : toCarrier n x = some b) :
    b.length = n ∧ IsBytes b ∧ ofCarrier b = x := by
  have hd : 2 * x.natAbs < 256 ^ n := by
    apply Classical.byContradiction
    intro hn
    have := (PqModel.Props.C01Decimal.decimal_flba_domain x n).mpr hn
    simp only [toCarrier] at h
    rw [this] at h; cases h
  have ⟨b', h1, h2, h3, h4⟩ := PqModel.Props.C01Decimal.decimal_flba_read_write x n hd
  simp only [toCarrier] at h
  rw [h1] at h
  cases h
  exact ⟨h2, h3, h4⟩
example : toCarrier 2 (-98765 % 1000) = some [0, 235] := by decide

theorem carrier_domain (n : Nat) (x : Int) : toCarrier n x = none ↔ ¬ 2 * x.natAbs < 256 ^ n :=
  PqModel.Props.C01Decimal.decimal_flba_domain x n
example : toCarrier 2 12345 = some [48, 57] ∧ toCarrier 1 12345 = none := by decide

/-- **the real writer: a decimal lands in the typed column only if the reader gives it back** -/
theorem typed_slot_round_trips (c : DecCol) (p : Prim) (v : CV) (h : decToCol false c p = some v) :
    wellTyped c v = true ∧ decOfCol c v = some p := by
  cases p <;> simp only [decToCol] at h <;> try cases h
  case dec4 sc x =>
    cases hp : c.phys <;> simp only [hp] at h <;> try cases h
    split at h
    · rename_i hc
      cases h
      simp only [Bool.and_eq_true, decide_eq_true_eq] at hc
      simp [wellTyped, decOfCol, hp, hc.1]
    · cases h
  case dec8 sc x =>
    cases hp : c.phys <;> simp only [hp] at h <;> try cases h
    split at h
    · rename_i hc
      cases h
      simp only [Bool.and_eq_true, decide_eq_true_eq] at hc
      simp [wellTyped, decOfCol, hp, hc.1]
    · cases h
  case dec16 sc x =>
    split at h
    · rename_i hc
      simp only [Bool.and_eq_true, decide_eq_true_eq] at hc
      cases hp : c.phys <;> simp only [hp] at h
      case int32 => cases h
      case int64 => cases h
      case flba n =>
        simp only [Bool.false_eq_true, if_false] at h
        split at h
        · rename_i hn
          cases h
          subst hn
          simp [wellTyped, decOfCol, hp, be16_length, readDecimal_be16, hc.1]
        · cases h
      case ba =>
        cases h
        simp [wellTyped, decOfCol, hp, be16_length, readDecimal_be16, hc.1]
    · cases h
example : decToCol false ⟨.flba 16, 38, 2⟩ (.dec16 2 12345#128) ≠ none ∧
    decToCol false ⟨.flba 8, 18, 2⟩ (.dec16 2 12345#128) = none ∧
    decToCol false ⟨.int32, 9, 2⟩ (.dec4 2 12345#32) = some (.i32 12345#32) := by decide

/-- the carrier-aware choice is read back exactly: FLBA(n ≤ 16) holding the n-byte two's complement of a
    decimal16 reads as that decimal16 -/
theorem spec_choice_round_trips (c : DecCol) (n : Nat) (hn : n ≤ 16) (sc : UInt8) (x : BitVec 128) (b : List Nat)
    (h : specDec16Flba c n sc x = some b) :
    b.length = n ∧ decOfCol ⟨.flba n, c.prec, c.scale⟩ (.bytes b) = some (.dec16 sc x) := by
  simp only [specDec16Flba] at h
  split at h
  · rename_i hc
    simp only [Bool.and_eq_true, decide_eq_true_eq] at hc
    have ⟨hl, _, hv⟩ := carrier_round_trip n x.toInt b h
    refine ⟨hl, ?_⟩
    simp only [ofCarrier] at hv
    simp [decOfCol, hl, hn, hv, hc.1]
  · cases h
example : specDec16Flba ⟨.flba 8, 18, 2⟩ 8 2 (BitVec.ofInt 128 (-98765)) =
    some [255, 255, 255, 255, 255, 254, 126, 51] := by decide

/-- seed C19-7a: the high-order slice is stored, the value reads back as 0 -/
theorem slip_breaks_round_trip :
    decToCol true ⟨.flba 8, 18, 2⟩ (.dec16 2 12345#128) = some (.bytes [0, 0, 0, 0, 0, 0, 0, 0]) ∧
    decOfCol ⟨.flba 8, 18, 2⟩ (.bytes [0, 0, 0, 0, 0, 0, 0, 0]) = some (.dec16 2 0#128) ∧
    decToCol false ⟨.flba 8, 18, 2⟩ (.dec16 2 12345#128) = none := by decide

/-- ... and -98765 as -1 -/
theorem slip_breaks_round_trip_neg :
    (decToCol true ⟨.flba 8, 18, 2⟩ (.dec16 2 (BitVec.ofInt 128 (-98765)))).bind (decOfCol ⟨.flba 8, 18, 2⟩) =
      some (.dec16 2 (BitVec.ofInt 128 (-1))) := by decide

/-- the slipped writer differs from the real one on FLBA(n < 16) decimal16 only -/
theorem slip_same_at_16 (c : DecCol) (p : Prim) (h : ∀ n, c.phys = .flba n → 16 ≤ n) :
    decToCol true c p = decToCol false c p := by
  cases p <;> simp only [decToCol]
  case dec16 sc x =>
    split
    · cases hp : c.phys <;> simp only
      case flba n =>
        have := h n hp
        simp only [if_true, Bool.false_eq_true, if_false]
        by_cases h16 : n = 16
        · subst h16; simp [be16_length, List.take_of_length_le]
        · rw [if_neg (by omega), if_neg h16]
    · rfl
example : ∀ n, (DecCol.mk (.flba 16) 38 2).phys = .flba n → 16 ≤ n := by intro n h; cases h; omega

end PqModel.Props.C19Carrier
