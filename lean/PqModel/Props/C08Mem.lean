import PqModel.RowBufferRows

/-! # C08 — in-memory containers: the row reader of `RowBuffer[T]`

`rowBufferRows` against the reference reader of the property (a row counter over the rows the buffer
holds): a seek to any `k ≥ 0` — the end and beyond included — is accepted and leaves exactly
`rows.drop k` to be read; a read into `b` slots pops `take b` of what remains and reports EOF exactly
when nothing remains. The variant clamping at `len - 1` is refuted by `decide`. -/
namespace PqModel.Props.C08
open PqModel.RowBufferRows

/-- **rowbuffer_seek_refines.** From every open state, `SeekToRow k` with `k ≥ 0` succeeds, keeps the
    reader open and makes it deliver exactly `rows.drop k` (nothing for `k ≥ len(rows)`). -/
theorem rowbuffer_seek_refines {α} (s : St α) (h : Open s) (k : Int) (hk : 0 ≤ k) :
    (seek false s k).2 = .ok ∧ Open (seek false s k).1 ∧ (seek false s k).1.rows = s.rows ∧
      remaining (seek false s k).1 = s.rows.drop k.toNat := by
  obtain ⟨h0, h1⟩ := h
  have hk' : ¬ k < 0 := by omega
  have hi' : ¬ s.index < 0 := by omega
  simp only [RowBufferRows.seek, hk', hi', if_false, Bool.false_eq_true, remaining, Open]
  refine ⟨trivial, ?_, trivial, ?_⟩
  · split <;> omega
  · split
    · rename_i hgt
      have : s.rows.length ≤ k.toNat := by omega
      rw [List.drop_of_length_le this]
      simp
    · rfl

example : Open ({ rows := [1, 2, 3], index := 0 } : St Nat) := by decide

/-- **rowbuffer_read_pops.** From every open state a read into `b` slots returns `take b` of the
    remaining rows, leaves `drop b` of them, stays open, and reports EOF exactly when nothing is left. -/
theorem rowbuffer_read_pops {α} (s : St α) (h : Open s) (b : Nat) :
    (read s b).2.1 = (remaining s).take b ∧ remaining (read s b).1 = (remaining s).drop b ∧
      Open (read s b).1 ∧ (read s b).1.rows = s.rows ∧
      ((read s b).2.2 = true ↔ remaining (read s b).1 = []) := by
  obtain ⟨h0, h1⟩ := h
  have hi' : ¬ s.index < 0 := by omega
  simp only [RowBufferRows.read, hi', if_false, remaining, Open]
  have hlen : (s.rows.drop s.index.toNat).length = s.rows.length - s.index.toNat := by simp
  have hidx : (s.index + ((min (s.rows.length - s.index.toNat) b : Nat) : Int)).toNat
      = s.index.toNat + min (s.rows.length - s.index.toNat) b := by omega
  rw [hidx, ← List.drop_drop]
  by_cases hb : b ≤ s.rows.length - s.index.toNat
  · have hm : min (s.rows.length - s.index.toNat) b = b := by omega
    rw [hm]
    refine ⟨rfl, rfl, by omega, trivial, ?_⟩
    simp only [decide_eq_true_eq, List.drop_eq_nil_iff, hlen]
    omega
  · have hm : min (s.rows.length - s.index.toNat) b = s.rows.length - s.index.toNat := by omega
    rw [hm]
    have hle : (s.rows.drop s.index.toNat).length ≤ b := by omega
    have hle' : (s.rows.drop s.index.toNat).length ≤ s.rows.length - s.index.toNat := by omega
    refine ⟨?_, ?_, by omega, trivial, ?_⟩
    · rw [List.take_of_length_le hle, List.take_of_length_le hle']
    · rw [List.drop_of_length_le hle, List.drop_of_length_le hle']
    · simp only [decide_eq_true_eq, List.drop_eq_nil_iff, hlen]
      omega

example : Open (read ({ rows := [1, 2, 3], index := 1 } : St Nat) 5).1 := by decide

/-- **rowbuffer_short_clamp_refuted.** The variant whose clamp is `len(rows) - 1` (seed C08-6a): after
    `SeekToRow(len)` it returns the last row once more instead of nothing; and on an empty buffer
    `SeekToRow(0)` leaves it in the closed state, so the next seek is refused. -/
theorem rowbuffer_short_clamp_refuted :
    (read (seek true ({ rows := [10, 11], index := 0 } : St Nat) 2).1 1).2.1 = [11] ∧
    (read (seek false ({ rows := [10, 11], index := 0 } : St Nat) 2).1 1).2.1 = [] ∧
    (seek true (seek true ({ rows := [], index := 0 } : St Nat) 0).1 0).2 = .closed ∧
    (seek false (seek false ({ rows := [], index := 0 } : St Nat) 0).1 0).2 = .ok := by decide

end PqModel.Props.C08
