import PqModel.Spec.SnappyElems
import PqModel.Spec.InflateMatch

/-! # C20, Snappy block part (round 6) — the reader on ELEMENTS (SPEC side)

`snappyDec` (PqModel/Spec/BlockCodecs.lean, written from format_description.txt) is proved to read
every writable element list back as it means — the Snappy counterpart of
`C20Lz4.lz4_reader_inverts_every_sequence_list`. Nothing here mirrors Go code: klauspost's snappy
encoder/decoder stay third-party and SAMPLED (sub-check `C20/snappyelems`: every sampled output of
the real encoder is an `encBlock` of a writable element list that means the input; generated element
lists go through the real decoder).

-- OPEN (sampled, not proved): `∀ x, snappyDec (klauspost Encode x) = x` — the real matcher is not
-- modelled; no Lean greedy Snappy encoder either (the LZ4 one shows the pattern). -/
namespace PqModel.Props.C20Snappy
open PqModel.Spec.BlockCodecs PqModel.Spec.SnappyElems

/-- **Every writable element list is read back as it means**: literals with inline and 1..4-byte
length fields, copies with 11-bit, 16-bit and 32-bit offsets (lengths 4..11 resp. 1..64), every
offset inside the output so far — overlapping copies included — provided the total fits 32 bits
(the format's limit). -/
theorem snappy_reader_inverts_every_element_list (els : List Elem) (hok : elemsOk els #[] = true)
    (hsz : (applyElems els #[]).size < 4294967296) :
    snappyDec (encBlock els) = .ok (applyElems els #[]).toList :=
  snappyDec_encBlock els hok hsz

/-- hypotheses satisfiable: all three copy kinds, one overlapping (offset 1, length 64) -/
example : elemsOk [.lit [1, 2, 3], .copy 1 3 11, .copy 2 1 64, .copy 4 14 5] #[] = true ∧
    (applyElems [.lit [1, 2, 3], .copy 1 3 11, .copy 2 1 64, .copy 4 14 5] #[]).size = 83 := by
  decide +kernel

/-- what a copy means: every byte it appends equals the byte `off` positions before it in the result -/
theorem snappy_copy_copies_from_offset (out : Array UInt8) (k off len : Nat)
    (hok : elemOk out.size (.copy k off len) = true) (i : Nat) (h1 : out.size ≤ i) (h2 : i < out.size + len) :
    (applyElem out (.copy k off len))[i]? = (applyElem out (.copy k off len))[i - off]? := by
  simp only [elemOk, Bool.and_eq_true, decide_eq_true_eq] at hok
  exact PqModel.Spec.Inflate.copyBack_get off (by omega) len out i (by omega) h1 h2

/-- the announced length is checked: a block announcing one byte more is rejected -/
example : snappyDec (putUvarint 10 9 ++ encElems [.lit [1, 2, 3], .copy 1 2 5]) = .error .badLength := by
  decide +kernel
/-- a copy reaching before the start is rejected -/
example : snappyDec (putUvarint 10 8 ++ encElems [.lit [1, 2, 3], .copy 1 4 5]) = .error .badOffset := by
  decide +kernel

end PqModel.Props.C20Snappy
