import PqModel.RowsBufProofs

/-! # C13, row reader of a row group at buffer granularity (`RowsBuf`, mirror of `rowGroupRows.ReadRows`
    / `SeekToRow` / `Reset` and `columnChunkValueReader`, tied to the real reader call by call by the
    L2 sub-check C13/rowsbuf). Only the property theorems and their non-vacuity examples. -/
namespace PqModel.Props.C13RowsBuf
open PqModel.RowsBuf

/-- `v` was decoded from a page of the file that the loader accepted -/
def FromAcceptedPage (file : List (List Page)) (v : Val) : Prop :=
  ∃ pages ∈ file, ∃ p ∈ pages, p.bad = false ∧ v ∈ p.vals

/-- **no_row_from_a_rejected_page**: for EVERY file (any number of columns, any page layout, any set
    of rejected pages), every size of the value buffers and EVERY history of `ReadRows(n)`,
    `SeekToRow(k)` and `Reset` on a new reader — in particular after any number of calls that failed
    with the corruption error — every value of every row that any `ReadRows` returns was decoded from
    a page the loader accepted: neither the buffers nor the look-ahead nor a seek back ever hand out a
    value of a rejected page. -/
theorem no_row_from_a_rejected_page (file : List (List Page)) (bufsize : Nat) (ops : List Op)
    (st : St) (rs : List (List Val)) (eof : Bool)
    (h : (st, Out.rows rs eof) ∈ run file bufsize (init file) ops) :
    ∀ r ∈ rs, ∀ v ∈ r, FromAcceptedPage file v :=
  run_good (P := FromAcceptedPage file) file
    (fun pages hp p hpp hb _ hv => ⟨pages, hp, p, hpp, hb, hv⟩) bufsize ops (init file) (init_ok file)
    (st, .rows rs eof) h rs eof rfl

/-- the values of page `i` of column `j` say so -/
def WellTagged (file : List (List Page)) : Prop :=
  ∀ j < file.length, ∀ i < (file[j]?.getD []).length,
    ∀ v ∈ (((file[j]?.getD [])[i]?).map (·.vals)).getD [], v.col = j ∧ v.page = i

instance (file : List (List Page)) : Decidable (WellTagged file) := by unfold WellTagged; infer_instance

/-- the same in terms of where a value says it comes from: in a file whose values carry their column
    and page, the page a returned value names exists and is not a rejected one -/
theorem returned_values_name_accepted_pages (file : List (List Page)) (hw : WellTagged file)
    (bufsize : Nat) (ops : List Op) (st : St) (rs : List (List Val)) (eof : Bool)
    (h : (st, Out.rows rs eof) ∈ run file bufsize (init file) ops) :
    ∀ r ∈ rs, ∀ v ∈ r, ∃ pages p, file[v.col]? = some pages ∧ pages[v.page]? = some p ∧ p.bad = false := by
  intro r hr v hv
  obtain ⟨pages, hp, p, hpp, hb, hvp⟩ := no_row_from_a_rejected_page file bufsize ops st rs eof h r hr v hv
  obtain ⟨j, hj⟩ := List.getElem?_of_mem hp
  obtain ⟨i, hi⟩ := List.getElem?_of_mem hpp
  have hjl := (List.getElem?_eq_some_iff.mp hj).1
  have hil := (List.getElem?_eq_some_iff.mp hi).1
  obtain ⟨hc, hg⟩ := hw j hjl i (by simpa [hj] using hil) v (by simpa [hj, hi] using hvp)
  exact ⟨pages, p, by rw [hc]; exact hj, by rw [hg]; exact hi, hb⟩

/-- **error_is_sticky_buf**: with the error pending `ReadRows` returns it and touches nothing -/
theorem error_is_sticky_buf (file : List (List Page)) (bufsize : Nat) (st : St) (n : Nat) (he : st.err = true) :
    read file bufsize st n = (st, .failed) := by
  simp [PqModel.RowsBuf.read, he]

/-- **pending_until_seek_or_reset**: a run of `ReadRows` calls on a reader whose error is pending
    returns the error every time -/
theorem pending_until_seek_or_reset (file : List (List Page)) (bufsize : Nat) (ns : List Nat) (st : St)
    (he : st.err = true) :
    run file bufsize st (ns.map .read) = ns.map fun _ => (st, .failed) := by
  induction ns with
  | nil => rfl
  | cons n ns ih => simp [run, step, error_is_sticky_buf file bufsize st n he, ih]

/-- **seek_and_reset_clear**: `SeekToRow` with the error pending (also to the current row) and `Reset`
    drop every buffered value and every current page and clear the error -/
theorem seek_and_reset_clear (file : List (List Page)) (st : St) (k : Nat) (he : st.err = true) :
    (seek file st k).err = false ∧ (seek file st k).rowIndex = k ∧
    (∀ c ∈ (seek file st k).cols, c.buf = [] ∧ c.reader.values = none) ∧
    (reset file st).err = false ∧ (reset file st).rowIndex = 0 ∧
    (∀ c ∈ (reset file st).cols, c.buf = [] ∧ c.reader.values = none) := by
  simp only [seek, he, or_true, if_true, reset, true_and, List.mem_map]
  refine ⟨?_, ?_⟩ <;>
  · rintro c ⟨pages, _, rfl⟩
    exact ⟨rfl, rfl⟩

/-- two columns of 6 rows; pages of 3 and 2 rows; page 1 of column 1 (rows 2, 3) is rejected -/
def flat (col : Nat) (bad : Bool) (page first n : Nat) : Page :=
  { bad := bad, firstRow := first, numRows := n,
    vals := (List.range n).map fun i => { col := col, row := first + i, rep := 0, page := page } }

def sample : List (List Page) :=
  [[flat 0 false 0 0 3, flat 0 false 1 3 3], [flat 1 false 0 0 2, flat 1 true 1 2 2, flat 1 false 2 4 2]]

def outs (file : List (List Page)) (bufsize : Nat) (ops : List Op) : List Out :=
  (run file bufsize (init file) ops).map (·.2)

/-- the hypotheses are satisfiable and the mirror computes: rows 0-1 are returned, the next read fails,
    so does the one after it and the one after `Reset`; a seek behind the rejected page returns rows 4-5 -/
example : WellTagged sample := by decide

example : outs sample 8 [.read 1, .read 2, .read 1, .reset, .read 3, .seek 4, .read 5] =
    [.rows [[⟨0, 0, 0, 0⟩, ⟨1, 0, 0, 0⟩]] false, .failed, .failed, .done, .failed, .done,
     .rows [[⟨0, 4, 0, 1⟩, ⟨1, 4, 0, 2⟩], [⟨0, 5, 0, 1⟩, ⟨1, 5, 0, 2⟩]] true] := by decide

/-- **lookahead_reports_early** (behaviour of the code as it is, reproduced on the real reader by
    C13/rowsbuf): when the value buffer of a column ends with the last row asked for, `ReadRows` refills
    it to see whether the row goes on; if that refill meets the rejected page the call fails although
    every row it was asked for lies in accepted pages: row 1 of `sample`, the last row in front of the
    rejected page of column 1, is not returned by any call (a page ends with it, so the buffer does) —
    the failure comes one row early, never late. -/
theorem lookahead_reports_early :
    outs sample 2 [.read 1, .read 1] = [.rows [[⟨0, 0, 0, 0⟩, ⟨1, 0, 0, 0⟩]] false, .failed] ∧
    outs sample 2 [.seek 1, .read 1] = [.done, .failed] ∧
    outs sample 170 [.read 2] = [.failed] := by decide

end PqModel.Props.C13RowsBuf
