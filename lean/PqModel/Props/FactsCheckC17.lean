import PqModel.Generated.Facts

/-! # C17 — source-level facts: the process-wide caches of the root package and what is stored in
    them under which key

`Generated/Facts.lean` is rewritten by `tools/factgen` (family `globalcaches`) from the current
source on every run. `Props/C17Cache` proves that a keyed cache is invisible to every history of
the process exactly when the key determines the stored value; these theorems pin the facts of the
source that make `cachedSchemas` such a cache, and the list of caches the L1 sub-check `cache` has
to cover (a new package-level cache changes the table and must be reviewed). The extraction is
trusted (AST level, no types); caches hanging off a cached value (`Schema.funcs/state/cache`,
`cacheMap`) and caches of sub-packages (encoding/thrift encoder tables, internal/memory pools) are
not in the table: the first are reached only through a schema (covered by the key of the schema),
the second hold no option-dependent values. -/
namespace PqModel.Props.FactsCheckC17
open PqModel.Generated.Facts

/-- the package-level caches of the reviewed source -/
theorem global_caches_expected : globalCaches =
    [("cachedSchemas", "sync.Map"), ("defaultCreatedByOnce", "sync.Once"),
     ("extraEncodings", "sync.Map"), ("structFieldsCache", "atomic.Value")] := by decide

/-- the only store into `cachedSchemas`: in `schemaOf`, keyed by the Go type, inside `if cacheable`
    (a store in the init statement of an `if` is not under its condition: the variant of seed C17-6a
    gives `[]` here) -/
theorem cached_schemas_stored_only_when_cacheable :
    globalCacheStores.filter (fun s => s.1 == "cachedSchemas") =
      [("cachedSchemas", "schemaOf", "LoadOrStore", "model", ["cacheable"])] := by decide

/-- a derived schema depends on the Go type and the replacements, and `cacheable` means "no
    replacements": key `model` + guard `cacheable` = everything the value depends on
    (`SchemaCache.schemaKey`) -/
theorem schemaOf_inputs_and_guard :
    schemaOfParams = ["model", "tagReplacements"] ∧ schemaOfCacheableDefs = ["len(tagReplacements) == 0"] := by
  decide

/-- the other stores: keyed by values that do not depend on writer / schema options (the Go type of
    a struct written through a map-to-group column; the encoding's own code; a once-only build-info
    string) -/
theorem other_cache_stores_expected :
    globalCacheStores.filter (fun s => s.1 != "cachedSchemas") =
      [("defaultCreatedByOnce", "defaultCreatedBy", "Do", "func", []),
       ("extraEncodings", "RegisterEncoding", "Store", "enc.Encoding()", []),
       ("structFieldsCache", "writeValueFuncOfGroup", "Store", "cachedFields", ["!ok"])] := by decide

end PqModel.Props.FactsCheckC17
