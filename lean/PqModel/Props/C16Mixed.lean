import PqModel.PoolMixed
/-! # C16, column chunks mixing dictionary pages and PLAIN fallback pages

The per-chunk `detach` flag of the row reader (`columnChunkValueReader`, mirror
`PqModel.PoolMixed.chunkProgs`) as reader STATE threaded through the pages of a chunk. -/
namespace PqModel.Props.C16Mixed
open PqModel.PoolProto PqModel.PoolMixed

/-- For any number of column chunks of byte-carrying columns (fixed length or not) read by row
    readers in any number of goroutines, every chunk any sequence of pages with or without a
    dictionary (dictionary pages followed by PLAIN fallback pages, pure chunks, any order), every
    number of reads per page and every number of rows the caller keeps of every page: with the flag
    as `newRowGroupRows` sets it and the page fetch as the code has it (the flag is not written), the
    values buffer of every page is touched by its goroutine only and is never inside the pool while a
    kept row points into it, under all interleavings and all choices of `sync.Pool.Get`. -/
theorem mixed_chunk_pool_exclusive (chunks : List (Bool × List PageD)) {s : St}
    (hr : Reach (chunks.flatMap fun c => chunkProgs false c.1 true c.2) s) :
    Exclusive s ∧ PoolQuiet s ∧ PutLast s :=
  pinv_exclusive (pinv_reach (by
    intro p hp
    obtain ⟨c, _, hc⟩ := List.mem_flatMap.mp hp
    rw [chunkProgs_mirror] at hc
    obtain ⟨pg, _, rfl⟩ := List.mem_map.mp hc
    exact rowReaderProg_disc _ _ _) hr)

/-- the hypothesis is satisfiable: an FLBA chunk dict, dict, PLAIN, PLAIN, PLAIN with rows kept of
    every page, next to a BYTE_ARRAY chunk dict, PLAIN -/
example (s : St)
    (hr : Reach ([(true, [⟨true, 2, 3⟩, ⟨true, 1, 1⟩, ⟨false, 2, 4⟩, ⟨false, 1, 1⟩, ⟨false, 3, 2⟩]),
                  (false, [⟨true, 1, 1⟩, ⟨false, 1, 2⟩])].flatMap fun c => chunkProgs false c.1 true c.2) s) :
    Exclusive s ∧ PoolQuiet s ∧ PutLast s :=
  mixed_chunk_pool_exclusive _ hr

/-- NEGATION for the variant that clears the flag at a dictionary page of a FIXED_LEN_BYTE_ARRAY
    chunk and never re-arms it (seed C16-6a): whatever pages come first, after ONE page with a
    dictionary every later PLAIN page of which the caller keeps a row is put back into the pool while
    that row points into it: its program breaks the discipline (`put` before the last touch). -/
theorem sticky_flag_breaks_discipline (detach : Bool) (pre mid post : List PageD) (d q : PageD)
    (hd : d.hasDict = true) (hq : q.hasDict = false) (hk : 1 ≤ q.nKept) :
    ∃ prog ∈ chunkProgs true true detach (pre ++ d :: (mid ++ q :: post)), disc prog = false := by
  obtain ⟨front, h⟩ := chunkProgs_slip_after_dict detach pre d hd (mid ++ q :: post)
  refine ⟨rowReaderProg true false q.nRead q.keptTouches, ?_, ?_⟩
  · rw [h, chunkProgs_cleared]
    simp
  · obtain ⟨k, hk'⟩ : ∃ k, q.nKept = k + 1 := ⟨q.nKept - 1, by omega⟩
    simp only [PageD.keptTouches, hq, hk']
    exact rowReaderSlip_disc _ _

/-- the smallest witness, by evaluation: dictionary page then one PLAIN page with one kept row -/
example : (chunkProgs true true true [⟨true, 1, 1⟩, ⟨false, 1, 1⟩]).map disc = [true, false] := by decide

/-- the same chunk under the code as it is -/
example : (chunkProgs false true true [⟨true, 1, 1⟩, ⟨false, 1, 1⟩]).map disc = [true, true] := by decide

/-- and what the broken discipline means in the pool: two readers of such chunks; reader 0's PLAIN
    page buffer is inside the pool while the caller's row still points into it, and reader 1 obtains
    that very buffer for its own page (`¬ PoolQuiet`, `¬ Exclusive`) -/
theorem sticky_flag_not_exclusive :
    let plainProg := rowReaderProg true false 0 1
    plainProg ∈ chunkProgs true true true [⟨true, 0, 1⟩, ⟨false, 0, 1⟩] ∧
    (∃ s, Reach [plainProg, plainProg] s ∧ ¬ PoolQuiet s) ∧
    (∃ s, Reach [plainProg, plainProg] s ∧ ¬ Exclusive s) := by
  intro slip
  have s0 : Reach [slip, slip] (PoolProto.init [slip, slip]) := .init
  have s1 := s0.step (.getNew (i := 0) rfl)
  have s2 := s1.step (.use (i := 0) rfl)
  have s3 : Reach [slip, slip] { pool := [0], fresh := 1, gs := [.released 0 [.use], .start slip] } :=
    s2.step (.put (i := 0) rfl)
  have s4 : Reach [slip, slip] { pool := [], fresh := 1, gs := [.released 0 [.use], .holding 0 slip] } :=
    s3.step (.getPooled (i := 1) (o := 0) rfl (by decide))
  refine ⟨by decide, ⟨_, s3, ?_⟩, ⟨_, s4, ?_⟩⟩
  · intro h; exact h 0 (.released 0 [.use]) 0 rfl (by decide) (by decide)
  · intro h
    exact h 0 1 (.released 0 [.use]) (.holding 0 slip) 0 (by decide) rfl rfl (by decide) (by decide)

/-- BYTE_ARRAY chunks are not affected by that variant (its condition names the fixed-length kind) -/
theorem sticky_flag_byte_array_unaffected (detach : Bool) (ps : List PageD) :
    chunkProgs true false detach ps = chunkProgs false false detach ps :=
  chunkProgs_slip_byte_array detach ps

end PqModel.Props.C16Mixed
