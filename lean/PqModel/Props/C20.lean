import PqModel.Codec
import PqModel.Lz4Encode
import PqModel.Spec.BlockCodecs

/-! # C20 — Compression codecs are lossless whatever was compressed before (PARTIAL)

Partial by design: DEFLATE / brotli / zstd / lz4 / snappy internals are third-party code and are
*assumed* (contracts `WriterContract`, `ReaderBase`, `WeakReset` / `StrongReset`, `ZstdContract`,
`Lz4Contract` of `PqModel/Codec.lean`).  What is proved is that the pooling / reset / buffer /
retry logic of `compress/compress.go`, `compress/zstd`, `compress/lz4` AS IT NOW STANDS
(`Rev.fixed`: commits 18102b0, 375db5b) turns these contracts into "Decode(Encode(x)) = x after
every history, for every dst, under every interleaving".  The theorems named `…_before_fix`
are regression facts about the previous revision (`Rev.beforeFix`): the negations F16/F17/F18.

Histories (`List Call`) contain begin/end events of calls in any interleaving (concurrent use of
one codec value), arbitrary `pick`s (what sync.Pool hands out), failing decodes, panics.

-- OPEN (not provable here, by design): `∀ x, realDecode (realEncode x) = x` for the third-party
-- codecs themselves; that the real readers meet `WeakReset` (brotli) / `StrongReset` (gzip).
-- Both are sampled by the L1 check on the real codecs, not proved.
-/
namespace PqModel.Props.C20
open PqModel.Codec

/-- Pooled codecs (gzip, brotli), the code as it stands: under the writer contract and only the
WEAK reader-Reset contract (Reset gives a fresh reader from a reader that reached io.EOF —
what andybalholm/brotli really provides), after any history `h1` (any interleaving, picks,
failed decodes) `Encode x` returns the fresh encoding, and after any further history `h2`
decoding it returns `x` — for every dst capacity, every pool choice, as a whole call or as an
in-flight call.  `C.fuel` only has to exceed the number of Reads a fresh reader needs for
`enc x` (no hang).  Needs an invariant over the history: idle readers are resettable. -/
theorem history_independent {ω ρ} (C : Codec ω ρ) (enc : Bytes → Bytes)
    (hrev : C.rev = .fixed)
    (hW : WriterContract C.W enc) (B : ReaderBase C.R enc) (K : WeakReset C.R)
    (x : Bytes) (hfuel : ∀ s0, C.R.new (enc x) = some s0 → B.steps s0 < C.fuel)
    (h1 h2 : List Call) (pe pd : Option Nat) (ce cd : Nat) (wholeE wholeD : Bool) :
    let s1 := run C .init h1
    let e := step C s1 (if wholeE then .encode pe ce x else .encBegin pe ce x)
    let s2 := run C e.st h2
    let d := step C s2 (if wholeD then .decode pd cd (enc x) else .decBegin pd cd (enc x))
    e.out = some (.ok (enc x)) ∧ d.out = some (.ok x) := by
  intro s1 e s2 d
  have hinit : DInv K (CState.init (ω := ω) (ρ := ρ)).d := ⟨by simp [CState.init], by simp [CState.init]⟩
  have h1i : DInv K s1.d := run_inv C hrev K B.read_len h1 _ hinit
  have hei : DInv K e.st.d := step_inv C hrev K B.read_len s1 h1i _
  have h2i : DInv K s2.d := run_inv C hrev K B.read_len h2 _ hei
  constructor
  · show (step C s1 _).out = _
    cases wholeE
    · simp only [step, Bool.false_eq_true, ↓reduceIte, encBegin_ok hW]
    · simp only [step, ↓reduceIte]; split <;> simp only [encBegin_ok hW]
  · show (step C s2 _).out = _
    cases wholeD
    · simp only [step, Bool.false_eq_true, ↓reduceIte,
        decBegin_ok_weak B K C.rev C.fuel x hfuel s2.d h2i]
    · simp only [step, ↓reduceIte]
      split <;> simp only [decBegin_ok_weak B K C.rev C.fuel x hfuel s2.d h2i]

/-- satisfiable by the brotli-like toy reader (`keepStale = true`: unconsumed input survives
Reset), which does NOT meet the strong contract -/
example : ∃ (C : Codec ToyW ToyR) (_ : WriterContract C.W toyEnc) (B : ReaderBase C.R toyEnc)
    (_ : WeakReset C.R), C.rev = .fixed ∧ ¬ StrongReset C.R ∧
      ∀ s0, C.R.new (toyEnc [1, 2, 3]) = some s0 → B.steps s0 < C.fuel :=
  ⟨toyCodec ⟨false, true, false, 7, true, none, none⟩ .fixed 50,
   toyWriterContract _ rfl rfl, toyBase _, toyWeak _, rfl, by
     intro h
     have := h ⟨[], .excess, [9]⟩ [0xA7, 0]
     revert this
     decide, by
     intro s0 h
     have := toyOpen_enc ⟨false, true, false, 7, true, none, none⟩ [1, 2, 3]
     simp only [toyCodec, toyReader] at h
     rw [this] at h
     cases h
     decide⟩

/-- Either revision: under the STRONG Reset contract (after `Reset(src)` the reader is a fresh
reader, whatever it did before) no invariant is needed at all. -/
theorem history_independent_strong_reset {ω ρ} (C : Codec ω ρ) (enc : Bytes → Bytes)
    (hW : WriterContract C.W enc) (B : ReaderBase C.R enc) (hS : StrongReset C.R)
    (x : Bytes) (hfuel : ∀ s0, C.R.new (enc x) = some s0 → B.steps s0 < C.fuel)
    (h1 h2 : List Call) (pe pd : Option Nat) (ce cd : Nat) (wholeE wholeD : Bool) :
    let s1 := run C .init h1
    let e := step C s1 (if wholeE then .encode pe ce x else .encBegin pe ce x)
    let s2 := run C e.st h2
    let d := step C s2 (if wholeD then .decode pd cd (enc x) else .decBegin pd cd (enc x))
    e.out = some (.ok (enc x)) ∧ d.out = some (.ok x) := by
  intro s1 e s2 d
  constructor
  · show (step C s1 _).out = _
    cases wholeE
    · simp only [step, Bool.false_eq_true, ↓reduceIte, encBegin_ok hW]
    · simp only [step, ↓reduceIte]; split <;> simp only [encBegin_ok hW]
  · show (step C s2 _).out = _
    cases wholeD
    · simp only [step, Bool.false_eq_true, ↓reduceIte, decBegin_ok_strong B hS C.rev C.fuel x hfuel]
    · simp only [step, ↓reduceIte]
      split <;> simp only [decBegin_ok_strong B hS C.rev C.fuel x hfuel]

example : ∃ (C : Codec ToyW ToyR) (_ : WriterContract C.W toyEnc) (B : ReaderBase C.R toyEnc),
    StrongReset C.R ∧ ∀ s0, C.R.new (toyEnc [1, 2, 3]) = some s0 → B.steps s0 < C.fuel :=
  ⟨toyCodec ⟨true, false, true, 1, false, none, none⟩ .beforeFix 10,
   toyWriterContract _ rfl rfl, toyBase _, toyStrong _ rfl, by
     intro s0 h
     have := toyOpen_enc ⟨true, false, true, 1, false, none, none⟩ [1, 2, 3]
     simp only [toyCodec, toyReader] at h
     rw [this] at h
     cases h
     decide⟩

/-- F18 regression fact (revision before 375db5b).  A reader that meets only the WEAK Reset
contract (andybalholm/brotli reader.go:33-46) with the old pool logic: after ONE failed decode
the next `Decode(Encode x)` on the same codec value returns wrong bytes without any error
(first witness) or an error (second witness). -/
theorem brotli_like_reader_breaks_history_before_fix :
    let cfg : ToyCfg := ⟨false, true, false, 7, true, none, none⟩
    let C := toyCodec cfg .beforeFix 50
    -- the failing decode: a valid stream followed by 4 trailing bytes → "excessive input"
    (trace C .init [.decode none 0 (toyEnc [5] ++ [0xA7, 1, 9, 1])]).map (·.1)
      = [some (.err [5])] ∧
    (step C (run C .init [.decode none 0 (toyEnc [5] ++ [0xA7, 1, 9, 1])])
        (.decode (some 0) 0 (toyEnc [7]))).out = some (.ok [9, 0xA7, 7]) ∧
    (step C (run C .init [.decode none 0 (toyEnc [5] ++ [9])])
        (.decode (some 0) 0 (toyEnc [7]))).out = some (.err []) ∧
    -- the same reader, fresh: fine
    (step C .init (.decode none 0 (toyEnc [7]))).out = some (.ok [7]) := by
  decide

/-- F18, second face, regression fact (before 375db5b): with the stale reader in the pool,
`Decode(nil, [])` — empty src, dst of capacity 0 — never returns, for any amount of fuel:
`cap(dst) = 2*len(src) = 0`, the reader has stale input to decode, and the read loop asks it
for 0 bytes for ever.  The pool state is the one the failed decode leaves (example below). -/
theorem empty_src_after_failed_decode_hangs_before_fix (fuel : Nat) :
    let cfg : ToyCfg := ⟨false, true, false, 7, true, none, none⟩
    let d : DPool ToyR := ⟨[⟨0, ⟨[], .excess, [0xA7, 1, 9, 1]⟩⟩], [], 1⟩
    (decBegin (toyReader cfg) .beforeFix fuel d (some 0) 0 []).out = .hang := by
  intro cfg d
  have hs : (toyReader cfg).read ⟨[9], .truncated, []⟩ 0 = (⟨[9], .truncated, []⟩, [], .more) := by
    simp [toyReader, cfg]
  have hl := readLoop_stuck (toyReader cfg) _ hs fuel
  have htake : take d.idle (some 0) = (some ⟨0, ⟨[], .excess, [0xA7, 1, 9, 1]⟩⟩, []) := by decide
  have hreset : (toyReader cfg).reset ⟨[], .excess, [0xA7, 1, 9, 1]⟩ (some []) =
      some ⟨[9], .truncated, []⟩ := by decide
  have hcap : decCap .beforeFix 0 ([] : Bytes) = 0 := by decide
  unfold decBegin
  simp only [htake, hreset, hcap, hl, loopOutcome]

/-- the same two histories on the code as it stands: the failed reader is dropped, the next
decodes are right; an empty src is answered at once -/
example :
    let cfg : ToyCfg := ⟨false, true, false, 7, true, none, none⟩
    let B := toyCodec cfg .beforeFix 50
    let C := toyCodec cfg .fixed 50
    (run B .init [.decode none 0 (toyEnc [5] ++ [0xA7, 1, 9, 1])]).d.idle
      = [⟨0, ⟨[], .excess, [0xA7, 1, 9, 1]⟩⟩] ∧
    (step B (run B .init [.decode none 0 (toyEnc [5] ++ [0xA7, 1, 9, 1])])
        (.decode (some 0) 0 [])).out = some .hang ∧
    (run C .init [.decode none 0 (toyEnc [5] ++ [0xA7, 1, 9, 1])]).d.idle = [] ∧
    (step C (run C .init [.decode none 0 (toyEnc [5] ++ [0xA7, 1, 9, 1])])
        (.decode (some 0) 0 (toyEnc [7]))).out = some (.ok [7]) ∧
    (step C (run C .init [.decode none 0 (toyEnc [5] ++ [0xA7, 1, 9, 1])])
        (.decode (some 0) 0 [])).out = some (.err []) := by decide

/-- F17 regression fact (before 375db5b), for every reader, pool content and dst: when the
constructor (fresh object) and Reset (pooled object) report an error for `src` — klauspost gzip
reads the header there — `Decompressor.Decode` PANICKED instead of returning the error. -/
theorem decode_panics_when_header_rejected_before_fix {ρ} (R : ReaderImpl ρ) (src : Bytes)
    (hnew : R.new src = none) (hreset : ∀ s, R.reset s (some src) = none)
    (fuel : Nat) (d : DPool ρ) (pick : Option Nat) (dstCap : Nat) :
    (decBegin R .beforeFix fuel d pick dstCap src).out = .panic := by
  unfold decBegin
  split
  · simp [hnew, initFailure]
  · simp [hreset, initFailure]

/-- the code as it stands: the same situation returns an error with an empty output; the
deferred function is not armed and a pooled reader taken for the call is not put back -/
theorem decode_returns_error_when_header_rejected {ρ} (R : ReaderImpl ρ) (src : Bytes)
    (hnew : R.new src = none) (hreset : ∀ s, R.reset s (some src) = none)
    (fuel : Nat) (d : DPool ρ) (pick : Option Nat) (dstCap : Nat) :
    (decBegin R .fixed fuel d pick dstCap src).out = .err [] ∧
    (decBegin R .fixed fuel d pick dstCap src).armed = false ∧
    (decBegin R .fixed fuel d pick dstCap src).pool.idle.length ≤ d.idle.length := by
  unfold decBegin
  split
  · simp [hnew, initFailure]
  · rename_i it idle htk
    simp only [hreset, initFailure, true_and]
    unfold take at htk
    split at htk
    · simp at htk
    · split at htk
      · simp only [Prod.mk.injEq, Option.some.injEq] at htk
        rw [← htk.2]; exact List.length_filter_le _ _
      · simp at htk

/-- concrete witness on a gzip-like toy reader: panic before, error now -/
example :
    let cfg : ToyCfg := ⟨true, false, false, 7, true, none, none⟩
    (step (toyCodec cfg .beforeFix 50) .init (.decode none 0 [0x1f, 0x8b])).out = some .panic ∧
    (step (toyCodec cfg .fixed 50) .init (.decode none 0 [0x1f, 0x8b])).out = some (.err []) ∧
    (run (toyCodec cfg .fixed 50) .init
      [.decode none 0 (toyEnc [1]), .decode (some 0) 0 [0x1f, 0x8b]]).d.idle.length = 0 := by
  decide

-- OPEN (not a property of inputs): `Compressor.Encode` still has `panic(err)` when the WRITER
-- constructor fails (compress.go:65). Reachable with the library's own codecs only through an
-- invalid exported `Level` (`&gzip.Codec{Level: 10}`, `&zstd.Codec{Level: 99}`; brotli and lz4
-- accept anything): then EVERY Encode panics, whatever the input — a configuration error, recorded
-- by the check as an observation (`gzip-/zstd-invalid-level-encode-panics`), hence the hypothesis
-- `hWnew`; `hlen` is io.Reader's own contract.
/-- The code as it stands: no call of any history panics, whatever the reader constructor and
`Reset` answer (errors are returned), provided the writer constructor works and Read respects
`len(p)`. -/
theorem no_panic {ω ρ} (C : Codec ω ρ) (hrev : C.rev = .fixed)
    (hWnew : C.W.new ≠ none) (hlen : ∀ s n, (C.R.read s n).2.1.length ≤ n)
    (s : CState ω ρ) (c : Call) : (step C s c).out ≠ some .panic := by
  have hdec : ∀ p dc src, (decBegin C.R C.rev C.fuel s.d p dc src).out ≠ .panic := by
    intro p dc src
    rw [hrev]
    unfold decBegin
    split
    · split
      · simp [initFailure]
      · exact loopOutcome_ne_panic (readLoop_no_oob C.R hlen C.fuel _ [] _) _
    · split
      · simp [initFailure]
      · exact loopOutcome_ne_panic (readLoop_no_oob C.R hlen C.fuel _ [] _) _
  have henc : ∀ p dc src, (encBegin C.W s.c p dc src).out ≠ .panic := by
    intro p dc src
    unfold encBegin
    split
    · split
      · rename_i h; exact absurd h hWnew
      · simp only [writeClose]; split <;> (try split) <;> simp
    · simp only [writeClose]; split <;> (try split) <;> simp
  cases c with
  | encBegin p dc src => simpa [step] using henc p dc src
  | encEnd k => simp [step]
  | decBegin p dc src => simpa [step] using hdec p dc src
  | decEnd k => simp [step]
  | encode p dc src => simp only [step]; split <;> simpa using henc p dc src
  | decode p dc src => simp only [step]; split <;> simpa using hdec p dc src

/-- satisfiable by a gzip-like reader whose constructor and Reset do reject inputs -/
example : ∃ C : Codec ToyW ToyR, C.rev = .fixed ∧ C.W.new ≠ none ∧
    (∀ s n, (C.R.read s n).2.1.length ≤ n) ∧ C.R.new [1] = none :=
  ⟨toyCodec ⟨true, false, false, 3, false, none, none⟩ .fixed 9, rfl, by simp [toyCodec, toyWriter],
   (toyBase _).read_len, by decide⟩

/-- aliasing: after every history, no idle pooled writer still refers to a caller's `dst` (or
to any sink but io.Discard), so output slices handed out earlier are never written again by the
pool (compress.go:75-79) -/
theorem idle_writers_hold_no_caller_buffer {ω ρ} (C : Codec ω ρ) (h : List Call) :
    ∀ it, it ∈ (run C .init h).c.idle → it.sink = .detached :=
  run_cinv C h _ (by intro it hit; simp [CState.init] at hit)

/-- zstd: encoder and decoder pools without reset; under the contract "EncodeAll/DecodeAll are
self-contained" any history (incl. failed decodes, which are put back) is harmless -/
theorem zstd_history_independent {ε δ} (Z : ZstdImpl ε δ) (hZ : ZstdContract Z)
    (h1 h2 : List ZCall) (x : Bytes) (pe pd : Option Nat) :
    let p1 := zRun Z ⟨[], []⟩ h1
    let e := zEncode Z p1 pe x
    let p2 := zRun Z e.2 h2
    (zDecode Z p2 pd e.1).1 = some x := by
  intro p1 e p2
  simp only [zDecode, e, zEncode]
  exact hZ _ _ x

example : ∃ Z : ZstdImpl Unit Unit, ZstdContract Z :=
  ⟨⟨(), (), fun _ x => ((), x), fun _ y => ((), some y)⟩, by intro e d x; rfl⟩

/-- lz4, the loop as written now (give up beyond 255·len(src)+64, grow to 2·len+64), on VALID
input: it returns `x` after exactly `j` retries, `j` the least retry count whose buffer
`lz4Len L0 j = (L0+64)·2^j − 64` holds `need x` bytes (`L0 = max(cap dst, 3·len src)`), and
`j ≤ log₂(need x) + 1`: fuel `log₂(need x) + 2` always suffices, fuel `j` does not.  The
give-up test never fires on valid input (`Lz4Contract.ratio`). -/
theorem lz4_loop_returns_valid (L : Lz4Impl) (enc : Bytes → Bytes) (need : Bytes → Nat)
    (hL : Lz4Contract L enc need) (x : Bytes) (dstCap : Nat) :
    let L0 := reserveAtLeast dstCap (3 * (enc x).length)
    ∃ j, j ≤ Nat.log2 (need x) + 1 ∧
      lz4Decode L (Nat.log2 (need x) + 2) dstCap (enc x) = some (some x, lz4Len L0 j) ∧
      need x ≤ lz4Len L0 j ∧ (∀ i, i < j → lz4Len L0 i < need x) ∧
      lz4Loop L (enc x) j L0 = none := by
  intro L0
  have hk : need x + 64 ≤ (L0 + 64) * 2 ^ (Nat.log2 (need x) + 1) := by
    have h1 : need x < 2 ^ (Nat.log2 (need x) + 1) := Nat.lt_log2_self
    have h2 : 64 * 2 ^ (Nat.log2 (need x) + 1) ≤ (L0 + 64) * 2 ^ (Nat.log2 (need x) + 1) :=
      Nat.mul_le_mul_right _ (by omega)
    omega
  obtain ⟨j, hj, hr, hn, hlt, hnone⟩ := lz4Loop_valid_fuel hL x _ L0 hk
  exact ⟨j, hj, hr, hn, hlt, hnone⟩

example : Lz4Contract toyLz4 toyLz4Enc (fun x => x.length) ∧
    -- 40 bytes behind a 1-byte tag: L0 = 3·41 = 123 fits at once
    lz4Decode toyLz4 7 0 (toyLz4Enc (List.replicate 40 7)) = some (some (List.replicate 40 7), 123) :=
  ⟨toyLz4Contract, by decide⟩

/-- lz4, the loop as written now, EVERY source (valid or malformed), every block decoder,
every dst: `Codec.Decode` returns within `log₂(255·len(src) + 128) + 2` rounds. -/
theorem lz4_loop_terminates (L : Lz4Impl) (src : Bytes) (dstCap : Nat) :
    (lz4Decode L (Nat.log2 (255 * src.length + 64 + 64) + 2) dstCap src).isSome = true := by
  apply lz4Loop_terminates L src
  have h1 : 255 * src.length + 64 + 64 < 2 ^ (Nat.log2 (255 * src.length + 64 + 64) + 1) :=
    Nat.lt_log2_self
  have h2 : 1 * 2 ^ (Nat.log2 (255 * src.length + 64 + 64) + 1) ≤
      (reserveAtLeast dstCap (3 * src.length) + 64) * 2 ^ (Nat.log2 (255 * src.length + 64 + 64) + 1) :=
    Nat.mul_le_mul_right _ (by omega)
  omega

/-- …and on a source no destination size makes decodable it returns the ERROR (not data) -/
theorem lz4_malformed_returns_error (L : Lz4Impl) (src : Bytes)
    (hbad : ∀ n, ∃ e, L.ub src n = .error e) (dstCap : Nat) :
    ∃ len, lz4Decode L (Nat.log2 (255 * src.length + 64 + 64) + 2) dstCap src = some (none, len) := by
  have h := lz4_loop_terminates L src dstCap
  cases hv : lz4Decode L (Nat.log2 (255 * src.length + 64 + 64) + 2) dstCap src with
  | none => rw [hv] at h; simp at h
  | some v =>
    obtain ⟨o, len⟩ := v
    cases o with
    | none => exact ⟨len, rfl⟩
    | some out =>
      have := lz4Loop_ok_sound L src _ _ out len hv
      obtain ⟨e, he⟩ := hbad len
      rw [he] at this
      cases this

example : (∀ n, ∃ e, toyLz4.ub [0xFF, 1] n = .error e) ∧
    lz4Decode toyLz4 40 0 [0xFF, 1] = some (none, 1056) :=
  ⟨fun n => ⟨.malformed, by simp [toyLz4]⟩, by decide⟩

/-- F16 regression fact (before 18102b0): the loop retried on EVERY error (pierrec/lz4 reports
one `ErrInvalidSourceShortBuffer` for both causes).  On a source that no destination size makes
decodable, `Codec.Decode` never returned, for any `dst`: no fuel suffices. -/
theorem lz4_malformed_never_returns_before_fix (L : Lz4Impl) (src : Bytes)
    (hbad : ∀ n, ∃ e, L.ub src n = .error e) (fuel dstCap : Nat) :
    lz4DecodeBeforeFix L fuel dstCap src = none :=
  lz4LoopBeforeFix_rejecting L src hbad fuel _

example : (∀ n, ∃ e, toyLz4.ub [0xFF, 1] n = .error e) ∧
    lz4DecodeBeforeFix toyLz4 40 0 [0xFF, 1] = none :=
  ⟨fun n => ⟨.malformed, by simp [toyLz4]⟩, by decide⟩

/-! ## The block formats themselves (Snappy, LZ4): spec decoders and reference encoders

Not the third-party encoders (still assumed, and sampled by L1 against these very decoders), but:
the FORMATS admit lossless encoders, including ones that use overlapping back-references, and the
spec decoders `snappyDec` / `lz4Dec` of `PqModel/Spec/BlockCodecs.lean` are total functions of the
stream that invert them for EVERY input. -/
open PqModel.Spec.BlockCodecs in
/-- Snappy block format: the spec decoder inverts the literal-only reference encoder and the
run-length reference encoder (one literal + overlapping copies at offset 1, split in pieces of
at most 64) on every input whose length fits the format's 32-bit preamble. -/
theorem snappy_dec_enc (x : List UInt8) (h : x.length < 4294967296) :
    snappyDec (snappyEncLit x) = .ok x ∧ snappyDec (snappyEncRle x) = .ok x :=
  ⟨snappyDec_encLit x h, snappyDec_encRle x h⟩

open PqModel.Spec.BlockCodecs in
example : snappyEncRle (List.replicate 70 7 ++ [1, 2, 2]) =
      [73, 0, 7, 254, 1, 0, 18, 1, 0, 0, 1, 0, 2, 2, 1, 0] ∧
    snappyDec [73, 0, 7, 254, 1, 0, 18, 1, 0, 0, 1, 0, 2, 2, 1, 0] = .ok (List.replicate 70 7 ++ [1, 2, 2]) ∧
    -- malformed streams are rejected, not guessed: offset beyond the output, wrong length
    snappyDec [3, 0, 7, 6, 5, 0] = .error .badOffset ∧ snappyDec [9, 0, 7, 6, 1, 0] = .error .badLength := by
  decide +kernel

open PqModel.Spec.BlockCodecs in
/-- LZ4 block format: the spec decoder inverts the reference encoder (literals; runs of 5 or more
as one literal and an overlapping match at offset 1, lengths with 255-extension bytes) on every
input. -/
theorem lz4_dec_enc (x : List UInt8) : lz4Dec (lz4EncSimple x) = .ok x :=
  lz4Dec_encSimple x

open PqModel.Spec.BlockCodecs in
example : lz4EncSimple (List.replicate 30 7 ++ [1, 2, 2]) = [31, 7, 1, 0, 10, 48, 1, 2, 2] ∧
    lz4Dec [31, 7, 1, 0, 10, 48, 1, 2, 2] = .ok (List.replicate 30 7 ++ [1, 2, 2]) ∧
    lz4Dec [] = .ok [] ∧ lz4Dec [0x10, 97, 0, 0] = .error .badOffset ∧
    lz4Dec [0x14, 97, 1, 0] = .error .truncated := by
  decide +kernel

/-! ## lz4 Encode: the destination handed to the block compressor (every dst capacity) -/

/-- lz4, `Codec.Encode` as it stands: whatever capacity the caller's dst has, the buffer handed to
`CompressBlock` has at least `CompressBlockBound(len(src))` bytes, so (contract of the
third-party compressor: it never gives up at or above the bound) Encode returns the block; and
with the decode loop (`lz4_loop_returns_valid`) `Decode(Encode(x)) = x` for EVERY pair of dst
capacities on the two sides. -/
theorem lz4_roundtrip_any_dst (E : Lz4EncImpl) (L : Lz4Impl) (enc : Bytes → Bytes) (need : Bytes → Nat)
    (hE : Lz4EncContract E enc) (hL : Lz4Contract L enc need) (x : Bytes) (capE capD : Nat) :
    (lz4Encode E capE x).1 = enc x ∧ lz4BlockBound x.length ≤ (lz4Encode E capE x).2 ∧
    ∃ len, lz4Decode L (Nat.log2 (need x) + 2) capD (lz4Encode E capE x).1 = some (some x, len) := by
  rw [lz4Encode_ok hE]
  refine ⟨rfl, reserveAtLeast_ge _ _, ?_⟩
  obtain ⟨j, _, h, _⟩ := lz4_loop_returns_valid L enc need hL x capD
  exact ⟨_, h⟩

example : Lz4EncContract toyLz4Enc2 PqModel.Spec.BlockCodecs.lz4LastSeq ∧
    lz4Encode toyLz4Enc2 1 [7] = ([16, 7], 17) :=
  ⟨toyLz4Enc2_contract, by decide⟩

/-- What the bound is for (regression fact about the variant "keep the caller's buffer when it
can hold the input", seeded change C20-3a — NOT the code): a compressor that meets the contract
and gives up below the bound, as pierrec/lz4 does on incompressible data, makes that variant
return the EMPTY block, without error, for a dst of capacity `len(src)`. -/
theorem lz4_encode_keep_caller_buffer_loses_data :
    ∃ (E : Lz4EncImpl) (enc : Bytes → Bytes) (x : Bytes) (cap : Nat), Lz4EncContract E enc ∧
      x.length ≤ cap ∧ (lz4EncodeKeepCaller E cap x).1 = [] ∧ enc x ≠ [] ∧
      (lz4Encode E cap x).1 = enc x :=
  ⟨toyLz4Enc2, _, [7], 1, toyLz4Enc2_contract, by decide, by decide, by decide, by decide⟩

open PqModel.Spec.BlockCodecs in
/-- SPEC: the worst-case bound is enough. For every input there is an LZ4 block of at most
`len + len/255 + 16` bytes that the spec decoder reads back to the input (the literal-only
block), so a compressor CAN always succeed within `CompressBlockBound`. -/
theorem lz4_bound_admits_lossless_block (x : List UInt8) :
    ∃ b : List UInt8, b.length ≤ lz4BlockBound x.length ∧ lz4Dec b = .ok x :=
  ⟨lz4LastSeq x, lz4LastSeq_length_le x, lz4Dec_lastSeq x⟩

example : PqModel.Spec.BlockCodecs.lz4LastSeq (List.replicate 300 9) =
    [240, 255, 30] ++ List.replicate 300 9 ∧ lz4BlockBound 300 = 317 := by decide +kernel

end PqModel.Props.C20
