import PqModel.Codec

/-! # C20 — Compression codecs are lossless whatever was compressed before (PARTIAL)

Partial by design: DEFLATE / brotli / zstd / lz4 / snappy internals are third-party code and are
*assumed* (contracts `WriterContract`, `ReaderBase`, `StrongReset` / `WeakReset`, `ZstdContract`,
`Lz4Contract` of `PqModel/Codec.lean`).  What is proved is that the pooling / reset / buffer /
retry logic of `compress/compress.go`, `compress/zstd`, `compress/lz4` turns these contracts
into "Decode(Encode(x)) = x after every history, for every dst, under every interleaving", and
where the code as it stands does not, the negation is proved on the mirror.

Histories (`List Call`) contain begin/end events of calls in any interleaving (concurrent use of
one codec value), arbitrary `pick`s (what sync.Pool hands out), failing decodes, panics.

-- OPEN (not provable here, by design): `∀ x, realDecode (realEncode x) = x` for the third-party
-- codecs themselves; that `klauspost/compress/gzip.Reader.Reset` etc. meet `StrongReset`.
-- Both are sampled by the L1 check on the real codecs, not proved.
-/
namespace PqModel.Props.C20
open PqModel.Codec

/-- Pooled codecs (gzip, brotli): under the writer contract and the STRONG reader-Reset
contract, after any history `h1` (any interleaving, picks, failed decodes, panics) `Encode x`
returns the fresh encoding, and after any further history `h2` decoding it returns `x` — for
every dst capacity, every pool choice, both policies, as a whole call or as an in-flight call.
`C.fuel` only has to exceed the number of Reads a fresh reader needs for `enc x` (no hang). -/
theorem history_independent {ω ρ} (C : Codec ω ρ) (enc : Bytes → Bytes)
    (hW : WriterContract C.W enc) (B : ReaderBase C.R enc) (hS : StrongReset C.R)
    (x : Bytes) (hfuel : ∀ s0, C.R.new (enc x) = some s0 → B.steps s0 < C.fuel)
    (h1 h2 : List Call) (pe pd : Option Nat) (ce cd : Nat) (wholeE wholeD : Bool) :
    let s1 := run C .init h1
    let e := step C s1 (if wholeE then .encode pe ce x else .encBegin pe ce x)
    let s2 := run C e.st h2
    let d := step C s2 (if wholeD then .decode pd cd (enc x) else .decBegin pd cd (enc x))
    e.out = some (.ok (enc x)) ∧ d.out = some (.ok x) := by
  intro s1 e s2 d
  constructor
  · show (step C s1 _).out = _
    cases wholeE
    · simp only [step, Bool.false_eq_true, ↓reduceIte, encBegin_ok hW]
    · simp only [step, ↓reduceIte]; split <;> simp only [encBegin_ok hW]
  · show (step C s2 _).out = _
    cases wholeD
    · simp only [step, Bool.false_eq_true, ↓reduceIte, decBegin_ok_strong B hS C.fuel x hfuel]
    · simp only [step, ↓reduceIte]
      split <;> simp only [decBegin_ok_strong B hS C.fuel x hfuel]

/-- the hypotheses are satisfiable: the toy stream family with a Reset that clears everything -/
example : ∃ (C : Codec ToyW ToyR) (_ : WriterContract C.W toyEnc) (B : ReaderBase C.R toyEnc),
    StrongReset C.R ∧ ∀ s0, C.R.new (toyEnc [1, 2, 3]) = some s0 → B.steps s0 < C.fuel :=
  ⟨toyCodec ⟨true, false, true, 1, false, none, none⟩ .asIs 10,
   toyWriterContract _ rfl rfl, toyBase _, toyStrong _ rfl, by
     intro s0 h
     have := toyOpen_enc ⟨true, false, true, 1, false, none, none⟩ [1, 2, 3]
     simp only [toyCodec, toyReader] at h
     rw [this] at h
     cases h
     decide⟩

/-- F18, negation on the mirror.  A reader that meets only the WEAK Reset contract (input left
over by an "excessive input" failure survives Reset — andybalholm/brotli reader.go:33-46) with
the pool logic as it is: after ONE failed decode the next `Decode(Encode x)` on the same codec
value returns wrong bytes without any error (first witness) or an error (second witness). -/
theorem brotli_like_reader_breaks_history :
    let cfg : ToyCfg := ⟨false, true, false, 7, true, none, none⟩
    let C := toyCodec cfg .asIs 50
    -- the failing decode: a valid stream followed by 4 trailing bytes → "excessive input"
    (trace C .init [.decode none 0 (toyEnc [5] ++ [0xA7, 1, 9, 1])]).map (·.1)
      = [some (.err [5])] ∧
    (step C (run C .init [.decode none 0 (toyEnc [5] ++ [0xA7, 1, 9, 1])])
        (.decode (some 0) 0 (toyEnc [7]))).out = some (.ok [9, 0xA7, 7]) ∧
    (step C (run C .init [.decode none 0 (toyEnc [5] ++ [9])])
        (.decode (some 0) 0 (toyEnc [7]))).out = some (.err []) ∧
    -- the same reader, fresh: fine
    (step C .init (.decode none 0 (toyEnc [7]))).out = some (.ok [7]) := by
  decide

/-- F18, second face (found by the L2 comparison, then confirmed on the real brotli codec):
with the same stale reader in the pool, `Decode(nil, [])` — empty src, dst of capacity 0 —
never returns, for any amount of fuel: `cap(dst) = 2*len(src) = 0`, the reader has stale
input to decode, and the read loop of compress.go:125-147 asks it for 0 bytes for ever.
The pool state is the one the failed decode of the previous theorem leaves (example below). -/
theorem empty_src_after_failed_decode_hangs (fuel : Nat) :
    let cfg : ToyCfg := ⟨false, true, false, 7, true, none, none⟩
    let d : DPool ToyR := ⟨[⟨0, ⟨[], .excess, [0xA7, 1, 9, 1]⟩⟩], [], 1⟩
    (decBegin (toyReader cfg) fuel d (some 0) 0 []).out = .hang := by
  intro cfg d
  have hs : (toyReader cfg).read ⟨[9], .truncated, []⟩ 0 = (⟨[9], .truncated, []⟩, [], .more) := by
    simp [toyReader, cfg]
  have hl := readLoop_stuck (toyReader cfg) _ hs fuel
  have htake : take d.idle (some 0) = (some ⟨0, ⟨[], .excess, [0xA7, 1, 9, 1]⟩⟩, []) := by decide
  have hreset : (toyReader cfg).reset ⟨[], .excess, [0xA7, 1, 9, 1]⟩ (some []) =
      some ⟨[9], .truncated, []⟩ := by decide
  have hcap : decCap 0 ([] : Bytes) = 0 := by decide
  unfold decBegin
  simp only [htake, hreset, hcap, hl, loopOutcome]

example :
    let C := toyCodec ⟨false, true, false, 7, true, none, none⟩ .asIs 50
    (run C .init [.decode none 0 (toyEnc [5] ++ [0xA7, 1, 9, 1])]).d.idle
      = [⟨0, ⟨[], .excess, [0xA7, 1, 9, 1]⟩⟩] ∧
    (step C (run C .init [.decode none 0 (toyEnc [5] ++ [0xA7, 1, 9, 1])])
        (.decode (some 0) 0 [])).out = some .hang ∧
    -- a fresh codec value answers at once
    (step C .init (.decode none 0 [])).out = some (.err []) := by decide

/-- F18, the repair.  With `Policy.dropFailed` (a reader whose decode returned an error is not
put back) the WEAK Reset contract is enough: history independence again holds for every
history.  (Needs an invariant over the history: every idle reader is resettable.) -/
theorem history_independent_weak_reset_drop_failed {ω ρ} (C : Codec ω ρ) (enc : Bytes → Bytes)
    (hpol : C.pol = .dropFailed)
    (hW : WriterContract C.W enc) (B : ReaderBase C.R enc) (K : WeakReset C.R)
    (x : Bytes) (hfuel : ∀ s0, C.R.new (enc x) = some s0 → B.steps s0 < C.fuel)
    (h1 h2 : List Call) (pe pd : Option Nat) (ce cd : Nat) (wholeE wholeD : Bool) :
    let s1 := run C .init h1
    let e := step C s1 (if wholeE then .encode pe ce x else .encBegin pe ce x)
    let s2 := run C e.st h2
    let d := step C s2 (if wholeD then .decode pd cd (enc x) else .decBegin pd cd (enc x))
    e.out = some (.ok (enc x)) ∧ d.out = some (.ok x) := by
  intro s1 e s2 d
  have hinit : DInv K (CState.init (ω := ω) (ρ := ρ)).d := ⟨by simp [CState.init], by simp [CState.init]⟩
  have h1i : DInv K s1.d := run_inv C hpol K h1 _ hinit
  have hei : DInv K e.st.d := step_inv C hpol K s1 h1i _
  have h2i : DInv K s2.d := run_inv C hpol K h2 _ hei
  constructor
  · show (step C s1 _).out = _
    cases wholeE
    · simp only [step, Bool.false_eq_true, ↓reduceIte, encBegin_ok hW]
    · simp only [step, ↓reduceIte]; split <;> simp only [encBegin_ok hW]
  · show (step C s2 _).out = _
    cases wholeD
    · simp only [step, Bool.false_eq_true, ↓reduceIte,
        decBegin_ok_weak B K C.fuel x hfuel s2.d h2i]
    · simp only [step, ↓reduceIte]
      split <;> simp only [decBegin_ok_weak B K C.fuel x hfuel s2.d h2i]

/-- satisfiable by the brotli-like toy reader itself (`keepStale = true`), on which the
unrepaired pool fails (previous theorem) -/
example : ∃ (C : Codec ToyW ToyR) (_ : WriterContract C.W toyEnc) (_ : ReaderBase C.R toyEnc)
    (_ : WeakReset C.R), C.pol = .dropFailed ∧ ¬ StrongReset C.R :=
  ⟨toyCodec ⟨false, true, false, 7, true, none, none⟩ .dropFailed 50,
   toyWriterContract _ rfl rfl, toyBase _, toyWeak _, rfl, by
     intro h
     have := h ⟨[], .excess, [9]⟩ [0xA7, 0]
     revert this
     decide⟩

/-- …and on the F18 witness history the repaired pool returns `x` -/
example :
    let C := toyCodec ⟨false, true, false, 7, true, none, none⟩ .dropFailed 50
    (step C (run C .init [.decode none 0 (toyEnc [5] ++ [0xA7, 1, 9, 1])])
        (.decode (some 0) 0 (toyEnc [7]))).out = some (.ok [7]) := by decide

/-- F17, negation on the mirror (for every reader, pool content and dst): when the constructor
(fresh object) and Reset (pooled object) report an error for `src` — klauspost gzip reads the
header there — `Decompressor.Decode` PANICS instead of returning the error ("Will be caught
below", compress.go:106/113, is not true), and a pooled reader taken for the call is lost. -/
theorem decode_panics_when_header_rejected {ρ} (R : ReaderImpl ρ) (src : Bytes)
    (hnew : R.new src = none) (hreset : ∀ s, R.reset s (some src) = none)
    (fuel : Nat) (d : DPool ρ) (pick : Option Nat) (dstCap : Nat) :
    (decBegin R fuel d pick dstCap src).out = .panic ∧
    (decBegin R fuel d pick dstCap src).armed = false ∧
    (decBegin R fuel d pick dstCap src).pool.idle.length ≤ d.idle.length := by
  unfold decBegin
  split
  · simp [hnew]
  · rename_i it idle htk
    simp only [hreset, true_and]
    unfold take at htk
    split at htk
    · simp at htk
    · split at htk
      · simp only [Prod.mk.injEq, Option.some.injEq] at htk
        rw [← htk.2]; exact List.length_filter_le _ _
      · simp at htk

/-- concrete F17 witness on a gzip-like toy reader, and the pooled reader disappearing -/
example :
    let C := toyCodec ⟨true, false, false, 7, true, none, none⟩ .asIs 50
    (step C .init (.decode none 0 [0x1f, 0x8b])).out = some .panic ∧
    (run C .init [.decode none 0 (toyEnc [1])]).d.idle.length = 1 ∧
    (run C .init [.decode none 0 (toyEnc [1]), .decode (some 0) 0 [0x1f, 0x8b]]).d.idle.length = 0 := by
  decide

-- OPEN (FALSE for the code as it stands — `decode_panics_when_header_rejected` is its negation
-- for gzip-like readers): ∀ C s c, (step C s c).out ≠ some .panic   — "no call ever panics".
-- What is missing for the unconditional statement: compress.go must return the constructor /
-- Reset error instead of `panic(err)` (F17).
/-- no call of any history panics when constructors and `Reset(src)` never report an error and
Read respects `len(p)` (what brotli/zstd-style readers do; gzip does not: F17) -/
theorem no_panic_partial {ω ρ} (C : Codec ω ρ)
    (hWnew : C.W.new ≠ none) (hnew : ∀ src, C.R.new src ≠ none)
    (hreset : ∀ s src, C.R.reset s (some src) ≠ none)
    (hlen : ∀ s n, (C.R.read s n).2.1.length ≤ n)
    (s : CState ω ρ) (c : Call) : (step C s c).out ≠ some .panic := by
  have hdec : ∀ p dc src, (decBegin C.R C.fuel s.d p dc src).out ≠ .panic := by
    intro p dc src
    unfold decBegin
    split
    · split
      · rename_i h; exact absurd h (hnew src)
      · exact loopOutcome_ne_panic (readLoop_no_oob C.R hlen C.fuel _ [] (decCap dc src)) _
    · split
      · rename_i h; exact absurd h (hreset _ src)
      · exact loopOutcome_ne_panic (readLoop_no_oob C.R hlen C.fuel _ [] (decCap dc src)) _
  have henc : ∀ p dc src, (encBegin C.W s.c p dc src).out ≠ .panic := by
    intro p dc src
    unfold encBegin
    split
    · split
      · rename_i h; exact absurd h hWnew
      · simp only [writeClose]; split <;> (try split) <;> simp
    · simp only [writeClose]; split <;> (try split) <;> simp
  cases c with
  | encBegin p dc src => simpa [step] using henc p dc src
  | encEnd k => simp [step]
  | decBegin p dc src => simpa [step] using hdec p dc src
  | decEnd k => simp [step]
  | encode p dc src => simp only [step]; split <;> simpa using henc p dc src
  | decode p dc src => simp only [step]; split <;> simpa using hdec p dc src

example : ∃ C : Codec ToyW ToyR, C.W.new ≠ none ∧ (∀ src, C.R.new src ≠ none) ∧
    (∀ s src, C.R.reset s (some src) ≠ none) ∧ (∀ s n, (C.R.read s n).2.1.length ≤ n) :=
  ⟨toyCodec ⟨false, false, false, 3, false, none, none⟩ .asIs 9, by simp [toyCodec, toyWriter],
   by intro src; cases src <;> simp [toyCodec, toyReader, toyOpen] <;> split <;> simp,
   by intro s src
      simp only [toyCodec, toyReader]
      cases (toyCarry _ s ++ src) <;> simp [toyOpen] <;> split <;> simp,
   (toyBase _).read_len⟩

/-- aliasing: after every history, no idle pooled writer still refers to a caller's `dst` (or
to any sink but io.Discard), so output slices handed out earlier are never written again by the
pool (compress.go:75-79) -/
theorem idle_writers_hold_no_caller_buffer {ω ρ} (C : Codec ω ρ) (h : List Call) :
    ∀ it, it ∈ (run C .init h).c.idle → it.sink = .detached :=
  run_cinv C h _ (by intro it hit; simp [CState.init] at hit)

/-- zstd: encoder and decoder pools without reset; under the contract "EncodeAll/DecodeAll are
self-contained" any history (incl. failed decodes, which are put back) is harmless -/
theorem zstd_history_independent {ε δ} (Z : ZstdImpl ε δ) (hZ : ZstdContract Z)
    (h1 h2 : List ZCall) (x : Bytes) (pe pd : Option Nat) :
    let p1 := zRun Z ⟨[], []⟩ h1
    let e := zEncode Z p1 pe x
    let p2 := zRun Z e.2 h2
    (zDecode Z p2 pd e.1).1 = some x := by
  intro p1 e p2
  simp only [zDecode, e, zEncode]
  exact hZ _ _ x

example : ∃ Z : ZstdImpl Unit Unit, ZstdContract Z :=
  ⟨⟨(), (), fun _ x => ((), x), fun _ y => ((), some y)⟩, by intro e d x; rfl⟩

/-- lz4, the code as it is, on VALID input: the retry loop returns `x` after exactly `j`
doublings, `j` the least exponent with `need x ≤ L0·2^j` (`L0 = max(cap dst, 3·len src)`), and
`j ≤ log₂(need x) + 1`: fuel `log₂(need x) + 2` always suffices, fuel `j` does not. -/
theorem lz4_loop_returns_valid (L : Lz4Impl) (enc : Bytes → Bytes) (need : Bytes → Nat)
    (hL : Lz4Contract L enc need) (x : Bytes) (dstCap : Nat)
    (hpos : 0 < reserveAtLeast dstCap (3 * (enc x).length)) :
    let L0 := reserveAtLeast dstCap (3 * (enc x).length)
    ∃ j, j ≤ Nat.log2 (need x) + 1 ∧
      lz4Decode L (Nat.log2 (need x) + 2) dstCap (enc x) = some (x, L0 * 2 ^ j) ∧
      need x ≤ L0 * 2 ^ j ∧ (∀ i, i < j → L0 * 2 ^ i < need x) ∧
      lz4Loop L (enc x) j L0 = none := by
  intro L0
  have hk : need x ≤ L0 * 2 ^ (Nat.log2 (need x) + 1) := by
    have h1 : need x < 2 ^ (Nat.log2 (need x) + 1) := Nat.lt_log2_self
    have h2 : 2 ^ (Nat.log2 (need x) + 1) ≤ L0 * 2 ^ (Nat.log2 (need x) + 1) :=
      Nat.le_mul_of_pos_left _ hpos
    omega
  obtain ⟨j, hj, hr, hn, hlt, hnone⟩ := lz4Loop_valid_fuel hL x _ L0 hk
  exact ⟨j, hj, hr, hn, hlt, hnone⟩

example : Lz4Contract toyLz4 toyLz4Enc (fun x => x.length) ∧
    -- 40 bytes behind a 1-byte tag: L0 = 3·41 = 123 fits at once
    lz4Decode toyLz4 7 0 (toyLz4Enc (List.replicate 40 7)) = some (List.replicate 40 7, 123) ∧
    -- a block that expands (modelled by need > L0): one doubling
    0 < reserveAtLeast 0 (3 * (toyLz4Enc [1, 2]).length) :=
  ⟨toyLz4Contract, by decide, by decide⟩

/-- lz4 with the repair "retry only when the block decoder says *destination too short*"
(`lz4LoopStrict`): for EVERY source, valid or malformed, the loop ends within
`log₂(bound) + 2` rounds, `bound` being any size from which "too short" is no longer reported
(255·len(src) for the LZ4 block format). -/
theorem lz4_loop_terminates (L : Lz4Impl) (src : Bytes) (dstCap bound : Nat)
    (hpos : 0 < reserveAtLeast dstCap (3 * src.length))
    (hb : ∀ n, bound ≤ n → L.ub src n ≠ .error .short) :
    (lz4LoopStrict L src (Nat.log2 bound + 2) (reserveAtLeast dstCap (3 * src.length))).isSome = true := by
  apply lz4LoopStrict_terminates L src bound hb
  have h1 : bound < 2 ^ (Nat.log2 bound + 1) := Nat.lt_log2_self
  have h2 : 2 ^ (Nat.log2 bound + 1) ≤
      reserveAtLeast dstCap (3 * src.length) * 2 ^ (Nat.log2 bound + 1) :=
    Nat.le_mul_of_pos_left _ hpos
  omega

example : (0 < reserveAtLeast 0 (3 * [0xFF, 1].length)) ∧
    (∀ n, 2 ≤ n → toyLz4.ub [0xFF, 1] n ≠ .error .short) ∧
    lz4LoopStrict toyLz4 [0xFF, 1] 3 6 = some (.error .malformed, 6) := by
  refine ⟨by decide, ?_, rfl⟩
  intro n _; simp [toyLz4]

/-- F16, negation on the mirror: the code as it stands retries on EVERY error (pierrec/lz4
reports one `ErrInvalidSourceShortBuffer` for both causes).  On a source that no destination
size makes decodable, `Codec.Decode` never returns, for any `dst`: no fuel suffices, and round
`k` asks for a buffer of `L0·2^k` bytes (memory exhaustion). -/
theorem lz4_malformed_never_returns (L : Lz4Impl) (src : Bytes)
    (hbad : ∀ n, ∃ e, L.ub src n = .error e) (fuel dstCap : Nat) :
    lz4Decode L fuel dstCap src = none :=
  lz4Loop_rejecting L src hbad fuel _

example : (∀ n, ∃ e, toyLz4.ub [0xFF, 1] n = .error e) ∧ lz4Decode toyLz4 40 0 [0xFF, 1] = none :=
  ⟨fun n => ⟨.malformed, by simp [toyLz4]⟩, by decide⟩

end PqModel.Props.C20
