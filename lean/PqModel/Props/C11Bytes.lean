import PqModel.Splice
import PqModel.Reencode
import PqModel.BloomSize

/-! # C11 (continued) — the byte splice, the re-encode path on column streams, `uint` bloom sizes

Mirror: `Splice.loadCopied` / `writeCopied` / `spliceChunk` / `rowGroupMetasMixed` / `placeBlooms`
(writer_copy.go:449-525, writer.go:1573-1670), `CopyPath.bloomSizeGo` (bloom/filter.go:35-39).
Spec: `Layout.chunkMeta` + `layout_wf` (metadata describing pages laid out at an offset), list
slicing for bytes, the reader/writer of `FileModel` with the codec hypotheses `ColCodec.OK`. -/
namespace PqModel.Props.C11Bytes
open PqModel.Layout PqModel.Splice PqModel.Reencode PqModel.FileModel PqModel.Dremel PqModel.Pages PqModel.CopyPath

/-- If the source metadata describes pages `ps` laid out at `srcStart`, the spliced metadata
    describes the same pages laid out at `dstStart`: dictionary page offset, data page offset and
    every page location rebased; sizes, value and row counts unchanged. Every page sequence, every
    source and destination position; the layout error of `loadCopiedChunk` cannot occur. -/
theorem splice_wf (srcStart dstStart : Nat) (ps : List PageOp) :
    spliceChunk (chunkMeta srcStart ps) dstStart = some (chunkMeta dstStart ps) :=
  Splice.splice_wf srcStart dstStart ps

/-- spelled out with `layout_wf`: the spliced page locations are the true (start, size, first row)
    of every data page at the destination; the totals are the sums over the pages -/
theorem splice_positional (srcStart dstStart : Nat) (ps : List PageOp) :
    ∃ m, spliceChunk (chunkMeta srcStart ps) dstStart = some m ∧
      m.locs = specLocs dstStart 0 ps ∧ m.totalCompressed = totalSize ps ∧
      m.numValues = ((dataPages ps).map (·.numValues)).sum ∧ m.numRows = ((dataPages ps).map (·.numRows)).sum :=
  ⟨_, Splice.splice_wf srcStart dstStart ps, (layout_wf dstStart ps).1, (layout_wf dstStart ps).2.1,
    (layout_wf dstStart ps).2.2.2.1, (layout_wf dstStart ps).2.2.2.2⟩

/-- the bytes streamed for the chunk are the source bytes `[srcStart, srcStart + totalSize ps)`
    (the dictionary range and the data range are adjacent), and the file offset advances by that -/
theorem splice_bytes {β : Type} (file : List β) (srcStart dstStart : Nat) (ps : List PageOp) :
    (loadCopied (chunkMeta srcStart ps)).map (copiedBytes file) = some ((file.drop srcStart).take (totalSize ps)) ∧
    (loadCopied (chunkMeta srcStart ps)).map (fun c => (writeCopied dstStart c).2) = some (dstStart + totalSize ps) :=
  ⟨copied_bytes file srcStart ps, splice_advances srcStart dstStart ps⟩

/-- so every page reads, at its rebased offset in the output, the bytes it had in the source:
    for the output `pre ++ segment ++ post` with the segment at `dstStart = pre.length`, the range
    `[dstStart + k, +z)` equals the source range `[srcStart + k, +z)` -/
theorem splice_page_bytes {β : Type} (file pre post : List β) (srcStart total k z : Nat)
    (hk : k + z ≤ total) (hlen : srcStart + total ≤ file.length) :
    (((pre ++ (file.drop srcStart).take total ++ post).drop (pre.length + k)).take z) =
      ((file.drop (srcStart + k)).take z) :=
  page_bytes_preserved file pre post srcStart total k z hk hlen

example : ∃ (file : List Nat), 4 + 6 ≤ file.length := ⟨List.range 20, by decide⟩

/-- a row group whose columns are partly written from buffered pages and partly spliced gets the
    metadata of the same pages all written directly, chunk after chunk (extends `rowGroup_wf`) -/
theorem rowGroup_wf_mixed (start : Nat) (cs : List ChunkIn) (pss : List (List PageOp))
    (hl : cs.length = pss.length)
    (hd : ∀ i (h : i < cs.length) (h' : i < pss.length), Describes cs[i] pss[i]) :
    rowGroupMetasMixed start cs =
      some ((List.zip (chunkStarts start pss) pss).map (fun sc => chunkMeta sc.1 sc.2)) := by
  rw [Splice.rowGroup_wf_mixed start cs pss hl hd, rowGroup_wf]

example : Describes (.copied (chunkMeta 4 [⟨false, 12, 30, 40, 5, 5⟩])) [⟨false, 12, 30, 40, 5, 5⟩] := ⟨4, rfl⟩

/-- bloom filter sections follow the chunks back to back: every recorded offset is the start plus
    the lengths of the sections before it -/
theorem bloom_sections_wf (off : Nat) (lens : List Nat) :
    (placeBlooms off lens).2 = off + lens.sum ∧
    ∀ i (h : i < lens.length), ((placeBlooms off lens).1)[i]? =
      some (if lens[i] = 0 then none else some (off + (lens.take i).sum, lens[i])) :=
  placeBlooms_wf off lens

/-- The re-encode path on column streams: if the source chunks decode (source codecs) to streams
    `ss`, the re-encoded chunks decode (destination codecs, any destination page cuts and
    dictionary fallback) to `ss`. Codec hypotheses as in `FileModel` / `Props.C01.roundtrip`. -/
theorem reencode_preserves_streams {β γ β' γ'} {cdA : Nat → ColCodec β γ} {cdB : Nat → ColCodec β' γ'} {B : Nat}
    (strict : Bool) (cfgB : Nat → ChunkCfg) {lvs : List (Nat × Nat)} {ss : Cols}
    (src : List (Chunk β γ)) (hsrc : readCols false cdA 0 lvs src = some ss)
    (hp : Pairs LvOK lvs ss) (hcd : ∀ i, i < lvs.length → (cdB i).OK B)
    (hB : ∀ lv ∈ lvs, lv.1 ≤ B ∧ lv.2 ≤ B)
    (hv : valsIn (fun j => (cdB j).okV) 0 ss = true)
    (ha : strict = true → colsAligned cfgB 0 ss = true) :
    (reencodeCols cdA cdB cfgB 0 lvs src).bind (readCols strict cdB 0 lvs) = some ss :=
  Reencode.reencode_preserves_streams strict cfgB src hsrc hp hcd hB hv ha

/-- satisfiable: the source hypothesis holds for every row group written by the model writer under
    any source codecs and cuts (decode ∘ encode ∘ decode ∘ encode) -/
theorem reencode_of_written {β γ β' γ'} {cdA : Nat → ColCodec β γ} {cdB : Nat → ColCodec β' γ'} {B : Nat}
    (strict : Bool) (cfgA cfgB : Nat → ChunkCfg) {lvs : List (Nat × Nat)} {ss : Cols}
    (hp : Pairs LvOK lvs ss) (hA : ∀ i, i < lvs.length → (cdA i).OK B) (hcd : ∀ i, i < lvs.length → (cdB i).OK B)
    (hB : ∀ lv ∈ lvs, lv.1 ≤ B ∧ lv.2 ≤ B)
    (hvA : valsIn (fun j => (cdA j).okV) 0 ss = true) (hvB : valsIn (fun j => (cdB j).okV) 0 ss = true)
    (ha : strict = true → colsAligned cfgB 0 ss = true) :
    (reencodeCols cdA cdB cfgB 0 lvs (writeCols cdA cfgA 0 lvs ss)).bind (readCols strict cdB 0 lvs) = some ss :=
  Reencode.reencode_of_written strict cfgA cfgB hp hA hcd hB hvA hvB ha

/-- packing several segments into one output row group (`packSegmentsByColumn`): the output decodes
    to the per-column concatenation of the segments' streams in segment order -/
theorem pack_preserves_streams {β γ β' γ'} {cdA : Nat → ColCodec β γ} {cdB : Nat → ColCodec β' γ'} {B : Nat}
    (strict : Bool) (cfgB : Nat → ChunkCfg) {lvs : List (Nat × Nat)}
    (segs : List (List (Chunk β γ))) (streams : List Cols)
    (hsrc : segs.mapM (readCols false cdA 0 lvs) = some streams)
    (hp : ∀ s ∈ streams, Pairs LvOK lvs s) (hcd : ∀ i, i < lvs.length → (cdB i).OK B)
    (hB : ∀ lv ∈ lvs, lv.1 ≤ B ∧ lv.2 ≤ B)
    (hv : valsIn (fun j => (cdB j).okV) 0 (joinSegs lvs.length streams) = true)
    (ha : strict = true → colsAligned cfgB 0 (joinSegs lvs.length streams) = true) :
    (packCols cdA cdB cfgB lvs segs).bind (readCols strict cdB 0 lvs) = some (joinSegs lvs.length streams) :=
  Reencode.pack_preserves_streams strict cfgB segs streams hsrc hp hcd hB hv ha

/-- the `Nat` formula of the cascade mirror IS the Go `uint` computation as long as
    `numValues * bitsPerValue + 7 < 2^64` … -/
theorem bloomSize_exact_below_bound (bpv nv : Nat) (h : nv * bpv + 7 < 2 ^ 64) :
    bloomSizeGo bpv nv = bloomSize bpv nv :=
  bloomSizeGo_eq bpv nv h

/-- … in particular for every chunk below 2^47 values with fewer than 2^16 bits per value -/
theorem bloomSize_exact_practical (bpv nv : Nat) (hb : bpv < 2 ^ 16) (hn : nv < 2 ^ 47) :
    bloomSizeGo bpv nv = bloomSize bpv nv := by
  apply bloomSizeGo_eq
  have : nv * bpv ≤ 2 ^ 47 * 2 ^ 16 := Nat.mul_le_mul (Nat.le_of_lt hn) (Nat.le_of_lt hb)
  have e : (2 : Nat) ^ 47 * 2 ^ 16 = 2 ^ 63 := by decide
  omega

/-- … and above the bound the Go computation does wrap (2^60 values at 16 bits per value: a filter
    of 0 bytes instead of 2^61), so the bound is needed -/
theorem bloomSize_wraps_above : bloomSizeGo 16 (2 ^ 60) = 0 ∧ bloomSize 16 (2 ^ 60) = 2 ^ 61 := by decide

end PqModel.Props.C11Bytes
