import PqModel.AadSites

/-! # C18 — every call site of `makeAAD` passes the ordinals of the slot it works on, on the eager
    and on the lazy reader path alike; index and bloom modules cannot be transplanted

`Aad.sites` mirrors the 26 calls of `makeAAD` (re-extracted from the source on every run and
compared in `FactsCheckC18`). Here: (1) whatever the position, every site hands `makeAAD` exactly
the module type and ordinals of the slot it is working on; (2) every module type is sealed by some
writer site and opened by some reader site, column and offset index on both the eager (`OpenFile`)
and the lazy (`SkipPageIndex`, per chunk) path, and all sites of a type agree; (3) under the
ideal-AEAD hypothesis a module sealed by ANY writer site for one position does not open at ANY
reader site working on another slot — in particular a column index, offset index or bloom filter
moved to another column chunk or row group is refused on both paths. A witness shows the
statement is sensitive to the argument order. AES-GCM is ASSUMED (`Ideal`), as in `Props/C18`. -/
namespace PqModel.Props.C18Sites
open PqModel.Aad

/-- (1) Every call site, at every position, passes the module type and the ordinals — in order —
    of the slot it is working on. -/
theorem site_passes_slot_arguments (s : Site) (hs : s ∈ sites) (c : Coord) :
    s.used c = (s.slot c).used :=
  site_used_eq_slot_used hs c

/-- … hence in bytes: the AAD a site computes is the AAD of its slot. -/
theorem site_aad_is_slot_aad (s : Site) (hs : s ∈ sites) (c : Coord) (pfx fu : Bytes) :
    (s.used c).aad pfx fu = (s.slot c).aad pfx fu := by
  rw [site_passes_slot_arguments s hs c]; rfl

example : (⟨"file.go:FileColumnChunk.readOffsetIndex", .readerLazy, .file, .offsetIndex, [.rg, .col]⟩ : Site) ∈ sites := by decide

/-- (2a) Any two sites of the same module type working on the same position compute the same
    arguments: writer and reader, eager and lazy. -/
theorem sites_of_a_type_agree (s s' : Site) (hs : s ∈ sites) (hs' : s' ∈ sites) (ht : s.t = s'.t) (c : Coord) :
    s.used c = s'.used c := by
  rw [site_passes_slot_arguments s hs c, site_passes_slot_arguments s' hs' c, Site.slot, Site.slot, ht]

def allTypes : List ModType :=
  [.footer, .columnMeta, .dataPage, .dataPageHeader, .dictPage, .dictPageHeader, .bloomHeader, .bloomBits, .columnIndex, .offsetIndex]

theorem allTypes_complete (t : ModType) : t ∈ allTypes := by cases t <;> decide

/-- (2b) Coverage: every module type has a sealing site in the writer and an opening site in the
    reader; the page-index modules have one on the eager AND one on the lazy path; the data pages
    are also re-opened by the writer itself. -/
theorem every_type_sealed_and_opened (t : ModType) :
    (∃ s ∈ sites, s.t = t ∧ s.party = .writerSeal) ∧ (∃ s ∈ sites, s.t = t ∧ s.party.isReader = true) := by
  have h : allTypes.all (fun t => sites.any (fun s => s.t == t && s.party == .writerSeal) &&
      sites.any (fun s => s.t == t && s.party.isReader)) = true := by decide
  have ht := List.all_eq_true.1 h t (allTypes_complete t)
  simp only [Bool.and_eq_true, List.any_eq_true, beq_iff_eq] at ht
  obtain ⟨⟨s, hs, h1, h2⟩, ⟨s', hs', h1', h2'⟩⟩ := ht
  exact ⟨⟨s, hs, h1, h2⟩, ⟨s', hs', h1', h2'⟩⟩

theorem page_index_read_on_both_paths :
    ([ModType.columnIndex, ModType.offsetIndex]).all (fun t =>
      sites.any (fun s => s.t == t && s.party == .readerEager) && sites.any (fun s => s.t == t && s.party == .readerLazy)) = true ∧
    ([ModType.bloomHeader, ModType.bloomBits]).all (fun t => sites.any (fun s => s.t == t && s.party == .readerLazy)) = true ∧
    ([ModType.dataPage, ModType.dataPageHeader]).all (fun t => sites.any (fun s => s.t == t && s.party == .writerReopen)) = true := by
  decide

/-- (2c) Prefix and identifier come from the state of the FILE at every site but the column
    writer's (whose copies the writer state machine of `Aad.lean` tracks, `RgSt.colFu`) and the page
    reader's (copied once from the file by `FilePages.init`). -/
theorem holders_by_party :
    sites.all (fun s => match s.party with
      | .writerSeal => s.holder == .writerState || s.holder == .columnWriter
      | .writerReopen => s.holder == .columnWriter
      | .readerEager => s.holder == .cryptoMeta || s.holder == .file
      | .readerLazy => s.holder == .file
      | .readerPages => s.holder == .pages) = true := by decide

section aead
variable {K N C : Type} (A : AEAD K N C)

/-- ideal AEAD: a sealing under one AAD does not open under another -/
theorem open_other_aad_fails (hI : Ideal A) (k k' : K) (n : N) (aad aad' p : Bytes) (h : aad ≠ aad') :
    openModule A k aad (sealModule A k' n aad' p) = none := by
  cases ho : openModule A k aad (sealModule A k' n aad' p) with
  | none => rfl
  | some q =>
    have := hI.open_only _ _ _ _ _ ho
    obtain ⟨_, _, ha, _⟩ := hI.seal_inj _ _ _ _ _ _ _ _ this
    exact absurd ha.symm h

/-- (3) TRANSPLANT, site level: a module sealed at ANY writer site `w` for position `cw`, placed
    where ANY reader site `r` (eager, lazy or page reader) working on position `cr` finds it, does
    not open unless it is the module of that very slot — whatever the keys. -/
theorem transplant_fails_at_every_site (hI : Ideal A) (w r : Site) (hw : w ∈ sites) (hr : r ∈ sites)
    (cw cr : Coord) (hwr : (w.slot cw).InRange) (hrr : (r.slot cr).InRange) (hne : w.slot cw ≠ r.slot cr)
    (pfx fu : Bytes) (k k' : K) (n : N) (p : Bytes) :
    openModule A k ((r.used cr).aad pfx fu) (sealModule A k' n ((w.used cw).aad pfx fu) p) = none := by
  apply open_other_aad_fails A hI
  rw [site_aad_is_slot_aad r hr, site_aad_is_slot_aad w hw]
  intro h
  exact hne (Module.aad_inj hrr hwr h).symm

/-- (3') The index and bloom modules in particular: a column index, offset index, bloom filter
    header or bitset sealed for chunk `(rg', col')` does not open in the place of the same kind of
    module of a different chunk `(rg, col)` — at `OpenFile` (eager) and at the per-chunk lookups
    after `SkipPageIndex` (lazy) alike. -/
theorem index_module_transplant_fails (hI : Ideal A) (w r : Site) (hw : w ∈ sites) (hr : r ∈ sites)
    (ht : w.t = r.t) (hk : r.t = .columnIndex ∨ r.t = .offsetIndex ∨ r.t = .bloomHeader ∨ r.t = .bloomBits)
    (rg col rg' col' : Nat) (hb : rg < 65536 ∧ col < 65536 ∧ rg' < 65536 ∧ col' < 65536)
    (hne : (rg, col) ≠ (rg', col')) (pfx fu : Bytes) (k k' : K) (n : N) (p : Bytes) :
    openModule A k ((r.used ⟨rg, col, 0⟩).aad pfx fu) (sealModule A k' n ((w.used ⟨rg', col', 0⟩).aad pfx fu) p) = none := by
  apply transplant_fails_at_every_site A hI w r hw hr
  · rcases hk with hk | hk | hk | hk <;>
      simp [Site.slot, ht, hk, ModType.slotAt, Module.InRange, Module.ords, hb.2.2.1, hb.2.2.2]
  · rcases hk with hk | hk | hk | hk <;>
      simp [Site.slot, hk, ModType.slotAt, Module.InRange, Module.ords, hb.1, hb.2.1]
  · intro h
    apply hne
    rcases hk with hk | hk | hk | hk <;>
      (simp only [Site.slot, ht, hk, ModType.slotAt] at h; cases h; rfl)

end aead

/-- non-vacuity of (3'): the lazy offset-index reader and the writer's offset-index site -/
example :
    let w : Site := ⟨"writer.go:writer.writeFileFooter", .writerSeal, .writerState, .offsetIndex, [.rg, .col]⟩
    let r : Site := ⟨"file.go:FileColumnChunk.readOffsetIndex", .readerLazy, .file, .offsetIndex, [.rg, .col]⟩
    w ∈ sites ∧ r ∈ sites ∧
    openModule symAEAD 5 ((r.used ⟨0, 1, 0⟩).aad [9] [1]) (sealModule symAEAD 5 77 ((w.used ⟨0, 1, 0⟩).aad [9] [1]) [4, 2]) = some [4, 2] ∧
    openModule symAEAD 5 ((r.used ⟨0, 1, 0⟩).aad [9] [1]) (sealModule symAEAD 5 77 ((w.used ⟨1, 0, 0⟩).aad [9] [1]) [4, 2]) = none := by
  decide

/-- SENSITIVITY (not the code): a reader site that passed `(column, row group)` instead of
    `(row group, column)` would reject the authentic offset index of every chunk whose two ordinals
    differ, and ACCEPT the offset index of chunk `(1, 0)` in the place of chunk `(0, 1)`: the order
    of the arguments is what the theorems above rest on, which is why `FactsCheckC18` re-derives
    it from the source. -/
theorem swapped_ordinals_break_both_ways :
    let w : Site := ⟨"writer.go:writer.writeFileFooter", .writerSeal, .writerState, .offsetIndex, [.rg, .col]⟩
    let bad : Site := ⟨"file.go:FileColumnChunk.readOffsetIndex", .readerLazy, .file, .offsetIndex, [.col, .rg]⟩
    openModule symAEAD 5 ((bad.used ⟨0, 1, 0⟩).aad [9] [1]) (sealModule symAEAD 5 77 ((w.used ⟨0, 1, 0⟩).aad [9] [1]) [4, 2]) = none ∧
    openModule symAEAD 5 ((bad.used ⟨0, 1, 0⟩).aad [9] [1]) (sealModule symAEAD 5 77 ((w.used ⟨1, 0, 0⟩).aad [9] [1]) [4, 2]) = some [4, 2] ∧
    bad ∉ sites := by
  decide

end PqModel.Props.C18Sites
