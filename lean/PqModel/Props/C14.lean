import PqModel.IoFault
import PqModel.IoFaultSrc
import PqModel.IoFaultRead

/-! # C14 — I/O failures and truncated files are always reported, never silently absorbed

Writer side: theorems about the MIRROR `runCalls` (write plan → offsetTrackingWriter → optional
bufio.Writer → sink) for **every** conforming sink (any deterministic state machine obeying the
`io.Writer` contract), hence for every failure offset, full or short, sticky or not.
Reader side: the trailer checks of `OpenFile`. -/
namespace PqModel.Props.C14
open PqModel.IoFault

/-- the hypothesis on the site table: every site a plan goes through hands its error to the
function's return (`FactsCheckC14.sites_propagate` re-checks this on the extracted table) -/
def Propagates (table : String → Bool) (calls : List (List Op)) : Prop :=
  ∀ c ∈ calls, ∀ op ∈ c, table op.site = true ∨ ∃ id p, op = Op.store id p

/-- **sticky.** Buffered writer: a transfer that reports an error has set the bufio error; once
it is set every later Write / WriteString / ReadFrom / Flush through the buffer fails and changes
nothing, no later call of any history moves another byte, and a `Close` (any plan ending with
`w.buffer.Flush()` returned to the caller) returns non-nil. -/
theorem sticky {σ} (m : SinkM σ) (hm : Conforming m) (table : String → Bool) (w : W σ) :
    (∀ op, w.u.bw.isSome = true → (execOp m w op).2 = true → (execOp m w op).1.u.berr = true) ∧
    (w.u.berr = true →
      (∀ p, (uWrite m w.u p).2.err = true ∧ (uWrite m w.u p).1 = w.u) ∧
      (∀ p, (uWriteString m w.u p).2.err = true ∧ (uWriteString m w.u p).1 = w.u) ∧
      (∀ src, (uReadFrom m w.u src).2.err = true ∧ (uReadFrom m w.u src).1 = w.u) ∧
      ((uFlush m w.u).2.err = true ∧ (uFlush m w.u).1 = w.u) ∧
      (∀ calls, (runCalls m table w calls).1.u = w.u) ∧
      (∀ pre s, table s = true → (execCall m table w (pre ++ [Op.flushBuf s])).2 = true)) := by
  refine ⟨fun op hbuf he => (execOp_ok m hm w op).1.errOut he hbuf, fun hb => ⟨?_, ?_, ?_, ?_, ?_, ?_⟩⟩
  · exact fun p => ⟨uWrite_sticky m hm w.u p hb, (uWrite_ok m hm w.u p).mono hb⟩
  · exact fun p => ⟨uWriteString_sticky m w.u p hb, (uWriteString_ok m hm w.u p).mono hb⟩
  · exact fun src => ⟨uReadFrom_sticky m w.u src hb, (uReadFrom_ok m hm w.u src).mono hb⟩
  · exact ⟨(uFlush_ok m w.u).2.2 hb, (uFlush_ok m w.u).1.mono hb⟩
  · exact fun calls => runCalls_mono m hm table calls w hb
  · exact fun pre s hs => close_sticky m hm table w pre s hs hb

/-- satisfiable: a 4-byte buffer over a sink that cannot store byte 5; the second write fails, the
third fails without touching the sink, Close fails -/
example :
    (runCalls (faultSink ⟨some 5, true, false, false⟩) (fun _ => true) (initW false (some 4))
      [[Op.write "a" [1, 2, 3]], [Op.write "b" [4, 5, 6, 7, 8, 9]], [Op.write "c" [8]],
       closeSeq magicPAR1 [] [] [[9]] "close"]).2 = [false, true, true, true] := by decide

/-- **no_silent_loss.** For every conforming sink, every history of calls that ends with a
`Close`-shaped call (a plan ending with `w.buffer.Flush()`), buffered or not: if every site of
the plan propagates its error and every call returned nil, the sink holds exactly the bytes of
the complete file, in order. -/
theorem no_silent_loss {σ} (m : SinkM σ) (hm : Conforming m) (table : String → Bool) (s0 : σ)
    (cap : Option Nat) (calls : List (List Op)) (pre : List Op) (fs : String)
    (hprop : Propagates table (calls ++ [pre ++ [Op.flushBuf fs]]))
    (hnil : ∀ r ∈ (runCalls m table (initW s0 cap) (calls ++ [pre ++ [Op.flushBuf fs]])).2, r = false) :
    (runCalls m table (initW s0 cap) (calls ++ [pre ++ [Op.flushBuf fs]])).1.u.sk.held
      = planBytes (calls ++ [pre ++ [Op.flushBuf fs]]) := by
  have hg := runCalls_clean m hm table _ (initW s0 cap) hprop hnil
  have hfs : table fs = true := by
    cases hprop (pre ++ [Op.flushBuf fs]) (by simp) (Op.flushBuf fs) (by simp) with
    | inl h => exact h
    | inr h => obtain ⟨_, _, h⟩ := h; cases h
  rw [runCalls_append] at hnil hg ⊢
  simp only [runCalls, List.mem_append, List.mem_singleton] at hnil hg ⊢
  have hc := close_flushes m table _ pre fs hfs (hnil _ (Or.inr rfl))
  rw [← hc.2.1, hg.1]
  simp [initW, Under.deliv, planBytes, Sk.held]
  cases cap <;> simp

/-- **no_silent_loss**, in the form of the fault enumeration: the sink cannot store byte `k` of a
file of `total > k` bytes (failing fully or with a short count, sticky or not) ⇒ some call of the
history returns an error. (For the transient `oneshot` sinks, which go on to accept later writes,
the statement to use is `no_silent_loss` itself: it holds for every conforming sink, so with
them too "every call nil ⇒ the sink holds the complete file".) -/
theorem no_silent_loss_fault (f : Fault) (k : Nat) (hk : f.k = some k) (hone : f.oneshot = false)
    (table : String → Bool)
    (cap : Option Nat) (calls : List (List Op)) (pre : List Op) (fs : String)
    (hprop : Propagates table (calls ++ [pre ++ [Op.flushBuf fs]]))
    (htotal : k < (planBytes (calls ++ [pre ++ [Op.flushBuf fs]])).length) :
    ∃ r ∈ (runCalls (faultSink f) table (initW false cap) (calls ++ [pre ++ [Op.flushBuf fs]])).2, r = true := by
  refine Classical.byContradiction fun hno => ?_
  have hnil : ∀ r ∈ (runCalls (faultSink f) table (initW false cap) (calls ++ [pre ++ [Op.flushBuf fs]])).2,
      r = false := by
    intro r hr
    cases r with
    | false => rfl
    | true => exact absurd ⟨true, hr, rfl⟩ hno
  have h := no_silent_loss (faultSink f) (faultSink_conforming f) table false cap calls pre fs hprop hnil
  have hr := (runCalls_shape (faultSink f) (faultSink_conforming f) table
    (calls ++ [pre ++ [Op.flushBuf fs]]) (initW false cap)).2
  have hb := faultSink_bound f k hk hone hr (by simp [initW, Sk.held]) (by simp [initW, Sk.held])
  rw [h] at hb
  omega

/-- satisfiable, and the hypothesis matters: with a site that drops its error (`table` false for
"drop"), an unbuffered writer over a full disk closes with nil and a file without its data -/
example :
    let r := runCalls (faultSink ⟨some 6, false, false, false⟩) (fun s => s != "drop") (initW false none)
      [[Op.write "drop" [1, 2, 3, 4, 5, 6, 7, 8]], closeSeq magicPAR1 [] [] [[9]] "close"]
    r.2 = [false, false] ∧ r.1.u.sk.held = [0x50, 0x41, 0x52, 0x31, 9] := by decide

/-- **Close = nil ⇒ complete**, buffered writer, *without* any hypothesis on the sites other than
that `close` returns the result of its final `w.buffer.Flush()`: if the last call of the history
is a `Close` that returns nil, then every earlier call returned nil too and the sink holds exactly
the bytes of the complete file. (The sticky error makes dropped errors resurface at Close.) -/
theorem close_nil_complete_buffered {σ} (m : SinkM σ) (hm : Conforming m) (table : String → Bool)
    (s0 : σ) (c : Nat) (calls : List (List Op)) (pre : List Op) (fs : String) (hfs : table fs = true)
    (hclose : (execCall m table (runCalls m table (initW s0 (some c)) calls).1 (pre ++ [Op.flushBuf fs])).2 = false) :
    (∀ r ∈ (runCalls m table (initW s0 (some c)) (calls ++ [pre ++ [Op.flushBuf fs]])).2, r = false) ∧
    (runCalls m table (initW s0 (some c)) (calls ++ [pre ++ [Op.flushBuf fs]])).1.u.sk.held
      = planBytes (calls ++ [pre ++ [Op.flushBuf fs]]) := by
  have hc := close_flushes m table _ pre fs hfs hclose
  have hfin : (runCalls m table (initW s0 (some c)) (calls ++ [pre ++ [Op.flushBuf fs]])).1
      = (execCall m table (runCalls m table (initW s0 (some c)) calls).1 (pre ++ [Op.flushBuf fs])).1 := by
    rw [runCalls_append]; simp [runCalls]
  have hb := runCalls_buffered m hm table (calls ++ [pre ++ [Op.flushBuf fs]]) (initW s0 (some c))
    (by simp [initW]) (by rw [hfin]; exact hc.2.2)
  refine ⟨hb.1, ?_⟩
  rw [hfin, ← hc.2.1, ← hfin, hb.2.1]
  simp [initW, Under.deliv, planBytes, Sk.held]

/-- satisfiable: the same dropped error as above, but buffered: Close reports it -/
example :
    (runCalls (faultSink ⟨some 6, false, false, false⟩) (fun s => s != "drop") (initW false (some 4))
      [[Op.write "drop" [1, 2, 3, 4, 5, 6, 7, 8]], closeSeq magicPAR1 [] [] [[9]] "close"]).2
      = [false, true] := by decide

/-- the transient (`oneshot`) sinks are conforming writers, so `no_silent_loss` and
`close_nil_complete_buffered` apply to them as they stand -/
theorem oneshot_covered (k : Nat) (short : Bool) : Conforming (faultSink ⟨some k, short, false, true⟩) :=
  faultSink_conforming _

/-- why the hypothesis on the sites matters for a transient failure (the shape of a loop that
keeps one `err` across deferred bloom filters and returns the last): two stores drained at a site
that drops its error, unbuffered, the sink fails once on the first drain and then recovers —
every call returns nil and the file has a hole; with the site propagating, Close reports. -/
example :
    let plan := [[Op.store 0 [1, 2, 3], Op.store 1 [4, 5, 6]],
      closeSeq magicPAR1 [] [] [] "close" ++ [Op.drain "drop" 0 (some 8), Op.drain "drop" 1 (some 8),
        Op.write "footer" [9], Op.flushBuf "close"]]
    let bad := runCalls (faultSink ⟨some 5, false, false, true⟩) (fun s => s != "drop") (initW false none) plan
    let good := runCalls (faultSink ⟨some 5, false, false, true⟩) (fun _ => true) (initW false none) plan
    bad.2 = [false, false] ∧ bad.1.u.sk.held = [0x50, 0x41, 0x52, 0x31, 4, 5, 6, 9] ∧
      good.2 = [false, true] := by decide

/-! ## Fault points per `Write` call -/

/-- the call-indexed sinks (the `i`-th `Write` call of the destination fails whatever it is
offered; transient or sticky, whole or half accepted) are conforming writers -/
theorem call_faults_covered (f : CallFault) : Conforming (callSink f) := callSink_conforming f

/-- **no_silent_loss** for fault points per call: whichever `Write` call of the destination fails
(a one-byte write of the thrift encoder straight to an unbuffered destination included), if every
site of the plan propagates and every API call returned nil, the destination holds exactly the
bytes of the complete file. -/
theorem no_silent_loss_call (f : CallFault) (table : String → Bool) (cap : Option Nat)
    (calls : List (List Op)) (pre : List Op) (fs : String)
    (hprop : Propagates table (calls ++ [pre ++ [Op.flushBuf fs]]))
    (hnil : ∀ r ∈ (runCalls (callSink f) table (initW (0, false) cap) (calls ++ [pre ++ [Op.flushBuf fs]])).2,
      r = false) :
    (runCalls (callSink f) table (initW (0, false) cap) (calls ++ [pre ++ [Op.flushBuf fs]])).1.u.sk.held
      = planBytes (calls ++ [pre ++ [Op.flushBuf fs]]) :=
  no_silent_loss (callSink f) (callSink_conforming f) table (0, false) cap calls pre fs hprop hnil

/-- satisfiable, and the shape of a long-form thrift list header (`0xF0|type`, then the size as a
varint) whose first one-byte write drops its error (seeded change C14-3b): unbuffered, the
destination rejects exactly that call and accepts the next ones — every call returns nil and the
file lacks the byte; with the site propagating the call reports; buffered, Close reports anyway. -/
example :
    let plan := [[Op.write "drop" [0xF9], Op.write "size" [0x0F]], closeSeq magicPAR1 [] [] [[9]] "close"]
    let bad := runCalls (callSink ⟨0, false, false⟩) (fun s => s != "drop") (initW (0, false) none) plan
    let good := runCalls (callSink ⟨0, false, false⟩) (fun _ => true) (initW (0, false) none) plan
    let buffered := runCalls (callSink ⟨0, false, false⟩) (fun s => s != "drop") (initW (0, false) (some 4)) plan
    bad.2 = [false, false] ∧ bad.1.u.sk.held = [0x0F, 9] ∧ good.2 = [true, false] ∧
      buffered.2 = [false, true] := by decide

/-! ## Source side of the verbatim copy (`WriteRowGroup`) -/

/-- **copy_nil_complete.** The copy site of the verbatim column-chunk path
(`offsetTrackingWriter.copySection`, with its `n != length` check), for every conforming
destination, buffered or not, and every behaviour of the source (complete; ending early with
io.EOF after any number of bytes; failing with another error): a nil result means the chain has
accepted exactly the bytes of the section and the offset advanced by its length — the effect of
the fault-free plan operation `Op.readFrom`. -/
theorem copy_nil_complete {σ} (m : SinkM σ) (hm : Conforming m) (w : W σ) (data : Bytes)
    (f : Option SrcFault) (s : String) (h : (copySection m true w data f).2 = false) :
    Good w (copySection m true w data f).1 [Op.readFrom s data] :=
  copySection_nil_complete m hm w data f s h

/-- **copy_fault_reported.** A source that stops before the end of the section — with io.EOF or
with another error — makes the copy site return an error, whatever the destination does. -/
theorem copy_fault_reported {σ} (m : SinkM σ) (hm : Conforming m) (w : W σ) (data : Bytes)
    (f : SrcFault) (hcut : f.cut < data.length) :
    (copySection m true w data (some f)).2 = true :=
  copySection_reports m hm w data f hcut

/-- satisfiable; and the check is what matters: WITHOUT it (`checked = false`, the code before the
repair, where the count returned by `ReadFrom` was dropped) a source that ends early with io.EOF
after 2 of 5 bytes gives a nil result and a short chunk — unbuffered and buffered alike. -/
example :
    let src : Option SrcFault := some ⟨2, true⟩
    let m := faultSink ⟨none, false, false, false⟩
    (copySection m false (initW false none) [1, 2, 3, 4, 5] src).2 = false ∧
    (copySection m false (initW false none) [1, 2, 3, 4, 5] src).1.u.deliv = [1, 2] ∧
    (copySection m false (initW false (some 4)) [1, 2, 3, 4, 5] src).2 = false ∧
    (copySection m true (initW false none) [1, 2, 3, 4, 5] src).2 = true ∧
    (copySection m true (initW false (some 4)) [1, 2, 3, 4, 5] src).2 = true ∧
    (copySection m true (initW false (some 4)) [1, 2, 3, 4, 5] none).2 = false ∧
    (copySection m true (initW false (some 4)) [1, 2, 3, 4, 5] none).1.u.deliv = [1, 2, 3, 4, 5] := by decide

/-! ## Reader side -/

/-- the trailer stage succeeds exactly on the residual shape (plus a header magic) -/
theorem open_ok_iff (slack : Nat) (enc : Bool) (g : Bytes) :
    (∃ ft, openWith slack enc g = .ok ft) ↔
      (4 ≤ g.length ∧ isMagic (g.take 4) enc = true ∧ Residual slack g) := by
  unfold openWith Residual
  constructor
  · intro ⟨ft, h⟩
    split at h
    · cases h
    · split at h
      · cases h
      · split at h
        · cases h
        · rename_i h4 hm h8
          simp only at h
          split at h
          · cases h
          · split at h
            · cases h
            · rename_i hfm hb
              have e : g.length - 8 + 4 = g.length - 4 := by omega
              refine ⟨by omega, by simpa using hm, by omega, ?_, by omega⟩
              simpa [List.drop_drop, e] using hfm
  · intro ⟨h4, hm, h8, hfm, hb⟩
    have e : g.length - 8 + 4 = g.length - 4 := by omega
    rw [if_neg (by omega), if_neg (by simp [hm]), if_neg (by omega)]
    simp only [List.drop_drop, e, hfm, Bool.not_true, Bool.false_eq_true, if_false]
    rw [if_neg (by omega)]
    exact ⟨_, rfl⟩

/-- **prefix_rejected.** For a well-formed file `f` and `n < |f|`, the trailer stage of `OpenFile`
rejects the prefix `f.take n` — unless the last 8 bytes of the prefix are themselves `len‖magic`
with `len + 8 + slack ≤ n` (inherent to the format: a byte-array value can embed a whole Parquet
file). `slack = 0` is the code (MIRROR, `openModel`), `slack = 4` the format (`openSpec`, i.e.
`len + 12 ≤ n`). -/
theorem prefix_rejected (slack : Nat) (enc : Bool) (f : Bytes) (_hf : WellFormed enc f) (n : Nat)
    (_hn : n < f.length) :
    (∃ e, openWith slack enc (f.take n) = .error e) ∨ Residual slack (f.take n) := by
  cases h : openWith slack enc (f.take n) with
  | error e => exact Or.inl ⟨e, rfl⟩
  | ok ft => exact Or.inr ((open_ok_iff slack enc _).1 ⟨ft, h⟩).2.2

theorem prefix_rejected_model (enc : Bool) (f : Bytes) (hf : WellFormed enc f) (n : Nat)
    (hn : n < f.length) :
    (∃ e, openModel enc (f.take n) = .error e) ∨ Residual 0 (f.take n) :=
  prefix_rejected 0 enc f hf n hn

theorem prefix_rejected_spec (enc : Bool) (f : Bytes) (hf : WellFormed enc f) (n : Nat)
    (hn : n < f.length) :
    (∃ e, openSpec enc (f.take n) = .error e) ∨ Residual 4 (f.take n) :=
  prefix_rejected 4 enc f hf n hn

/-- code and format differ only in the 4-byte gap `len + 8 ≤ n < len + 12`, where the code goes on
to decode a "footer" that overlaps the header magic -/
theorem model_vs_spec (enc : Bool) (g : Bytes) :
    openModel enc g = openSpec enc g ∨
      (openSpec enc g = .error .footerBounds ∧ ∃ ft, openModel enc g = .ok ft) := by
  unfold openModel openSpec openWith
  by_cases h4 : g.length < 4
  · simp [h4]
  · by_cases hm : (!isMagic (g.take 4) enc) = true
    · simp [h4, hm]
    · by_cases h8 : g.length < 8
      · simp [h4, hm, h8]
      · by_cases hfm : (!isFooterMagic ((g.drop (g.length - 8)).drop 4)) = true
        · simp only [h4, hm, h8, hfm, if_true, if_false]; exact Or.inl trivial
        · by_cases hb4 : g.length < le32 ((g.drop (g.length - 8)).take 4) + 8 + 4
          · by_cases hb0 : g.length < le32 ((g.drop (g.length - 8)).take 4) + 8 + 0
            · simp only [h4, hm, h8, hfm, hb4, hb0, if_true, if_false]; exact Or.inl trivial
            · simp only [h4, hm, h8, hfm, hb4, hb0, if_true, if_false]; exact Or.inr ⟨rfl, _, rfl⟩
          · have hb0 : ¬ g.length < le32 ((g.drop (g.length - 8)).take 4) + 8 + 0 := by omega
            simp only [h4, hm, h8, hfm, hb4, hb0, if_false]; exact Or.inl trivial

/-- a well-formed 14-byte file (2-byte footer) and its strict prefixes: all rejected -/
def tinyFile : Bytes := magicPAR1 ++ [0x15, 0x00] ++ [2, 0, 0, 0] ++ magicPAR1

example : WellFormed false tinyFile := ⟨by decide, by decide, by decide, by decide⟩
example : openModel false tinyFile = .ok [0x15, 0x00] := by decide
example : ∀ n, n < tinyFile.length → (openModel false (tinyFile.take n)).toBool = false := by decide

/-- the adversarial residual case: a well-formed file whose body embeds `len‖"PAR1"`; its 13-byte
prefix passes the trailer stage with a different footer -/
def nestedFile : Bytes := magicPAR1 ++ [0xAA, 1, 0, 0, 0] ++ magicPAR1 ++ [0x15, 0x00] ++ [11, 0, 0, 0] ++ magicPAR1

example : WellFormed false nestedFile := ⟨by decide, by decide, by decide, by decide⟩
example : openSpec false (nestedFile.take 13) = .ok [0xAA] ∧ Residual 4 (nestedFile.take 13) :=
  ⟨by decide, by decide, by decide, by decide⟩
/-- and the gap: a prefix the format rejects but the code's trailer stage lets through -/
example : openSpec false ((magicPAR1 ++ [1, 0, 0, 0] ++ magicPAR1).take 12) = .error .footerBounds ∧
    openModel false (magicPAR1 ++ [1, 0, 0, 0] ++ magicPAR1) = .ok [0x31] := ⟨by decide, by decide⟩

/-- `readAt` (file.go:1702) turns a short count of a conforming `io.ReaderAt` into an error:
a nil error means the buffer was filled -/
theorem readAt_reports (want n : Nat) (err : Bool) (hconf : n < want → err = true) (hle : n ≤ want) :
    (readAtWrap want n err).2 = false → n = want := readAtWrap_reports want n err hconf hle

example : (readAtWrap 8 3 true).2 = true ∧ (readAtWrap 8 8 true).2 = false := by decide

/-! ## Reader side: the readers built on top of a failing source -/
section Readers
open PqModel.IoFault.Rd

/-- **merge2_eof_complete.** MIRROR `mergedRowReader2` over any two sources (SPEC `Src`: any rows,
a fault after any number of rows, error alone or along with rows, io.EOF eager or not) and any
sequence of buffer lengths of the consumer: if the session ends with io.EOF — no call reported an
error — then the output holds, for each input, exactly the rows of that input in their order. -/
theorem merge2_eof_complete (s0 s1 : Src) (caps : List Nat)
    (h : (session false caps (M2.new s0 s1)).2.1 = .eof) :
    proj false (session false caps (M2.new s0 s1)).1.flatten = s0.rows ∧
    proj true (session false caps (M2.new s0 s1)).1.flatten = s1.rows := by
  have := session_eof caps _ s0 s1 [] (Inv.new s0 s1) h
  simpa using ⟨this.1, this.2.1⟩

/-- **merge2_fault_reported.** A fault that bites (one of the sources fails before it has delivered
all its rows) never ends in io.EOF: the session ends with an error, or is not finished yet. -/
theorem merge2_fault_reported (s0 s1 : Src) (caps : List Nat) (hb : s0.Bites ∨ s1.Bites) :
    (session false caps (M2.new s0 s1)).2.1 ≠ .eof := by
  intro h
  have := session_eof caps _ s0 s1 [] (Inv.new s0 s1) h
  cases hb with
  | inl hb => exact this.2.2.1 hb
  | inr hb => exact this.2.2.2 hb

/-- satisfiable, and why the `err != io.EOF` test of the second input matters: input 1 holds 25 rows
and its source fails after 24 (the first fill of the 24-row buffer succeeds, the refill fails).
The code reports the error in the second call; without the test (seeded change C14-4a) the session
ends with io.EOF and row 24 of input 1 is missing. -/
def srcOne : Src := ⟨[100], none, false, false⟩
def srcFails : Src := ⟨(List.range 25).map Int.ofNat, some 24, false, false⟩

example : srcFails.Bites := ⟨24, rfl, by decide⟩
example : (session false [64, 64, 64] (M2.new srcOne srcFails)).2.1 = .err := by decide
example : (session true [64, 64, 64] (M2.new srcOne srcFails)).2.1 = .eof ∧
    (proj true (session true [64, 64, 64] (M2.new srcOne srcFails)).1.flatten).length = 24 := by decide
example : (session false [7, 64, 64, 64] (M2.new srcOne ⟨[1, 2, 100, 101], none, true, false⟩)).2.1 = .eof := by decide

/-- **bloom_probe_nil_exact.** MIRROR `bloom.CheckSplitBlock`: over a conforming `io.ReaderAt`
(fewer bytes than asked for come with an error) a nil error means the probe was evaluated on the
block of the filter, whatever the pooled buffer held before. -/
theorem bloom_probe_nil_exact (chk : List UInt8 → Bool) (stale blk : List UInt8) (n : Nat) (r : Res)
    (hs : stale.length = blk.length) (hconf : n < blk.length → r ≠ .nil)
    (h : (probe false chk stale blk n r).2 = .nil) : (probe false chk stale blk n r).1 = chk blk :=
  probe_nil chk stale blk n r hs hconf h

/-- with io.EOF cleared unseen (seeded change C14-4b) a short read answers "absent" with a nil error
for a key whose block says "present" -/
example : probe true (fun b => b.all (· != 0)) [0, 0, 0, 0] [1, 1, 1, 1] 2 .eof = (false, .nil) ∧
    (fun b : List UInt8 => b.all (· != 0)) [1, 1, 1, 1] = true ∧
    (probe false (fun b => b.all (· != 0)) [0, 0, 0, 0] [1, 1, 1, 1] 2 .eof).2 = .eof := by decide

end Readers

end PqModel.Props.C14
