import PqModel.FileCodecsTyped
import PqModel.Props.C04Rle
import PqModel.Props.C04Plain
import PqModel.Props.C04Delta

/-! # C01 — the codec hypotheses of the composition theorem hold for every physical type × encoding
and for both data page layouts

Each `*_ok` theorem discharges `ValCodec.OK` (decoding the encoder's bytes returns the page's values,
for every list of values of the type's domain) from the corresponding C04 round-trip theorem: MIRROR
encoder, SPEC decoder. `valCodecOf_ok` collects them over the table physical type × encoding,
`unpackV1_packV1` is the data page v1 body framing, `mkCodec_ok` assembles a column codec. -/
namespace PqModel.Props.C01Codecs
open PqModel PqModel.Bits PqModel.Dremel PqModel.FileModel

/-! ## byte strings as naturals: a bijection -/

theorem natOfBytes_bytesOfNatF : ∀ (f n : Nat), n ≤ f → natOfBytes (bytesOfNatF f n) = n
  | 0, n, h => by
    have : n = 0 := by omega
    subst this; rfl
  | f + 1, 0, _ => rfl
  | f + 1, n + 1, h => by
    have hd : n / 256 ≤ f := by have := Nat.div_le_self n 256; omega
    simp only [bytesOfNatF, natOfBytes, natOfBytes_bytesOfNatF f (n / 256) hd]
    have := Nat.mod_add_div n 256
    omega

/-- every natural is the numeral of exactly the byte string `bytesOfNat` gives … -/
theorem natOfBytes_bytesOfNat (n : Nat) : natOfBytes (bytesOfNat n) = n :=
  natOfBytes_bytesOfNatF n n (Nat.le_refl _)
example : bytesOfNat 258 = [1, 0] ∧ natOfBytes [1, 0] = 258 := by decide

theorem bytesOfNatF_lt : ∀ (f n : Nat), ∀ b ∈ bytesOfNatF f n, b < 256
  | 0, _, b, h => by simp [bytesOfNatF] at h
  | f + 1, 0, b, h => by simp [bytesOfNatF] at h
  | f + 1, n + 1, b, h => by
    simp only [bytesOfNatF, List.mem_cons] at h
    rcases h with rfl | h
    · exact Nat.mod_lt _ (by decide)
    · exact bytesOfNatF_lt f _ b h

theorem bytesOfNat_lt (n : Nat) : ∀ b ∈ bytesOfNat n, b < 256 := bytesOfNatF_lt n n

theorem bytesOfNatF_natOfBytes : ∀ (bs : List Nat) (f : Nat), (∀ b ∈ bs, b < 256) → natOfBytes bs ≤ f →
    bytesOfNatF f (natOfBytes bs) = bs
  | [], f, _, _ => by cases f <;> rfl
  | b :: bs, 0, _, h => by simp only [natOfBytes] at h; omega
  | b :: bs, f + 1, hb, h => by
    have hb' : b < 256 := hb b (by simp)
    simp only [natOfBytes] at h ⊢
    have e : 1 + b + 256 * natOfBytes bs = (b + 256 * natOfBytes bs) + 1 := by omega
    rw [e]
    simp only [bytesOfNatF]
    have h1 : (b + 256 * natOfBytes bs) % 256 = b := by omega
    have h2 : (b + 256 * natOfBytes bs) / 256 = natOfBytes bs := by omega
    rw [h1, h2, bytesOfNatF_natOfBytes bs f (fun c hc => hb c (by simp [hc])) (by omega)]

/-- … and distinct byte strings have distinct numerals (left inverse on bytes `< 256`). -/
theorem bytesOfNat_natOfBytes (bs : List Nat) (h : ∀ b ∈ bs, b < 256) : bytesOfNat (natOfBytes bs) = bs :=
  bytesOfNatF_natOfBytes bs _ h (Nat.le_refl _)
example : ∀ b ∈ [0, 255, 7], b < 256 := by decide

/-! ## glue -/

theorem toB_toN (bs : Plain.Bytes) : toB (toN bs) = bs := by
  simp only [toB, toN, List.map_map]
  first
  | done
  | exact map_id_of (fun b _ => by simp)

theorem toN_toB (bs : List Nat) (h : ∀ b ∈ bs, b < 256) : toN (toB bs) = bs := by
  simp only [toB, toN, List.map_map]
  exact map_id_of (fun b hb => by
    have := h b hb
    simp only [Function.comp, UInt8.toNat_ofNat']
    omega)

theorem toB_length (bs : List Nat) : (toB bs).length = bs.length := by simp [toB]

/-! ## fixed-width types -/

/-- PLAIN INT32/FLOAT (`k = 4`), INT64/DOUBLE (`8`), INT96 (`12`), FIXED_LEN_BYTE_ARRAY(`k`)
    (C04 `plain_roundtrip_fixed` through `specDecFixed_encFixed`) -/
theorem plainFixed_ok (k : Nat) (hk : 0 < k) : (plainFixed k).OK := by
  intro xs hx _
  have hlt : ∀ x ∈ xs, x < 2 ^ (8 * k) := fun x h => by simpa [plainFixed] using hx x h
  simp only [plainFixed, toB_toN, Plain.specDecFixed_encFixed k hk xs hlt, exactly, Option.bind_some,
    ↓reduceIte]
example : (0 : Nat) < 12 := by decide

/-- BYTE_STREAM_SPLIT for the `k`-byte types (C04 `bss_roundtrip`) -/
theorem bssFixed_ok (k : Nat) (hk : 0 < k) : (bssFixed k).OK := by
  intro xs hx _
  have hlt : ∀ x ∈ xs, x < 2 ^ (8 * k) := fun x h => by simpa [bssFixed] using hx x h
  simp only [bssFixed, toB_toN, Plain.bssSpecDecFixed_bssEncFixed k hk xs hlt, exactly, Option.bind_some,
    ↓reduceIte]
example : (0 : Nat) < 4 := by decide

theorem ofNat_toNat_id (w : Nat) (xs : List Nat) (h : ∀ x ∈ xs, x < 2 ^ w) :
    (xs.map (BitVec.ofNat w)).map BitVec.toNat = xs := by
  rw [List.map_map]
  exact map_id_of (fun x hx => by simp [BitVec.toNat_ofNat, Nat.mod_eq_of_lt (h x hx)])

/-- DELTA_BINARY_PACKED INT32 (C04 `delta32_roundtrip`) -/
theorem delta32_ok : delta32.OK := by
  intro xs hx _
  have hv := ofNat_toNat_id 32 xs (fun x h => by simpa [delta32] using hx x h)
  simp only [delta32, C04Delta.delta32_roundtrip, List.length_map, ↓reduceIte, hv]
example : ∀ x ∈ [0, 0x7fffffff, 0x80000000, 0xffffffff], x < 2 ^ 32 := by decide

/-- DELTA_BINARY_PACKED INT64 (C04 `delta64_roundtrip`) -/
theorem delta64_ok : delta64.OK := by
  intro xs hx _
  have hv := ofNat_toNat_id 64 xs (fun x h => by simpa [delta64, isInt64] using hx x h)
  simp only [delta64, deltaInt64Dec, deltaInt64Enc, C04Delta.delta64_roundtrip, List.length_map,
    ↓reduceIte, hv]
example : isInt64 (2 ^ 64 - 1) = true := by decide

/-! ## BOOLEAN -/

theorem b2n_eq1 (xs : List Nat) (h : ∀ x ∈ xs, x < 2) : (xs.map (· == 1)).map Rle.b2n = xs := by
  rw [List.map_map]
  exact map_id_of (fun x hx => by
    have : x = 0 ∨ x = 1 := by have := h x hx; omega
    rcases this with rfl | rfl <;> simp [Rle.b2n])

/-- PLAIN BOOLEAN (C04 `plain_roundtrip_boolean`) -/
theorem plainBool_ok : plainBool.OK := by
  intro xs hx _
  have h := (C04Plain.plain_roundtrip_boolean [] (xs.map (· == 1))).2
  rw [List.length_map] at h
  have hv := b2n_eq1 xs (fun x h => by simpa [plainBool] using hx x h)
  simp only [plainBool, toB_toN, h, Option.map_some, hv]
example : ∀ x ∈ [0, 1, 1, 0], x < 2 := by decide

/-- RLE BOOLEAN (C04 `rle_roundtrip_boolean`), for pages whose RLE body fits the `uint32` prefix -/
theorem rleBool_ok : rleBool.OK := by
  intro xs hx hp
  have hlen : (Rle.encodeBits (boolPack xs)).length < 2 ^ 32 := by simpa [rleBool] using hp
  obtain ⟨pad, hpad⟩ := bytes_bits xs.length (xs.map (· == 1)) (by simp)
  have hn : xs.length ≤ 8 * (boolPack xs).length := by
    have := congrArg List.length hpad
    rw [Rle.bytesToBits_length] at this
    simp only [List.length_append, List.length_map] at this
    unfold boolPack
    omega
  have h := C04Rle.rle_roundtrip_boolean (boolPack xs) xs.length hlen hn
  have hv : ((bytesToBits (boolPack xs)).map Rle.b2n).take xs.length = xs := by
    unfold boolPack
    rw [hpad, List.map_append, List.take_left' (by simp)]
    exact b2n_eq1 xs (fun x h => by simpa [rleBool] using hx x h)
  simp only [rleBool, h, hv]
example : rleBool.okP [1, 1, 1, 1, 1, 1, 1, 1, 1, 0, 1] = true := by decide +kernel

/-! ## BYTE_ARRAY -/

theorem natOfBytes_map (xs : List Nat) : (xs.map bytesOfNat).map natOfBytes = xs := by
  rw [List.map_map]
  exact map_id_of (fun x _ => natOfBytes_bytesOfNat x)

/-- PLAIN BYTE_ARRAY (C04 `plain_roundtrip_byte_array`): values shorter than 4 GiB -/
theorem plainBA_ok : plainBA.OK := by
  intro xs hx _
  have hl : ∀ v ∈ xs.map (fun x => toB (bytesOfNat x)), v.length < 2 ^ 32 := by
    intro v hv
    obtain ⟨x, hx', rfl⟩ := List.mem_map.mp hv
    have := hx x hx'
    simp only [plainBA, decide_eq_true_eq] at this
    rwa [toB_length]
  have hv : ((xs.map fun x => toB (bytesOfNat x)).map fun v => natOfBytes (toN v)) = xs := by
    rw [List.map_map]
    exact map_id_of (fun x _ => by
      simp only [Function.comp, toN_toB _ (bytesOfNat_lt x), natOfBytes_bytesOfNat])
  simp only [plainBA, toB_toN, C04Plain.plain_roundtrip_byte_array _ hl, Option.map_some, hv, exactly,
    Option.bind_some, ↓reduceIte]
example : plainBA.okV (natOfBytes [0xff, 0, 0xff]) = true := by decide

/-- DELTA_LENGTH_BYTE_ARRAY (C04 `dlba_roundtrip`): values shorter than 2 GiB (INT32 lengths) -/
theorem dlba_ok : dlba.OK := by
  intro xs hx _
  have hl : ∀ v ∈ xs.map bytesOfNat, v.length < 2 ^ 31 := by
    intro v hv
    obtain ⟨x, hx', rfl⟩ := List.mem_map.mp hv
    simpa [dlba] using hx x hx'
  simp only [dlba, C04Delta.dlba_roundtrip _ hl, List.length_map, ↓reduceIte, natOfBytes_map]
example : dlba.okV (natOfBytes []) = true := by decide

/-- DELTA_BYTE_ARRAY (C04 `dba_roundtrip`) -/
theorem dba_ok : dba.OK := by
  intro xs hx _
  have hl : ∀ v ∈ xs.map bytesOfNat, v.length < 2 ^ 31 := by
    intro v hv
    obtain ⟨x, hx', rfl⟩ := List.mem_map.mp hv
    simpa [dba] using hx x hx'
  simp only [dba, C04Delta.dba_roundtrip _ hl, List.length_map, ↓reduceIte, natOfBytes_map]
example : dba.okV (natOfBytes [1, 2, 3]) = true := by decide

/-! ## FIXED_LEN_BYTE_ARRAY through DELTA_BYTE_ARRAY -/

theorem chunksOf_flatten_eq (n : Nat) (hn : 0 < n) : ∀ (vs : List (List Nat)) (f : Nat),
    (∀ v ∈ vs, v.length = n) → vs.flatten.length ≤ f → Delta.chunksOf n f vs.flatten = vs
  | [], f, _, _ => by
    cases f with
    | zero => rfl
    | succ f => simp [Delta.chunksOf, hn]
  | v :: vs, 0, h, hf => by
    have := h v (by simp)
    simp only [List.flatten_cons, List.length_append] at hf
    omega
  | v :: vs, f + 1, h, hf => by
    have hv : v.length = n := h v (by simp)
    simp only [List.flatten_cons, List.length_append] at hf
    have hc : ¬ ((v ++ vs.flatten).length < n ∨ n = 0) := by
      simp only [List.length_append]; omega
    simp only [List.flatten_cons, Delta.chunksOf, if_neg hc, List.take_left' hv, List.drop_left' hv]
    rw [chunksOf_flatten_eq n hn vs f (fun w hw => h w (by simp [hw])) (by omega)]

theorem leNat_leBytes_id (n : Nat) (xs : List Nat) (h : ∀ x ∈ xs, x < 2 ^ (8 * n)) :
    (xs.map (Rle.leBytes n)).map Rle.leNat = xs := by
  rw [List.map_map]
  exact map_id_of (fun x hx => by
    have e : (256 : Nat) ^ n = 2 ^ (8 * n) := by
      rw [show (256 : Nat) = 2 ^ 8 by rfl, ← Nat.pow_mul]
    simp only [Function.comp, Rle.leNat_leBytes, e, Nat.mod_eq_of_lt (h x hx)])

/-- DELTA_BYTE_ARRAY of FIXED_LEN_BYTE_ARRAY(n) (C04 `dba_roundtrip` on the chunks of the buffer,
    as in `dba_flba_roundtrip`) -/
theorem dbaFixed_ok (n : Nat) (hn : 0 < n) (hb : n < 2 ^ 31) : (dbaFixed n).OK := by
  intro xs hx _
  have hlen : ∀ v ∈ xs.map (Rle.leBytes n), v.length = n := by
    intro v hv
    obtain ⟨x, _, rfl⟩ := List.mem_map.mp hv
    exact Rle.leBytes_length n x
  have hch := chunksOf_flatten_eq n hn (xs.map (Rle.leBytes n)) _ hlen (Nat.le_refl _)
  have hl : ∀ v ∈ xs.map (Rle.leBytes n), v.length < 2 ^ 31 := fun v hv => by rw [hlen v hv]; exact hb
  have hall : (xs.map (Rle.leBytes n)).all (fun v => v.length == n) = true := by
    rw [List.all_eq_true]
    intro v hv
    simp [hlen v hv]
  have hv := leNat_leBytes_id n xs (fun x h => by simpa [dbaFixed] using hx x h)
  simp only [dbaFixed, Delta.mirrorEncodeFLBA, hch, C04Delta.dba_roundtrip _ hl, List.length_map, hall,
    and_self, ↓reduceIte, hv]
example : (0 : Nat) < 16 ∧ 16 < 2 ^ 31 := by decide

/-! ## the table -/

/-- **Every physical type × encoding parquet-go accepts** has a codec satisfying the value
    round-trip hypothesis; the PLAIN codec of the type (its dictionary page) does too, has no page
    limit, and its domain contains the column's. -/
theorem valCodecOf_ok (c : ColSpec) (h : c.supported = true) :
    c.val.OK ∧ (plainOf c.t).OK ∧ (∀ x, c.val.okV x = true → (plainOf c.t).okV x = true) ∧
      ∀ xs, (plainOf c.t).okP xs = true := by
  obtain ⟨t, e⟩ := c
  have hplain : ∀ t', (match t' with | .flba n => 0 < n | _ => True) → (plainOf t').OK ∧ ∀ xs, (plainOf t').okP xs = true := by
    intro t' ht
    cases t' with
    | boolean => exact ⟨plainBool_ok, fun _ => rfl⟩
    | int32 => exact ⟨plainFixed_ok 4 (by decide), fun _ => rfl⟩
    | int64 => exact ⟨plainFixed_ok 8 (by decide), fun _ => rfl⟩
    | int96 => exact ⟨plainFixed_ok 12 (by decide), fun _ => rfl⟩
    | float => exact ⟨plainFixed_ok 4 (by decide), fun _ => rfl⟩
    | double => exact ⟨plainFixed_ok 8 (by decide), fun _ => rfl⟩
    | byteArray => exact ⟨plainBA_ok, fun _ => rfl⟩
    | flba n => exact ⟨plainFixed_ok n ht, fun _ => rfl⟩
  cases t <;> cases e <;>
    simp only [ColSpec.supported, valCodecOf, Option.isSome_some, Option.isSome_none, Bool.true_and,
      Bool.false_and, Bool.and_eq_true, decide_eq_true_eq, Bool.false_eq_true] at h <;>
    first
    | (refine ⟨?_, (hplain _ (by first | trivial | exact h.1)).1, ?_, (hplain _ (by first | trivial | exact h.1)).2⟩
       · simp only [ColSpec.val, valCodecOf, Option.getD_some, plainOf]
         first
         | exact plainBool_ok
         | exact rleBool_ok
         | exact plainBA_ok
         | exact dlba_ok
         | exact dba_ok
         | exact delta32_ok
         | exact delta64_ok
         | exact plainFixed_ok _ (by first | decide | exact h.1)
         | exact bssFixed_ok _ (by first | decide | exact h.1)
         | exact dbaFixed_ok _ h.1 h.2
       · intro x hx
         simp only [ColSpec.val, valCodecOf, Option.getD_some, plainOf, plainBool, rleBool, plainBA, dlba, dba,
           delta32, delta64, isInt64, plainFixed, bssFixed, dbaFixed, decide_eq_true_eq] at hx ⊢
         first
         | exact hx
         | omega)
example : (ColSpec.mk (.flba 16) .deltaByteArray).supported = true ∧
    (ColSpec.mk .boolean .rle).supported = true ∧ (ColSpec.mk .byteArray .deltaLengthByteArray).supported = true ∧
    (ColSpec.mk .int96 .deltaBinaryPacked).supported = false := by decide

/-! ## levels -/

/-- levels `≤ m ≤ 255`: nothing is stored when `m = 0`, hybrid RLE otherwise (C04
    `rle_roundtrip_levels`) -/
theorem lv_ok (m : Nat) (xs : List Nat) (hm : m ≤ 255) (hx : ∀ x ∈ xs, x ≤ m) :
    lvDec m xs.length (lvEnc m xs) = some xs := by
  by_cases h0 : m = 0
  · subst h0
    simp only [lvDec, lvEnc, ↓reduceIte, Option.some.injEq]
    exact (List.eq_replicate_iff.mpr ⟨rfl, fun x hx' => by have := hx x hx'; omega⟩).symm
  · simp only [lvDec, lvEnc, if_neg h0]
    have hw : Rle.maxLen [m] ≤ 8 := Rle.maxLen_le [m] 8 (by
      intro x hx'
      simp only [List.mem_singleton] at hx'
      subst hx'
      exact Nat.lt_of_le_of_lt hm (by decide))
    have hlt : ∀ x ∈ xs, x < 2 ^ Rle.maxLen [m] := fun x hx' =>
      Nat.lt_of_le_of_lt (hx x hx') (Rle.lt_pow_maxLen [m] m (by simp))
    have h := C04Rle.rle_roundtrip_levels (Rle.maxLen [m]) xs xs.length hw hlt (Nat.le_refl _)
    simp only [rleEncL, rleDecL]
    cases he : Rle.encodeLevels (Rle.maxLen [m]) xs with
    | error e => rw [he] at h; simp [bind, Except.bind] at h
    | ok bs =>
      rw [he] at h
      simp only [bind, Except.bind, List.take_length] at h
      simp only [h]
example : ∀ x ∈ [0, 3, 3, 1], x ≤ 3 := by decide

/-- RLE_DICTIONARY index pages, indexes below `2^32` (C04 `rle_roundtrip_dict`) -/
theorem idx_ok (xs : List Nat) (hx : ∀ x ∈ xs, x < 2 ^ 32) : rleIdxDec xs.length (rleIdxEnc xs) = some xs := by
  have h := C04Rle.rle_roundtrip_dict xs xs.length hx (Nat.le_refl _)
  simp only [rleIdxEnc, rleIdxDec]
  cases he : Rle.encodeDict xs with
  | error e => rw [he] at h; simp [bind, Except.bind] at h
  | ok bs =>
    rw [he] at h
    simp only [bind, Except.bind, List.take_length] at h
    simp only [h]
example : ∀ x ∈ [0, 7, 4000000000], x < 2 ^ 32 := by decide

/-! ## data page v1: two length-prefixed level sections inside one compressed body -/

theorem unsecV1_secV1 (m : Nat) (b rest : List Nat)
    (h : (if m = 0 then b.isEmpty else decide (b.length < 2 ^ 32)) = true) :
    unsecV1 m (secV1 m b ++ rest) = some (b, rest) := by
  by_cases h0 : m = 0
  · simp only [h0, ↓reduceIte, List.isEmpty_iff] at h
    simp [unsecV1, secV1, h0, h]
  · simp only [if_neg h0, decide_eq_true_eq] at h
    have h4 : (Rle.leBytes 4 b.length).length = 4 := Rle.leBytes_length _ _
    have hle : Rle.leNat (Rle.leBytes 4 b.length) = b.length := by
      rw [Rle.leNat_leBytes]; exact Nat.mod_eq_of_lt h
    have a : ¬ (Rle.leBytes 4 b.length ++ (b ++ rest)).length < 4 := by
      simp only [List.length_append]; omega
    simp only [unsecV1, secV1, if_neg h0, a, List.append_assoc, List.take_left' h4, List.drop_left' h4, hle]
    have b' : ¬ (b ++ rest).length < b.length := by simp only [List.length_append]; omega
    simp only [if_neg b', List.take_left' rfl, List.drop_left' rfl, ↓reduceIte]

/-- **Data page v1 body framing**: for every page whose level sections are admissible (absent at
    maximum level 0, shorter than 4 GiB otherwise), splitting the decompressed body at the two
    length prefixes returns the three sections, whatever the compressor (any lossless pair). -/
theorem unpackV1_packV1 (lv : Nat × Nat) (comp : List Nat → List Nat) (decomp : List Nat → Option (List Nat))
    (hcmp : ∀ b, decomp (comp b) = some b) (p : Page (List Nat)) (h : okSV1 lv p.reps p.defs = true) :
    unpackV1 lv decomp (packV1 lv comp p) = some p := by
  simp only [okSV1, Bool.and_eq_true] at h
  simp only [unpackV1, packV1, hcmp, Option.bind_some, unsecV1_secV1 lv.1 p.reps _ h.1,
    unsecV1_secV1 lv.2 p.defs _ h.2, Option.map_some]
example : okSV1 (1, 0) [2, 1] [] = true ∧ (packV1 (1, 0) id ⟨1, [2, 1], [], false, [9]⟩).vals = [2, 0, 0, 0, 2, 1, 9] := by
  decide

/-! ## a column -/

/-- A column assembled from a value codec and a dictionary page codec that round-trip satisfies
    every codec hypothesis of the composition theorem on admissible pages, in both page layouts;
    only the compressor stays a hypothesis (C20). -/
theorem mkCodec_ok (v d : ValCodec) (hv : v.OK) (hd : d.OK) (hvd : ∀ x, v.okV x = true → d.okV x = true)
    (hdp : ∀ xs, d.okP xs = true) (v1 : Bool) (lv : Nat × Nat) (comp : List Nat → List Nat)
    (decomp : List Nat → Option (List Nat)) (hcmp : ∀ b, decomp (comp b) = some b) :
    (mkCodec v d v1 lv comp decomp).OKOn 255 (fun _ => true) v.okP (okSOf v1 lv) := by
  refine ⟨fun m xs hm hx _ => lv_ok m xs hm hx, fun xs hx hp => hv xs hx hp,
    fun xs hx => hd xs (fun x h => hvd x (hx x h)) (hdp xs), fun xs hx _ => idx_ok xs hx, hcmp, ?_⟩
  intro p hp
  cases v1 with
  | true => exact unpackV1_packV1 lv comp decomp hcmp p (by simpa [okSOf] using hp)
  | false => simp [mkCodec, packSections, unpackSections, hcmp]
example : ∀ b : List Nat, (some : List Nat → Option (List Nat)) (id b) = some b := fun _ => rfl

end PqModel.Props.C01Codecs
