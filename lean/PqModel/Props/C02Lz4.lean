import PqModel.Spec.FileCheck
import PqModel.Props.C20Lz4

/-! # C02, LZ4_RAW part (round 6) — the file reader's decompression step (SPEC side)

Until this round the spec file reader (`Spec/FileCheck.lean`) value-decoded UNCOMPRESSED, SNAPPY
and GZIP chunks only; LZ4_RAW chunks got the structural clauses. Now `partBytes` hands the stored
bytes of an LZ4_RAW page (codec 7) to `Spec.Lz4File.lz4Block`, a linear-time form of the block
reader `BlockCodecs.lz4Dec` (written from lz4_Block_format.md). The theorems below say what that
step returns, for EVERY file and EVERY conformant block, by composition with
`C20Lz4.lz4_reader_inverts_every_sequence_list`; the page decoders behind it (`decodeDictPage`,
`decodeDataPage`: levels, dictionary, PLAIN/RLE/DELTA_*/BYTE_STREAM_SPLIT) see the uncompressed
body only, so the per-encoding theorems of C04 apply to LZ4_RAW pages as they do to uncompressed
ones (`lz4raw_dict_page_is_plain_of_body` and `lz4raw_v1_data_page_decodes_as_uncompressed` spell the
composition out for the dictionary page and the v1 data page).

Nothing here mirrors Go code. The real encoder (pierrec/lz4 behind `compress/lz4`) is SAMPLED: the
sub-check `C02/lz4raw` takes every LZ4_RAW page of generated files, requires the stored block to be
the `encSeqs` of a writable, end-rule-conformant sequence list (the domain of the theorems), and
compares `partBytes` with the real decoder's output and with the rows written.

-- OPEN: zstd (6) and brotli (4) chunks stay structural (no Lean reader of those formats);
-- `∀ x, lz4Dec (real encoder x) = x` is sampled, not proved (C20Lz4). -/
namespace PqModel.Props.C02Lz4
open PqModel.Spec PqModel.Spec.BlockCodecs PqModel.Spec.Lz4Seqs PqModel.Spec.Lz4File

/-- **The reader the file check runs on LZ4_RAW pages is the block-format reader `lz4Dec`**, on
every input (conformant or not): same bytes out, same error. -/
theorem file_lz4_reader_is_lz4Dec (src : List UInt8) :
    lz4Dec src = (match lz4Block src with | .ok out => .ok out.toList | .error e => .error e) :=
  lz4Block_eq src

/-- **The file-level decompression step inverts every conformant block.** If the bytes a page
header announces, `d[pos, pos+len)`, are the encoding of a writable sequence list (literal runs
and matches of any length, every offset 1..65535 inside the output so far, overlapping matches
included, any final literal run), `partBytes` on an LZ4_RAW chunk returns exactly the bytes the
sequences mean. -/
theorem lz4raw_part_inverts_conformant_block (d : ByteArray) (pos len : Nat) (seqs : List Seq)
    (last : List UInt8) (hstored : blockAt d pos len = encSeqs seqs last)
    (hok : seqsOk seqs #[] = true) :
    partBytes d 7 true pos len = .ok (ByteArray.mk (applySeqs seqs #[] ++ last)) := by
  have h := C20Lz4.lz4_reader_inverts_every_sequence_list seqs last hok
  rw [lz4Block_eq] at h
  simp only [partBytes, hstored]
  cases hb : lz4Block (encSeqs seqs last) with
  | error e => rw [hb] at h; cases h
  | ok out =>
    rw [hb] at h
    have e : out = applySeqs seqs #[] ++ last := by
      apply Array.ext'
      simpa using h
    subst e
    rfl

/-- hypotheses satisfiable: the block `12 12 12 9` stored between a header byte and a trailer -/
example : blockAt (ByteArray.mk #[0x15] ++ ByteArray.mk (encSeqs [⟨[1, 2], 2, 0⟩] [9]).toArray ++ ByteArray.mk #[0x50])
      1 (encSeqs [⟨[1, 2], 2, 0⟩] [9]).length = encSeqs [⟨[1, 2], 2, 0⟩] [9] ∧
    seqsOk [⟨[1, 2], 2, 0⟩] #[] = true :=
  ⟨blockAt_embedded _ _ _, by decide⟩

/-- **…wherever the block lies in the file**: for any bytes before (magic, other pages, the page
header) and after (other pages, indexes, footer). -/
theorem lz4raw_block_in_file (pre post : ByteArray) (seqs : List Seq) (last : List UInt8)
    (hok : seqsOk seqs #[] = true) :
    partBytes (pre ++ ByteArray.mk (encSeqs seqs last).toArray ++ post) 7 true pre.size
      (encSeqs seqs last).length = .ok (ByteArray.mk (applySeqs seqs #[] ++ last)) :=
  lz4raw_part_inverts_conformant_block _ _ _ seqs last (blockAt_embedded pre post _) hok

/-- **Every page body has a stored form the file reader inverts**: the block the proved greedy
matcher (any window; conformant, `C20Lz4.lz4_reader_inverts_greedy_encoder`) writes for `x`,
placed anywhere in a file, is decompressed to `x` by the file reader — the hypotheses of
`lz4raw_part_inverts_conformant_block` are met by an encoder for every input, not only by samples. -/
theorem lz4raw_every_body_has_a_readable_block (w : Nat) (x : List UInt8) (pre post : ByteArray) :
    partBytes (pre ++ ByteArray.mk (lz4Greedy w x).toArray ++ post) 7 true pre.size
      (lz4Greedy w x).length = .ok (ByteArray.mk x.toArray) := by
  have h := applySeqs_greedy w x.length #[] [] x
  unfold lz4Greedy
  rw [lz4raw_block_in_file pre post _ _ h.2, h.1]
  congr 2
  apply Array.ext'
  simp

/-- **A stored block that is not writable makes the page an error**, not data: an offset 0 or one
reaching before the start of the output (all offsets fitting the 2-byte field). -/
theorem lz4raw_part_rejects_unwritable_block (d : ByteArray) (pos len : Nat) (seqs : List Seq)
    (last : List UInt8) (hstored : blockAt d pos len = encSeqs seqs last)
    (h16 : ∀ s, s ∈ seqs → s.off < 65536) (hbad : seqsOk seqs #[] = false) :
    ∃ msg, partBytes d 7 true pos len = .error msg := by
  have h := C20Lz4.lz4_reader_rejects_unwritable_sequence_list seqs last h16 hbad
  rw [lz4Block_eq] at h
  simp only [partBytes, hstored]
  cases hb : lz4Block (encSeqs seqs last) with
  | error e => exact ⟨_, rfl⟩
  | ok out => rw [hb] at h; cases h

example : seqsOk [⟨[1, 2], 3, 0⟩] #[] = false := by decide

/-- the parts of a v2 page that are stored uncompressed (levels; values when `is_compressed` is
false) are taken as they are -/
theorem lz4raw_uncompressed_part (d : ByteArray) (pos len : Nat) :
    partBytes d 7 false pos len = .ok (d.extract pos (pos + len)) := by
  simp [partBytes]

/-- the framing of an LZ4_RAW page says nothing about its uncompressed size (v1 data pages and
dictionary pages): the size clause of the file check is decided by what the block decompresses to -/
theorem lz4raw_announces_no_size (d : ByteArray) (p : PageInfo) (hv1 : (p.ptype == 3) = false) :
    announcedSizeOk d 7 p = none := by
  simp [announcedSizeOk, hv1]

/-- **Composition with the page decoders (dictionary page)**: on an LZ4_RAW chunk whose stored
dictionary page body is a conformant block meaning `body`, the file reader's dictionary is what
the PLAIN spec decoder (C04) reads from `body` — compression has dropped out of the statement. -/
theorem lz4raw_dict_page_is_plain_of_body (d : ByteArray) (leaf : Leaf) (p : PageInfo)
    (seqs : List Seq) (last : List UInt8)
    (hstored : blockAt d p.bodyPos p.op.bodyLen = encSeqs seqs last)
    (hok : seqsOk seqs #[] = true) (henc : p.encoding = 0)
    (vals : List Value)
    (hplain : plainValues leaf.ptype leaf.typeLen p.op.numValues
      (sliceU8 (ByteArray.mk (applySeqs seqs #[] ++ last)) 0 (applySeqs seqs #[] ++ last).size []) = .ok vals) :
    ∃ soft, decodeDictPage d leaf 7 p = .ok (vals.toArray, soft) := by
  have hp := lz4raw_part_inverts_conformant_block d p.bodyPos p.op.bodyLen seqs last hstored hok
  unfold decodeDictPage
  simp only [hp, henc, bind, Except.bind]
  have hsz : (ByteArray.mk (applySeqs seqs #[] ++ last)).size = (applySeqs seqs #[] ++ last).size := rfl
  rw [hsz, hplain]
  simp only [bne_self_eq_false, Bool.false_and, Bool.false_eq_true, ↓reduceIte]
  exact ⟨_, rfl⟩

/-- an UNCOMPRESSED page body is taken as it is -/
theorem uncompressed_whole_body (body : ByteArray) : partBytes body 0 true 0 body.size = .ok body := by
  simp [partBytes]

/-- **Composition with the page decoders (v1 data page)**: on an LZ4_RAW chunk, a v1 data page
whose stored body is a conformant block meaning `body`, of the size the header announces, decodes
(levels, values through whatever encoding, every count clause) EXACTLY as the page of an
UNCOMPRESSED chunk whose stored body is `body` — so every statement about the spec decoders on
uncompressed pages (C04) transfers to LZ4_RAW pages. -/
theorem lz4raw_v1_data_page_decodes_as_uncompressed (d : ByteArray) (leaf : Leaf)
    (dict : Option (Array Value)) (p : PageInfo) (seqs : List Seq) (last : List UInt8)
    (hstored : blockAt d p.bodyPos p.op.bodyLen = encSeqs seqs last)
    (hok : seqsOk seqs #[] = true) (hv1 : (p.ptype == 3) = false)
    (hsize : (applySeqs seqs #[] ++ last).size = p.op.uncompLen) :
    decodeDataPage d leaf 7 dict p =
      decodeDataPage (ByteArray.mk (applySeqs seqs #[] ++ last)) leaf 0 dict
        { p with bodyPos := 0, op := { p.op with bodyLen := p.op.uncompLen } } := by
  have hp := lz4raw_part_inverts_conformant_block d p.bodyPos p.op.bodyLen seqs last hstored hok
  have hq : partBytes (ByteArray.mk (applySeqs seqs #[] ++ last)) 0 true 0 p.op.uncompLen =
      .ok (ByteArray.mk (applySeqs seqs #[] ++ last)) := by
    rw [← hsize]; exact uncompressed_whole_body _
  have ha := lz4raw_announces_no_size d p hv1
  have hsz : (ByteArray.mk (applySeqs seqs #[] ++ last)).size = p.op.uncompLen := hsize
  unfold decodeDataPage
  simp only [hv1, hp, hq, ha, Bool.false_eq_true, ↓reduceIte, bind, Except.bind, hsz,
    beq_self_eq_true, Bool.true_or]

/-- hypotheses satisfiable: a v1 page header announcing the 7 bytes the block `12 12 12 9` means -/
example : (applySeqs [⟨[1, 2], 2, 0⟩] #[] ++ ([9] : List UInt8)).size = 7 := by decide

-- OPEN: the same statement for v2 data pages (levels stored uncompressed in front of the block:
-- the uncompressed counterpart is a file holding levels ++ body); `decodeDataPage` reaches the
-- compressed part through `partBytes` only, so `lz4raw_part_inverts_conformant_block` is the step
-- that matters there too.

end PqModel.Props.C02Lz4
