import PqModel.ConvValue

/-! # Property C12, part "value": the value type conversions behind `Convert`

Theorems about the mirror `convertValue` / `convertToType` of `PqModel/ConvValue.lean`
(`targetType.ConvertValue(v, sourceType)` of the nine type implementations, applied by
`convertToType` to every value of a column whose type the target schema changes).
All statements are about ALL values of the kinds concerned (bit patterns, byte strings of any
length, every FIXED_LEN_BYTE_ARRAY size); the `decide` theorems are witnesses of information loss
and of the four defects the mirror shares with the code (reproduced on the real code by the
sub-check `value`). -/
namespace PqModel.ConvValue
open PqModel.Plain (Bytes leBytes leVal leVal_leBytes leBytes_length leBytes_leVal)

/-! ## identity on equal types -/

/-- `ConvertValue` between equal types hands the value back — every kind, every non-null value,
    every FIXED_LEN_BYTE_ARRAY length, STRING included. -/
theorem convert_same_type_id (t : Ty) (v : Val) (h : v.inTy t = true) :
    convertValue t t v = .ok v := by
  obtain ⟨k, s⟩ := t
  simp only [Val.inTy, Bool.and_eq_true, decide_eq_true_eq, Bool.or_eq_true, Bool.not_eq_true'] at h
  obtain ⟨⟨⟨_, hn⟩, hk⟩, hs⟩ := h
  cases v <;> simp only [Val.kind] at hk <;> subst hk <;> first
    | exact absurd rfl hn
    | (cases s <;> simp_all [convertValue, convertNonNull, toString, toBoolean, toInt32, toInt64, toInt96,
        toFloat, toDouble, toByteArray, toFixed, fitTo])

example : (Val.fixed [1, 2, 3]).inTy ⟨.flba 3, false⟩ = true := by decide
example : (Val.bytes [120]).inTy ⟨.byteArray, true⟩ = true := by decide

/-! ## which pairs are accepted -/

/-- No pair of physical types is refused, and for a non-string source the outcome depends on the
    PAIR only: every non-null value converts, except INT96 <-> FLOAT/DOUBLE where every value is an
    error; nothing panics. (The int <-> float numeric pairs and INT96/FLOAT/DOUBLE -> STRING are
    outside the mirror: the code has no error path there.) -/
theorem convert_outcome_by_pair (tgt src : Ty) (v : Val) (hs : src.isString = false)
    (h : v.inTy src = true) :
    convertValue tgt src v ≠ .panics ∧
    (convertValue tgt src v = .invalid ↔
      tgt.isString = false ∧
      ((src.kind = .int96 ∧ (tgt.kind = .float ∨ tgt.kind = .double)) ∨
       ((src.kind = .float ∨ src.kind = .double) ∧ tgt.kind = .int96))) := by
  obtain ⟨tk, ts⟩ := tgt
  obtain ⟨sk, ss⟩ := src
  simp only at hs; subst hs
  simp only [Val.inTy, Bool.and_eq_true, decide_eq_true_eq] at h
  obtain ⟨⟨⟨_, hn⟩, hk⟩, _⟩ := h
  cases v <;> simp only [Val.kind] at hk <;> subst hk <;> first
    | exact absurd rfl hn
    | (cases ts <;> cases tk <;>
        simp [convertValue, convertNonNull, toString, toBoolean, toInt32, toInt64, toInt96,
          toFloat, toDouble, toByteArray, toFixed])

example : (Val.i96 5).inTy ⟨.int96, false⟩ = true := by decide

/-- A string source fails exactly on the strings the parser of the target refuses
    (BOOLEAN / INT32 / INT64 / INT96 targets; for FIXED_LEN_BYTE_ARRAY see `hex_decode_encode`). -/
theorem convert_string_invalid_iff (s : Bytes) :
    (convertValue ⟨.boolean, false⟩ ⟨.byteArray, true⟩ (.bytes s) = .invalid ↔ parseBool s = none) ∧
    (convertValue ⟨.int32, false⟩ ⟨.byteArray, true⟩ (.bytes s) = .invalid ↔ parseInt 32 s = none) ∧
    (convertValue ⟨.int64, false⟩ ⟨.byteArray, true⟩ (.bytes s) = .invalid ↔ parseInt 64 s = none) ∧
    (convertValue ⟨.int96, false⟩ ⟨.byteArray, true⟩ (.bytes s) = .invalid ↔ signedDigits s = none) := by
  refine ⟨?_, ?_, ?_, ?_⟩
  · cases hp : parseBool s <;> simp [convertValue, convertNonNull, toBoolean, hp]
  · cases hp : parseInt 32 s <;> simp [convertValue, convertNonNull, toInt32, hp]
  · cases hp : parseInt 64 s <;> simp [convertValue, convertNonNull, toInt64, hp]
  · cases hp : signedDigits s with
    | none => simp [convertValue, convertNonNull, toInt96, convertStringToInt96, hp]
    | some p => obtain ⟨a, n⟩ := p; simp [convertValue, convertNonNull, toInt96, convertStringToInt96, hp]

/-! ## a column is converted value by value -/

/-- convertToType: when it succeeds the column keeps its length and order and every entry is the
    conversion of the entry at the same place. -/
theorem convertToType_ok (tgt src : Ty) : ∀ (vs ws : List Val),
    convertToType tgt src vs = .ok ws → vs.map (convertValue tgt src) = ws.map Res.ok
  | [], ws, h => by
    simp only [convertToType] at h
    cases h; rfl
  | v :: vs, ws, h => by
    simp only [convertToType] at h
    split at h
    · rename_i w hw
      cases hr : convertToType tgt src vs with
      | error e => rw [hr] at h; simp [Except.map] at h
      | ok ws' =>
        rw [hr] at h; simp only [Except.map] at h
        cases h
        simp [hw, convertToType_ok tgt src vs ws' hr]
    · cases h

/-- ... and it fails exactly when some value fails (the first one decides the error). -/
theorem convertToType_error (tgt src : Ty) : ∀ (vs : List Val) (e : Res),
    convertToType tgt src vs = .error e →
    ∃ pre v post, vs = pre ++ v :: post ∧ convertValue tgt src v = e ∧ (∀ w, e ≠ .ok w) ∧
      ∀ u ∈ pre, ∃ w, convertValue tgt src u = .ok w
  | [], e, h => by simp [convertToType] at h
  | v :: vs, e, h => by
    simp only [convertToType] at h
    split at h
    · rename_i w hw
      cases hr : convertToType tgt src vs with
      | ok ws' => rw [hr] at h; simp [Except.map] at h
      | error e' =>
        rw [hr] at h; simp only [Except.map] at h
        cases h
        obtain ⟨pre, x, post, he, hx, hne, hpre⟩ := convertToType_error tgt src vs e hr
        refine ⟨v :: pre, x, post, by rw [he]; rfl, hx, hne, ?_⟩
        intro u hu
        rcases List.mem_cons.mp hu with rfl | hu
        · exact ⟨w, hw⟩
        · exact hpre u hu
    · rename_i hne
      cases h
      exact ⟨[], v, vs, rfl, rfl, fun w hw => hne w hw, by simp⟩

/-! ## widening pairs: source -> target -> source is the identity -/

theorem isZero_replicate (k : Nat) : isZero (List.replicate k 0) = true := by
  simp [isZero]

theorem sext_mod (x : Nat) (h : x < 2 ^ 32) : sext 32 64 x % 2 ^ 32 = x := by
  unfold sext; split <;> omega

theorem int32ToInt96_mod (x : Nat) (h : x < 2 ^ 32) : int32ToInt96 x % 2 ^ 32 = x := by
  unfold int32ToInt96; split <;> omega

theorem int64ToInt96_mod (x : Nat) (h : x < 2 ^ 64) : int64ToInt96 x % 2 ^ 64 = x := by
  unfold int64ToInt96; split <;> omega

/-- sign extension keeps the number -/
theorem int32_to_int64_value (x : Nat) (h : x < 2 ^ 32) : toInt 64 (sext 32 64 x) = toInt 32 x := by
  unfold toInt sext
  split <;> split <;> simp <;> omega

theorem int32_to_int96_value (x : Nat) (h : x < 2 ^ 32) : toInt 96 (int32ToInt96 x) = toInt 32 x := by
  unfold toInt int32ToInt96
  split <;> split <;> simp <;> omega

theorem int64_to_int96_value (x : Nat) (h : x < 2 ^ 64) : toInt 96 (int64ToInt96 x) = toInt 64 x := by
  unfold toInt int64ToInt96
  split <;> split <;> simp <;> omega

/-- reading `k` bytes back from a `k`-byte value stored in a FIXED_LEN_BYTE_ARRAY(n), n ≥ k -/
theorem leVal_padTo_padTo {k n x : Nat} (hx : x < 2 ^ (8 * k)) (hn : k ≤ n) :
    leVal (padTo k (padTo n (leBytes k x))) = x := by
  have hl : (leBytes k x).length = k := leBytes_length k x
  have h1 : padTo k (padTo n (leBytes k x)) = leBytes k x := by
    have : (padTo n (leBytes k x)).length = n := padTo_length _ _
    unfold padTo
    rw [List.take_append_of_le_length (by rw [List.length_take, List.length_append, List.length_replicate]; omega)]
    rw [List.take_take, Nat.min_eq_left hn, List.take_append_of_le_length (by omega),
      List.take_of_length_le (by omega)]
  rw [h1, leVal_leBytes k x hx]

/-- hex.Decode(make([]byte, n), hex.Encode(b)): the bytes come back when they fit, and the call
    PANICS when `b` is longer than the destination (convertStringToFixedLenByteArray allocates
    exactly `size` bytes, whatever the string's length). -/
theorem hex_decode_encode : ∀ (n : Nat) (b : Bytes),
    hexDecodeGo n (hexEncode b) = if b.length ≤ n then .ok b else .panics
  | _, [] => by simp [hexEncode, hexDecodeGo]
  | n, c :: b => by
    have hv : ∀ d : Nat, d < 16 → hexVal (hexChar d) = some d := by decide
    have h1 : c.toNat / 16 < 16 := by have := c.toNat_lt; omega
    have h2 : c.toNat % 16 < 16 := by omega
    have hc : UInt8.ofNat (c.toNat / 16 * 16 + c.toNat % 16) = c := by
      have : c.toNat / 16 * 16 + c.toNat % 16 = c.toNat := by omega
      rw [this]; simp
    simp only [hexEncode, hexDecodeGo, hv _ h1, hv _ h2]
    cases n with
    | zero => simp
    | succ n =>
      simp only [hex_decode_encode n b, hc, List.length_cons, Nat.add_le_add_iff_right]
      by_cases hb : b.length ≤ n <;> simp [hb]

/-- the targets that hold every value of the source -/
def widens (src tgt : Ty) : Bool :=
  !src.isString &&
  match src.kind, tgt.isString, tgt.kind with
  | .boolean, true, _ => true
  | .boolean, false, .flba n => decide (1 ≤ n)
  | .boolean, false, _ => true
  | .int32, true, _ | .int64, true, _ => true  -- decimal text
  | .int32, false, .int64 | .int32, false, .int96 | .int32, false, .double | .int32, false, .byteArray => true
  | .int32, false, .flba n => decide (4 ≤ n)
  | .int64, false, .int96 | .int64, false, .byteArray => true
  | .int64, false, .flba n => decide (8 ≤ n)
  | .int96, false, .byteArray => true
  | .int96, false, .flba n => decide (12 ≤ n)
  | .float, false, .byteArray => true
  | .float, false, .flba n => decide (4 ≤ n)
  | .double, false, .byteArray => true
  | .double, false, .flba n => decide (8 ≤ n)
  | .flba _, true, _ => true                  -- hex text
  | .flba _, false, .byteArray => true
  | .byteArray, true, _ => true               -- BYTE_ARRAY <-> STRING: the same bytes
  | _, _, _ => false

/-- Round trip on the widening pairs: for every pair where the target holds every source value
    (`widens`: boolean -> anything incl. the strings "true"/"false"; int32 -> int64 / int96 / double /
    bytes / fixed(n ≥ 4) / decimal string; int64 -> int96 / bytes / fixed(n ≥ 8) / decimal string; int96 -> bytes / fixed(n ≥ 12); float and
    double -> bytes / fixed (bit-exact, NaN payloads included); fixed -> hex string / bytes;
    bytes -> string) and EVERY non-null value of the source type, the conversion succeeds and
    converting back yields the value. -/
theorem widening_round_trip (src tgt : Ty) (v : Val) (hw : widens src tgt = true)
    (h : v.inTy src = true) (hts : tgt.isString = true → tgt.kind = .byteArray) :
    ∃ w, convertValue tgt src v = .ok w ∧ convertValue src tgt w = .ok v := by
  obtain ⟨tk, ts⟩ := tgt
  obtain ⟨sk, ss⟩ := src
  simp only [widens, Bool.and_eq_true, Bool.not_eq_true'] at hw
  obtain ⟨hss, hw⟩ := hw
  have hss : ss = false := hss
  subst hss
  simp only [Val.inTy, Bool.and_eq_true, decide_eq_true_eq] at h
  obtain ⟨⟨⟨hwf, hn⟩, hk⟩, _⟩ := h
  cases v with
  | null => exact absurd rfl hn
  | bool b =>
    simp only [Val.kind] at hk; subst hk
    cases ts with
    | true =>
      have := hts rfl; simp only at this; subst this
      cases b <;> exact ⟨_, rfl, by decide⟩
    | false =>
      cases tk with
      | flba n =>
        simp only [decide_eq_true_eq] at hw
        refine ⟨_, rfl, ?_⟩
        simp only [convertValue, convertNonNull, toBoolean]
        have hp : ∀ c : UInt8, padTo n [c] = c :: List.replicate (n - 1) 0 := by
          intro c; rw [padTo_of_le (by simpa using hw)]; rfl
        cases b <;> simp [hp, isZero, boolByte]
      | _ => cases b <;> exact ⟨_, rfl, by decide⟩
  | i32 x =>
    simp only [Val.kind] at hk; subst hk
    simp only [Val.wf, decide_eq_true_eq] at hwf
    cases ts with
    | true =>
      have := hts rfl; simp only at this; subst this
      exact ⟨_, rfl, by simp [convertValue, convertNonNull, toInt32, parseInt_appendInt32 x hwf]⟩
    | false =>
      cases tk <;> first | (simp at hw; done) | skip
      · exact ⟨_, rfl, by simp [convertValue, convertNonNull, toInt32, sext_mod x hwf]⟩
      · exact ⟨_, rfl, by simp [convertValue, convertNonNull, toInt32, int32ToInt96_mod x hwf]⟩
      · exact ⟨_, rfl, by simp [convertValue, convertNonNull, toInt32, int32_double_round_trip x hwf]⟩
      · exact ⟨_, rfl, by
          simp only [convertValue, convertNonNull, toInt32]
          rw [leVal_padTo_leBytes (k := 4) (by simpa using hwf) (Nat.le_refl 4)]; simp⟩
      · exact ⟨_, rfl, by
          simp only [convertValue, convertNonNull, toInt32]
          rw [leVal_padTo_padTo (k := 4) (by simpa using hwf) (of_decide_eq_true hw)]; simp⟩
  | i64 x =>
    simp only [Val.kind] at hk; subst hk
    simp only [Val.wf, decide_eq_true_eq] at hwf
    cases ts with
    | true =>
      have := hts rfl; simp only at this; subst this
      exact ⟨_, rfl, by simp [convertValue, convertNonNull, toInt64, parseInt_appendInt64 x hwf]⟩
    | false =>
      cases tk <;> first | (simp at hw; done) | skip
      · exact ⟨_, rfl, by simp [convertValue, convertNonNull, toInt64, int64ToInt96_mod x hwf]⟩
      · exact ⟨_, rfl, by
          simp only [convertValue, convertNonNull, toInt64]
          rw [leVal_padTo_leBytes (k := 8) (by simpa using hwf) (Nat.le_refl 8)]; simp⟩
      · exact ⟨_, rfl, by
          simp only [convertValue, convertNonNull, toInt64]
          rw [leVal_padTo_padTo (k := 8) (by simpa using hwf) (of_decide_eq_true hw)]; simp⟩
  | i96 x =>
    simp only [Val.kind] at hk; subst hk
    simp only [Val.wf, decide_eq_true_eq] at hwf
    cases ts with
    | true => simp at hw
    | false =>
      cases tk <;> first | (simp at hw; done) | skip
      · exact ⟨_, rfl, by
          simp only [convertValue, convertNonNull, toInt96]
          rw [leVal_padTo_leBytes (k := 12) (by simpa using hwf) (Nat.le_refl 12)]; simp⟩
      · exact ⟨_, rfl, by
          simp only [convertValue, convertNonNull, toInt96, fitTo_eq_padTo]
          rw [leVal_padTo_padTo (k := 12) (by simpa using hwf) (of_decide_eq_true hw)]; simp⟩
  | f32 x =>
    simp only [Val.kind] at hk; subst hk
    simp only [Val.wf, decide_eq_true_eq] at hwf
    cases ts with
    | true => simp at hw
    | false =>
      cases tk <;> first | (simp at hw; done) | skip
      · exact ⟨_, rfl, by
          simp only [convertValue, convertNonNull, toFloat]
          rw [leVal_padTo_leBytes (k := 4) (by simpa using hwf) (Nat.le_refl 4)]; rfl⟩
      · exact ⟨_, rfl, by
          simp only [convertValue, convertNonNull, toFloat]
          rw [leVal_padTo_padTo (k := 4) (by simpa using hwf) (of_decide_eq_true hw)]; rfl⟩
  | f64 x =>
    simp only [Val.kind] at hk; subst hk
    simp only [Val.wf, decide_eq_true_eq] at hwf
    cases ts with
    | true => simp at hw
    | false =>
      cases tk <;> first | (simp at hw; done) | skip
      · exact ⟨_, rfl, by
          simp only [convertValue, convertNonNull, toDouble]
          rw [leVal_padTo_leBytes (k := 8) (by simpa using hwf) (Nat.le_refl 8)]; rfl⟩
      · exact ⟨_, rfl, by
          simp only [convertValue, convertNonNull, toDouble]
          rw [leVal_padTo_padTo (k := 8) (by simpa using hwf) (of_decide_eq_true hw)]; rfl⟩
  | bytes b =>
    simp only [Val.kind] at hk; subst hk
    cases ts with
    | true =>
      have := hts rfl; simp only at this; subst this
      exact ⟨_, rfl, rfl⟩
    | false => cases tk <;> simp at hw
  | fixed b =>
    simp only [Val.kind] at hk; subst hk
    cases ts with
    | true =>
      have := hts rfl; simp only at this; subst this
      refine ⟨_, rfl, ?_⟩
      simp only [convertValue, convertNonNull, toFixed, convertStringToFixedLenByteArray,
        hex_decode_encode, Nat.le_refl, if_true, padTo_self]
      simp
    | false =>
      cases tk <;> try (simp at hw; done)
      exact ⟨_, rfl, by simp [convertValue, convertNonNull, toFixed, fitTo]⟩

example : widens ⟨.int32, false⟩ ⟨.flba 7, false⟩ = true ∧ (Val.i32 0xFFFFFFFF).inTy ⟨.int32, false⟩ = true := by decide

/-! ## narrowing: exactly what is lost -/

/-- INT64 -> INT32 keeps the low 32 bits (Go `int32(x)`), and the way back restores the value
    exactly when the signed value was in the int32 range (pattern below 2^31, or from 2^64 - 2^31 up). -/
theorem int64_to_int32_wraps (x : Nat) (h : x < 2 ^ 64) :
    convertValue ⟨.int32, false⟩ ⟨.int64, false⟩ (.i64 x) = .ok (.i32 (x % 2 ^ 32)) ∧
    (convertValue ⟨.int64, false⟩ ⟨.int32, false⟩ (.i32 (x % 2 ^ 32)) = .ok (.i64 x) ↔
      (x < 2 ^ 31 ∨ 2 ^ 64 - 2 ^ 31 ≤ x)) := by
  refine ⟨rfl, ?_⟩
  have e : convertValue ⟨.int64, false⟩ ⟨.int32, false⟩ (.i32 (x % 2 ^ 32)) = .ok (.i64 (sext 32 64 (x % 2 ^ 32))) := rfl
  rw [e]
  simp only [Res.ok.injEq, Val.i64.injEq, sext]
  split <;> omega

theorem int64_in_int32_range (x : Nat) (h : x < 2 ^ 64) :
    (x < 2 ^ 31 ∨ 2 ^ 64 - 2 ^ 31 ≤ x) ↔ (-2147483648 ≤ toInt 64 x ∧ toInt 64 x < 2147483648) := by
  unfold toInt
  split <;> simp <;> omega

/-- a byte array read as a fixed-width number: the first bytes, the rest is dropped -/
theorem bytes_to_int32_truncates (b rest : Bytes) (h : b.length = 4) :
    convertValue ⟨.int32, false⟩ ⟨.byteArray, false⟩ (.bytes (b ++ rest)) =
    convertValue ⟨.int32, false⟩ ⟨.byteArray, false⟩ (.bytes b) := by
  simp only [convertValue, convertNonNull, toInt32, padTo]
  rw [List.take_append_of_le_length (by simp; omega), List.take_append_of_le_length (by omega)]
  rw [List.take_append_of_le_length (by omega)]
  simp

theorem narrowing_loses_information :
    -- INT64 -> INT32 -> INT64: 2^32 comes back as 0
    convertValue ⟨.int32, false⟩ ⟨.int64, false⟩ (.i64 (2 ^ 32)) = .ok (.i32 0) ∧
    convertValue ⟨.int64, false⟩ ⟨.int32, false⟩ (.i32 0) = .ok (.i64 0) ∧
    -- INT32 -> BOOLEAN -> INT32: 2 comes back as 1
    convertValue ⟨.boolean, false⟩ ⟨.int32, false⟩ (.i32 2) = .ok (.bool true) ∧
    convertValue ⟨.int32, false⟩ ⟨.boolean, false⟩ (.bool true) = .ok (.i32 1) ∧
    -- INT96 -> INT64 drops the high word
    convertValue ⟨.int64, false⟩ ⟨.int96, false⟩ (.i96 (2 ^ 64 + 7)) = .ok (.i64 7) ∧
    -- BYTE_ARRAY -> FIXED(2): a longer value is cut, a shorter one zero padded
    convertValue ⟨.flba 2, false⟩ ⟨.byteArray, false⟩ (.bytes [1, 2, 3]) = .ok (.fixed [1, 2]) ∧
    convertValue ⟨.flba 2, false⟩ ⟨.byteArray, false⟩ (.bytes [1]) = .ok (.fixed [1, 0]) ∧
    -- FLOAT -> BOOLEAN: -0 is false, NaN is true
    convertValue ⟨.boolean, false⟩ ⟨.float, false⟩ (.f32 0x80000000) = .ok (.bool false) ∧
    convertValue ⟨.boolean, false⟩ ⟨.float, false⟩ (.f32 0x7FC00000) = .ok (.bool true) := by
  decide

/-! ## FLOAT -> DOUBLE -> FLOAT -/

theorem f32to64_normal (x : Nat) (h1 : 1 ≤ x / 2 ^ 23 % 256) (h2 : x / 2 ^ 23 % 256 ≤ 254) :
    f32to64 x = (x / 2 ^ 31) * 2 ^ 63 + (x / 2 ^ 23 % 256 + 896) * 2 ^ 52 + (x % 2 ^ 23) * 2 ^ 29 := by
  unfold f32to64
  simp only []
  split
  · omega
  · split
    · omega
    · rfl

theorem f64to32_of_fields (s e m : Nat) (_hs : s < 2) (he1 : 897 ≤ e) (he2 : e ≤ 1150) (hm : m < 2 ^ 23) :
    f64to32 (s * 2 ^ 63 + e * 2 ^ 52 + m * 2 ^ 29) = s * 2 ^ 31 + (e - 896) * 2 ^ 23 + m := by
  have f1 : (s * 2 ^ 63 + e * 2 ^ 52 + m * 2 ^ 29) / 2 ^ 63 = s := by omega
  have f2 : (s * 2 ^ 63 + e * 2 ^ 52 + m * 2 ^ 29) / 2 ^ 52 % 2048 = e := by omega
  have f3 : (s * 2 ^ 63 + e * 2 ^ 52 + m * 2 ^ 29) % 2 ^ 52 = m * 2 ^ 29 := by omega
  have hr : rne (2 ^ 52 + m * 2 ^ 29) 29 = 2 ^ 23 + m := by
    unfold rne
    simp only []
    have q : (2 ^ 52 + m * 2 ^ 29) / 2 ^ 29 = 2 ^ 23 + m := by omega
    have r : (2 ^ 52 + m * 2 ^ 29) % 2 ^ 29 = 0 := by omega
    rw [q, r]
    simp
  unfold f64to32
  simp only [f1, f2, f3, hr]
  split
  · omega
  · split
    · omega
    · omega

/-- FLOAT -> DOUBLE -> FLOAT gives the bit pattern back for every NORMAL float32 (all 2·254·2^23 of
    them), the zeros and the infinities.
    -- OPEN: the subnormal floats (the widening normalises with `Nat.log2`, the narrowing
    -- denormalises through `rne`) and the quiet NaNs; both are compared on the real code and on
    -- the mirror by the sub-check `value` (L1 round trip, L2). A signalling NaN does NOT come back:
    -- `signalling_nan_is_quieted`. -/
theorem float_double_round_trip_partial (x : Nat) (hx : x < 2 ^ 32)
    (h : (1 ≤ x / 2 ^ 23 % 256 ∧ x / 2 ^ 23 % 256 ≤ 254) ∨ x % 2 ^ 31 = 0 ∨ x % 2 ^ 31 = 0x7F800000) :
    ∃ w, convertValue ⟨.double, false⟩ ⟨.float, false⟩ (.f32 x) = .ok (.f64 w) ∧
      convertValue ⟨.float, false⟩ ⟨.double, false⟩ (.f64 w) = .ok (.f32 x) := by
  refine ⟨f32to64 x, rfl, ?_⟩
  have e : convertValue ⟨.float, false⟩ ⟨.double, false⟩ (.f64 (f32to64 x)) = .ok (.f32 (f64to32 (f32to64 x))) := rfl
  rw [e]
  congr 2
  rcases h with ⟨h1, h2⟩ | h0 | hinf
  · rw [f32to64_normal x h1 h2, f64to32_of_fields _ _ _ (by omega) (by omega) (by omega) (by omega)]
    omega
  · have : x = 0 ∨ x = 2 ^ 31 := by omega
    rcases this with rfl | rfl <;> decide
  · have : x = 0x7F800000 ∨ x = 0xFF800000 := by omega
    rcases this with rfl | rfl <;> decide

example : (1 ≤ 0x3F800000 / 2 ^ 23 % 256 ∧ 0x3F800000 / 2 ^ 23 % 256 ≤ 254) := by decide

/-- the hardware conversion quiets a signalling NaN: the payload comes back with bit 22 set -/
theorem signalling_nan_is_quieted :
    convertValue ⟨.double, false⟩ ⟨.float, false⟩ (.f32 0x7F800001) = .ok (.f64 0x7FF8000020000000) ∧
    convertValue ⟨.float, false⟩ ⟨.double, false⟩ (.f64 0x7FF8000020000000) = .ok (.f32 0x7FC00001) := by
  decide

/-- DOUBLE -> FLOAT rounds (ties to even), overflows to infinity and flushes small values to zero;
    INT64 -> DOUBLE and INT32 -> FLOAT round beyond 53 / 24 significant bits;
    FLOAT/DOUBLE -> INT32/INT64 truncates, and NaN / out-of-range values become the smallest integer
    (amd64). -/
theorem numeric_narrowing_witnesses :
    convertValue ⟨.float, false⟩ ⟨.double, false⟩ (.f64 0x3FF0000010000000) = .ok (.f32 0x3F800000) ∧
    convertValue ⟨.float, false⟩ ⟨.double, false⟩ (.f64 0x3FF0000030000000) = .ok (.f32 0x3F800002) ∧
    convertValue ⟨.float, false⟩ ⟨.double, false⟩ (.f64 0x7FEFFFFFFFFFFFFF) = .ok (.f32 0x7F800000) ∧
    convertValue ⟨.float, false⟩ ⟨.double, false⟩ (.f64 1) = .ok (.f32 0) ∧
    convertValue ⟨.double, false⟩ ⟨.int64, false⟩ (.i64 (2 ^ 53 + 1)) = .ok (.f64 0x4340000000000000) ∧
    convertValue ⟨.float, false⟩ ⟨.int32, false⟩ (.i32 (2 ^ 24 + 1)) = .ok (.f32 0x4B800000) ∧
    convertValue ⟨.int32, false⟩ ⟨.double, false⟩ (.f64 0xBFF8000000000000) = .ok (.i32 0xFFFFFFFF) ∧
    convertValue ⟨.int32, false⟩ ⟨.double, false⟩ (.f64 0x7FF8000000000000) = .ok (.i32 0x80000000) ∧
    convertValue ⟨.int32, false⟩ ⟨.double, false⟩ (.f64 0x41E0000000000000) = .ok (.i32 0x80000000) := by
  decide

/-! ## defects the mirror shares with the code (each reproduced on the real code by the
    sub-check `value`, which reports them as observations) -/

/-- convertStringToInt96 copies the BIG-endian magnitude `big.Int.Bytes()` into a buffer that is
    read as little-endian words and never looks at the sign: "256" is 1, "-5" is 5
    (INT96 -> STRING -> INT96 is not the identity on the real code). -/
theorem string_to_int96_is_wrong :
    convertValue ⟨.int96, false⟩ ⟨.byteArray, true⟩ (.bytes [50, 53, 54]) = .ok (.i96 1) ∧
    convertValue ⟨.int96, false⟩ ⟨.byteArray, true⟩ (.bytes [45, 53]) = .ok (.i96 5) := by
  decide

/-- convertStringToFixedLenByteArray: a hex string longer than 2·size panics (index out of range in
    hex.Decode) instead of returning an error; see `hex_decode_encode` for all lengths. -/
theorem string_to_fixed_panics :
    convertValue ⟨.flba 2, false⟩ ⟨.byteArray, true⟩ (.bytes [52, 49, 52, 50, 52, 51]) = .panics := by
  decide

/-- convertToType runs over the NULL values of an optional column as well: a null becomes a
    non-null zero of the target kind, fails the whole column when the source is a STRING
    (`ParseInt("")`), and panics when the source is INT96 (`makeInt96(nil)`). -/
theorem null_is_converted :
    convertValue ⟨.int64, false⟩ ⟨.int32, false⟩ .null = .ok (.i64 0) ∧
    convertValue ⟨.byteArray, false⟩ ⟨.int32, false⟩ .null = .ok (.bytes [0, 0, 0, 0]) ∧
    convertValue ⟨.int32, false⟩ ⟨.byteArray, true⟩ .null = .invalid ∧
    convertValue ⟨.boolean, false⟩ ⟨.byteArray, true⟩ .null = .invalid ∧
    convertValue ⟨.int64, false⟩ ⟨.int96, false⟩ .null = .panics ∧
    convertValue ⟨.flba 3, false⟩ ⟨.flba 3, false⟩ .null = .ok (.fixed [0, 0, 0]) := by
  decide

/-- a null stays null only on the `return val` branches -/
theorem null_kept_iff_returns_val (tgt src : Ty) (h : src.kind ≠ .int96) :
    convertValue tgt src .null = .ok .null ↔ returnsVal tgt src = true := by
  obtain ⟨tk, ts⟩ := tgt
  obtain ⟨sk, ss⟩ := src
  simp only [convertValue]
  constructor
  · intro hc
    split at hc
    · assumption
    · exfalso
      cases sk <;> first
        | exact absurd rfl h
        | (cases ts <;> cases tk <;> cases ss <;>
            simp_all [returnsVal, nullAs, convertNonNull, toString, toBoolean, toInt32, toInt64, toInt96,
              toFloat, toDouble, toByteArray, toFixed, convertStringToInt96, convertStringToFixedLenByteArray,
              signedDigits, hexDecodeGo, parseBool, parseInt] <;>
            (try split at hc) <;> simp_all)
  · intro hr; simp [hr]

/-- byteArrayType.ConvertValue hands a FIXED_LEN_BYTE_ARRAY value back as it is: the value in the
    BYTE_ARRAY column still says `Kind() = FIXED_LEN_BYTE_ARRAY`. -/
theorem fixed_to_bytes_keeps_kind (b : Bytes) :
    convertValue ⟨.byteArray, false⟩ ⟨.flba b.length, false⟩ (.fixed b) = .ok (.fixed b) := rfl

end PqModel.ConvValue
