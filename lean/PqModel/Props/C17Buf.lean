import PqModel.ResetBuf

/-! # C17, Buffer side: column buffers reused through `Reset`

Model: `PqModel/ResetBuf.lean` (the C10 arrays of `optionalColumnBuffer` / `repeatedColumnBuffer`
plus the state `Reset()` leaves alone: `reordered`, `sortIndex`, the spare buffer `reordering`).

Statement: from ANY earlier state `b` (so in particular after every earlier history of writes /
`Swap`s / `Page()`s / `Reset`s, with every content of the memory under a re-extended `sortIndex`,
every stale flag and spare buffer), a buffer that is `Reset` and then driven through any further
history shows the observations of a fresh buffer driven through that further history:
the rows held, `Len()`, what `Page()` hands out (values and levels), every `Less(i, j)`.
For the repeated buffer `Size()` too (`rep_reset_size`).
`Size()` is NOT among them for the optional buffer: it counts the stale `sortIndex`
(`opt_size_after_reset`, witness `opt_size_reset_differs`; reproduced on the library, see the
sub-check `bufreset`). -/
namespace PqModel.ResetBuf
open PqModel.SortBuf

/-! ## optional column buffer -/

theorem OptBuf.fresh_inv {V : Type} (m : Nat) : (OptBuf.fresh : OptBuf V).col.Inv m := OptCol.Inv.empty m

/-- refinement: through every history (writes, swaps, pages with arbitrary dirty scratch memory,
    resets) the mirror holds exactly the rows of the abstract buffer (a list of rows: write appends,
    swap exchanges, page keeps, reset empties), and keeps the C10 invariant -/
theorem opt_refines {V : Type} (m : Nat) (ops : List (BOp V)) (hw : ∀ op ∈ ops, op.WF m) :
    ((OptBuf.fresh : OptBuf V).run m ops).col.Inv m ∧
    ((OptBuf.fresh : OptBuf V).run m ops).col.view = absRun m [] ops :=
  OptBuf.run_refines ops _ (OptBuf.fresh_inv m) hw

/-- the rows held after `Reset` and a further history are those of a fresh buffer — from ANY earlier
    state `b` (every reachable one `OptBuf.fresh.run m hist` included, whatever its flags and scratch) -/
theorem opt_reset_view {V : Type} (m : Nat) (b : OptBuf V) (next : List (BOp V)) (hn : ∀ op ∈ next, op.WF m) :
    let a := (b.reset.run m next : OptBuf V)
    let f := (OptBuf.fresh.run m next : OptBuf V)
    a.col.Inv m ∧ f.col.Inv m ∧ a.col.view = f.col.view := by
  obtain ⟨ia, va⟩ := OptBuf.run_refines next _ (b.reset_inv m).1 hn
  obtain ⟨i2, v2⟩ := opt_refines m next hn
  refine ⟨ia, i2, ?_⟩
  rw [va, v2, (b.reset_inv m).2]

/-- C17 for the optional column buffer: after `Reset`, for every earlier and every later history,
    `Len()`, the page handed out (for every scratch memory content on either side) and every
    `Less(i, j)` of a sorting column equal a fresh buffer's -/
theorem opt_reset_equiv {V : Type} (o : VOrd V) (sc : SortCol) (m : Nat) (b : OptBuf V) (next : List (BOp V))
    (hn : ∀ op ∈ next, op.WF m) (junk junk' : List Nat) :
    let a := (b.reset.run m next : OptBuf V)
    let f := (OptBuf.fresh.run m next : OptBuf V)
    a.len = f.len ∧ a.pageOut m junk = f.pageOut m junk' ∧
    ∀ i j, i < f.len → j < f.len →
      Col.less o.lt sc.desc sc.nullsFirst (.opt m a.col) i j = Col.less o.lt sc.desc sc.nullsFirst (.opt m f.col) i j := by
  intro a f
  obtain ⟨ia, i2, v⟩ := opt_reset_view m b next hn
  have hl : a.len = f.len := by
    show a.col.rows.length = f.col.rows.length
    rw [← OptCol.length_view ia, ← OptCol.length_view i2]; exact congrArg _ v
  refine ⟨hl, ?_, ?_⟩
  · rw [OptBuf.pageOut_spec ia, OptBuf.pageOut_spec i2]
    show (cellVals a.col.view, a.col.view.map (·.1)) = (cellVals f.col.view, f.col.view.map (·.1))
    rw [show a.col.view = f.col.view from v]
  · intro i j hi hj
    have hi2 : i < (Col.opt m f.col).view.length := by
      show i < f.col.view.length; rw [OptCol.length_view i2]; exact hi
    have hj2 : j < (Col.opt m f.col).view.length := by
      show j < f.col.view.length; rw [OptCol.length_view i2]; exact hj
    have hia : i < (Col.opt m a.col).view.length := by
      show i < a.col.view.length; rw [show a.col.view = f.col.view from v]; exact hi2
    have hja : j < (Col.opt m a.col).view.length := by
      show j < a.col.view.length; rw [show a.col.view = f.col.view from v]; exact hj2
    have e1 := Col.less_agrees o (c := .opt m a.col) ia sc hia hja
    have e2 := Col.less_agrees o (c := .opt m f.col) i2 sc hi2 hj2
    have ev : ∀ k, (Col.opt m a.col).val k = (Col.opt m f.col).val k := by
      intro k
      show (a.col.view[k]?).bind (·.2) = (f.col.view[k]?).bind (·.2)
      rw [show a.col.view = f.col.view from v]
    rw [ev i, ev j] at e1
    exact Bool.eq_iff_iff.mpr (e1.trans e2.symm)

/-- hypotheses satisfiable, and the state after `Reset` really differs from a fresh one: a `Swap`
    followed by `Reset` leaves `reordered` set, a sorted and paged generation leaves `sortIndex` -/
example :
    let hist : List (BOp Int) := [.write (.vals [3, 1]), .write (.nulls 0 1), .write (.vals [2]), .swap 0 3, .page [], .swap 0 1]
    (∀ op ∈ hist, op.WF 1) ∧
    ((OptBuf.fresh.run 1 hist).reset : OptBuf Int) ≠ OptBuf.fresh ∧
    ((OptBuf.fresh.run 1 hist).reset : OptBuf Int).col.reordered = true ∧
    ((OptBuf.fresh.run 1 hist).reset : OptBuf Int).sortIdx = [0, 1, 2] ∧
    (((OptBuf.fresh.run 1 hist).reset.run 1 [.write (.vals [7, 5]), .write (.nulls 0 1)] : OptBuf Int).pageOut 1 [9, 9] = ([7, 5], [1, 1, 0])) := by
  refine ⟨?_, by decide, by decide, by decide, by decide⟩
  intro op hop
  simp only [List.mem_cons, List.not_mem_nil, or_false] at hop
  rcases hop with rfl | rfl | rfl | rfl | rfl | rfl <;> simp [BOp.WF]

/-- `Size()` under the invariant: a function of the rows held PLUS four bytes per element of the
    scratch index, whatever generation it stems from -/
theorem opt_size_spec {V : Type} {m : Nat} {b : OptBuf V} (h : b.col.Inv m) (w : Nat) :
    b.size w = 5 * b.col.view.length + w * (cellVals b.col.view).length + 4 * b.sortIdx.length := by
  have hmem : ∀ k ∈ nn b.col.rows, k < b.col.base.length := fun k hk => List.mem_range.mp (h.perm.mem_iff.mp hk)
  obtain ⟨_, c⟩ := view_vals_levels (m := m) b.col.rows b.col.defs b.col.base h.len hmem
  have h1 : (cellVals b.col.view).length = b.col.base.length := by
    have h0 : ((cellVals b.col.view).map some).length = ((nn b.col.rows).map (fun (k : Nat) => b.col.base[k]?)).length :=
      congrArg List.length c
    rw [List.length_map, List.length_map] at h0
    have h2 := h.perm.length_eq
    rw [List.length_range] at h2
    omega
  have h3 := OptCol.length_view h
  have h4 := h.len
  unfold OptBuf.size
  rw [h1, h3]
  omega

/-- `Size()` right after `Reset` is four bytes per element of the index the last sorted page left;
    a fresh buffer's is 0 -/
theorem opt_size_after_reset {V : Type} (b : OptBuf V) (w : Nat) :
    b.reset.size w = 4 * b.sortIdx.length ∧ (OptBuf.fresh : OptBuf V).size w = 0 := by
  simp [OptBuf.size, OptBuf.reset, OptBuf.fresh, OptCol.empty]

/-- FINDING (the mirror follows the code; the property "every observation after Reset equals a fresh
    buffer's" is false of `Size()`): three rows, one `Swap`, `Page()`, `Reset` — an empty buffer
    reporting 8 bytes, and 8 bytes more than a fresh buffer after the same later writes -/
theorem opt_size_reset_differs :
    let hist : List (BOp Int) := [.write (.vals [3, 1]), .write (.nulls 0 1), .swap 0 1, .page []]
    let next : List (BOp Int) := [.write (.vals [7])]
    ((OptBuf.fresh.run 1 hist).reset : OptBuf Int).size 8 = 8 ∧
    ((OptBuf.fresh.run 1 hist).reset.run 1 next : OptBuf Int).size 8 = 21 ∧
    ((OptBuf.fresh.run 1 next : OptBuf Int)).size 8 = 13 := by decide

/-- with the scratch state cleared by `Reset` (`resetFull`) the whole state, hence `Size()` too, is a
    fresh buffer's (the proposed repair: `col.sortIndex.Resize(0)` in `Reset`, or not counting the
    scratch index in `Size()`) -/
theorem opt_resetFull_state {V : Type} (b : OptBuf V) : b.resetFull = OptBuf.fresh := rfl

/-! ## repeated column buffer -/

theorem rep_refines {V : Type} (m : Nat) (ops : List (ROp V)) (hw : ∀ op ∈ ops, op.WF m) :
    ((RepBuf.fresh : RepBuf V).run m ops).BInv m ∧
    ((RepBuf.fresh : RepBuf V).run m ops).col.view m = rabsRun [] ops :=
  RepBuf.run_refines ops _ (RepBuf.fresh_inv m) hw

theorem key_view {V : Type} (m : Nat) (c : RepCol V) (k : Nat) :
    c.key m k = ((c.view m)[k]?.getD []).map (fun x => x.2.2) := by
  unfold RepCol.key RepCol.view
  rw [List.getElem?_map]
  cases c.rows[k]? <;> rfl

/-- C17 for the repeated column buffer: after `Reset`, for every earlier and every later history,
    the rows held, `Len()`, the page handed out (base values and level arrays, whether or not the
    rewrite into the spare buffer runs) and every `Less(i, j)` equal a fresh buffer's -/
theorem rep_reset_equiv {V : Type} (o : VOrd V) (sc : SortCol) (m : Nat) (b : RepBuf V) (next : List (ROp V))
    (hn : ∀ op ∈ next, op.WF m) :
    let a := (b.reset.run m next : RepBuf V)
    let f := (RepBuf.fresh.run m next : RepBuf V)
    a.col.view m = f.col.view m ∧ a.len = f.len ∧ a.pageOut m = f.pageOut m ∧
    ∀ i j, i < f.len → j < f.len →
      a.col.less o.lt sc.desc sc.nullsFirst m i j = f.col.less o.lt sc.desc sc.nullsFirst m i j := by
  intro a f
  obtain ⟨ia, va⟩ := RepBuf.run_refines next _ (b.reset_inv m).1 hn
  obtain ⟨i2, v2⟩ := rep_refines m next hn
  have v : a.col.view m = f.col.view m := by
    show (b.reset.run m next).col.view m = (RepBuf.fresh.run m next).col.view m
    rw [va, v2, (b.reset_inv m).2]
  have hl : a.len = f.len := by
    have := congrArg List.length v
    simpa [RepCol.view, RepBuf.len] using this
  refine ⟨v, hl, ?_, ?_⟩
  · rw [RepBuf.pageOut_spec ia, RepBuf.pageOut_spec i2]
    show (_, _) = (_, _)
    rw [show RepCol.view m (b.reset.run m next).col = RepCol.view m (RepBuf.fresh.run m next).col from v]
  · intro i j hi hj
    have e1 := RepCol.less_agrees o sc (c := a.col) ia.1 (i := i) (j := j) (by rw [← hl] at hi; exact hi) (by rw [← hl] at hj; exact hj)
    have e2 := RepCol.less_agrees o sc (c := f.col) i2.1 (i := i) (j := j) hi hj
    rw [key_view, key_view, v, ← key_view, ← key_view] at e1
    exact Bool.eq_iff_iff.mpr (e1.trans e2.symm)

/-- hypotheses satisfiable; the state after `Reset` differs from a fresh one (stale `reordered`, a
    spare buffer full of the previous generation) and the page is a fresh buffer's all the same -/
example :
    let hist : List (ROp Int) := [.write [(0, 1, some 3), (1, 1, some 4)], .write [(0, 0, none)], .swap 0 1, .page, .swap 0 1]
    let next : List (ROp Int) := [.write [(0, 1, some 7)], .write [(0, 0, none), (1, 1, some 8)]]
    (∀ op ∈ hist, op.WF 1) ∧ (∀ op ∈ next, op.WF 1) ∧
    ((RepBuf.fresh.run 1 hist).reset : RepBuf Int).col.reordered = true ∧
    ((RepBuf.fresh.run 1 hist).reset : RepBuf Int).spare ≠ none ∧
    ((RepBuf.fresh.run 1 hist).reset.run 1 next : RepBuf Int).pageOut 1 = ([7, 8], [(0, 1), (0, 0), (1, 1)]) := by
  refine ⟨?_, ?_, by decide, by decide, by decide⟩
  · intro op hop
    simp only [List.mem_cons, List.not_mem_nil, or_false] at hop
    rcases hop with rfl | rfl | rfl | rfl | rfl <;> simp [ROp.WF, RowWF]
  · intro op hop
    simp only [List.mem_cons, List.not_mem_nil, or_false] at hop
    rcases hop with rfl | rfl <;> simp [ROp.WF, RowWF]

/-- `Size()` of the repeated buffer reads no scratch state: after `Reset` and every later history it
    is a fresh buffer's (`RepBuf.size_spec`: a function of the rows held, through the coverage
    invariant `RepBuf.Cov` kept by every call) -/
theorem rep_reset_size {V : Type} (m : Nat) (b : RepBuf V) (next : List (ROp V)) (hn : ∀ op ∈ next, op.WF m) (w : Nat) :
    (b.reset.run m next).size w = ((RepBuf.fresh : RepBuf V).run m next).size w := by
  have ca := RepBuf.run_cov next _ (b.reset_inv m).1 (b.reset_cov m) hn
  have cf := RepBuf.run_cov next _ (RepBuf.fresh_inv m) (RepBuf.fresh_cov m) hn
  obtain ⟨_, va⟩ := RepBuf.run_refines next _ (b.reset_inv m).1 hn
  obtain ⟨_, vf⟩ := RepBuf.run_refines next _ (RepBuf.fresh_inv (V := V) m) hn
  rw [RepBuf.size_spec ca, RepBuf.size_spec cf, va, vf, (b.reset_inv m).2]
  rfl

example : ((RepBuf.fresh.run 1 [.write [(0, 1, some 3), (1, 1, some 4)], .write [(0, 0, none)], .swap 0 1, .page] : RepBuf Int).reset.run 1
    [.write [(0, 1, some 7)]]).size 8 = 18 := by decide

end PqModel.ResetBuf
