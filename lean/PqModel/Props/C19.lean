import PqModel.VariantLemmas
import PqModel.VariantShredLemmas
import PqModel.VariantLevelsLemmas
import PqModel.VariantCursor

/-!
# C19 — variant values survive encoding

`encode`/`encodeMeta`/`metaOf` are the MIRROR of `variant/encoding.go` + `variant/metadata.go`;
`decode`/`decodeMeta` are the SPEC decoders (PqModel/Variant.lean). `canon` is the key-sorted normal
form: the Go `Value.Equal` ("object fields compared without regard to order") is equality of `canon`.

Hypotheses: `wf v` (strings and keys are valid UTF-8, the keys of one object are pairwise distinct —
exactly what the format demands) and the 32-bit size limit of the format (offsets are at most four
bytes), stated on the encoder's own output length.
-/
namespace PqModel.Variant

/-- a value used to show the hypotheses are satisfiable: unsorted keys, a repeated key in a nested
    object, an empty key, nested containers, a two-byte UTF-8 string, every width of integer. -/
def exampleValue : Value :=
  .obj [([0x7a], .prim (.int8 0xFD#8)),
        ([0x61], .arr [.prim (.string [0xc3, 0xa9]), .prim .null, .prim (.bool true),
                       .prim (.double 0x3ff0000000000000#64), .arr [], .obj []]),
        ([], .obj [([0x7a], .prim (.dec4 2 0xFFFFFFFB#32)), ([0x62], .prim (.uuid 0x000102030405060708090a0b0c0d0e0f#128))]),
        ([0x6d], .prim (.binary [0, 255]))]

/-- Layer 1: every primitive kind (21 type ids + short strings), any dictionary. -/
theorem decode_encode_prim (d : Dict) (p : Prim) (hw : wfPrim p = true) (hs : primSizeOk p) :
    decode d (encode d (.prim p)) = .ok (.prim p) := by
  have := decodeF_prim (encPrim p).length d p [] hw hs
  simpa [decode, encode, enc] using this

example : wfPrim (.string [0xc3, 0xa9]) = true ∧ primSizeOk (.string [0xc3, 0xa9]) :=
  ⟨by decide, by simp [primSizeOk]⟩

/-- Full strength, any dictionary `d` that interns the keys of `v` (`wfV d v`): arbitrarily nested
    objects and arrays, any widths. The decoder returns the key-sorted normal form of `v`. -/
theorem decode_encode_dict (d : Dict) (hd : d.length ≤ 2 ^ 32) (v : Value) (hwf : wfV d v = true)
    (hlen : (encode d v).length < 2 ^ 32) : decode d (encode d v) = .ok (canon v) := by
  have := decode_enc_append d hd v [] hwf hlen
  simpa [decode, encode] using this

example : wfV [[0x61], [0x62], [], [0x6d], [0x7a]] exampleValue = true := by decide

/-- **C19 (codec).** With the dictionary the encoder itself builds (`metaOf v`, the `Add` calls in
    depth-first field order): `decode (metaOf v) (encode (metaOf v) v) = .ok (canon v)`, i.e. the
    value written, up to object field order. -/
theorem decode_encode (v : Value) (hwf : wf v = true)
    (hlen : (encode (metaOf v) v).length < 2 ^ 32) :
    decode (metaOf v) (encode (metaOf v) v) = .ok (canon v) := by
  have hd : (metaOf v).length ≤ 2 ^ 32 := by
    have h1 := length_collect v []
    have h2 := numFields_le_enc (metaOf v) v
    simp only [List.length_nil, Nat.zero_add] at h1
    simp only [encode] at hlen
    unfold metaOf at *
    omega
  apply decode_encode_dict _ hd v _ hlen
  apply wfV_of_wf _ v hwf
  intro k hk
  exact (mem_collect k v []).mpr (Or.inr hk)

example : wf exampleValue = true := by decide
example : (encode (metaOf exampleValue) exampleValue).length < 2 ^ 32 := by decide

/-- Values are self-delimiting: bytes after the value do not change what is decoded (this is what
    lets object fields be decoded from their start offset only). -/
theorem decode_encode_self_delimiting (v : Value) (rest : Bytes) (hwf : wf v = true)
    (hlen : (encode (metaOf v) v).length < 2 ^ 32) :
    decode (metaOf v) (encode (metaOf v) v ++ rest) = .ok (canon v) := by
  have hd : (metaOf v).length ≤ 2 ^ 32 := by
    have h1 := length_collect v []
    have h2 := numFields_le_enc (metaOf v) v
    simp only [List.length_nil, Nat.zero_add] at h1
    simp only [encode] at hlen
    unfold metaOf at *
    omega
  have hw : wfV (metaOf v) v = true :=
    wfV_of_wf _ v hwf (fun k hk => (mem_collect k v []).mpr (Or.inr hk))
  exact decode_enc_append (metaOf v) hd v rest hw hlen

/-- The metadata dictionary survives its own encoding, with the sorted_strings flag. -/
theorem decodeMeta_encodeMeta (v : Value) (hwf : wf v = true)
    (hlen : (encodeMeta (metaOf v)).length < 2 ^ 32) :
    decodeMeta (encodeMeta (metaOf v)) = .ok ⟨metaOf v, sortedFlag (metaOf v)⟩ := by
  have hl := encodeMeta_length (metaOf v)
  apply decodeMeta_encodeMeta' (metaOf v) _ (by omega) (by omega)
  intro k hk
  have := (mem_collect k v []).mp hk
  simp only [List.not_mem_nil, false_or] at this
  exact utf8_allKeys v hwf k this

example : (encodeMeta (metaOf exampleValue)).length < 2 ^ 32 := by decide

/-- The literal one-pass transliteration of the Go encoder (dictionary threaded through the
    traversal, ids as returned by `Add`) produces exactly the dictionary `metaOf v` and the bytes
    `encode (metaOf v) v` the theorems above are about. -/
theorem encode_one_pass (v : Value) : encSt [] v = (metaOf v, encode (metaOf v) v) :=
  encSt_eq v [] (metaOf v) (List.prefix_refl _)

/-- **C19 (codec), on bytes.** Decoding the two byte strings the encoder emits gives back the value. -/
theorem decode_encode_bytes (v : Value) (hwf : wf v = true)
    (hlen : (encode (metaOf v) v).length < 2 ^ 32)
    (hmeta : (encodeMeta (metaOf v)).length < 2 ^ 32) :
    ∃ m, decodeMeta (encodeMeta (metaOf v)) = .ok m ∧
      decode m.strings (encode (metaOf v) v) = .ok (canon v) :=
  ⟨_, decodeMeta_encodeMeta v hwf hmeta, decode_encode v hwf hlen⟩

/-! ### two limits of the Go implementation, with witnesses (reported as findings) -/

/-- The format (and the spec decoder) keeps all 32 bits of a float, but `variant.Value` cannot
    hold a signalling float32 NaN: the image of `0x7f800001` under the Go representation is
    `0x7fc00001`. Bytes with such a payload change under Go's Decode → Encode. -/
theorem float32_snan_witness :
    decode [] (encode [] (.prim (.float 0x7f800001#32))) = .ok (.prim (.float 0x7f800001#32)) ∧
    goFloat32Image 0x7f800001#32 = 0x7fc00001#32 ∧ goFloat32Image 0x7f800001#32 ≠ 0x7f800001#32 :=
  ⟨decode_encode_prim [] _ rfl trivial, by decide, by decide⟩

/-- Object field values are located by their start offset only, so an encoding may let fields share
    bytes; the decoders accept it (here both fields of `{a, b}` are the one null byte). Nesting such
    objects makes the number of decoded values exponential in the input size. -/
theorem overlapping_fields_accepted :
    decode [[0x61], [0x62]] [0x02, 2, 0, 1, 0, 0, 1, 0x00] =
      .ok (.obj [([0x61], .prim .null), ([0x62], .prim .null)]) := by
  rfl

/-- `canon` is a normal form (idempotent), so "equal up to field order" (`canon v = canon w`) is an
    equivalence and `decode ∘ encode` lands in the class of `v`. -/
theorem canon_idem (v : Value) : canon (canon v) = canon v := canon_idem' v

/-- `canon` only reorders fields: the fields of the normal form of an object are a permutation of
    the (recursively normalised) fields. -/
theorem canon_obj_perm (fs : List (Key × Value)) :
    ∃ gs, canon (.obj fs) = .obj gs ∧ gs.Perm (fs.map canonField) := by
  refine ⟨isort (·.1) (fs.map canonField), ?_, isort_perm _ _⟩
  simp [canon, canonFields_eq]

/-- two objects with the same fields in a different order have the same normal form -/
theorem canon_obj_of_perm (fs gs : List (Key × Value)) (hp : fs.Perm gs) (hnd : (keysOf fs).Nodup) :
    canon (.obj fs) = canon (.obj gs) := by
  simp only [canon, canonFields_eq]
  congr 1
  apply isort_eq_of_perm _ _ _ (hp.map _)
  simpa [keysOf, List.map_map, canonField, Function.comp_def] using hnd


/-! ## shredding (logical model: one `(value, typed_value)` slot per variant group occurrence;
    `shred`/`unshred` MIRROR `variant_shredded_write.go` / `variant_shredded_read.go`) -/

/-- **C19 (shredding).** For every shredding schema — no typed_value, a primitive column of any
    type, lists, fully or partially shredded objects, nested to any depth — and every value,
    reconstructing what the writer shredded gives the value written, up to object field order:
    type mismatches fall back to `value`, partially shredded objects are reassembled from the
    typed fields and the residual object, missing fields are omitted. -/
theorem unshred_shred (s : Schema) (v : Value) (hs : wfS s = true) (hv : distinctKeys v = true) :
    ∃ r, unshred s (shred s v) = some r ∧ canon r = canon v := by
  obtain ⟨r, hr, hc⟩ := shredOK s hs v hv
  exact ⟨r, by simp [unshred, hr, RRes.orNull], hc⟩

/-- Typed columns: a primitive is written to `typed_value` exactly when `variantToParquetValue`
    matches (`toCol … = some c`, `toCol_isSome`), and the parquet leaf value written (int8/int16
    widened to INT32, decimal16 byte-reversed, uuid as 16 bytes, scale taken from the column type)
    is converted back by `parquetToVariantValue` to the same primitive. -/
theorem ofCol_toCol (t : PType) (p : Prim) (c : ColVal) (h : toCol t p = some c) :
    ofCol t c = some p := ofCol_toCol' t p c h

example : toCol (.dec16 38 2) (.dec16 2 (BitVec.ofInt 128 (-12345))) ≠ none := by decide
example : toCol .int8 (.int8 0x80#8) = some (.i32 0xFFFFFF80#32) := by decide

/-- **C19 (foreign typed_value encodings).** A DECIMAL typed_value leaf written by another writer
    is a big-endian two's complement integer of ANY length `1 ≤ n ≤ 16` (minimal-length BYTE_ARRAY,
    sign-padded BYTE_ARRAY, FIXED_LEN_BYTE_ARRAY(n)); `m` is its `n`-byte two's complement image.
    The mirror of `parquetToVariantValue` / `bigEndianToLittleEndian16` reads it as the decimal16
    holding the same integer: `m` itself when the sign bit (top bit of the FIRST byte) is clear,
    `m - 256^n + 2^128` when it is set. -/
theorem ofCol_decimal_any_length (p s n m : Nat) (hn1 : 1 ≤ n) (hn : n ≤ 16) (hm : m < 256 ^ n) :
    ofCol (.dec16 p s) (.bytes (beN n m)) =
      some (.dec16 (UInt8.ofNat s) (BitVec.ofNat 128
        (if m < 128 * 256 ^ (n - 1) then m else m + (256 ^ 16 - 256 ^ n)))) := by
  have hl : (beN n m).length ≤ 16 := by simp [beN]; exact hn
  simp only [ofCol, hl, if_true, be16ToNat_short n m hn1 hn hm]

example : ofCol (.dec16 20 2) (.bytes [0x00, 0xFF]) = some (.dec16 2 255#128) := by decide
example : ofCol (.dec16 20 2) (.bytes [0xCF, 0x00]) = some (.dec16 2 (BitVec.ofInt 128 (-12544))) := by
  decide
example : (1 : Nat) ≤ 2 ∧ 2 ≤ 16 ∧ 0xCF00 < 256 ^ 2 := by decide

/-- a partially shredding schema: `a` as int8, `z` as a list of strings, `q` untyped, while the
    example value also has the fields `` and `m` (residual) and a `z` of another type. -/
def exampleSchema : Schema :=
  .obj [([0x61], .list (.prim .string)), ([0x71], .untyped), ([0x7a], .prim .int8),
        ([], .obj [([0x62], .prim .uuid), ([0x63], .prim .bool)])]

example : wfS exampleSchema = true := by decide
example : distinctKeys exampleValue = true := by decide

/-! ## Dremel levels of one shredded group occurrence (`emit` MIRRORS the level arithmetic of
    `variant_shredded_write.go`, `readG` MIRRORS `variant_shredded_read.go` on column cursors;
    `g`/`r` = definition level / repetition depth of the variant group in the enclosing schema, i.e.
    its optional and repeated ancestors; `rep` = repetition level of the occurrence's first cell) -/

/-- **C19 (levels).** Whatever slot a conforming writer chose (`slotFits`: shape only — this covers
    foreign writers, e.g. matching primitives left in `value`, missing list elements), at any
    definition level / repetition depth of the enclosing schema, and whatever follows the occurrence
    in the column streams (`rest`, starting at a repetition level of at most `r`: the next occurrence
    below the same repeated ancestors, the next row): the level-driven reader consumes exactly the
    cells of the occurrence and returns what the slot-level reader `unshredR` returns. -/
theorem read_emit (s : Schema) (hs : lvOK s = true) (sl : Slot) (hf : slotFits s sl = true)
    (g r rep : Nat) (rest : List Col) (hl : rest.length = numLeaves s) (hcap : capped r rest) :
    readG s g r (zipApp (emit s g r rep sl) rest) = expect (unshredR s sl) rest :=
  readG_emit s hs sl g r rep rest hf hl hcap

/-- **C19 (shredding, on column streams).** Reading the cells the writer emitted for `shred s v`,
    below any optional / repeated ancestors, gives the value written up to field order and leaves
    the cursors at the next occurrence. -/
theorem read_emit_shred (s : Schema) (hs : wfS s = true) (hlv : lvOK s = true) (v : Value)
    (hv : distinctKeys v = true) (g r rep : Nat) (rest : List Col)
    (hl : rest.length = numLeaves s) (hcap : capped r rest) :
    ∃ x, readG s g r (zipApp (emit s g r rep (shred s v)) rest) = some (.val x, rest) ∧
      canon x = canon v := by
  obtain ⟨x, hx, hc⟩ := shredOK s hs v hv
  refine ⟨x, ?_, hc⟩
  rw [read_emit s hlv _ (fits_shred s v) g r rep rest hl hcap, hx]
  rfl

/-- A run of occurrences (the elements of a repeated ancestor, successive rows), each starting at a
    repetition level of at most `r`: `n` calls of the reader return the `n` occurrences in order and
    exhaust the streams — the occurrences are told apart by the levels alone. -/
theorem readAll_emitAll (s : Schema) (hs : lvOK s = true) (g r : Nat) (occs : List (Nat × Slot))
    (h : ∀ o ∈ occs, slotFits s o.2 = true ∧ o.1 ≤ r ∧ unshredR s o.2 ≠ .err) :
    readAll s g r occs.length (emitAll s g r occs) =
      some (occs.map (fun o => unshredR s o.2), List.replicate (numLeaves s) []) :=
  readAll_emitAll' s hs g r occs h

example : lvOK exampleSchema = true := by decide
example : slotFits exampleSchema (shred exampleSchema exampleValue) = true := fits_shred _ _
example : capped 1 (emit (.list (.prim .int8)) 1 1 1 (shred (.list (.prim .int8)) (.arr []))) :=
  capped_of_heads (emit_heads _ _ _ _ _ (fits_shred _ _))

/-- the levels of `[1, "x"]` shredded as a list of int8 below one repeated ancestor (`g = r = 1`),
    second occurrence of its row (`rep = 1`): the second element repeats at level 2, not 1 (seeded
    change C19-3a), and the string falls back to the element's `value` column. -/
example : emit (.list (.prim .int8)) 1 1 1
      (shred (.list (.prim .int8)) (.arr [.prim (.int8 1#8), .prim (.string [0x78])])) =
    [[⟨1, 1, .null⟩],
     [⟨3, 1, .null⟩, ⟨4, 2, .val (.prim (.string [0x78]))⟩],
     [⟨4, 1, .typ (.int8 1#8)⟩, ⟨3, 2, .null⟩]] := by
  simp [emit, shred, shredList, emitList, matchesP, zipApp, valueCell, numLeaves]

/-! ## Typed read by path (the columnar `VariantReader`): `fieldCur`/`elemsCur`/`own` MIRROR the
    per-entry logic of `variant_column_reader.go` on logical slots; `navSpec` is the SPEC of a path
    (`$.k`: the field of an object, `[*]`: the elements of an array) on the values written. -/

/-- **C19 (typed read, any path).** Rows `vs` shredded through any well-formed schema `s`: along ANY
    path of `Field` / `Elements` steps — names of the shredding schema or not, through typed
    objects, typed lists, whole residual values and the leftovers of partially shredded objects —
    the window of the cursor has one entry per entry of the path on the values written, and each
    entry stands for the value written there (`Shows`: missing exactly where the path is missing). -/
theorem cursor_path_shred (s : Schema) (hs : wfS s = true) (vs : List Value)
    (hv : ∀ v ∈ vs, distinctKeys v = true) (path : List Step) :
    All2 Shows (navPathCur path (rootWindow s vs)) (navPathSpec path (vs.map some)) :=
  shows_path path (shows_rootWindow s hs vs hv)

/-- What `Shows` gives the caller: a missing path is tagged missing; a present one is rebuilt from
    the entry (typed objects / lists through the row reader's reconstruction of that slot) as the
    value written, up to object field order. -/
theorem cursor_shows_value {c : Cur} {o : Option Value} (h : Shows c o) :
    match o with
    | none => matCur c = .missing
    | some v => ∃ r, matCur c = .val r ∧ canon r = canon v := by
  cases h with
  | missing => rfl
  | value v => exact ⟨v, matCur_ofValue v, rfl⟩
  | shredded m s v hs hv =>
    obtain ⟨r, hr, hc⟩ := shredOK s hs v hv
    exact ⟨r, by rw [matCur_own_shred, hr], hc⟩

/-- The shortcut of `processVirtualField` ("no residual state in the parent window: every entry is
    missing") is sound because residual STATE counts the leftovers of partially shredded objects as
    well as whole residual values (`hasRes`; seeded change C19-4b counted the entries tagged
    LocResidual only). -/
theorem cursor_virtual_window_shortcut (k : Key) (ps : List Cur)
    (hk : ∀ p ∈ ps, ∀ fields tfs lo, p = .typedObj fields tfs lo → lookupField k fields tfs = none) :
    virtualFieldWindow k ps = ps.map (fieldCur k) :=
  virtualFieldWindow_eq k ps hk

/-- `m` (0x6d) is not in `exampleSchema`: it is found in the leftover of the partially shredded
    object;
    `z` is shredded as int8 and written as one; a name that occurs nowhere is missing. -/
example : navPathCur [.field [0x6d]] (rootWindow exampleSchema [exampleValue]) =
    [.resid (.prim (.binary [0, 255]))] := by
  simp [navPathCur, navCur, rootWindow, exampleSchema, exampleValue, shred, shredFields, own, fieldCur,
    lookupField, findField, schemaNames, navValue, ofValue]
example : navPathCur [.field [0x7a]] (rootWindow exampleSchema [exampleValue]) =
    [.typedPrim (.int8 0xFD#8)] := by
  simp [navPathCur, navCur, rootWindow, exampleSchema, exampleValue, shred, shredFields, own, fieldCur,
    lookupField, findField, schemaNames, matchesP]
example : navPathCur [.field [0x01]] (rootWindow exampleSchema [exampleValue]) = [.missing] := by
  simp [navPathCur, navCur, rootWindow, exampleSchema, exampleValue, shred, shredFields, own, fieldCur,
    lookupField, findField, schemaNames, navValue]
/-- with the count of LocResidual entries in place of the residual state the shortcut would answer
    `missing` for the field `m` of the example -/
example : (rootWindow exampleSchema [exampleValue]).all (fun p => !hasRes p) = false := by
  simp [rootWindow, exampleSchema, exampleValue, shred, shredFields, own, hasRes, schemaNames, findField]

end PqModel.Variant
