import PqModel.ThriftSkipWrite
import PqModel.FileMetaTrees
import PqModel.Props.C14Footer

/-! C14, truncated footers, closing the loop with the writer: the MIRROR of the decoder's structure
    walk (`PqModel.ThriftSkip`: `compactBytesReader` + `skipStruct` of encoding/thrift, the walk behind
    `OpenFile`'s footer decoding) accepts EVERY output of the MIRROR of the encoder
    (`PqModel.ThriftWrite.writeStruct`: `compactWriter` + `structEncoder.encode`) and ends exactly at
    its last byte. Hence the hypothesis "the walk accepts `ft` in full" of `C14Footer.walk_cut_rejected`
    / `cut_footer_rejected` holds of every footer the writer mirror can produce: such a footer cut
    anywhere is rejected with an end-of-input error. Lemmas in `PqModel/ThriftSkipWrite.lean`. -/
namespace PqModel.Props.C14FooterRT
open PqModel.IoFault PqModel.ThriftSkip PqModel.ThriftWrite PqModel.ThriftSkipWrite
open PqModel.Props.C14Footer

/-- **walk_accepts_writer.** For every well-formed tree (`WfF`: ints within their width, lengths
within int32, list elements of the announced type, written field ids ascending in 1..32767 - the
same hypothesis as C02's `read_write_struct`; any nesting depth, any size), the decoder's walk run
on the encoder's bytes followed by ANY bytes accepts and stops right behind the struct's stop byte.
Covers `binary.Uvarint`'s 10-byte overflow rule, the int16/int32/int64 and `ReadLength` range
checks, both field-header and both list-header forms, bool fields (no bytes) vs bool elements (one
byte), omitted zero fields; the model's own fuel is enough. -/
theorem walk_accepts_writer (fs : List (FMeta × WVal)) (rest : List UInt8) (hw : WfF 0 fs = true) :
    skipStruct (writeStruct fs ++ rest) = .ok (writeStruct fs).length :=
  skipStruct_writeStruct fs rest hw

/-- the footer section holds the struct and nothing else: accepted at its full length -/
theorem walk_accepts_writer_exact (fs : List (FMeta × WVal)) (hw : WfF 0 fs = true) :
    skipStruct (writeStruct fs) = .ok (writeStruct fs).length := by
  have := walk_accepts_writer fs [] hw
  rwa [List.append_nil] at this

/-- **walk_accepts_writer_at.** The same anywhere inside a buffer (a struct that is not at offset 0:
page headers, index structs): from some fuel on, the walk started at the first byte of the encoding
ends right behind it. -/
theorem walk_accepts_writer_at (fs : List (FMeta × WVal)) (pre rest : List UInt8) (hw : WfF 0 fs = true) :
    ∃ f, ∀ f', f ≤ f' → skipT (pre ++ (writeStruct fs ++ rest)) f' (.fields true) pre.length =
      .ok ((), pre.length + (writeStruct fs).length) := by
  obtain ⟨f, hf⟩ := fields_writeStruct fs pre rest hw
  exact ⟨f, fun f' h => Acc.at hf h⟩

/-- a value in field position (any type code the encoder emits) -/
theorem walk_accepts_value (v : WVal) (pre rest : List UInt8) (hw : WfT v = true) :
    ∃ f, ∀ f', f ≤ f' → skipT (pre ++ (writeVal v ++ rest)) f' (.val (fcode v)) pre.length =
      .ok ((), pre.length + (writeVal v).length) := by
  obtain ⟨f, hf⟩ := val_write (pre ++ (writeVal v ++ rest)) v pre.length hw ⟨pre, rest, rfl, rfl⟩
  exact ⟨f, fun f' h => Acc.at hf h⟩

/-- **written_struct_cut_rejected.** Every footer the writer mirror can produce, cut anywhere before
its end, is rejected by the decoder's walk with `io.EOF` or `io.ErrUnexpectedEOF` (whatever followed
it); a cut at or after its end changes nothing. -/
theorem written_struct_cut_rejected (fs : List (FMeta × WVal)) (rest : List UInt8) (hw : WfF 0 fs = true) (m : Nat) :
    (m < (writeStruct fs).length →
      skipStruct ((writeStruct fs ++ rest).take m) = .error .eof ∨
      skipStruct ((writeStruct fs ++ rest).take m) = .error .ueof) ∧
    ((writeStruct fs).length ≤ m →
      skipStruct ((writeStruct fs ++ rest).take m) = .ok (writeStruct fs).length) :=
  ⟨fun hm => walk_cut_eof _ _ m (walk_accepts_writer fs rest hw) hm,
   fun hm => walk_cut_after _ _ m (walk_accepts_writer fs rest hw) hm⟩

/-- every strict prefix of an encoding is an error: `encoding_prefix_rejected` without its hypothesis -/
theorem written_prefix_rejected (fs : List (FMeta × WVal)) (hw : WfF 0 fs = true) (m : Nat)
    (hm : m < (writeStruct fs).length) :
    skipStruct ((writeStruct fs).take m) = .error .eof ∨ skipStruct ((writeStruct fs).take m) = .error .ueof :=
  walk_cut_eof _ _ m (walk_accepts_writer_exact fs hw) hm

/-- **written_file_opens.** A file `pre ‖ writeStruct fs ‖ le32(len) ‖ "PAR1"` passes the trailer
checks and the footer walk of the open path, which consumes the whole footer section. -/
theorem written_file_opens (enc : Bool) (pre : Bytes) (fs : List (FMeta × WVal)) (hw : WfF 0 fs = true)
    (hpre : 4 ≤ pre.length) (hmag : isMagic (pre.take 4) enc = true)
    (hlen : (writeStruct fs).length < 4294967296) :
    openWalk enc (fileWith pre (writeStruct fs)) = .ok (writeStruct fs).length := by
  unfold openWalk
  rw [openModel_fileWith enc pre _ hpre hmag hlen]
  simp [footerWalk, walk_accepts_writer_exact fs hw]

/-- **written_file_signed_opens.** The plaintext-footer mode of encrypted files: the struct followed by
a 28-byte signature (nonce + tag) is accepted when keys were given and refused without
("signed footer but no DecryptionConfig"); any other number of trailing bytes is refused. The walk
ends behind the struct whatever the trailing bytes are. -/
theorem written_file_trailing (enc : Bool) (pre sig : Bytes) (fs : List (FMeta × WVal)) (hw : WfF 0 fs = true)
    (hpre : 4 ≤ pre.length) (hmag : isMagic (pre.take 4) enc = true)
    (hlen : (writeStruct fs ++ sig).length < 4294967296) (hsig : sig ≠ []) :
    openWalk enc (fileWith pre (writeStruct fs ++ sig)) =
      if sig.length = 28 then (if enc then .ok (writeStruct fs).length else .error .signedNoKeys)
      else .error (.trailing sig.length) := by
  unfold openWalk
  rw [openModel_fileWith enc pre _ hpre hmag hlen]
  have h0 : sig.length ≠ 0 := by
    intro h; exact hsig (List.eq_nil_of_length_eq_zero h)
  simp only [footerWalk, walk_accepts_writer fs sig hw, List.length_append, Nat.add_sub_cancel_left]
  by_cases h28 : sig.length = 28 <;> simp [h0, h28]

/-- **written_file_cut_rejected.** The same file with its footer cut at any `k` and the announced
length patched to the cut: magic, length and bounds pass, the decoder rejects with an end-of-input
error. `cut_footer_rejected` for every footer of the writer mirror, no acceptance hypothesis left. -/
theorem written_file_cut_rejected (enc : Bool) (pre : Bytes) (fs : List (FMeta × WVal)) (hw : WfF 0 fs = true)
    (hpre : 4 ≤ pre.length) (hmag : isMagic (pre.take 4) enc = true)
    (hlen : (writeStruct fs).length < 4294967296) (k : Nat) (hk : k < (writeStruct fs).length) :
    openWalk enc (fileWith pre ((writeStruct fs).take k)) = .error (.thrift .eof) ∨
      openWalk enc (fileWith pre ((writeStruct fs).take k)) = .error (.thrift .ueof) :=
  cut_footer_rejected enc pre _ hpre hmag hlen (walk_accepts_writer_exact fs hw) k hk

/-- **walk_agrees_with_spec_reader.** On the encoder's bytes the decoder mirror (walk) and the SPEC
reader of C02 (`Spec.readStruct`, written from the protocol text) consume the same number of bytes. -/
theorem walk_agrees_with_spec_reader (fs : List (FMeta × WVal)) (rest : List UInt8) (hw : WfF 0 fs = true) :
    skipStruct (writeStruct fs ++ rest) = .ok (writeStruct fs).length ∧
    PqModel.Spec.readStruct ⟨(writeStruct fs ++ rest).toArray⟩ 0 =
      .ok (.struct (eraseF fs), (writeStruct fs).length) := by
  refine ⟨walk_accepts_writer fs rest hw, ?_⟩
  have := readStruct_writeStruct fs [] rest hw
  simpa using this

/-- **file_metadata_cut_rejected.** The instance the property is about: the `format.FileMetaData`
tree of the unencrypted writer (`FileMetaTrees.footerFields`: version, schema, num_rows, row groups,
key/value metadata, created_by, column orders - any subtrees) is accepted in full and rejected at
every cut. -/
theorem file_metadata_cut_rejected (version : Int) (schema : List WVal) (numRows : Int) (rowGroups : List WVal)
    (kvs : List (List UInt8 × List UInt8)) (kvZero : Bool) (createdBy : List UInt8)
    (orders : List WVal) (ordersZero : Bool)
    (hw : WfF 0 (PqModel.FileMetaTrees.footerFields version schema numRows rowGroups kvs kvZero createdBy orders ordersZero) = true) :
    let ft := writeStruct (PqModel.FileMetaTrees.footerFields version schema numRows rowGroups kvs kvZero createdBy orders ordersZero)
    skipStruct ft = .ok ft.length ∧
      ∀ m, m < ft.length → skipStruct (ft.take m) = .error .eof ∨ skipStruct (ft.take m) = .error .ueof :=
  ⟨walk_accepts_writer_exact _ hw, fun m hm => written_prefix_rejected _ hw m hm⟩

/-! ## the hypotheses are satisfiable, the statements are not vacuous, `WfF` is needed -/

/-- a tree with every constructor: both header forms (ids 1, 2, 20, 300), a short and a long list,
bool field and bool elements, an omitted zero field, a nested struct -/
def sampleTree : List (FMeta × WVal) :=
  [({id := 1, required := true}, .i32 (-5)), ({id := 2, zero := true}, .i64 0), ({id := 3}, .bool true),
   ({id := 4}, .i8 (-1)), ({id := 20}, .list 2 [.bool true, .bool false]),
   ({id := 21}, .list 4 (List.replicate 15 (.i16 (-32768)))), ({id := 22}, .double 0x7FF8000000000001),
   ({id := 300}, .struct [({id := 16}, .bin [1, 2, 3]), ({id := 17, writezero := true, zero := true}, .bin [])]),
   ({id := 32767}, .i64 9223372036854775807)]

example : WfF 0 sampleTree = true := by decide
example : skipStruct (writeStruct sampleTree ++ [0xFF, 0xFF]) = .ok (writeStruct sampleTree).length := by decide
example : (writeStruct sampleTree).length = 94 := by decide
example : ([0, 1, 2, 9, 10, 11, 12, 13, 57, 58, 66, 67, 80, 83, 84, 92, 93].all fun m =>
    (skipStruct ((writeStruct sampleTree).take m)).toBool == false) = true := by decide
example : WfF 0 (PqModel.FileMetaTrees.footerFields 2 [.struct []] 7 [] [([0x61], []), ([], [0xFF, 0])] false [0x78] [] true) = true := by
  decide
example : openWalk false (fileWith magicPAR1 (writeStruct sampleTree)) = .ok 94 := by decide
example : openWalk false (fileWith magicPAR1 ((writeStruct sampleTree).take 40)) = .error (.thrift .ueof) := by decide

/-- `WfF` is not decoration. An int outside its declared width (Go's typed ints exclude it): the
encoder mirror writes the varint, the decoder's range check refuses it. -/
example : WfF 0 [({id := 1, required := true}, .i16 40000)] = false ∧
    skipStruct (writeStruct [({id := 1, required := true}, .i16 40000)]) = .error .range := by decide
/-- field ids that do not ascend: delta 0 makes `WriteField` emit the byte `0x05`, which `ReadField`
reads as a long-form header - the walk runs off the end. -/
example : WfF 0 [({id := 1, required := true}, .i32 1), ({id := 1, required := true}, .i32 1)] = false ∧
    skipStruct (writeStruct [({id := 1, required := true}, .i32 1), ({id := 1, required := true}, .i32 1)]) =
      .error .ueof := by decide
/-- a list whose elements are not of the announced type: the walk ends elsewhere than the encoding -/
example : WfF 0 [({id := 1}, .list 3 [.i32 300])] = false ∧
    skipStruct (writeStruct [({id := 1}, .list 3 [.i32 300])]) ≠ .ok (writeStruct [({id := 1}, .list 3 [.i32 300])]).length := by
  decide

end PqModel.Props.C14FooterRT
