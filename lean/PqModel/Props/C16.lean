import PqModel.Pool

/-! # C16 — Values handed to the caller are not changed by later library activity (PARTIAL)

The theorems are about `PqModel.Pool`: the MIRROR of the ownership protocol of the refcounted
pooled page buffers (buffer.go, file.go FilePages, column_chunk.go columnChunkValueReader) plus ghost
ownership. They hold for ALL operation sequences (`Op`: any interleaving of page reads, seeks,
closes, Retain/Release/Slice by the application, value/row reads of any number of readers,
`Read[T]`-style copies, clones, and unrelated pool churn) and all nondeterministic choices (which
pooled buffer `get` returns, what is decoded into it, how many pages a call skips).

PARTIAL by design: Go's garbage collector and `sync.Pool` timing are replaced by the pool model
(any pooled buffer may be handed out at any later `get`, and putting a buffer poisons it — which the
verif build of the library really does, so that the harness observes the same thing). Aliasing
through `unsafe` casts outside the buffer pools, the async page reader, converted/variant pages and
the write path are not in the model (the write path is checked on the real code only). -/
namespace PqModel.Props.C16
open PqModel.Pool

/-- the state after any history of operations; `det r` says whether reader r detaches its values
    buffers (a row reader over a byte-array column does, row_group.go:218-226) -/
def reach (det : RdrId → Bool) (ops : List Op) : State := (State.init det).run ops

theorem reach_inv (det : RdrId → Bool) (ops : List Op) : Inv (reach det ops) :=
  run_inv ops (Inv_init det)

/-- **alias_safe.** After ANY history: no refcount panic happened (no unref below zero, no ref of a
    released buffer); every buffer has been put at most once since it was last got (no double
    free); a buffer is in the pool exactly when its refcount is zero; and every caller-visible slice
    that is within its documented lifetime points into a buffer that is NOT in the pool and that
    still holds exactly the bytes the caller saw. -/
theorem alias_safe (det : RdrId → Bool) (ops : List Op) :
    (reach det ops).heap.bug = none ∧
    (∀ b, ((reach det ops).heap.bufs b).puts ≤ 1) ∧
    (∀ b, ((reach det ops).heap.bufs b).inPool = true ↔ ((reach det ops).heap.bufs b).refc = 0) ∧
    (∀ a, a ∈ (reach det ops).aliases → a.live (reach det ops) →
      ((reach det ops).heap.bufs a.buf).inPool = false ∧
      1 ≤ ((reach det ops).heap.bufs a.buf).refc ∧
      ((reach det ops).heap.bufs a.buf).data = a.snap) := by
  have i := reach_inv det ops
  refine ⟨i.nobug, fun b => (i.hw.puts b).1, i.hw.pool, fun a ha hl => ?_⟩
  have hp := live_pos i.toInv0 ha hl
  exact ⟨notPool_of_pos i.hw hp, hp, i.data a ha hl⟩

example : (reach (fun _ => true) []).heap.bug = none := (alias_safe _ _).1

/-- **no later `get` can overwrite it.** Whatever buffer the pool hands out next (any `pick`), it is
    not one a live alias points into. -/
theorem get_never_returns_aliased (det : RdrId → Bool) (ops : List Op) (pick : BufId) (d : List UInt8)
    (a : Alias) (ha : a ∈ (reach det ops).aliases) (hl : a.live (reach det ops)) :
    ((reach det ops).heap.get pick d).2 ≠ a.buf := by
  have i := reach_inv det ops
  intro h
  have h0 := (get_spec i.hw pick d).2.2.2.1
  rw [h] at h0
  have := live_pos i.toInv0 ha hl
  omega

/-- what an operation must not be for the lifetime of alias `a` to continue: values read from a
    page live until the application itself releases that page; values returned by a plain value
    reader live until the next call on the same reader; rows of a row reader live forever -/
def outlives (a : Alias) (op : Op) : Prop :=
  match a.life with
  | .page q => op ≠ .release q
  | .call r _ => op.onReader r = false
  | .forever => True

theorem live_step {s : State} (i : Inv s) {a : Alias} (ha : a ∈ s.aliases) (hl : a.live s) (op : Op)
    (ho : outlives a op) : a ∈ (s.step op).aliases ∧ a.live (s.step op) := by
  have ok := i.ok a ha
  have hmem : ∀ {q r}, Stable q r s (s.step op) → a ∈ (s.step op).aliases := by
    intro q r st
    obtain ⟨l, hl⟩ := st.al
    rw [hl]; exact List.mem_append_right _ ha
  unfold outlives at ho
  unfold aliasOk at ok
  unfold Alias.live at hl ⊢
  cases hlife : a.life with
  | page q =>
    rw [hlife] at ho ok hl; simp only at ho ok hl ⊢
    have st := step_stable q (op.rdr + 1) s op ho (onReader_fresh op)
    exact ⟨hmem st, st.keep ok.1 hl⟩
  | call r g =>
    rw [hlife] at ho ok hl; simp only at ho ok hl ⊢
    have st := step_stable (op.pg + 1) r s op (release_fresh op) ho
    exact ⟨hmem st, by rw [st.gen]; exact hl⟩
  | forever =>
    have st := step_stable (op.pg + 1) (op.rdr + 1) s op (release_fresh op) (onReader_fresh op)
    exact ⟨hmem st, trivial⟩

/-- **the lifetime ends only by the caller's own calls.** From any reachable state, a live alias
    stays live, stays registered and keeps its bytes through ANY further operations (other readers
    and writers recycling the pools, reads, seeks and Close of any reader, ...) as long as the
    application does not itself end the lifetime: release the page the values were read from
    (`.page`), or call the same plain value reader again (`.call`; Read, Seek, Reset, Close). Rows returned by a row reader
    (`.forever`, this covers `ReadRows` results and their clones) are never invalidated. -/
theorem alias_unchanged (det : RdrId → Bool) (ops : List Op) (a : Alias)
    (ha : a ∈ (reach det ops).aliases) (hl : a.live (reach det ops)) (later : List Op)
    (ho : ∀ op, op ∈ later → outlives a op) :
    a ∈ (reach det (ops ++ later)).aliases ∧ a.live (reach det (ops ++ later)) ∧
    ((reach det (ops ++ later)).heap.bufs a.buf).inPool = false ∧
    ((reach det (ops ++ later)).heap.bufs a.buf).data = a.snap := by
  have hrun : reach det (ops ++ later) = (reach det ops).run later := by
    simp [reach, State.run, List.foldl_append]
  rw [hrun]
  have key : ∀ (later : List Op) (s : State), Inv s → a ∈ s.aliases → a.live s →
      (∀ op, op ∈ later → outlives a op) →
      a ∈ (s.run later).aliases ∧ a.live (s.run later) ∧ Inv (s.run later) := by
    intro later
    induction later with
    | nil => intro s i ha hl _; exact ⟨ha, hl, i⟩
    | cons op rest ih =>
      intro s i ha hl ho
      have st := live_step i ha hl op (ho op (by simp))
      exact ih (s.step op) (step_inv i op) st.1 st.2 (fun op' h => ho op' (by simp [h]))
  obtain ⟨h1, h2, i⟩ := key later (reach det ops) (reach_inv det ops) ha hl ho
  have hp := live_pos i.toInv0 h1 h2
  exact ⟨h1, h2, notPool_of_pos i.hw hp, i.data a h1 h2⟩

/-- **read_copies.** Bytes copied into caller-owned memory (`AssignValue` for strings and []byte in
    `Read[T]` / `GenericReader.Read`, `Value.Clone` / `Row.Clone`) are appended as fresh objects and no
    later operation of any kind modifies or drops them: the copies made so far are a prefix of the
    copies after any continuation. -/
theorem read_copies (det : RdrId → Bool) (ops later : List Op) :
    ∃ l, (reach det (ops ++ later)).goVals = (reach det ops).goVals ++ l := by
  have hrun : reach det (ops ++ later) = (reach det ops).run later := by
    simp [reach, State.run, List.foldl_append]
  rw [hrun]; exact run_goVals later _

/-- `Read[T]` copies: the new Go value holds the bytes of the reader's current page at the time of
    the call, and it is a new object (nothing is registered as an alias of a pooled buffer for it). -/
theorem readGo_allocates (s : State) (r : RdrId) (rounds : List Round) (p : PageId)
    (h : ((s.vrRead r rounds).rdrs r).cur = some p) :
    (s.step (.readGo r rounds)).goVals =
      (s.vrRead r rounds).goVals ++ [((s.vrRead r rounds).heap.bufs ((s.vrRead r rounds).pages p).values).data] ∧
    (s.step (.readGo r rounds)).aliases = (s.vrRead r rounds).aliases := by
  show ((s.vrRead r rounds).copyCur r).goVals = _ ∧ ((s.vrRead r rounds).copyCur r).aliases = _
  unfold State.copyCur
  rw [h]; exact ⟨rfl, rfl⟩

/-! ## Non-vacuity: concrete histories (evaluated by the kernel) -/

/-- a page of a byte-array column: values buffer, then offsets and definition levels; one scratch
    buffer for the compressed bytes; `pv po pd pt` are the pool's choices -/
def pg (v : UInt8) (pv po pd pt : BufId) : Iter :=
  { transients := [(pt, [9, 9])], page := some ⟨(pv, [v, v]), [(po, [1]), (pd, [2])], true⟩, action := .ret }

def first : List Op := [.vrRead 0 [⟨false, [pg 7 0 0 0 0], true⟩]]

/-- the reader moves to the next page (the first page is cleared; the second decode REUSES the
    pooled buffers 0, 2, 3 of the first one), is closed, and unrelated activity churns the pool -/
def later : List Op :=
  [.vrRead 0 [⟨false, [], false⟩, ⟨false, [pg 8 0 2 3 0], true⟩],
   .vrSeek 0 true, .vrReset 0 false, .vrClose 0,
   .churn [(2, [0xEE]), (3, [0xEE]), (0, [0xEE])]]

def rowAlias : Alias := ⟨0, .forever, [7, 7]⟩

/-- row reader (detach): the row handed out first is registered, buffer 0 holds its bytes -/
example : (reach (fun _ => true) first).aliases = [rowAlias] := by decide

/-- the hypotheses of `alias_unchanged` are satisfiable, and its conclusion is what evaluation shows:
    the row's buffer is not pooled and still reads 7,7 while buffers 2 and 3 were recycled -/
example : rowAlias ∈ (reach (fun _ => true) (first ++ later)).aliases ∧
    ((reach (fun _ => true) (first ++ later)).heap.bufs 0).data = [7, 7] :=
  have h := alias_unchanged (fun _ => true) first rowAlias (by decide) trivial later (fun _ _ => trivial)
  ⟨h.1, h.2.2.2⟩

example : ((reach (fun _ => true) (first ++ later)).heap.bufs 0).inPool = false ∧
    ((reach (fun _ => true) (first ++ later)).heap.bufs 2).inPool = true ∧
    ((reach (fun _ => true) (first ++ later)).heap.bufs 2).data = [poison] ∧
    ((reach (fun _ => true) (first ++ later)).heap.bufs 2).puts = 1 := by decide

/-- a plain value reader (no detach): the same history ends the lifetime of the first values at
    the next call (generation 0 → 2), and then the bytes ARE gone (poisoned): the lifetime hypothesis
    of the theorems is not idle, and the model does recycle storage -/
example : (reach (fun _ => false) (first ++ later)).aliases.map (fun a => (a.buf, a.life, a.snap)) =
      [(4, .call 0 1, [8, 8]), (0, .call 0 0, [7, 7])] ∧
    ((reach (fun _ => false) (first ++ later)).rdrs 0).gen = 2 ∧
    ((reach (fun _ => false) (first ++ later)).heap.bufs 0).data = [poison] := by decide

/-- pages API: values read from a page stay valid across Close of the reader and pool churn, as
    long as the application does not release the page ... -/
def pageHist : List Op := [.readPage 0 false [pg 5 0 0 0 0], .pageValues 0]
def pageLater : List Op := [.seekPages 0 true, .readPage 0 true [], .closePages 0, .churn [(0, [1]), (2, [1])]]

example : (⟨0, .page 0, [5, 5]⟩ : Alias) ∈ (reach (fun _ => false) (pageHist ++ pageLater)).aliases ∧
    ((reach (fun _ => false) (pageHist ++ pageLater)).heap.bufs 0).data = [5, 5] :=
  have h := alias_unchanged (fun _ => false) pageHist ⟨0, .page 0, [5, 5]⟩ (by decide)
    (by show (⟨.caller, 0⟩ : Claim) ∈ (reach (fun _ => false) pageHist).held; decide) pageLater
    (by
      intro op h
      simp only [pageLater, List.mem_cons, List.mem_nil_iff, or_false] at h
      rcases h with rfl | rfl | rfl | rfl <;> simp [outlives])
  ⟨h.1, h.2.2.2⟩

/-- ... and the cached `lastPage` plus the Slice served after the seek kept the buffers referenced:
    refcount 2 after Close (the application's page and the slice), nothing pooled twice -/
example : ((reach (fun _ => false) (pageHist ++ pageLater)).heap.bufs 0).refc = 2 := by decide

/-- ... while after the application releases both pages the storage is recycled -/
example : ((reach (fun _ => false) (pageHist ++ pageLater ++ [.release 0, .release 1])).heap.bufs 0).data
    = [poison, poison] := by decide

/-- `Read[T]`: the copy survives everything -/
example : (reach (fun _ => true) ([.readGo 0 [⟨false, [pg 7 0 0 0 0], true⟩]] ++ later)).goVals = [[7, 7]] := by
  decide

end PqModel.Props.C16
