import PqModel.PageSlice
import PqModel.PageValues
import PqModel.PageSliceBool
import PqModel.PageSliceBytes

/-! # C08 — round 6: `Page.Slice` of optional and repeated pages with their values, and the
`ReadValues` loops that read them back

`FilePages.ReadPage` answers a seek into a page with `page.Slice(skip, numRows)`; the row reader then
reads the slice with `Values().ReadValues`. Both are mirrored from `page_optional.go` /
`page_repeated.go` (`PqModel/PageSlice.lean`, `PqModel/PageValues.lean`). A page is the `encode` of a
stream of (repetition level, definition level, value-or-null) triples; nothing restricts the
definition levels, so the nested case (optional leaf below a repeated group, null or empty lists) is
included; a repeated page may begin inside a row (`frag`). -/
namespace PqModel.Props.C08
open PqModel.Seek PqModel.PageSlice

/-- **optional_slice_rows.** `optionalPage.Slice(i, j)` — definition levels and the base page cut
    with the null-count arithmetic `i - numNulls1`, `j - (numNulls1 + numNulls2)` — is the page of
    rows `i..j-1`, for every stream of nulls and values and every `i ≤ j ≤ NumRows`. -/
theorem optional_slice_rows (md : Nat) (s : List Triple) (h : ∀ t ∈ s, TripleWF md t) (i j : Nat)
    (hij : i ≤ j) (hj : j ≤ s.length) :
    sliceOptionalPg md (encodeOpt s) i j = encodeOpt ((s.drop i).take (j - i)) :=
  slice_optional_encode md s h i j hij hj

example : sliceOptionalPg 1 (encodeOpt [(0, 1, some 7), (0, 0, none), (0, 1, some 8), (0, 1, some 9), (0, 0, none)]) 1 4
    = encodeOpt [(0, 0, none), (0, 1, some 8), (0, 1, some 9)] := by decide

/-- **repeated_slice_rows.** `repeatedPage.Slice(i, j)` — the two scans for the `i`-th and `j`-th
    level 0, the null counts in front of them, the base page cut between the resulting value
    indexes — is the page of rows `i..j-1`: repetition levels, definition levels and stored values.
    For every page: it may begin with the tail `frag` of a row begun on the previous page (dropped
    by every slice: rows are counted from the first level 0), nulls may sit at any definition level
    below the maximum, `i ≤ j ≤ NumRows`. -/
theorem repeated_slice_rows (md : Nat) (frag : List Triple) (rows : List (List Triple))
    (hf : ∀ t ∈ frag, t.1 ≠ 0) (hr : ∀ r ∈ rows, RowT r)
    (hw : ∀ t ∈ frag ++ rows.flatten, TripleWF md t) (i j : Nat) (hij : i ≤ j) (hj : j ≤ rows.length) :
    sliceRepeatedPg md (encode (frag ++ rows.flatten)) i j = encode ((rows.drop i).take (j - i)).flatten :=
  slice_repeated_encode md frag rows hf hr hw i j hij hj

/-- a page beginning inside a row, an empty list (def 0), a null element (def 1), maxDef 2 -/
example : sliceRepeatedPg 2 (encode ([(1, 2, some 5)] ++
      [[(0, 2, some 6), (1, 1, none)], [(0, 0, none)], [(0, 2, some 7), (1, 2, some 8)]].flatten)) 1 3
    = encode [(0, 0, none), (0, 2, some 7), (1, 2, some 8)] := by decide

/-- **page_stream_shape.** The hypotheses of `repeated_slice_rows` lose nothing: every stream is a
    fragment without level 0 followed by rows, -/
theorem page_stream_shape (s : List Triple) :
    ∃ (frag : List Triple) (rows : List (List Triple)),
      s = frag ++ rows.flatten ∧ (∀ t ∈ frag, t.1 ≠ 0) ∧ (∀ r ∈ rows, RowT r) :=
  stream_shape s

/-- **page_is_encode.** … and every page whose three arrays have consistent lengths (as many
    definition as repetition levels, as many stored values as slots at the maximum definition
    level) is the `encode` of the stream its reader delivers. -/
theorem page_is_encode (md : Nat) (rep dfn base : List Nat) (hl : dfn.length = rep.length)
    (hb : base.length = cntDef md dfn) :
    encode (weave md (rep.zip dfn) base) = ⟨rep, dfn, base⟩ ∧
      ∀ t ∈ weave md (rep.zip dfn) base, TripleWF md t :=
  encode_weave md rep dfn base hl hb

/-- **page_read_values.** One `ReadValues` call on an optional or repeated page, for any buffer
    length `room` and any short reads `caps` of the base page's reader: it terminates, delivers the
    next piece of the stream, reports `io.EOF` only when nothing is left and otherwise fills the
    buffer. -/
theorem page_read_values (md room : Nat) (st : RV) (caps : List Nat) :
    ∃ out st' caps' eof, readValues md room st caps = some (out, st', caps', eof) ∧
      out ++ weave md st'.lv st'.base = weave md st.lv st.base ∧
      (eof = true → weave md st'.lv st'.base = []) ∧
      out.length ≤ room ∧ (eof = false → out.length = room) :=
  readValues_spec md room st caps

example : readValues 2 3 ⟨[(0, 2), (1, 1), (0, 0), (0, 2)], [6, 7]⟩ [1] =
    some ([(0, 2, some 6), (1, 1, none), (0, 0, none)], ⟨[(0, 2)], [7]⟩, [], false) := by decide

/-- **page_read_all.** Calling `ReadValues` with buffers of any sizes that add up to more than the
    number of slots reaches `io.EOF` having read exactly the stream of the page. -/
theorem page_read_all (md : Nat) (szs : List Nat) (st : RV) (caps : List Nat)
    (hs : st.lv.length < szs.sum) :
    readAll md szs st caps [] = some (weave md st.lv st.base, true) :=
  readAll_complete md szs st caps hs

/-- **repeated_slice_read.** Seeking inside a page, end to end at the value level: reading
    `Slice(i, j)` of a repeated page to `io.EOF`, with any buffer sizes and any short reads below,
    delivers the triples of rows `i..j-1` and nothing else. -/
theorem repeated_slice_read (md : Nat) (frag : List Triple) (rows : List (List Triple))
    (hf : ∀ t ∈ frag, t.1 ≠ 0) (hr : ∀ r ∈ rows, RowT r)
    (hw : ∀ t ∈ frag ++ rows.flatten, TripleWF md t) (i j : Nat) (hij : i ≤ j) (hj : j ≤ rows.length)
    (szs caps : List Nat) (hs : ((rows.drop i).take (j - i)).flatten.length < szs.sum) :
    let p := sliceRepeatedPg md (encode (frag ++ rows.flatten)) i j
    readAll md szs ⟨levelsOf p, p.base⟩ caps [] = some (((rows.drop i).take (j - i)).flatten, true) := by
  intro p
  have hp : p = encode ((rows.drop i).take (j - i)).flatten :=
    slice_repeated_encode md frag rows hf hr hw i j hij hj
  have hw' : ∀ t ∈ ((rows.drop i).take (j - i)).flatten, TripleWF md t := by
    intro t ht
    apply hw t
    obtain ⟨r, hr1, hr2⟩ := List.mem_flatten.mp ht
    have hr3 : r ∈ rows := List.mem_of_mem_drop (List.mem_of_mem_take hr1)
    exact List.mem_append_right _ (List.mem_flatten.mpr ⟨r, hr3, hr2⟩)
  have hlen : (levelsOf (encode ((rows.drop i).take (j - i)).flatten)).length < szs.sum := by
    simp only [levelsOf, encode, List.length_zip, List.length_map, Nat.min_self]
    exact hs
  rw [hp, readAll_complete md szs _ caps hlen]
  simp only [weave_encode md _ hw']

/-- **optional_slice_read.** The same for an optional page: the values read from `Slice(i, j)` are
    rows `i..j-1` (repetition level 0 on every value). -/
theorem optional_slice_read (md : Nat) (s : List Triple) (h : ∀ t ∈ s, TripleWF md t) (i j : Nat)
    (hij : i ≤ j) (hj : j ≤ s.length) (szs caps : List Nat) (hs : j - i < szs.sum) :
    let p := sliceOptionalPg md (encodeOpt s) i j
    readAll md szs ⟨levelsOfOpt p, p.base⟩ caps [] =
      some (((s.drop i).take (j - i)).map (fun t => (0, t.2)), true) := by
  intro p
  have hp : p = encodeOpt ((s.drop i).take (j - i)) := slice_optional_encode md s h i j hij hj
  have hw' : ∀ t ∈ (s.drop i).take (j - i), TripleWF md t :=
    fun t ht => h t (List.mem_of_mem_drop (List.mem_of_mem_take ht))
  have hlen : (levelsOfOpt (encodeOpt ((s.drop i).take (j - i)))).length < szs.sum := by
    simp only [levelsOfOpt, encodeOpt, List.length_map, List.length_take, List.length_drop]
    omega
  rw [hp, readAll_complete md szs _ caps hlen]
  simp only [weave_encodeOpt md _ hw']

example : readAll 1 [2, 1, 5] ⟨levelsOfOpt (sliceOptionalPg 1 (encodeOpt [(0, 1, some 7), (0, 0, none), (0, 1, some 8)]) 1 3),
      (sliceOptionalPg 1 (encodeOpt [(0, 1, some 7), (0, 0, none), (0, 1, some 8)]) 1 3).base⟩ [] []
    = some ([(0, 0, none), (0, 1, some 8)], true) := by decide

/-- outside the domain the slice is not "rows i..j-1": a page whose base holds fewer values than
    its definition levels announce (a damaged page) reads short — the reader stops with `io.EOF`
    at the first value it cannot get (`j == 0 && err == io.EOF`), it does not invent values -/
example : readAll 1 [8] ⟨[(0, 1), (0, 0), (0, 1), (0, 0)], [7]⟩ [] [] = some ([(0, 1, some 7), (0, 0, none)], true) := by
  decide

/-- **boolean_slice_values.** The base page of a boolean column slices without moving bits (shared
    bytes from `(i + offset) / 8`, new bit offset `(i + offset) % 8`): the values of `Slice(i, j)`
    are values `i..j-1`, for every page, every bit offset (slices of slices) and `i ≤ j ≤ NumValues`.
    This is `baseSlice` of the theorems above for a boolean base. -/
theorem boolean_slice_values (p : BoolPg) (i j : Nat) (hij : i ≤ j) (hj : j ≤ p.numValues) :
    boolValues (sliceBool p i j) = baseSlice (boolValues p) i j :=
  boolValues_slice p i j hij hj

/-- **boolean_slice_wf.** The sliced page's bytes cover its values and its offset is below 8. -/
theorem boolean_slice_wf (p : BoolPg) (h : p.WF) (i j : Nat) (hij : i ≤ j) (hj : j ≤ p.numValues) :
    (sliceBool p i j).WF ∧ (sliceBool p i j).offset < 8 :=
  sliceBool_wf p h i j hij hj

example : boolValues (sliceBool (sliceBool ⟨[1, 3], 0, 10⟩ 1 10) 6 9) = [0, 1, 1] := by decide
example : (⟨[1, 3], 0, 10⟩ : BoolPg).WF := by unfold BoolPg.WF; decide

/-- **boolean_slice_data_unaligned** (witness; observation, reproduced on the real page): `Data()` of
    a boolean page sliced at a value that is not a multiple of 8 is not the bit-packing of its
    values — it is the parent's bytes, its first bit is the parent's value `i - i % 8`. `Values()`
    is right (`boolean_slice_values`), and the library never encodes `Data()` of a sliced page
    (the writer encodes column buffer pages, whose offset is 0). -/
theorem boolean_slice_data_unaligned :
    dataBits (sliceBool ⟨[1], 0, 8⟩ 1 8) ≠ packBits 1 (boolValues (sliceBool ⟨[1], 0, 8⟩ 1 8)) := by decide

/-- **bytearray_slice_values.** A BYTE_ARRAY base page slices by keeping offsets `i..j` (one more than
    values) over the shared bytes: the values of `Slice(i, j)` are values `i..j-1`, for every page
    (also one that is itself a slice: first offset not 0) and `i ≤ j ≤ NumValues`. -/
theorem bytearray_slice_values (p : BaPg) (i j : Nat) (hij : i ≤ j) (hj : j ≤ baLen p)
    (hne : p.offsets ≠ []) :
    baValues (sliceBa p i j) = ((baValues p).drop i).take (j - i) :=
  baValues_slice p i j hij hj hne

example : baValues (sliceBa ⟨[1, 2, 3, 4, 5, 6], [0, 1, 1, 4, 6]⟩ 1 3) = [[], [2, 3, 4]] := by decide

end PqModel.Props.C08
