import PqModel.ConvertProofs

/-! # C12 — Reading through a different but compatible schema only adds or drops columns

`convertRow` is the MIRROR of `convert.go` (level tables per target column, sibling-borrowed
structure for added columns); `projN` is the SPEC projection of a value tree; `shred` is the Dremel
shredding of `PqModel.Dremel` on the name-erased schema. -/
namespace PqModel.Props.C12
open PqModel.Dremel PqModel.Convert

/-- Deleting and permuting fields at any depth and turning required fields into optional ones:
    converting the shredded row with the level tables of `Convert` gives exactly the shredded
    projection of the value — every target column carries the source values and nesting,
    re-expressed against the target's levels. All schemas, all conforming values. -/
theorem convert_shred (src tgt : PNode) (v : Val)
    (hsub : subN src tgt = true) (hwf : wfN (eraseN src) = true) (hconf : confN (eraseN src) v = true) :
    convertRow src tgt (shred src v) = shred tgt (projN src tgt v) :=
  main_convN tgt .req lv0 src v 0 none hsub hwf hconf (Nat.le_refl _) rfl rfl

/-- non-vacuity: delete field 3, permute, widen 5; nested repeated group, nulls and values -/
example :
    let src : PNode := .group (.cons 1 .opt .leaf (.cons 2 .rpt (.group (.cons 5 .req .leaf (.cons 6 .opt .leaf .nil))) (.cons 3 .req .leaf .nil)))
    let tgt : PNode := .group (.cons 2 .rpt (.group (.cons 6 .opt .leaf (.cons 5 .opt .leaf .nil))) (.cons 1 .opt .leaf .nil))
    let v : Val := .struct [.none, .list [.struct [.prim 1, .none], .struct [.prim 2, .some (.prim 3)]], .prim 9]
    subN src tgt = true ∧ wfN (eraseN src) = true ∧ confN (eraseN src) v = true ∧
      convertRow src tgt (shred src v) =
        [[⟨none, 0, 1⟩, ⟨some 3, 1, 2⟩], [⟨some 1, 0, 2⟩, ⟨some 2, 1, 2⟩], [⟨none, 0, 0⟩]] := by decide

/-- Row count and order: a batch is converted row by row (`conversion.Convert` loops over `rows`
    and writes `rows[n]`), so the converted batch is the list of shredded projections, in order. -/
theorem convert_rows (src tgt : PNode) (vs : List Val)
    (hsub : subN src tgt = true) (hwf : wfN (eraseN src) = true) (hconf : ∀ v ∈ vs, confN (eraseN src) v = true) :
    (vs.map (shred src)).map (convertRow src tgt) = vs.map (fun v => shred tgt (projN src tgt v)) ∧
      ((vs.map (shred src)).map (convertRow src tgt)).length = vs.length := by
  refine ⟨?_, by simp⟩
  rw [List.map_map]
  apply List.map_congr_left
  intro v hv
  exact convert_shred src tgt v hsub hwf (hconf v hv)

end PqModel.Props.C12
