import PqModel.ConvertProofs
import PqModel.ConvertAdded
import PqModel.ConvertAddedTree
import PqModel.ConvertFixed

/-! # C12 — Reading through a different but compatible schema only adds or drops columns

`convertRow` is the MIRROR of `convert.go` as it stands after repair fa179c0 (level tables per target
column, sibling-borrowed structure for added columns, then `zeroAtMax`: a null that the tables made
present becomes the typed zero); `convertRow_before_fix` is the mirror before that repair (= the
first stage `convN`), kept for the regression facts `*_before_fix`; `projN` is the SPEC projection of a value tree; `shred` is the Dremel
shredding of `PqModel.Dremel` on the name-erased schema. -/
namespace PqModel.Props.C12
open PqModel.Dremel PqModel.Convert

/-- BEFORE repair fa179c0 (regression fact, and the first stage of the mirror as it stands):
    deleting and permuting fields at any depth and turning required fields into optional ones,
    the level tables of `Convert` give exactly the shredded projection of the value. -/
theorem convert_shred_before_fix (src tgt : PNode) (v : Val)
    (hsub : subN src tgt = true) (hwf : wfN (eraseN src) = true) (hconf : confN (eraseN src) v = true) :
    convertRow_before_fix src tgt (shred src v) = shred tgt (projN src tgt v) :=
  main_convN tgt .req lv0 src v 0 none hsub hwf hconf (Nat.le_refl _) rfl rfl

/-- Deleting and permuting fields at any depth and turning required fields into optional ones:
    converting the shredded row with the mirror of `Convert` as it stands (level tables, zero
    fix-up, typed zero for nulls at a column's maximal definition level) gives exactly the shredded
    projection of the value — every target column carries the source values and nesting,
    re-expressed against the target's levels. All schemas, all conforming values. (The last stage
    finds nothing to do here: `zeroAtMax_shred` + `conf_projN`, the shredding of a value that
    conforms to its schema holds no null at a column's maximal definition level.) -/
theorem convert_shred (src tgt : PNode) (v : Val)
    (hsub : subN src tgt = true) (hwf : wfN (eraseN src) = true) (hconf : confN (eraseN src) v = true) :
    convertRow src tgt (shred src v) = shred tgt (projN src tgt v) :=
  convertRow_shred src tgt v hsub hwf hconf

-- OPEN: convert_shred for targets that also turn optional fields into required ones
--   (`optional -> required`: a null becomes the zero value). Since repair fa179c0 the mirror agrees
--   with the spec on such targets (`narrowing_null_becomes_zero` is the former counterexample; L1
--   and L2 cover random narrowed targets), but `main_convN` is proved for `rpOk` (no narrowing) only.

/-- non-vacuity: delete field 3, permute, widen 5; nested repeated group, nulls and values -/
example :
    let src : PNode := .group (.cons 1 .opt .leaf (.cons 2 .rpt (.group (.cons 5 .req .leaf (.cons 6 .opt .leaf .nil))) (.cons 3 .req .leaf .nil)))
    let tgt : PNode := .group (.cons 2 .rpt (.group (.cons 6 .opt .leaf (.cons 5 .opt .leaf .nil))) (.cons 1 .opt .leaf .nil))
    let v : Val := .struct [.none, .list [.struct [.prim 1, .none], .struct [.prim 2, .some (.prim 3)]], .prim 9]
    subN src tgt = true ∧ wfN (eraseN src) = true ∧ confN (eraseN src) v = true ∧
      convertRow src tgt (shred src v) =
        [[⟨none, 0, 1⟩, ⟨some 3, 1, 2⟩], [⟨some 1, 0, 2⟩, ⟨some 2, 1, 2⟩], [⟨none, 0, 0⟩]] := by decide

/-- Row count and order: a batch is converted row by row (`conversion.Convert` loops over `rows`
    and writes `rows[n]`), so the converted batch is the list of shredded projections, in order. -/
theorem convert_rows (src tgt : PNode) (vs : List Val)
    (hsub : subN src tgt = true) (hwf : wfN (eraseN src) = true) (hconf : ∀ v ∈ vs, confN (eraseN src) v = true) :
    (vs.map (shred src)).map (convertRow src tgt) = vs.map (fun v => shred tgt (projN src tgt v)) ∧
      ((vs.map (shred src)).map (convertRow src tgt)).length = vs.length := by
  refine ⟨?_, by simp⟩
  rw [List.map_map]
  apply List.map_congr_left
  intro v hv
  exact convert_shred src tgt v hsub hwf (hconf v hv)

/-! ## Added columns

`Convert` has no level tables for a target column that the source lacks: it copies the entries of
the *closest leaf sibling* (the direct leaf child with the smallest name of the deepest source group
on the column's path) and turns their payload into null (`convertToNullOptional`, which also lowers
a definition level equal to the target's maximum by one) or zero (`convertToZero`), levels
untouched; without such a sibling it emits ONE placeholder `(null|zero, 0, 0)` per row.

The mirror is right (as Parquet streams: `canon` erases the payload below the column's maximal
definition level, which is all a writer stores) exactly when the borrowed entries happen to be the
structure of the enclosing group, i.e.
* the closest leaf sibling is REQUIRED (one entry `(x, r, d)` per instance of the group, `d` ≤ the
  group's level): every added subtree is right (`added_next_to_required_partial`, and for whole
  rows `convert_shred_added_partial`);
* the closest leaf sibling is OPTIONAL and the added column is an optional LEAF of the same group
  (`added_optional_leaf_next_to_optional_partial`);
* there is no leaf sibling and the group sits at definition level 0 (`added_without_sibling_partial`,
  also part of `convert_shred_added_partial`);
and no ancestor changed its repetition type (borrowed levels are not mapped through the tables).
Outside these cases it is wrong: `decide` witnesses below (F19: repeated or optional sibling with
any other added shape, no leaf sibling below an optional or repeated group). -/

-- OPEN: convert_shred_added at full strength — the statement below for EVERY target that adds
--   fields. It is false for the code as it stands (F19 witnesses below). Proved:
--   `convert_shred_added_partial` (whole rows, any depth incl. below repeated groups and lists)
--   under `addN`: every added field sits in a source group whose closest leaf sibling is
--   required, or that has no leaf child and sits at definition level 0; shared fields keep
--   their repetition type. Not covered by the whole-row theorem, only per group instance
--   (`added_optional_leaf_next_to_optional_partial`): optional leaf next to an optional sibling.

/-- ADDED columns (together with deleted and permuted ones), whole rows: when every added field
    satisfies `addOk` (closest leaf sibling of the enclosing source group is required; or no leaf
    sibling and the group is at definition level 0), the converted row is, as Parquet streams,
    the shredded projection: shared columns carry the source values and nesting, added columns are
    null / empty / zero with the structure of their own ancestors. -/
theorem convert_shred_added_partial (src tgt : PNode) (v : Val)
    (hadd : addN 0 src tgt = true) (hwf : wfN (eraseN src) = true) (hconf : confN (eraseN src) v = true) :
    canon (maxDefsN tgt 0) (convertRow src tgt (shred src v)) =
      canon (maxDefsN tgt 0) (zeroAtMax (maxDefsN tgt 0) (shred tgt (projN src tgt v))) := by
  have h : canon (maxDefsN tgt 0) (convertRow_before_fix src tgt (shred src v)) =
      canon (maxDefsN tgt 0) (shred tgt (projN src tgt v)) :=
    main_addN tgt .req lv0 src v 0 none hadd idLv0 hwf hconf (Nat.le_refl _)
  simp only [convertRow]
  rw [canon_zeroAtMax, canon_zeroAtMax, h]

/-- non-vacuity: inside a repeated group `2 {5 required, 6 optional}` the target adds an optional
    leaf 7 and a repeated group 8 {required 9} (closest sibling: the required leaf 5), at the root
    a required leaf 4 next to the required leaf 3 (the smallest leaf name); field 10 is dropped. -/
example :
    let src : PNode := .group (.cons 10 .opt .leaf (.cons 2 .rpt (.group (.cons 5 .req .leaf (.cons 6 .opt .leaf .nil))) (.cons 3 .req .leaf .nil)))
    let tgt : PNode := .group (.cons 4 .req .leaf (.cons 2 .rpt (.group (.cons 7 .opt .leaf (.cons 6 .opt .leaf
      (.cons 8 .rpt (.group (.cons 9 .req .leaf .nil)) (.cons 5 .req .leaf .nil))))) (.cons 3 .req .leaf .nil)))
    let v : Val := .struct [.none, .list [.struct [.prim 1, .none], .struct [.prim 2, .some (.prim 3)]], .prim 9]
    addN 0 src tgt = true ∧ wfN (eraseN src) = true ∧ confN (eraseN src) v = true ∧
      canon (maxDefsN tgt 0) (convertRow src tgt (shred src v)) =
        [[⟨some 0, 0, 0⟩], [⟨none, 0, 1⟩, ⟨none, 1, 1⟩], [⟨none, 0, 1⟩, ⟨some 3, 1, 2⟩], [⟨none, 0, 1⟩, ⟨none, 1, 1⟩],
          [⟨some 1, 0, 1⟩, ⟨some 2, 1, 1⟩], [⟨some 9, 0, 0⟩]] := by decide

/-- Closest leaf sibling required: in a group instance shredded at levels `(r, d)` the sibling's
    column is the single entry `(x, r, d)`, with `d = lv.td` when the instance is present and
    `d < lv.td` when an ancestor is null/empty. For ANY added subtree `a` (leaf or group, required /
    optional / repeated, nested) the mirror then yields the stream of the subtree's default value,
    resp. of an absent subtree. -/
theorem added_next_to_required_partial (a : PNode) (trp : Rp) (lv : Lv) (x : Option Nat) (r k d : Nat)
    (hd : d ≤ lv.td) :
    canon (maxDefsN a (lv.td + defOf trp)) (convN a trp (lv.stepT trp) (.lost (some [⟨x, r, d⟩]))) =
      canon (maxDefsN a (lv.td + defOf trp))
        (if d = lv.td then shredN (wrap trp (eraseN a)) r k d (dfltW trp (dfltN a)) else absentN (eraseN a) r d) := by
  have hl : canon (maxDefsN a (lv.td + defOf trp)) (convN a trp (lv.stepT trp) (.lost (some [⟨x, r, d⟩]))) =
      nf (maxDefsN a (lv.td + defOf trp)) r d :=
    canon_lostN a trp (lv.stepT trp) x r d (by simp [Lv.stepT]; omega)
      (by intro h; subst h; simp [Lv.stepT, defOf]; omega)
  rw [hl]
  split
  · rename_i heq
    subst heq
    cases trp with
    | req => simpa [wrap, dfltW, defOf] using (canon_dfltN a r k lv.td).symm
    | opt => simpa [wrap, dfltW, defOf, shredN] using (canon_absentN a (lv.td + 1) r lv.td (by omega)).symm
    | rpt => simpa [wrap, dfltW, defOf, shredN] using (canon_absentN a (lv.td + 1) r lv.td (by omega)).symm
  · exact (canon_absentN a (lv.td + defOf trp) r d (by omega)).symm

/-- hypotheses satisfiable: an added `repeated group { repeated leaf; required leaf }` next to a required sibling -/
example :
    let a : PNode := .group (.cons 4 .rpt .leaf (.cons 5 .req .leaf .nil))
    canon (maxDefsN a 2) (convN a .rpt (lv0.stepT .opt |>.stepT .rpt) (.lost (some [⟨some 7, 0, 1⟩]))) =
      canon (maxDefsN a 2) (shredN (wrap .rpt (eraseN a)) 0 0 1 (.list [])) := by decide

/-- Closest leaf sibling optional (entry `(x, r, d)` with `d ≤ lv.td + 1`; `lv.td + 1` = value
    present) and the added column an optional leaf of the same group: null at the group's level. -/
theorem added_optional_leaf_next_to_optional_partial (lv : Lv) (x : Option Nat) (r d : Nat) (hd : d ≤ lv.td + 1) :
    convN .leaf .opt (lv.stepT .opt) (.lost (some [⟨x, r, d⟩])) = [[⟨none, r, min d lv.td⟩]] := by
  by_cases h : d = lv.td + 1
  · subst h
    simp [convN, leafOut, toNullOpt, fixup, Lv.stepT, defOf]
  · have : min d lv.td = d := by omega
    simp [convN, leafOut, toNullOpt, fixup, Lv.stepT, defOf, h, this]

/-- No leaf sibling: the single placeholder `(·, 0, 0)` is the stream of the default value of any
    added subtree only in a group at definition level 0 (`lv.td = 0`: all ancestors required). -/
theorem added_without_sibling_partial (a : PNode) (trp : Rp) (lv : Lv) (k : Nat) (h0 : lv.td = 0) :
    canon (maxDefsN a (defOf trp)) (convN a trp (lv.stepT trp) (.lost none)) =
      canon (maxDefsN a (defOf trp)) (shredN (wrap trp (eraseN a)) 0 k 0 (dfltW trp (dfltN a))) := by
  have hl : canon (maxDefsN a (lv.td + defOf trp)) (convN a trp (lv.stepT trp) (.lost none)) =
      nf (maxDefsN a (lv.td + defOf trp)) 0 0 :=
    canon_lostNoneN a trp (lv.stepT trp) (by intro h; subst h; simp [Lv.stepT, defOf])
  rw [h0, Nat.zero_add] at hl
  rw [hl]
  cases trp with
  | req => simpa [wrap, dfltW, defOf] using (canon_dfltN a 0 k 0).symm
  | opt => simpa [wrap, dfltW, defOf, shredN] using (canon_absentN a 1 0 0 (by omega)).symm
  | rpt => simpa [wrap, dfltW, defOf, shredN] using (canon_absentN a 1 0 0 (by omega)).symm

/-! ### F19: the mirror of the unchanged code violates the property (negation witnesses) -/

/-- whole-row comparison as Parquet streams -/
def agrees (src tgt : PNode) (v : Val) : Bool :=
  canon (maxDefsN tgt 0) (convertRow src tgt (shred src v)) == canon (maxDefsN tgt 0) (shred tgt (projN src tgt v))

/-- F19, `repeated-next-to-optional-sibling`: source `{optional f1}`, target adds
    `repeated group n3 { repeated f4 }` at the root; row `f1 = 7`: `n3.f4` gets `(0, R0, D1)` — a list
    with one element — instead of the empty list `(null, R0, D0)`. -/
theorem f19_repeated_group_next_to_optional_sibling :
    let src : PNode := .group (.cons 1 .opt .leaf .nil)
    let tgt : PNode := .group (.cons 1 .opt .leaf (.cons 3 .rpt (.group (.cons 4 .rpt .leaf .nil)) .nil))
    let v : Val := .struct [.some (.prim 7)]
    convertRow src tgt (shred src v) = [[⟨some 7, 0, 1⟩], [⟨some 0, 0, 1⟩]] ∧
      shred tgt (projN src tgt v) = [[⟨some 7, 0, 1⟩], [⟨none, 0, 0⟩]] ∧ agrees src tgt v = false := by decide

/-- F19, `required-next-to-repeated-sibling`: target adds a required leaf inside a required group
    next to a repeated leaf holding two elements: the added column gets one zero PER ELEMENT with
    the sibling's levels (`D1` where the column's maximum is 0). -/
theorem f19_required_next_to_repeated_sibling :
    let src : PNode := .group (.cons 1 .req (.group (.cons 2 .rpt .leaf .nil)) .nil)
    let tgt : PNode := .group (.cons 1 .req (.group (.cons 2 .rpt .leaf (.cons 3 .req .leaf .nil))) .nil)
    let v : Val := .struct [.struct [.list [.prim 1, .prim 2]]]
    convertRow src tgt (shred src v) = [[⟨some 1, 0, 1⟩, ⟨some 2, 1, 1⟩], [⟨some 0, 0, 1⟩, ⟨some 0, 1, 1⟩]] ∧
      shred tgt (projN src tgt v) = [[⟨some 1, 0, 1⟩, ⟨some 2, 1, 1⟩], [⟨some 0, 0, 0⟩]] ∧ agrees src tgt v = false := by decide

/-- F19, `optional-next-to-optional-sibling` (added optional GROUP): the group comes out present
    with a null leaf (`D1`) instead of null (`D0`). -/
theorem f19_optional_group_next_to_optional_sibling :
    let src : PNode := .group (.cons 1 .opt .leaf .nil)
    let tgt : PNode := .group (.cons 1 .opt .leaf (.cons 2 .opt (.group (.cons 3 .opt .leaf .nil)) .nil))
    let v : Val := .struct [.some (.prim 7)]
    convertRow src tgt (shred src v) = [[⟨some 7, 0, 1⟩], [⟨none, 0, 1⟩]] ∧
      shred tgt (projN src tgt v) = [[⟨some 7, 0, 1⟩], [⟨none, 0, 0⟩]] ∧ agrees src tgt v = false := by decide

/-- F19, `required-next-to-no-leaf-sibling`: a required leaf added to an optional group that has
    only group children: one placeholder `(0, R0, D0)` (= group null) although the group is present. -/
theorem f19_required_without_leaf_sibling_under_optional :
    let src : PNode := .group (.cons 1 .opt (.group (.cons 2 .req (.group (.cons 3 .req .leaf .nil)) .nil)) .nil)
    let tgt : PNode := .group (.cons 1 .opt (.group (.cons 2 .req (.group (.cons 3 .req .leaf .nil)) (.cons 4 .req .leaf .nil))) .nil)
    let v : Val := .struct [.some (.struct [.struct [.prim 5]])]
    convertRow src tgt (shred src v) = [[⟨some 5, 0, 1⟩], [⟨some 0, 0, 0⟩]] ∧
      shred tgt (projN src tgt v) = [[⟨some 5, 0, 1⟩], [⟨some 0, 0, 1⟩]] ∧ agrees src tgt v = false := by decide

/-! ### other targets the code accepts -/

/-- BEFORE repair fa179c0 (regression fact): `optional → required` below an optional ancestor, a
    null became an entry at the maximal definition level whose payload was still null (an untyped
    value; for FIXED_LEN_BYTE_ARRAY the writers rejected it). -/
theorem narrowing_null_at_max_level_before_fix :
    let src : PNode := .group (.cons 1 .opt (.group (.cons 2 .opt (.group (.cons 3 .req .leaf .nil)) .nil)) .nil)
    let tgt : PNode := .group (.cons 1 .opt (.group (.cons 2 .req (.group (.cons 3 .req .leaf .nil)) .nil)) .nil)
    let v : Val := .struct [.some (.struct [.none])]
    convertRow_before_fix src tgt (shred src v) = [[⟨none, 0, 1⟩]] ∧ shred tgt (projN src tgt v) = [[⟨some 0, 0, 1⟩]] := by decide

/-- After repair fa179c0 the same row is the shredded projection: the null that the tables made
    present is the typed zero of the column. -/
theorem narrowing_null_becomes_zero :
    let src : PNode := .group (.cons 1 .opt (.group (.cons 2 .opt (.group (.cons 3 .req .leaf .nil)) .nil)) .nil)
    let tgt : PNode := .group (.cons 1 .opt (.group (.cons 2 .req (.group (.cons 3 .req .leaf .nil)) .nil)) .nil)
    let v : Val := .struct [.some (.struct [.none])]
    convertRow src tgt (shred src v) = shred tgt (projN src tgt v) ∧ agrees src tgt v = true := by decide

/-- the second stage in general: whatever the first stage yields, no column of the converted row
    holds a null at its maximal definition level where that level is reached -/
theorem converted_row_has_no_null_at_max (td : Nat) (c : List Triple) :
    ∀ t ∈ zeroCol td c, t.val = none → t.dfn ≠ td := by
  intro t ht hn
  simp only [zeroCol, List.mem_map] at ht
  obtain ⟨u, _, rfl⟩ := ht
  by_cases h : (u.val.isNone && u.dfn == td) = true
  · simp [h] at hn
  · have h' : (u.val.isNone && u.dfn == td) = false := by
      cases hh : (u.val.isNone && u.dfn == td) <;> simp_all
    simp only [h', Bool.false_eq_true, if_false] at hn ⊢
    intro hd
    simp [hn, hd] at h'

/-- `repeated → optional` is accepted: a two-element list becomes two entries with repetition
    level 0 in one row of a non-repeated column (a malformed row; written to a file it is two rows). -/
theorem repeated_to_optional_accepted :
    let src : PNode := .group (.cons 1 .rpt .leaf .nil)
    let tgt : PNode := .group (.cons 1 .opt .leaf .nil)
    let v : Val := .struct [.list [.prim 1, .prim 2]]
    convertRow src tgt (shred src v) = [[⟨some 1, 0, 1⟩, ⟨some 2, 0, 1⟩]] := by decide

end PqModel.Props.C12
