import PqModel.Props.C09Compare
import PqModel.Props.C10

/-! # C10, round 6: the sort theorems on the MIRRORED value orders of every leaf type

The C10 theorems took the value order of a column type as a hypothesis: `VOrd V` (a `lt` — the base column buffer's
`Less` — consistent with an antisymmetric `cmp` — `Type.Compare`), `VOrd.Trans`, `CmpOk cmp` for `RowBuffer`, and
`Ranked cmp rank` (the comparator is an integer rank) for the `SortingWriter` composition; the non-vacuity examples
used `Int`. Here these are DISCHARGED on the mirrors:

MIRROR (PqModel/CompareRows.lean): `bufferLess` (the `Less` of the column buffer each leaf type creates, on two
values), `typeCompare` (CompareTypes.lean), `compareRowsFuncOf` (the row comparator of compare.go).

* `typeOrd t` is a `VOrd` for EVERY leaf type, NaN included (`bufferLess_iff`, `typeCompare_anti`), so
  `less_agrees`, `sort_adjacent`, `swap_rows_intact`, `configure_less_agrees` hold of every typed column;
* it is transitive for every type that reads no floats, and for FLOAT / DOUBLE on the non-NaN values, so `sort_correct`
  holds there; with NaN it is not, and the conclusion of `sort_correct` fails on a 3-row buffer (witness);
* `compareRowsFuncOf ks` is `CmpOk` for any non-float key columns (`rowbuffer_sort_correct_typed`);
* `Ranked` cannot hold on the whole value type for byte-string keys (witness theorem: no order embedding of
  `bytes.Compare` into the integers exists) — it holds on the FINITE set of rows written, with the rank
  `Compare.rankIn`, for every lawful exactly-antisymmetric comparator; the `SortingWriter` theorems are instantiated
  that way (`sorting_writer_correct_typed`, `sorting_writer_dedupe_correct_typed`).

The column `Buffer` model takes ONE value order for all its columns: the instances below are for buffers whose columns
share a leaf type; compound keys of mixed types are covered on the row side (`RowBuffer`, `SortingWriter`, which is
where the library sorts by `compareRowsFuncOf`) — a `Buffer` theorem with one `VOrd` per column is not stated. -/
namespace PqModel.Props.C10
open PqModel PqModel.SortBuf PqModel.CompareTypes PqModel.CompareRows

/-! ## the value order of a typed column -/

/-- the order a column of leaf type `t` is sorted by: `lt` = its column buffer's `Less`, `cmp` = its `Type.Compare`.
    Both laws of `VOrd` are theorems about the mirrors, for every leaf type and ALL values. -/
def typeOrd (t : LeafType) : VOrd Val where
  lt := bufferLess t
  cmp := typeCompare t
  lt_iff := bufferLess_iff t
  anti := fun a b => typeCompare_anti t a b

theorem typeOrd_trans (t : LeafType) (hf : t.isFloat = false) : (typeOrd t).Trans :=
  fun a b c => (C09.typeCompare_lawful_nonfloat t hf).1.trans a b c

/-- `Buffer.Less(i, j)` ⇔ `Schema.Comparator(..)(row i, row j) < 0` on columns of ANY leaf type (floats with NaN
    included): instance of `less_agrees` with no hypothesis on the order left -/
theorem less_agrees_typed (t : LeafType) {b : Buffer Val} {n : Nat} (h : b.BInv n)
    (hs : ∀ sc ∈ b.sorting, sc.col < b.cols.length) {i j : Nat} (hi : i < n) (hj : j < n) :
    b.less (bufferLess t) i j = true ↔ cmpRows (typeCompare t) b.sorting (b.row i) (b.row j) < 0 :=
  less_agrees (typeOrd t) h hs hi hj

/-- **sorting a typed column buffer**: for every non-float leaf type, any history of `Less` / `Swap` calls that ends
    with no adjacent inversion leaves a permutation of the rows written, pairwise ordered by the comparator built
    from `Type.Compare`. Instance of `sort_correct`; neither `VOrd` nor `Trans` is assumed any more. -/
theorem sort_correct_typed (t : LeafType) (hf : t.isFloat = false) {b0 : Buffer Val} {n : Nat} (h0 : b0.BInv n)
    (hs : ∀ sc ∈ b0.sorting, sc.col < b0.cols.length) (ops : List (Nat × Nat))
    (hfin : ∀ i, i + 1 < n → (b0.run ops).less (bufferLess t) (i + 1) i = false) :
    ((b0.run ops).rows n).Perm (b0.rows n) ∧
    ∀ i j, i < j → j < n → cmpRows (typeCompare t) b0.sorting ((b0.run ops).row i) ((b0.run ops).row j) ≤ 0 :=
  sort_correct (typeOrd t) (typeOrd_trans t hf) h0 hs ops hfin

/-- … and for EVERY leaf type (NaN included) at least: a permutation whose adjacent rows are ordered -/
theorem sort_adjacent_typed (t : LeafType) {b0 : Buffer Val} {n : Nat} (h0 : b0.BInv n)
    (hs : ∀ sc ∈ b0.sorting, sc.col < b0.cols.length) (ops : List (Nat × Nat))
    (hfin : ∀ i, i + 1 < n → (b0.run ops).less (bufferLess t) (i + 1) i = false) :
    ((b0.run ops).rows n).Perm (b0.rows n) ∧
    ∀ i, i + 1 < n → cmpRows (typeCompare t) b0.sorting ((b0.run ops).row i) ((b0.run ops).row (i + 1)) ≤ 0 :=
  sort_adjacent (typeOrd t) h0 hs ops hfin

/-- a UINT_32 column 1, 0xFFFFFFFF, 7 sorted descending by two swaps: 0xFFFFFFFF (the largest), 7, 1 -/
def sampleU32 : Buffer Val :=
  { cols := [.req [⟨1#64, []⟩, ⟨0xFFFFFFFF#64, []⟩, ⟨7#64, []⟩]], sorting := [⟨0, true, false⟩] }

example : (LeafType.int 32 false).isFloat = false ∧ sampleU32.BInv 3 ∧
    (∀ i, i + 1 < 3 → ((sampleU32.run [(0, 1), (1, 2)]).less (bufferLess (.int 32 false)) (i + 1) i = false)) ∧
    (List.range 3).map (fun k => ((sampleU32.run [(0, 1), (1, 2)]).row k 0).map (·.u64.toNat)) =
      [some 0xFFFFFFFF, some 7, some 1] := by
  refine ⟨rfl, ?_, ?_, by decide⟩
  · intro c hc
    simp only [sampleU32, List.mem_cons, List.not_mem_nil, or_false] at hc
    subst hc
    exact ⟨trivial, by decide⟩
  · intro i hi
    have : i = 0 ∨ i = 1 := by omega
    rcases this with rfl | rfl <;> decide

/-! ## FLOAT / DOUBLE columns without NaN -/

/-- the values of a column of type `t` that are not NaN (all values, for a non-float type) -/
abbrev CleanVal (t : LeafType) : Type := { v : Val // valNaN t v = false }

/-- the same order on the non-NaN values -/
def typeOrdClean (t : LeafType) : VOrd (CleanVal t) where
  lt := fun a b => bufferLess t a.1 b.1
  cmp := fun a b => typeCompare t a.1 b.1
  lt_iff := fun a b => bufferLess_iff t a.1 b.1
  anti := fun a b => typeCompare_anti t a.1 b.1

/-- transitive for EVERY leaf type: `-0.0 = +0.0`, infinities and subnormals are in -/
theorem typeOrdClean_trans (t : LeafType) : (typeOrdClean t).Trans := by
  intro a b c h1 h2
  simp only [typeOrdClean] at *
  rw [typeCompare_eq_T t _ _ a.2 b.2] at h1
  rw [typeCompare_eq_T t _ _ b.2 c.2] at h2
  rw [typeCompare_eq_T t _ _ a.2 c.2]
  exact (C09.typeCompareT_lawful t).trans _ _ _ h1 h2

/-- **sorting a FLOAT / DOUBLE column buffer that holds no NaN** (any leaf type): sorted permutation -/
theorem sort_correct_off_nan (t : LeafType) {b0 : Buffer (CleanVal t)} {n : Nat} (h0 : b0.BInv n)
    (hs : ∀ sc ∈ b0.sorting, sc.col < b0.cols.length) (ops : List (Nat × Nat))
    (hfin : ∀ i, i + 1 < n → (b0.run ops).less (typeOrdClean t).lt (i + 1) i = false) :
    ((b0.run ops).rows n).Perm (b0.rows n) ∧
    ∀ i j, i < j → j < n →
      cmpRows (typeOrdClean t).cmp b0.sorting ((b0.run ops).row i) ((b0.run ops).row j) ≤ 0 :=
  sort_correct (typeOrdClean t) (typeOrdClean_trans t) h0 hs ops hfin

example : valNaN .double ⟨0x8000000000000000#64, []⟩ = false ∧ valNaN .double ⟨0xfff0000000000000#64, []⟩ = false ∧
    valNaN .float ⟨0x7fc00000#64, []⟩ = true := by decide

/-! ## the row comparator: `RowBuffer` -/

theorem cmpLex_anti {ρ : Type} : ∀ (cs : List (ρ → ρ → Int)), (∀ c ∈ cs, ∀ a b, c b a = - c a b) →
    ∀ a b, Compare.cmpLex cs b a = - Compare.cmpLex cs a b
  | [], _, _, _ => by simp [Compare.cmpLex]
  | c :: cs, h, a, b => by
    have h1 := h c (by simp) a b
    have ih := cmpLex_anti cs (fun c' hc' => h c' (by simp [hc'])) a b
    simp only [Compare.cmpLex]
    split <;> split <;> omega

/-- `compareRowsFuncOf` negates when its arguments are swapped, for EVERY list of sorting columns (NaN included) -/
theorem compareRowsFuncOf_anti (ks : List KeyCol) (a b : TRow) :
    compareRowsFuncOf ks b a = - compareRowsFuncOf ks a b := by
  rw [C09.compareRowsFuncOf_is_value_path]
  apply cmpLex_anti
  intro c hc x y
  obtain ⟨k, _, rfl⟩ := List.mem_map.mp hc
  have hb : ∀ u v : Val, (if k.desc then Compare.descending (typeCompare k.typ) else typeCompare k.typ) v u =
      - (if k.desc then Compare.descending (typeCompare k.typ) else typeCompare k.typ) u v := by
    intro u v
    have := typeCompare_anti k.typ u v
    split
    · simp only [Compare.descending]; omega
    · omega
  simp only [Compare.onCol, valueCmpWith]
  split
  · split <;> cases cell x k.index <;> cases cell y k.index <;>
      simp only [Compare.nullsFirst, Compare.nullsLast] <;> first | omega | exact hb _ _
  · exact hb _ _

/-- the comparator of compare.go over non-float key columns satisfies the `CmpOk` interface of the row buffer -/
theorem compareRowsFuncOf_cmpOk (ks : List KeyCol) (hf : ∀ k ∈ ks, k.typ.isFloat = false) :
    CmpOk (compareRowsFuncOf ks) :=
  ⟨fun a b => compareRowsFuncOf_anti ks a b, (C09.compareRowsFuncOf_total_preorder ks hf).trans⟩

/-- **`RowBuffer` sorted by `compareRowsFuncOf`** over any mix of non-float key columns: for any history of `Swap`
    calls that ends with `Less(i+1, i)` nowhere, a permutation of the rows written, pairwise ordered. Instance of
    `rowbuffer_sort_correct` with the comparator hypothesis discharged. -/
theorem rowbuffer_sort_correct_typed (ks : List KeyCol) (hf : ∀ k ∈ ks, k.typ.isFloat = false)
    (b0 : RowBuf TRow) (ops : List (Nat × Nat))
    (hfin : ∀ i, i + 1 < (b0.run ops).rows.length → (b0.run ops).less (compareRowsFuncOf ks) (i + 1) i = false) :
    (b0.run ops).rows.Perm b0.rows ∧ (b0.run ops).rows.Pairwise (fun a b => compareRowsFuncOf ks a b ≤ 0) :=
  rowbuffer_sort_correct _ (compareRowsFuncOf_cmpOk ks hf) b0 ops hfin

example : (∀ k ∈ C09.sampleStrKey, k.typ.isFloat = false) ∧
    ((RowBuf.mk (C09.sampleStrInputs.flatten)).run [(1, 2)]).rows.Pairwise
      (fun a b => compareRowsFuncOf C09.sampleStrKey a b ≤ 0) := by decide

/-! ## `Ranked`: on the rows written, not on the value type -/

/-- For BYTE_ARRAY / STRING keys no integer rank represents `Type.Compare` on the whole value type: the strings
    "", "\0", "\0\0", … increase without bound below "\x01". So `Ranked (typeCompare .string) rank`, the hypothesis
    the `SortingWriter` theorems of Props/C10.lean carry, is UNSATISFIABLE for string keys as stated there … -/
theorem no_integer_rank_for_byte_strings : ¬ ∃ rank : Val → Int, Ranked (typeCompare .string) rank := by
  rintro ⟨rank, hr⟩
  let z : Nat → Val := fun n => ⟨0#64, List.replicate n 0⟩
  have hlt : ∀ n, bytesCompare (List.replicate n 0) (List.replicate (n + 1) 0) = -1 := by
    intro n; induction n with
    | zero => rfl
    | succ n ih => simpa [List.replicate_succ, bytesCompare] using ih
  have hone : ∀ n, bytesCompare (List.replicate n 0) [1] = -1 := by
    intro n; cases n <;> simp [List.replicate_succ, bytesCompare]
  have hstep : ∀ n, rank (z n) + 1 ≤ rank (z (n + 1)) := by
    intro n
    have h1 : typeCompare .string (z n) (z (n + 1)) = -1 := hlt n
    have h2 := hr.le_iff (z (n + 1)) (z n)
    have h3 := hr.anti (z n) (z (n + 1))
    omega
  have hgrow : ∀ n, rank (z 0) + n ≤ rank (z n) := by
    intro n; induction n with
    | zero => simp
    | succ n ih => have := hstep n; omega
  have hbound : ∀ n, rank (z n) ≤ rank ⟨0#64, [1]⟩ := by
    intro n
    have h1 : typeCompare .string (z n) ⟨0#64, [1]⟩ = -1 := hone n
    exact (hr.le_iff _ _).mp (by omega)
  have := hgrow (rank ⟨0#64, [1]⟩ - rank (z 0) + 1).toNat
  have := hbound (rank ⟨0#64, [1]⟩ - rank (z 0) + 1).toNat
  omega

/-- … and it holds, for EVERY lawful and exactly antisymmetric comparator, on the finite set of rows written, with
    `Compare.rankIn` (how many of the rows lie strictly below) as the rank -/
theorem ranked_on_rows_written {R : Type} {cmp : R → R → Int} (hl : Compare.Lawful cmp)
    (ha : ∀ a b, cmp b a = - cmp a b) (L : List R) :
    Ranked (fun a b : { r : R // r ∈ L } => cmp a.1 b.1) (fun a => (Compare.rankIn cmp L a.1 : Int)) := by
  refine ⟨?_, fun a b => ha a.1 b.1⟩
  intro a b
  obtain ⟨h1, h2, h3⟩ := Compare.rank_sign hl a.2 b.2
  constructor
  · intro h
    by_cases h0 : cmp a.1 b.1 = 0
    · have := h2.mp h0; omega
    · have := h1.mp (by omega); omega
  · intro h
    by_cases h0 : 0 < cmp a.1 b.1
    · have := h3.mp h0; omega
    · omega

/-- **SortingWriter on typed keys**: `L` = the rows handed to the writer, key columns of any non-float leaf types.
    For every split into runs, every sorter of the runs that yields sorted permutations, every refill pattern and
    positive batch sizes, the output is a permutation of the rows written, pairwise ordered by `compareRowsFuncOf`.
    Instance of `sorting_writer_correct`; the `Ranked` hypothesis is discharged. -/
theorem sorting_writer_correct_typed (ks : List KeyCol) (hf : ∀ k ∈ ks, k.typ.isFloat = false) (L : List TRow)
    (sortRun : List { r : TRow // r ∈ L } → List { r : TRow // r ∈ L })
    (hsort : ∀ run, (sortRun run).Perm run ∧ (sortRun run).Pairwise (fun a b => compareRowsFuncOf ks a.1 b.1 ≤ 0))
    (runs : List (List { r : TRow // r ∈ L })) (refills : List (List Nat)) (batches : List Nat)
    (hpos : ∀ b ∈ batches, 1 ≤ b)
    (hlen : (PqModel.Merge.tagInputs (keysOf (fun a : { r : TRow // r ∈ L } =>
      (Compare.rankIn (compareRowsFuncOf ks) L a.1 : Int)) (runs.map sortRun))).flatten.length < batches.length) :
    let rank := fun a : { r : TRow // r ∈ L } => (Compare.rankIn (compareRowsFuncOf ks) L a.1 : Int)
    let ss := runs.map sortRun
    let out := untag ss ((PqModel.Merge.Reader.new (PqModel.Merge.tagInputs (keysOf rank ss)) refills).session batches).1.flatten
    out.Perm runs.flatten ∧ out.Pairwise (fun a b => compareRowsFuncOf ks a.1 b.1 ≤ 0) :=
  sorting_writer_correct _ _
    (ranked_on_rows_written (C09.compareRowsFuncOf_total_preorder ks hf) (compareRowsFuncOf_anti ks) L)
    sortRun hsort runs refills batches hpos hlen

/-- … with `DropDuplicatedRows`: exactly one row per key -/
theorem sorting_writer_dedupe_correct_typed (ks : List KeyCol) (hf : ∀ k ∈ ks, k.typ.isFloat = false) (L : List TRow)
    (sortRun : List { r : TRow // r ∈ L } → List { r : TRow // r ∈ L })
    (hsort : ∀ run, (sortRun run).Perm run ∧ (sortRun run).Pairwise (fun a b => compareRowsFuncOf ks a.1 b.1 ≤ 0))
    (runs : List (List { r : TRow // r ∈ L })) (refills : List (List Nat)) (batches : List Nat)
    (hpos : ∀ b ∈ batches, 1 ≤ b)
    (hlen : (PqModel.Merge.tagInputs (keysOf (fun a : { r : TRow // r ∈ L } =>
        (Compare.rankIn (compareRowsFuncOf ks) L a.1 : Int))
      (runs.map (fun run => dedupRun (fun a b : { r : TRow // r ∈ L } => compareRowsFuncOf ks a.1 b.1) none
        (sortRun run))))).flatten.length < batches.length) :
    let cmp := fun a b : { r : TRow // r ∈ L } => compareRowsFuncOf ks a.1 b.1
    let rank := fun a : { r : TRow // r ∈ L } => (Compare.rankIn (compareRowsFuncOf ks) L a.1 : Int)
    let ss := runs.map (fun run => dedupRun cmp none (sortRun run))
    let out := untag ss (PqModel.Merge.dedupeReader none
      ((PqModel.Merge.Reader.new (PqModel.Merge.tagInputs (keysOf rank ss)) refills).session batches).1)
    out.Pairwise (fun a b => cmp a b < 0) ∧ (∀ y ∈ out, y ∈ runs.flatten) ∧
      (∀ x ∈ runs.flatten, ∃ y ∈ out, cmp x y = 0) :=
  sorting_writer_dedupe_correct _ _
    (ranked_on_rows_written (C09.compareRowsFuncOf_total_preorder ks hf) (compareRowsFuncOf_anti ks) L)
    sortRun hsort runs refills batches hpos hlen

example : Ranked (fun a b : { r : TRow // r ∈ C09.sampleStrInputs.flatten } => compareRowsFuncOf C09.sampleStrKey a.1 b.1)
    (fun a => (Compare.rankIn (compareRowsFuncOf C09.sampleStrKey) C09.sampleStrInputs.flatten a.1 : Int)) :=
  ranked_on_rows_written (C09.compareRowsFuncOf_total_preorder _ (by decide)) (compareRowsFuncOf_anti _) _

/-! ## what remains: NaN -/

/-- with NaN the value order of a FLOAT / DOUBLE column is a `VOrd` (the theorems up to `sort_adjacent` apply) but it
    is NOT transitive: 2.0 ≤ NaN ≤ 1.0 and 2.0 > 1.0 -/
theorem nan_value_order_is_not_transitive : ¬ (typeOrd .float).Trans ∧ ¬ (typeOrd .double).Trans := by
  constructor
  · intro h
    exact absurd (h ⟨0x40000000#64, []⟩ ⟨0x7fc00000#64, []⟩ ⟨0x3f800000#64, []⟩ (by decide) (by decide)) (by decide)
  · intro h
    have h1 : (typeOrd .double).cmp ⟨0x4000000000000000#64, []⟩ ⟨0x7ff8000000000000#64, []⟩ ≤ 0 := by decide
    have h2 : (typeOrd .double).cmp ⟨0x7ff8000000000000#64, []⟩ ⟨0x3ff0000000000000#64, []⟩ ≤ 0 := by decide
    have h3 : (typeOrd .double).cmp ⟨0x4000000000000000#64, []⟩ ⟨0x3ff0000000000000#64, []⟩ = 1 := by decide +kernel
    have := h _ _ _ h1 h2
    omega

/-- … and the conclusion of `sort_correct` fails: a FLOAT column holding 2.0, NaN, 1.0 has no adjacent inversion
    (`Less(i+1, i)` is false everywhere: the state in which an insertion sort stops without a single `Swap`), yet
    row 0 is above row 2 by the comparator. Sorting a float column that holds NaN is outside C10. -/
theorem nan_column_without_inversion_is_not_sorted :
    let b : Buffer Val :=
      { cols := [.req [⟨0x40000000#64, []⟩, ⟨0x7fc00000#64, []⟩, ⟨0x3f800000#64, []⟩]], sorting := [⟨0, false, false⟩] }
    (∀ i, i + 1 < 3 → b.less (bufferLess .float) (i + 1) i = false) ∧
    0 < cmpRows (typeCompare .float) b.sorting (b.row 0) (b.row 2) := by
  refine ⟨?_, by decide⟩
  intro i hi
  have : i = 0 ∨ i = 1 := by omega
  rcases this with rfl | rfl <;> decide

end PqModel.Props.C10
