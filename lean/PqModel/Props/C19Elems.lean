import PqModel.VariantElemsLemmas

/-! # C19 (round 6) — element groups of a typed list in the columnar VariantReader

`skipTo`, `elemsLoop`, `listOffsetsFrom` are MIRRORS of the `LocTypedList` branch of
`VariantCursor.processElements` (variant_column_reader.go:982-1024); `cnt`, `elemsSpec`, `incFrom` are
SPEC. `startsP` / `E ++ [n]` are the `starts` arrays of the presence leaf at the depth of the list
cursor and one level deeper (strictly increasing, see `slotOf_is_group_offset` in C19Window). -/
namespace PqModel.Props.C19Elems
open PqModel.VariantWindow

/-- The two-pointer walk is history-free: whatever entries came before (null lists, empty lists
    whose single slot is skipped later, entries of other kinds), an entry of slot group `g` gets
    exactly the deeper-level groups `cnt E startsP[g] .. cnt E startsP[g+1]` when its list is present,
    none otherwise, and a group beyond the presence column's group count (corrupt file) gets none. -/
theorem elements_of_entry_are_its_own_groups (startsP E : List Nat) (n : Nat) (present : Nat → Bool)
    (hP : startsP.Pairwise (· < ·)) (hE : E.Pairwise (· < ·)) (es : List (Option Nat)) (h0 : incFrom 0 es) :
    elemsLoop startsP (E ++ [n]) present es 0 = elemsSpec startsP E present es :=
  elemsLoop_spec startsP E n present hP hE es 0 0 h0 (fun _ _ _ => Nat.zero_le _)

/-- ... and those groups are the ones whose first slot lies inside the entry's slot range
    `[startsP[g], startsP[g+1])`. -/
theorem element_groups_lie_in_slot_range (E : List Nat) (hE : E.Pairwise (· < ·)) (gs ge i : Nat)
    (hi : i < E.length) :
    i ∈ List.range' (cnt E gs) (cnt E ge - cnt E gs) ↔ (gs ≤ E.getD i 0 ∧ E.getD i 0 < ge) :=
  mem_range_cnt E hE gs ge i hi

/-- rows: [a,b] / null list / [] / [c]; slots 0..4, reps 0,1,0,0,0; the null and the empty list own one
    slot each and no element -/
example : incFrom 0 [some 0, some 1, some 2, some 3] ∧
    elemsLoop [0, 2, 3, 4, 5] [0, 1, 2, 3, 4, 5] (fun s => s == 0 || s == 4) [some 0, some 1, some 2, some 3] 0
      = [[0, 1], [], [], [4]] := ⟨by simp [incFrom], by decide⟩

end PqModel.Props.C19Elems
