import PqModel.AadFile
import PqModel.Props.C18

/-! # C18 — the modules the reader opens from footer metadata (OpenFile, page index, bloom filter)

Theorems over the MIRROR `AadFile.frun`, which routes every opening through the call-site table
`Aad.sites` (re-extracted from the source on every run): whatever calls a program makes, every
module is opened with the arguments of its slot; with the writer state machine and the ideal
AEAD: it opens. Tied to the code by the `modules` sub-check (op `aad.frun`): real `OpenFile`,
`ColumnIndex()`, `OffsetIndex()`, `BloomFilter()` histories with one module damaged fail at
exactly the call at which the mirror opens that module. -/
namespace PqModel.Props.C18File
open PqModel.Aad PqModel.Props.C18

/-- every call site the mirror goes through exists in the table (so `evAt` never drops an opening) -/
theorem sites_cover_file_reader :
    [("file.go:OpenFile", ModType.footer), ("file.go:File.decryptAllColumnMetadata", .columnMeta),
     ("file.go:File.ReadPageIndex", .columnIndex), ("file.go:File.ReadPageIndex", .offsetIndex),
     ("file.go:FileColumnChunk.readColumnIndexFrom", .columnIndex), ("file.go:FileColumnChunk.readOffsetIndex", .offsetIndex),
     ("file.go:FileColumnChunk.readBloomFilter", .bloomHeader), ("file.go:FileColumnChunk.readBloomFilter", .bloomBits)].all
      (fun p => (sites.find? (fun s => s.fn == p.1 && s.t == p.2)).isSome) = true := by decide

/-- Whatever sequence of `OpenFile` (with or without `SkipPageIndex`), `ColumnIndex()`,
    `OffsetIndex()` and `BloomFilter()` calls, on whatever file (any number of row groups and
    chunks, any of them without column index, offset index, bloom filter or sealed metadata), every
    module opened is opened with the AAD arguments of the slot it stands in. -/
theorem file_reader_ordinals_agree (f : FFile) (ops : List FOp) :
    ∀ e ∈ (frun f ops).1.log, e.used = e.slot.used :=
  frun_good f ops

/-- a lazily read index is opened once: the second call opens nothing -/
theorem lazy_column_index_opened_once (f : FFile) (s : FSt) (rg col : Nat) :
    fstep f (fstep f s (.columnIndex rg col)) (.columnIndex rg col) = fstep f s (.columnIndex rg col) := by
  simp only [fstep]
  by_cases hp : (hasAt f rg col fun x => x.hasCI) = true <;> by_cases hm : (rg, col) ∈ s.ci <;> simp [hp, hm]

/-- non-vacuity: two row groups, the second chunk of each without column index (no bounds) and
    only chunk (1,0) with a bloom filter, plaintext-footer style sealed metadata everywhere:
    `OpenFile(SkipPageIndex)` opens footer and column metadata; the lazy calls open their own
    module once; a chunk without column index opens nothing -/
example :
    let ch (ci bloom : Bool) : FChunk := { sealedMeta := true, hasCI := ci, hasOI := true, hasBloom := bloom }
    let f : FFile := [[ch true false, ch false false], [ch true true, ch false false]]
    let out := frun f [.openFile true, .columnIndex 1 0, .columnIndex 1 0, .columnIndex 0 1, .bloom 1 0, .offsetIndex 0 1]
    out.2 = [5, 6, 6, 6, 8, 9] ∧
    out.1.log.map (·.slot) = [.footer, .columnMeta 0 0, .columnMeta 0 1, .columnMeta 1 0, .columnMeta 1 1,
      .columnIndex 1 0, .bloomHeader 1 0, .bloomBits 1 0, .offsetIndex 0 1] := by decide

/-- … and an eager `OpenFile` opens every index present, after which the lazy calls open nothing -/
example :
    let ch (ci : Bool) : FChunk := { sealedMeta := false, hasCI := ci, hasOI := true, hasBloom := false }
    let f : FFile := [[ch true, ch false]]
    let out := frun f [.openFile false, .columnIndex 0 0, .offsetIndex 0 1]
    out.2 = [4, 4, 4] ∧
    out.1.log.map (·.slot) = [.footer, .columnIndex 0 0, .offsetIndex 0 0, .offsetIndex 0 1] := by decide

section aead
variable {K N C : Type} (A : AEAD K N C)

/-- a module sealed by the writer (any write history) in some slot is opened by the reader paths
    outside the page reader, in any history of calls, and yields the plaintext -/
theorem file_api_roundtrip (hI : Ideal A) (cfg : WCfg) (wops : List WOp)
    (f : FFile) (ops : List FOp) (pfx : Bytes) (fuOf : Nat → Bytes)
    (ew : WEv) (hw : ew ∈ wclose cfg (wrun cfg wops)) (er : Ev) (hr : er ∈ (frun f ops).1.log)
    (hslot : ew.slot = er.slot) (k : K) (n : N) (p : Bytes) :
    openModule A k (er.used.aad pfx (fuOf (wrun cfg wops).gen)) (sealModule A k n (ew.aad pfx fuOf) p) = some p := by
  rw [writer_aad_is_slot_aad cfg wops pfx fuOf ew hw, file_reader_ordinals_agree f ops er hr, hslot]
  exact hI.open_seal k n _ p

end aead

example : Ideal symAEAD := symAEAD_ideal

end PqModel.Props.C18File
