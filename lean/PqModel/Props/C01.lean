import PqModel.Dremel
import PqModel.Pages
import PqModel.FileModel
import PqModel.FileCodecs
import PqModel.Props.C04Rle
import PqModel.Props.C04Plain
import PqModel.Props.C04Delta
import PqModel.Props.C01Codecs

/-! # C01 — Write then read returns exactly the rows that were written

The composition theorem `roundtrip` is stated over the nondeterministic writer model and the reader
model of `PqModel/FileModel.lean`; the codecs are parameters with round-trip hypotheses
(`ColCodec.OK`) which `int64Codec_ok` discharges from the C04 theorems for an INT64 column
(RLE levels, PLAIN or DELTA_BINARY_PACKED values, PLAIN dictionary page, RLE_DICTIONARY indexes). -/
namespace PqModel.Props.C01
open PqModel.Dremel PqModel.Pages PqModel.FileModel PqModel.Plain

/-- shredding a row and assembling it back is the identity (every schema, every conforming value) -/
theorem row_roundtrip (n : Node) (v : Val) (hwf : wfN n = true) (hc : confN n v = true) :
    asmN n 0 0 (shredN n 0 0 0 v) = v :=
  assemble_shred n v hwf hc

/-- Cutting a column stream into pages at ANY list of cut positions and concatenating the pages
    gives the stream back: page and row-group boundaries (whatever heuristic chose them) never
    change the data. -/
theorem pages_concat {α} (xs : List α) (cuts : List Nat) : (cutAt cuts xs).flatten = xs :=
  cutAt_flatten cuts xs

/-- A column whose pages are encoded with per-page codecs `enc`/`dec` that round-trip reads back. -/
theorem column_roundtrip {α β} (enc : List α → β) (dec : β → Option (List α))
    (hrt : ∀ p, dec (enc p) = some p) (xs : List α) (cuts : List Nat) :
    readPages dec ((cutAt cuts xs).map enc) = some xs :=
  readPages_write enc dec hrt xs cuts

/-! ## supporting lemmas of the composition -/

/-- Growing dictionary: the indexes handed out for a batch `xs` (dictionary `d` before the batch,
    first-occurrence order), looked up in ANY later state `D` of the dictionary — after any number of
    further batches, `D` extends the state right after this batch — give `xs` back. -/
theorem dict_lookup_index (d xs D : List Nat) (h : (insertAll d xs).1 <+: D) :
    lookupAll D (insertAll d xs).2 = some xs :=
  lookup_insertAll d xs D h
example : (insertAll [5] [7, 5, 7, 9]).1 <+: (insertAll (insertAll [5] [7, 5, 7, 9]).1 [1, 9]).1 := by decide

/-- The mixed dictionary/plain column chunk: for ANY page cuts and ANY number of leading
    dictionary-encoded pages (the column falls back to its value encoding for the rest of the chunk,
    at the latest when the dictionary would exceed `dictLimit`), a column chunk reads back as the
    stream it was written from. -/
theorem chunk_roundtrip {β γ} (c : ColCodec β γ) (B : Nat) (hc : c.OK B) (lv : Nat × Nat)
    (h1 : lv.1 ≤ B) (h2 : lv.2 ≤ B) (strict : Bool) (cfg : ChunkCfg) (s : List Triple)
    (hs : StreamOK c lv s) (ha : strict = true → (cutAt cfg.cuts s).all pageAligned = true) :
    readChunk strict c lv (writeChunk c lv cfg s) = some s :=
  readChunk_writeChunk hc h1 h2 strict cfg s hs ha

/-- Splitting a concatenation of per-row segments back at the `rep = 0` boundaries returns the
    segments. `SegCols m 0 d s`: `s` has `m` columns, each non-empty, starting with `rep = 0` and
    with no other `rep = 0` — what `shredN` produces for a row (`shredN_spec`). -/
theorem splitRows_concat (m d : Nat) (hm : 0 < m) (segs : List Cols) (h : ∀ s ∈ segs, SegCols m 0 d s) :
    splitRows (joinSegs m segs) = segs :=
  splitRows_joinSegs hm segs h
example : SegCols 2 0 0 [[⟨some 1, 0, 0⟩], [⟨some 2, 0, 1⟩, ⟨none, 1, 0⟩]] :=
  ⟨rfl, by
    intro c hc
    simp only [List.mem_cons, List.not_mem_nil, or_false] at hc
    rcases hc with rfl | rfl
    · exact ⟨_, _, rfl, rfl, Nat.le_refl _, by simp⟩
    · exact ⟨_, _, rfl, rfl, Nat.zero_le _, by simp⟩⟩

/-- The partition into row groups is invisible: concatenating per column the streams of the row
    groups gives the streams of all the rows. -/
theorem rowgroups_concat (m : Nat) (gss : List (List Cols)) (h : ∀ gs ∈ gss, ∀ s ∈ gs, s.length = m) :
    joinSegs m (gss.map (joinSegs m)) = joinSegs m gss.flatten :=
  joinSegs_flatten m gss h
example : ∀ gs ∈ ([[[[⟨some 1, 0, 0⟩]]], [], [[[⟨none, 0, 0⟩]], [[⟨some 3, 0, 0⟩]]]] : List (List Cols)),
    ∀ s ∈ gs, s.length = 1 := by
  decide

/-- Shredding a conforming value keeps every level within the column's maxima, and a value is
    present exactly at the maximum definition level (what lets a reader place the non-null values). -/
theorem shred_levels (n : Node) (v : Val) (hc : confN n v = true) :
    Pairs LvOK (levelsN n 0 0) (shredN n 0 0 0 v) :=
  shredN_levels n 0 0 0 v (Nat.le_refl _) hc

/-! ## the composition theorem -/

/-- **C01, model level.** For every well-formed schema `n`, rows conforming to it, partition of the
    rows into row groups (`gs`: row counts), per row group and column ANY page cuts at row boundaries
    and ANY number of leading dictionary pages before the fallback (`gs[i].col j`), and per-column
    codecs `cd j` (level codec, value codec, dictionary page codec, index codec, compressor)
    satisfying the round-trip hypotheses `ColCodec.OK` on the schema's levels (`≤ B`) and on the
    column's value domain: reading the written file returns exactly the rows (as `Val`: nulls,
    empty lists, nesting). The reader rejects pages that do not start at a row boundary. -/
theorem roundtrip {β γ} (n : Node) (cd : Nat → ColCodec β γ) (B : Nat) (gs : List GroupCfg) (rows : List Val)
    (hwf : wfN n = true) (hconf : ∀ v ∈ rows, confN n v = true)
    (hB : levelsBounded B n = true) (hcd : ∀ j, j < leavesN n → (cd j).OK B)
    (hdom : ∀ v ∈ rows, valsIn (fun j => (cd j).okV) 0 (shredN n 0 0 0 v) = true)
    (hcuts : cutsAligned n gs rows = true) :
    readFile n cd (writeFile n cd gs rows) = some rows :=
  readFileWith_writeFile true n cd B gs rows hwf hconf hB hcd hdom (fun _ => hcuts)

/-- The same for a reader that does not look at page alignment: then the cuts may be ANY positions
    (the row-boundary discipline of the writer is not needed for the round trip itself). -/
theorem roundtrip_any_cuts {β γ} (n : Node) (cd : Nat → ColCodec β γ) (B : Nat) (gs : List GroupCfg)
    (rows : List Val) (hwf : wfN n = true) (hconf : ∀ v ∈ rows, confN n v = true)
    (hB : levelsBounded B n = true) (hcd : ∀ j, j < leavesN n → (cd j).OK B)
    (hdom : ∀ v ∈ rows, valsIn (fun j => (cd j).okV) 0 (shredN n 0 0 0 v) = true) :
    readFileWith false n cd (writeFile n cd gs rows) = some rows :=
  readFileWith_writeFile false n cd B gs rows hwf hconf hB hcd hdom (fun h => by simp at h)

/-! ## the hypotheses are satisfiable: concrete C04 codecs -/

/-- The concrete INT64 column codec built from the C04 models satisfies every codec hypothesis, for
    schemas whose levels fit a byte: levels by `rle_roundtrip_levels`, PLAIN values and the dictionary
    page by `plain_roundtrip_int64`, DELTA_BINARY_PACKED values by `delta64_roundtrip`, dictionary
    indexes (below `2^32`) by `rle_roundtrip_dict`. Only the compressor stays a hypothesis (C20). -/
theorem int64Codec_ok (delta lvComp : Bool) (comp : List Nat → List Nat) (decomp : List Nat → Option (List Nat))
    (hcmp : ∀ b, decomp (comp b) = some b) : (int64Codec delta lvComp comp decomp).OK 255 := by
  have hplain : ∀ cnt xs, cnt = xs.length → (∀ x ∈ xs, isInt64 x = true) →
      plainInt64Dec cnt (plainInt64Enc xs) = some xs := by
    intro cnt xs hcnt hx
    have hb : ((encFixedBV 8 (xs.map (BitVec.ofNat 64))).map UInt8.toNat).map UInt8.ofNat =
        encFixedBV 8 (xs.map (BitVec.ofNat 64)) := by
      rw [List.map_map]; exact map_id_of (fun b _ => by simp)
    have hv : (xs.map (BitVec.ofNat 64)).map BitVec.toNat = xs := by
      rw [List.map_map]
      exact map_id_of (fun x hx' => by
        have := hx x hx'
        simp only [isInt64, decide_eq_true_eq] at this
        simp [BitVec.toNat_ofNat, Nat.mod_eq_of_lt this])
    simp only [plainInt64Dec, plainInt64Enc, hb, C04Plain.plain_roundtrip_int64, Option.map_some, hv,
      Option.bind_some, hcnt, if_true]
  have hdelta : ∀ cnt xs, cnt = xs.length → (∀ x ∈ xs, isInt64 x = true) →
      deltaInt64Dec cnt (deltaInt64Enc xs) = some xs := by
    intro cnt xs hcnt hx
    have hv : (xs.map (BitVec.ofNat 64)).map BitVec.toNat = xs := by
      rw [List.map_map]
      exact map_id_of (fun x hx' => by
        have := hx x hx'
        simp only [isInt64, decide_eq_true_eq] at this
        simp [BitVec.toNat_ofNat, Nat.mod_eq_of_lt this])
    simp only [deltaInt64Dec, deltaInt64Enc, C04Delta.delta64_roundtrip, List.length_map, hcnt, if_true, hv]
  refine ⟨?_, ?_, ?_, ?_, hcmp, ?_⟩
  · intro m xs hm hx
    have hw : Rle.maxLen [m] ≤ 8 := Rle.maxLen_le [m] 8 (by
      intro x hx'
      simp only [List.mem_singleton] at hx'
      subst hx'
      exact Nat.lt_of_le_of_lt hm (by decide))
    have hlt : ∀ x ∈ xs, x < 2 ^ Rle.maxLen [m] := fun x hx' =>
      Nat.lt_of_le_of_lt (hx x hx') (Rle.lt_pow_maxLen [m] m (by simp))
    have h := C04Rle.rle_roundtrip_levels (Rle.maxLen [m]) xs xs.length hw hlt (Nat.le_refl _)
    simp only [int64Codec, rleEncL, rleDecL]
    cases he : Rle.encodeLevels (Rle.maxLen [m]) xs with
    | error e => rw [he] at h; simp [bind, Except.bind] at h
    | ok bs =>
      rw [he] at h
      simp only [bind, Except.bind, List.take_length] at h
      simp only [h]
  · intro xs hx
    cases delta with
    | false => exact hplain _ xs rfl hx
    | true => exact hdelta _ xs rfl hx
  · intro xs hx
    exact hplain _ xs rfl hx
  · intro xs hx
    have h := C04Rle.rle_roundtrip_dict xs xs.length hx (Nat.le_refl _)
    simp only [int64Codec, rleIdxEnc, rleIdxDec]
    cases he : Rle.encodeDict xs with
    | error e => rw [he] at h; simp [bind, Except.bind] at h
    | ok bs =>
      rw [he] at h
      simp only [bind, Except.bind, List.take_length] at h
      simp only [h]
  · intro p
    cases lvComp <;> simp [int64Codec, packSections, unpackSections, hcmp]
example : ∀ b : List Nat, (some : List Nat → Option (List Nat)) (id b) = some b := fun _ => rfl

/-- `roundtrip` with every codec hypothesis discharged by the C04 theorems: files of INT64 columns
    (column `j` DELTA_BINARY_PACKED when `delta j`, PLAIN otherwise; dictionary with fallback as the
    cut/fallback choices say), RLE levels, any lossless compressor. -/
theorem roundtrip_int64 (n : Node) (delta : Nat → Bool) (lvComp : Bool) (comp : List Nat → List Nat)
    (decomp : List Nat → Option (List Nat)) (hcmp : ∀ b, decomp (comp b) = some b)
    (gs : List GroupCfg) (rows : List Val)
    (hwf : wfN n = true) (hconf : ∀ v ∈ rows, confN n v = true) (hB : levelsBounded 255 n = true)
    (hdom : ∀ v ∈ rows, valsIn (fun _ => isInt64) 0 (shredN n 0 0 0 v) = true)
    (hcuts : cutsAligned n gs rows = true) :
    readFile n (fun j => int64Codec (delta j) lvComp comp decomp) (writeFile n (fun j => int64Codec (delta j) lvComp comp decomp) gs rows) =
      some rows :=
  roundtrip n _ 255 gs rows hwf hconf hB (fun j _ => int64Codec_ok (delta j) lvComp comp decomp hcmp) hdom hcuts

/-! ### non-vacuity: a nested schema (required, optional, repeated group with an optional leaf), three
rows with nulls, an empty list and the extreme INT64 pattern, two row groups, two pages per chunk in
the first, the first page dictionary-encoded and the second after the fallback -/
section Witness
def witnessSchema : Node :=
  .group (.cons .leaf (.cons (.opt .leaf) (.cons (.rpt (.group (.cons .leaf (.cons (.opt .leaf) .nil)))) .nil)))
def witnessRows : List Val :=
  [ .struct [.prim 1, .none, .list []],
    .struct [.prim 2, .some (.prim 7),
      .list [.struct [.prim 3, .none], .struct [.prim 4, .some (.prim (2 ^ 64 - 1))]]],
    .struct [.prim 2, .some (.prim 7), .list [.struct [.prim 5, .some (.prim 0)]]] ]
def witnessGroups : List GroupCfg := [{ rows := 2, col := fun j => ⟨[1], j⟩ }]

example : wfN witnessSchema = true ∧ (∀ v ∈ witnessRows, confN witnessSchema v = true) ∧
    levelsBounded 255 witnessSchema = true ∧
    (∀ v ∈ witnessRows, valsIn (fun _ => isInt64) 0 (shredN witnessSchema 0 0 0 v) = true) ∧
    cutsAligned witnessSchema witnessGroups witnessRows = true := by decide

/-- all hypotheses at once: the instantiated theorem applies to the witness (odd columns DELTA, even
    columns PLAIN, uncompressed v2-style layout) -/
example : readFile witnessSchema (fun j => int64Codec (j % 2 == 1) false id some)
    (writeFile witnessSchema (fun j => int64Codec (j % 2 == 1) false id some) witnessGroups witnessRows) =
      some witnessRows :=
  roundtrip_int64 witnessSchema (fun j => j % 2 == 1) false id some (fun _ => rfl) witnessGroups witnessRows
    (by decide) (by decide) (by decide) (by decide) (by decide)

/-- a cut inside a row is rejected by the well-formedness predicate -/
example : cutsAligned witnessSchema [{ rows := 2, col := fun _ => ⟨[1, 1], 0⟩ }] witnessRows = false := by
  decide
end Witness

/-! ## every physical type × encoding, both data page layouts -/

/-- The composition theorem for codecs with page-size limits of the format: `ColCodec.OKOn` asks the
    value round trip only for admissible page value lists (`pk j`) and the storage round trip only
    for admissible level sections (`sk j`); `pagesOK` (decidable: it runs the writer's cuts) says
    every page the writer produces is admissible. `roundtrip` is the case without limits. -/
theorem roundtrip_limits {β γ} (n : Node) (cd : Nat → ColCodec β γ) (B : Nat) (nk : Nat → Bool)
    (pk : Nat → List Nat → Bool)
    (sk : Nat → β → β → Bool) (gs : List GroupCfg) (rows : List Val)
    (hwf : wfN n = true) (hconf : ∀ v ∈ rows, confN n v = true)
    (hB : levelsBounded B n = true) (hcd : ∀ j, j < leavesN n → (cd j).OKOn B nk (pk j) (sk j))
    (hdom : ∀ v ∈ rows, valsIn (fun j => (cd j).okV) 0 (shredN n 0 0 0 v) = true)
    (hpages : pagesOK n cd nk pk sk gs rows = true)
    (hcuts : cutsAligned n gs rows = true) :
    readFile n cd (writeFile n cd gs rows) = some rows :=
  readFileWith_writeFile_on true n cd B nk pk sk gs rows hwf hconf hB hcd hdom hpages (fun _ => hcuts)

/-- **C01 with every codec hypothesis but the compressor discharged, for every column type.**
    Column `j` has physical type and value encoding `cols j` — any combination parquet-go accepts:
    BOOLEAN {PLAIN, RLE}, INT32/INT64 {PLAIN, DELTA_BINARY_PACKED, BYTE_STREAM_SPLIT}, INT96 {PLAIN},
    FLOAT/DOUBLE {PLAIN, BYTE_STREAM_SPLIT}, BYTE_ARRAY {PLAIN, DELTA_LENGTH_BYTE_ARRAY,
    DELTA_BYTE_ARRAY}, FIXED_LEN_BYTE_ARRAY(n) {PLAIN, DELTA_BYTE_ARRAY, BYTE_STREAM_SPLIT} — with a
    PLAIN dictionary page and RLE_DICTIONARY indexes while the column is dictionary-encoded, RLE
    levels, and the data page v1 body framing (`v1 = true`: both level sections behind 4-byte
    lengths inside the one compressed body) or the v2 layout. For every well-formed schema with
    levels `≤ 255`, conforming rows whose leaves lie in the columns' domains, row-group partition,
    page cuts at row boundaries, fallback points, and lossless compressor, provided every written
    page is admissible (`pagesOK`: RLE boolean bodies and v1 level sections below 4 GiB):
    reading the written file returns exactly the rows. -/
theorem roundtrip_typed (n : Node) (cols : Nat → ColSpec) (v1 : Bool) (comp : List Nat → List Nat)
    (decomp : List Nat → Option (List Nat)) (hcmp : ∀ b, decomp (comp b) = some b)
    (gs : List GroupCfg) (rows : List Val)
    (hwf : wfN n = true) (hconf : ∀ v ∈ rows, confN n v = true) (hB : levelsBounded 255 n = true)
    (hsup : ∀ j, j < leavesN n → (cols j).supported = true)
    (hdom : ∀ v ∈ rows, valsIn (fun j => (cols j).val.okV) 0 (shredN n 0 0 0 v) = true)
    (hpages : pagesOK n (typedCodec n cols v1 comp decomp) (fun _ => true) (fun j => (cols j).val.okP)
      (fun j => okSOf v1 ((levelsN n 0 0).getD j (0, 0))) gs rows = true)
    (hcuts : cutsAligned n gs rows = true) :
    readFile n (typedCodec n cols v1 comp decomp) (writeFile n (typedCodec n cols v1 comp decomp) gs rows) =
      some rows :=
  roundtrip_limits n _ 255 _ _ _ gs rows hwf hconf hB
    (fun j hj =>
      have h := C01Codecs.valCodecOf_ok (cols j) (hsup j hj)
      C01Codecs.mkCodec_ok _ _ h.1 h.2.1 h.2.2.1 h.2.2.2 v1 _ comp decomp hcmp)
    hdom hpages hcuts

/-! ### non-vacuity: the witness schema with a BOOLEAN/RLE column, an optional BYTE_ARRAY/DELTA_BYTE_ARRAY
column and, in the repeated group, a FIXED_LEN_BYTE_ARRAY(2)/BYTE_STREAM_SPLIT and an optional
DOUBLE/PLAIN column; data page v1 framing -/
section TypedWitness
def typedCols (j : Nat) : ColSpec :=
  match j with
  | 0 => ⟨.boolean, .rle⟩
  | 1 => ⟨.byteArray, .deltaByteArray⟩
  | 2 => ⟨.flba 2, .byteStreamSplit⟩
  | _ => ⟨.double, .plain⟩
def typedRows : List Val :=
  [ .struct [.prim 1, .none, .list []],
    .struct [.prim 0, .some (.prim (natOfBytes [0x61, 0x62])),
      .list [.struct [.prim 0xffff, .none], .struct [.prim 4, .some (.prim 0x7ff8000000000001)]]],
    .struct [.prim 1, .some (.prim (natOfBytes [0x61, 0x62, 0x63])), .list [.struct [.prim 5, .some (.prim 0)]]] ]

example : wfN witnessSchema = true ∧ (∀ v ∈ typedRows, confN witnessSchema v = true) ∧
    levelsBounded 255 witnessSchema = true ∧
    (∀ j, j < leavesN witnessSchema → (typedCols j).supported = true) ∧
    (∀ v ∈ typedRows, valsIn (fun j => (typedCols j).val.okV) 0 (shredN witnessSchema 0 0 0 v) = true) ∧
    cutsAligned witnessSchema witnessGroups typedRows = true := by
  refine ⟨by decide, by decide, by decide, ?_, by decide +kernel, by decide⟩
  intro j hj
  have : j < 4 := hj
  match j, this with
  | 0, _ => decide
  | 1, _ => decide
  | 2, _ => decide
  | 3, _ => decide

example : pagesOK witnessSchema (typedCodec witnessSchema typedCols true id some) (fun _ => true)
    (fun j => (typedCols j).val.okP)
    (fun j => okSOf true ((levelsN witnessSchema 0 0).getD j (0, 0))) witnessGroups typedRows = true := by
  decide +kernel
end TypedWitness

end PqModel.Props.C01
