import PqModel.Dremel
import PqModel.Pages

/-! # C01 — Write then read returns exactly the rows that were written -/
namespace PqModel.Props.C01
open PqModel.Dremel PqModel.Pages

/-- shredding a row and assembling it back is the identity (every schema, every conforming value) -/
theorem row_roundtrip (n : Node) (v : Val) (hwf : wfN n = true) (hc : confN n v = true) :
    asmN n 0 0 (shredN n 0 0 0 v) = v :=
  assemble_shred n v hwf hc

/-- Cutting a column stream into pages at ANY list of cut positions and concatenating the pages
    gives the stream back: page and row-group boundaries (whatever heuristic chose them) never
    change the data. -/
theorem pages_concat {α} (xs : List α) (cuts : List Nat) : (cutAt cuts xs).flatten = xs :=
  cutAt_flatten cuts xs

/-- A column whose pages are encoded with per-page codecs `enc`/`dec` that round-trip reads back. -/
theorem column_roundtrip {α β} (enc : List α → β) (dec : β → Option (List α))
    (hrt : ∀ p, dec (enc p) = some p) (xs : List α) (cuts : List Nat) :
    readPages dec ((cutAt cuts xs).map enc) = some xs :=
  readPages_write enc dec hrt xs cuts

end PqModel.Props.C01
