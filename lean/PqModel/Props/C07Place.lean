import PqModel.BloomPlace
import PqModel.Props.C07Writer

/-! # C07, placement — every chunk's (BloomFilterOffset, BloomFilterLength) names its own filter, and
the reader, starting from that offset, gives the answers of the filter that was built

Definitions: `PqModel/BloomPlace.lean`. Only property theorems here. -/
namespace PqModel.Props.C07Place
open PqModel.XxHash PqModel.Bloom PqModel.BloomWriter PqModel.BloomPlace PqModel.Props.C07 PqModel.Props.C07Writer

/-- the numbers in the footer are those the offsets-only mirror `step` computes (what L2 compares with
    the footers of real files) -/
theorem offsets_are_those_of_step (evs : List EvB) :
    (closed evs).p = run ((evs ++ [EvB.flush]).map EvB.toEv) := by
  unfold closed run
  rw [runB_p]; rfl

/-- PLACEMENT. Whatever the writer writes (pages of any number of row groups, filter sections written
    inline or deferred in any mix, copied or built, of any length, then `writeDeferredBloomFilters` at
    Close and anything after it — page indexes, footer), if no column chunk gets two filters then every
    chunk's recorded offset and length name a region of the final file that holds exactly the section
    written for that chunk. -/
theorem placement_names_own_filter (evs : List EvB) (post : List UInt8)
    (hnd : ((filtersOf evs).map bkey).Nodup) (b : Buffered) (hb : b ∈ filtersOf evs) :
    Names (closed evs).p.tab ((closed evs).out ++ post) b := by
  have inv := InvB.run (evs ++ [EvB.flush]) binit [] InvB.init
    (by simpa [filtersOf_append, filtersOf] using hnd)
  have hp := inv.placed b (by simpa [filtersOf_append, filtersOf] using hb)
  rcases hp with h | h
  · have : (closed evs).bufs = [] := closed_bufs evs
    unfold closed at this
    rw [this] at h; cases h
  · exact h.grow post

/-- two row groups × two columns, first row group inline-free (all deferred), sections of 3, 5, 2, 4 bytes -/
def sampleEvents : List EvB :=
  [.data [80, 65, 82, 49], .filter 0 0 [1, 2, 3] true, .filter 0 1 [4, 5, 6, 7, 8] true, .data [9, 9],
   .filter 1 0 [10, 11] false, .filter 1 1 [12, 13, 14, 15] true]

example : ((filtersOf sampleEvents).map bkey).Nodup := by decide

example : (closed sampleEvents).out = [80, 65, 82, 49, 9, 9, 10, 11, 1, 2, 3, 4, 5, 6, 7, 8, 12, 13, 14, 15] := by decide
example : (closed sampleEvents).p.tab 0 1 = some ⟨11, 5⟩ := by decide

/-- C07-3b (seeded): with the recorded offset never advanced in `writeDeferredBloomFilters`, the second
    deferred filter is recorded at the offset of the first: chunk (0,1) names the bytes of chunk (0,0). -/
theorem deferred_offset_not_advanced_names_another_filter :
    let s := ((sampleEvents ++ [EvB.flush]).map EvB.toEv).foldl stepStuck pinit
    s.tab 0 0 = some ⟨8, 3⟩ ∧ s.tab 0 1 = some ⟨8, 5⟩ ∧ s.tab 1 1 = some ⟨8, 4⟩ ∧
    (run ((sampleEvents ++ [EvB.flush]).map EvB.toEv)).tab 0 1 = some ⟨11, 5⟩ := by
  decide

/-- a region named by the metadata splits the file around the section -/
theorem names_split {m : MetaTab} {file : List UInt8} {b : Buffered} (h : Names m file b) :
    ∃ l pre rest, m b.1 b.2.1 = some l ∧ pre.length = l.off ∧ file = pre ++ (b.2.2 ++ rest) := by
  obtain ⟨l, h1, h2, h3, h4⟩ := h
  refine ⟨l, file.take l.off, file.drop (l.off + l.len), h1, ?_, ?_⟩
  · simp only [List.length_take]; omega
  · unfold fileSection at h4
    rw [← h4, ← List.drop_drop, List.take_append_drop, List.take_append_drop]

/-- the header the writer encodes is read back by the SPEC thrift reader, wherever it lies in the file -/
theorem header_roundtrip (nb : Nat) (gz : Bool) (hnb : nb < 2147483648) (pre rest : List UInt8) :
    parseHeader ⟨(pre ++ (headerBytes nb gz ++ rest)).toArray⟩ pre.length =
      some ((nb, gz), pre.length + (headerBytes nb gz).length) :=
  parseHeader_headerBytes nb gz hnb pre rest

example : headerBytes 96 false = [0x15, 0xC0, 0x01, 0x1C, 0x1C, 0, 0, 0x1C, 0x1C, 0, 0, 0x1C, 0x1C, 0, 0, 0] := by decide
example : headerBytes 96 true = [0x15, 0xC0, 0x01, 0x1C, 0x1C, 0, 0, 0x1C, 0x1C, 0, 0, 0x1C, 0x2C, 0, 0, 0] := by decide

/-- the filter `flushFilterPages` leaves behind, serialised -/
def builtBytes (c : ChunkWrite) : List UInt8 :=
  filterBytes (build ((flushFilter c).1 / 32) ((flushFilter c).2.map UInt64.toBitVec))

/-- END TO END, unencrypted column: the chunk's filter (any build strategy), stored plain or gzip with
    its thrift header, written inline or deferred among any other sections; the reader decodes the
    header at the chunk's `BloomFilterOffset` in the finished file and probes what follows: every value
    written to the chunk is found. Assumed: gzip round trip; the stored filter is below 2 GiB
    (`NumBytes` is an int32). -/
theorem written_value_is_found_in_file (enc : List UInt8 → List UInt8) (dec : List UInt8 → Option (List UInt8))
    (hrt : GzipRoundTrip enc dec) (evs : List EvB) (post : List UInt8)
    (hnd : ((filtersOf evs).map bkey).Nodup) (rg col : Nat) (gz : Bool)
    (c : ChunkWrite) (ok : ChunkOk c) (hb : 1 ≤ c.bits)
    (hsz : (store enc gz (builtBytes c)).numBytes < 2147483648)
    (hev : (rg, col, plainSection (store enc gz (builtBytes c))) ∈ filtersOf evs)
    (v : Value) (hm : v ∈ c.values) :
    ∃ l, (closed evs).p.tab rg col = some l ∧
      (readFilterAt ((closed evs).out ++ post) l.off).bind (fun s => readCheck dec s (hashRead v).toBitVec)
        = some true := by
  obtain ⟨l, pre, rest, h1, h2, h3⟩ := names_split (placement_names_own_filter evs post hnd _ hev)
  refine ⟨l, h1, ?_⟩
  simp only at h3
  rw [h3, ← h2, read_plain_section enc dec gz _ hsz]
  exact written_value_is_found_stored enc dec hrt gz c ok hb v hm

/-- END TO END, encrypted column: header and bitset are two AES-GCM modules (envelopes with a 4-byte
    length); the reader opens both at the chunk's offset, decompresses a gzip bitset eagerly and probes
    it with the length of the decompressed bytes. Assumed: AES-GCM and gzip round trips. -/
theorem written_value_is_found_in_encrypted_file (a : Aead) (aok : AeadOk a)
    (enc : List UInt8 → List UInt8) (dec : List UInt8 → Option (List UInt8))
    (hrt : GzipRoundTrip enc dec) (evs : List EvB) (post : List UInt8)
    (hnd : ((filtersOf evs).map bkey).Nodup) (rg col : Nat) (gz : Bool)
    (c : ChunkWrite) (ok : ChunkOk c) (hb : 1 ≤ c.bits)
    (hsz : (store enc gz (builtBytes c)).numBytes < 2147483648)
    (hev : (rg, col, encSection a rg col (store enc gz (builtBytes c))) ∈ filtersOf evs)
    (v : Value) (hm : v ∈ c.values) :
    ∃ l, (closed evs).p.tab rg col = some l ∧
      readEncCheck a dec rg col ((closed evs).out ++ post) l.off (hashRead v).toBitVec = some true := by
  obtain ⟨l, pre, rest, h1, h2, h3⟩ := names_split (placement_names_own_filter evs post hnd _ hev)
  refine ⟨l, h1, ?_⟩
  simp only at h3
  unfold readEncCheck
  rw [h3, ← h2, read_enc_section_with _ a aok enc dec gz _ hsz]
  have hfound := written_value_is_found_every_strategy c ok hb v hm
  cases gz with
  | true => simp only [if_true, hrt (builtBytes c)]; rw [checkSplitBlock_length]; exact congrArg some hfound
  | false => simp only [Bool.false_eq_true, if_false]; rw [checkSplitBlock_length]; exact congrArg some hfound

/-- toy AEAD: 28 zero bytes after the plaintext -/
def toyAead : Aead :=
  { sealM := fun _ _ _ p => p ++ List.replicate 28 0,
    openM := fun _ _ _ s => some (s.take (s.length - 28)) }

theorem toy_aead_ok : AeadOk toyAead := by
  constructor
  · intro m rg col p
    simp only [toyAead, List.length_append, List.length_replicate, Nat.add_sub_cancel]
    rw [List.take_left' rfl]
  · intro m rg col p; simp [toyAead]

example : AeadOk toyAead := toy_aead_ok

/-- C07-3a (seeded): sizing the gzip branch of `newBloomFilterFromBytes` by `header.NumBytes` is, under
    the round-trip assumptions, probing the decompressed bitset with the COMPRESSED size … -/
theorem enc_gzip_sized_by_numBytes_is_compressed_size_probe (a : Aead) (aok : AeadOk a)
    (enc : List UInt8 → List UInt8) (dec : List UInt8 → Option (List UInt8)) (filter : List UInt8)
    (hsz : (store enc true filter).numBytes < 2147483648) (rg col : Nat) (pre rest : List UInt8) (h : BitVec 64) :
    readEncCheckCompressedSize a dec rg col (pre ++ (encSection a rg col (store enc true filter) ++ rest)) pre.length h
      = readCheckCompressedSize dec (store enc true filter) h := by
  unfold readEncCheckCompressedSize
  rw [read_enc_section_with _ a aok enc dec true _ hsz]
  simp only [readCheckCompressedSize, store, if_true, List.take_length]
  cases dec (enc filter) <;> rfl

/-- … which reports an inserted hash absent (`probing_with_compressed_size_misses`), while the code as
    it is (decompressed length) finds it. -/
theorem enc_gzip_sized_by_numBytes_misses :
    ∃ (a : Aead) (enc : List UInt8 → List UInt8) (dec : List UInt8 → Option (List UInt8)) (n : Nat) (h : BitVec 64),
      AeadOk a ∧ GzipRoundTrip enc dec ∧
      readEncCheck a dec 0 0 (encSection a 0 0 (store enc true (filterBytes (build n [h]))) ++ []) 0 h = some true ∧
      readEncCheckCompressedSize a dec 0 0 (encSection a 0 0 (store enc true (filterBytes (build n [h]))) ++ []) 0 h
        = some false := by
  refine ⟨toyAead, toyEnc, toyDec, 2, 0xC000000000000001#64, toy_aead_ok, toy_roundtrip, ?_, ?_⟩
  · have := read_enc_section_with (fun _ d => d.length) toyAead toy_aead_ok toyEnc toyDec true
      (filterBytes (build 2 [0xC000000000000001#64])) (by decide) 0 0 [] [] 0xC000000000000001#64
    simp only [List.nil_append, List.length_nil] at this
    unfold readEncCheck
    rw [this]
    decide
  · have := enc_gzip_sized_by_numBytes_is_compressed_size_probe toyAead toy_aead_ok toyEnc toyDec
      (filterBytes (build 2 [0xC000000000000001#64])) (by decide) 0 0 [] [] 0xC000000000000001#64
    simp only [List.nil_append, List.length_nil] at this
    rw [this]
    decide

end PqModel.Props.C07Place
