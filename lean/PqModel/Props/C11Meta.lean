import PqModel.SpliceMeta

/-! # C11 (round 3) — "the metadata describes the bytes" on the verbatim copy path

Mirror: `SpliceMeta.loadCopiedV` / `writeCopiedV` / `spliceChunkV` / `spliceRowGroupV` / `sortEnc`
(writer_copy.go:457-545, writer.go:1585-1611, :1722, :2973-2980) on top of `Splice.loadCopied` /
`writeCopied`. Spec: `SpliceMeta.Describes` (parquet.thrift ColumnIndex / OffsetIndex /
SizeStatistics / Statistics / PageEncodingStats over page summaries `PageV`, layout numbers by
`Layout.chunkMeta`). The column order `le` and the size limit `lim` are arbitrary: bounds are
position independent, which is what makes carrying them over correct. -/
namespace PqModel.Props.C11Meta
open PqModel.Layout PqModel.Splice PqModel.SpliceMeta

/-- If the source chunk's metadata describes pages `ps` laid out at `srcStart` — layout numbers and
    offset index, column index (null pages, bounds, null counts, level histograms), size
    statistics, chunk statistics, encoding statistics — then `loadCopiedChunk` does not fail and the
    metadata `writeRowGroup` emits for the chunk spliced at `dstStart` describes the same pages
    there. Every page sequence, order, limit, source and destination offset. The values are the
    source's; the encoding statistics are a permutation of the source's. -/
theorem splice_describes (le : Bytes → Bytes → Bool) (lim srcStart dstStart : Nat) (src : FullMeta) (ps : List PageV)
    (h : Describes le lim src srcStart ps) :
    ∃ m, spliceChunkV src dstStart = some m ∧ Describes le lim m dstStart ps ∧
      m.columnIndex = src.columnIndex ∧ m.sizeStats = src.sizeStats ∧ m.statistics = src.statistics ∧
      m.encStats.Perm src.encStats :=
  SpliceMeta.splice_describes le lim srcStart dstStart src ps h

-- hypothesis satisfiable, conclusion computed (dictionary page + two data pages, one of them null)
example : Describes exLe 8 (exMeta 4) 4 exPages := exMeta_describes
example : spliceChunkV (exMeta 4) 1000 = some { exMeta 1000 with encStats := [⟨0, 8, 2⟩, ⟨2, 0, 1⟩] } := by decide

/-- Source written under one `ColumnIndexSizeLimit`, destination configured with another (`limB`):
    the length check of `statisticsSettingsMatch` on the source's column index values is enough for
    the spliced metadata to describe the pages under the DESTINATION's limit (bounds stay bounds —
    they are position and configuration independent — and no entry exceeds `limB`). Joins
    `Props.C11.verbatim_conforms` (settings, on lengths) with the value level. -/
theorem splice_describes_limit (le : Bytes → Bytes → Bool) (limA limB srcStart dstStart : Nat) (src : FullMeta) (ps : List PageV)
    (h : Describes le limA src srcStart ps)
    (hlim : limB > 0 → ∀ b ∈ src.columnIndex.minValues ++ src.columnIndex.maxValues, b.length ≤ limB) :
    ∃ m, spliceChunkV src dstStart = some m ∧ Describes le limB m dstStart ps :=
  SpliceMeta.splice_describes_limit le limA limB srcStart dstStart src ps h hlim

example : ∀ b ∈ (exMeta 4).columnIndex.minValues ++ (exMeta 4).columnIndex.maxValues, b.length ≤ 1 := by decide

/-- Offset index and column index of a spliced chunk stay aligned: the output has one rebased page
    location per data page (`specLocs` = true start, size, first row of every data page at the
    destination) and one column index entry per data page, in the same order. -/
theorem splice_index_aligned (le : Bytes → Bytes → Bool) (lim srcStart dstStart : Nat) (src : FullMeta) (ps : List PageV)
    (h : Describes le lim src srcStart ps) (hci : src.columnIndex ≠ ColumnIndex.none) :
    ∃ m, spliceChunkV src dstStart = some m ∧
      m.layout.locs = specLocs dstStart 0 (ops ps) ∧
      m.layout.locs.length = (datas ps).length ∧
      m.columnIndex.nullPages.length = (datas ps).length ∧
      m.columnIndex.minValues.length = (datas ps).length ∧
      m.columnIndex.maxValues.length = (datas ps).length := by
  obtain ⟨m, hm, hl, h1, h2, h3⟩ := SpliceMeta.splice_index_aligned le lim srcStart dstStart src ps h hci
  refine ⟨m, hm, hl, ?_, h1, h2, h3⟩
  rw [hl, specLocs_length]
  simp [dataPages, datas, ops, List.filter_map, Function.comp_def]

example : (exMeta 4).columnIndex ≠ ColumnIndex.none := by decide

/-- A row group all of whose columns are spliced: output chunk `i` describes the pages of source
    chunk `i` at the `i`-th back-to-back position from `start`, and the file offset after the
    chunks (where the bloom filter sections start, `Splice.placeBlooms`) is `start` plus the bytes
    of all chunks. -/
theorem splice_rowGroup_describes (le : Bytes → Bytes → Bool) (lim start : Nat)
    (cs : List (FullMeta × Nat)) (pss : List (List PageV)) (srcStarts : List Nat)
    (hl : cs.length = pss.length) (hl2 : cs.length = srcStarts.length)
    (hd : ∀ i (h1 : i < cs.length) (h2 : i < pss.length) (h3 : i < srcStarts.length),
        Describes le lim cs[i].1 srcStarts[i] pss[i]) :
    ∃ ms, spliceRowGroupV start cs = some (ms, start + ((pss.map fun ps => totalSize (ops ps)).sum)) ∧
      ms.length = pss.length ∧
      ∀ i (h1 : i < ms.length) (h2 : i < pss.length) (h3 : i < (chunkStarts start (pss.map ops)).length),
        Describes le lim ms[i] (chunkStarts start (pss.map ops))[i] pss[i] :=
  SpliceMeta.splice_rowGroup_describes le lim start cs pss srcStarts hl hl2 hd

example : spliceRowGroupBlooms 100 [(exMeta 4, 48), (exMeta 94, 0)] =
    some [({ exMeta 100 with encStats := [⟨0, 8, 2⟩, ⟨2, 0, 1⟩] }, some (280, 48)),
          ({ exMeta 190 with encStats := [⟨0, 8, 2⟩, ⟨2, 0, 1⟩] }, none)] := by decide

/-- The row group entry of a fully spliced row group: `file_offset` is where its first chunk
    starts, `total_compressed_size` is exactly the number of bytes up to the offset after the last
    chunk (where the bloom filter sections begin), `total_byte_size` is the sum of the pages'
    header + uncompressed sizes. -/
theorem splice_rowGroup_totals (le : Bytes → Bytes → Bool) (lim start : Nat)
    (cs : List (FullMeta × Nat)) (pss : List (List PageV)) (srcStarts : List Nat)
    (hl : cs.length = pss.length) (hl2 : cs.length = srcStarts.length)
    (hd : ∀ i (h1 : i < cs.length) (h2 : i < pss.length) (h3 : i < srcStarts.length),
        Describes le lim cs[i].1 srcStarts[i] pss[i]) :
    ∃ ms endOff, spliceRowGroupV start cs = some (ms, endOff) ∧
      (rowGroupTotals start ms).fileOffset = start ∧
      start + (rowGroupTotals start ms).totalCompressedSize = endOff ∧
      (rowGroupTotals start ms).totalByteSize =
        (pss.map fun ps => ((ops ps).map fun p => p.hdrLen + p.uncompLen).sum).sum :=
  SpliceMeta.splice_rowGroup_totals le lim start cs pss srcStarts hl hl2 hd

example : (spliceRowGroupV 100 [(exMeta 4, 48), (exMeta 94, 0)]).map (fun r => (rowGroupTotals 100 r.1, r.2)) =
    some (⟨100, 214, 180, 7⟩, 280) := by decide

/-- `sortPageEncodingStats` on a copied chunk: the result is ordered by (page type, encoding), is a
    permutation of the source's entries, and leaves already ordered statistics (every chunk written
    by this library) untouched — so a spliced chunk's encoding statistics still count its pages. -/
theorem encStats_sorted_perm_stable (es : List EncStat) :
    (sortEnc es).Pairwise (fun a b => encLe a b = true) ∧ (sortEnc es).Perm es ∧
    (es.Pairwise (fun a b => encLe a b = true) → sortEnc es = es) :=
  ⟨sortEnc_sorted es, sortEnc_perm es, sortEnc_of_sorted es⟩

example : sortEnc [⟨2, 0, 1⟩, ⟨0, 8, 2⟩, ⟨0, 0, 1⟩] = [⟨0, 0, 1⟩, ⟨0, 8, 2⟩, ⟨2, 0, 1⟩] := by decide

end PqModel.Props.C11Meta
