import PqModel.Generated.Facts
import PqModel.PageLoad
import PqModel.PageReaders

/-! # C13 — expectations about the facts `tools/factgen` extracts from file.go / writer.go

`Generated/Facts.lean` is rewritten from the source on every `./check` run; the theorems below are
`decide`d against what the code says *now*. They tie the hand-written mirror (`PageLoad.lean`) to the
source: through which function each path asks for a page body, which function fills the buffer,
whether it compares checksums, and that the comparison is skipped for a zero CRC.

State after `5000be7` (repair of F4): `FilePages.readDictionary` obtains the body from
`FilePages.readPage`, which is the only function of file.go that fills a page buffer from the reader;
the allow-list of unverified loaders is EMPTY. A loader that forgets the comparison (a new one, or
`readDictionary` going back to a bare `io.ReadFull`) makes `loaders_verify` fail; a path of the mirror
that no longer reaches its loader makes `mirror_matches_code` fail. -/
namespace PqModel.Props.FactsCheckC13
open PqModel.Generated.Facts PqModel.PageLoad PqModel.PageReaders

/-- known unverified page loaders: none (F4 was the only entry; repaired by 5000be7) -/
def allowUnverified : List String := []

/-- every function of file.go that fills a page buffer from the reader compares the checksum before
    it returns successfully — no exceptions; and there is such a function (not vacuous) -/
theorem loaders_verify :
    (pageLoaders.filter (fun l => !allowUnverified.contains l.1)).all (·.2) = true ∧
    pageLoaders.lookup "FilePages.readPage" = some true := by decide

/-- the allow-list only names loaders that exist and really do not verify (no stale excuses) -/
theorem allowUnverified_not_stale :
    allowUnverified.all (fun n => pageLoaders.lookup n == some false) = true := by decide

/-- every path of the mirror asks for the page body in a function that calls the loader the mirror
    names, that loader is an extracted page loader, and the mirror's `verifies` agrees with the code -/
theorem mirror_matches_code :
    Path.all.all (fun p => pageLoaderCalls.contains (p.entry, p.loader) &&
      pageLoaders.lookup p.loader == some (verifies current p)) = true := by decide

/-- no function of file.go other than the entries of the mirror obtains a body from a page loader -/
theorem loader_callers_known :
    pageLoaderCalls.all (fun c => (Path.all.map fun p => (p.entry, p.loader)).contains c) = true := by
  decide

/-- `Path.all` really lists every path (so the theorems above are about all of them) -/
theorem path_all_complete : ∀ p : Path, p ∈ Path.all := by intro p; cases p <;> decide

/-- every verifying loader skips the comparison when the header CRC is zero — the `h.crc != 0` test of
    the mirror `readPage` (finding F8) -/
theorem zero_crc_guard_mirrored :
    pageLoaderZeroGuard = (pageLoaders.filter (·.2)).map (fun l => (l.1, true)) := by decide

/-- the checksum comparison of the loader executes under exactly one condition, `header.CRC != 0` (the
    `h.crc != 0` test of the mirror `readPage`, finding F8) — nothing about `f.skip`, `f.desync`, an
    option or a page type. This is what `Props.C13.verify_independent_of_seek_state` rests on; it fails
    for the seeded slip `header.CRC != 0 && f.skip == 0`. -/
theorem crc_guard_is_zero_test_only :
    crcComparisonGuards = [("FilePages.readPage", ["header.CRC != 0"])] := by decide

/-- the buffer the loader reads into is the one it checksums and the one it returns, and it is
    assigned once (`page := buffers.get(...)`): the mirror `readPage` returning the compared bytes -/
theorem loader_returns_the_compared_buffer :
    loaderBufferFlow = [("FilePages.readPage", "page", "page", "page", 1)] := by decide

/-- the callers hand that very variable to the decode entry points (the only other value it ever holds
    comes from the encrypted branch, outside this property), and those pass their parameter on to
    `Column.decode*` without reassigning it: `Props.C13.decode_sees_verified_bytes` on the source -/
theorem decode_gets_the_verified_buffer :
    loaderResultFlow =
      [("FilePages.readDictionary", "FilePages.readPage", "page", ["readDictionaryPage"], ["buffers.get(len(bodyPlain))"]),
       ("FilePages.readPageInSequence", "FilePages.readPage", "data",
         ["readDataPageV1", "readDataPageV2", "readDictionaryPage"], ["f.readEncryptedPage()"])] ∧
    decodeEntryFlow =
      [("FilePages.readDataPageV1", "page", ["decodeDataPageV1"], 0),
       ("FilePages.readDataPageV2", "page", ["decodeDataPageV2"], 0),
       ("FilePages.readDictionaryPage", "page", ["decodeDictionary"], 0)] := by decide

/-- no other function of file.go reads bytes from the file into a buffer: the remaining read sites are
    the bloom filter prefetch, the generic ReadAt wrappers (footer, indexes) and the encrypted-module
    envelope (authenticated by AES-GCM, outside this property) -/
theorem other_read_sites_known :
    otherReadSites.all (fun s => [("OpenFile", "bloomData"), ("optimisticFileReaderAt.ReadAt", "p"),
      ("readAt", "p"), ("readDecryptedEnvelopeFrom", "envelope[4:]"),
      ("readDecryptedEnvelopeFrom", "lenBuf[:]")].contains s) = true := by decide

/-- writer side: both page kinds get `CRC = int32(crc32(rep ‖ def ‖ page))` (what `writeHeader` and
    `Props.C13.writer_crc_is_body_crc` assume), stored in an `optional` thrift i32 of Go type `int32`
    (a zero value is omitted: finding F8) -/
theorem writer_side_as_modelled :
    crcWriteSites = [("ColumnWriter.writeDataPage", "c.header.page.CRC", "int32(buf.crc32())"),
                     ("ColumnWriter.writeDictionaryPage", "c.header.dict.CRC", "int32(buf.crc32())")] ∧
    crcWriteCovers.map (·.2) = ["wb.repetitions", "wb.definitions", "wb.page"] ∧
    pageHeaderCrcField = ("int32", "thrift:\"4,optional\"") := by decide

/-! ## the callers of the page readers (family `pagereaders`)

`pageReaderCalls` lists every call in the root package to a function through which a page-load error
travels, with the decision list the caller's next statements form over the error (and page)
variable. -/

/-- **callers_hand_the_error_on**: at every call site of a page reader, a failure that is neither nil
    nor io.EOF — with or without a page next to it — takes a branch that returns the error, returns
    it wrapped, or sends it to the consumer goroutine; no call drops its error result, none decides on
    a condition about something else. Fails for seeded/C13-3a (`f.readDictionary()` as a statement:
    form "discard") and seeded/C13-3b (`if p != nil { return p, err }`: the guard is false for a
    failure that comes with a nil page). Not vacuous: the table has the 21 known sites. -/
theorem callers_hand_the_error_on :
    pageReaderCalls.all propagates = true ∧ pageReaderCalls.length = 21 := by decide

/-- the functions that call a page reader are exactly these (a new caller has to be looked at and
    given an access path in the fault enumeration; a vanished one means the mirror is stale) -/
theorem reader_callers_known :
    (pageReaderCalls.map (·.1)).eraseDups =
      ["CopyPages", "FilePages.ReadDictionary", "FilePages.ReadPage", "FilePages.readDataPageV1",
       "FilePages.readDataPageV2", "FilePages.readDictionary", "FilePages.readPageInSequence",
       "PrintColumnChunk", "columnChunkValueReader.ReadValues", "columnPages.ReadPage",
       "convertedPages.ReadPage", "missingPageValues.readWithAdjacent", "multiPages.ReadPage",
       "rangePages.ReadPage", "readPages", "variantLeafReader.ensurePage"] := by decide

/-- the guard of the returning branch of a concatenating reader, as extracted -/
def returnGuardOf (fn : String) : Option (List String) :=
  match pageReaderCalls.find? (fun s => s.1 == fn && s.2.1 == "ReadPage") with
  | some (_, _, _, (g, "return-err") :: _) => some g
  | _ => none

/-- MIRROR of `if err == nil || err != io.EOF { return p, err }` (column.go:127, multi_row_group.go:552) -/
def concatGuardRPN : List String := ["err==nil", "err!=EOF", "or"]

/-- the guard as a function of the situation -/
def concatGuard (s : Sit) : Bool := holds s concatGuardRPN == some true

/-- both concatenating readers return under exactly that guard in the source -/
theorem concat_guards_as_mirrored :
    returnGuardOf "columnPages.ReadPage" = some concatGuardRPN ∧
    returnGuardOf "multiPages.ReadPage" = some concatGuardRPN := by decide

/-- and that guard returns pages, returns failures, and moves on at io.EOF -/
theorem concatGuard_good : GoodGuard concatGuard :=
  ⟨fun _ => by simp only [sitOf]; decide, fun _ => by simp only [sitOf]; decide, by decide⟩

/-- the access paths of the fault enumeration above `FilePages` and the callers of page readers the
    error crosses on each (hand-written; `entry_chains_cover_the_callers` ties it to the table) -/
def entryChains : List (String × List String) := [
  ("pages-seq / pages-seek / rows-* / generic-* / read-func / reader-* / rowgroup-reader / copy-rows",
    ["FilePages.ReadPage", "FilePages.readPageInSequence", "FilePages.readDataPageV1", "FilePages.readDataPageV2",
     "FilePages.readDictionary", "columnChunkValueReader.ReadValues"]),
  ("read-dictionary", ["FilePages.ReadDictionary", "FilePages.readDictionary"]),
  ("column-pages-seq / column-pages-seek", ["columnPages.ReadPage"]),
  ("multi-rows-* / multi-pages-seq / merge-rows-seq / reader-* on several row groups", ["multiPages.ReadPage"]),
  ("convert-rows-seq", ["convertedPages.ReadPage", "missingPageValues.readWithAdjacent"]),
  ("async-* / async-pages-wrap", ["readPages"]),
  ("copy-pages", ["CopyPages"]),
  ("print-chunk", ["PrintColumnChunk"]),
  ("value-reader-seq / value-reader-seek", ["columnChunkValueReader.ReadValues"]),
  ("(range views of merged row groups: C08/C09 generators; variant readers: C19)",
    ["rangePages.ReadPage", "variantLeafReader.ensurePage"])]

/-- every caller in the table is on the chain of some access path, and every function named in a
    chain is a caller in the table -/
theorem entry_chains_cover_the_callers :
    (pageReaderCalls.map (·.1)).all (fun fn => entryChains.any (·.2.contains fn)) = true ∧
    entryChains.all (fun c => c.2.all (fun fn => (pageReaderCalls.map (·.1)).contains fn)) = true := by decide

/-! ## one layer further up: the callers of value / row readers (`rowReaderCalls`)

OPEN: "every call to `ReadValues` / `ReadRows` / `readRows` hands a failure on". Not provable from a
per-block decision list: several callers leave their loop on an error and return it afterwards, or
store it in a field (`rowGroupRows.ReadRows`: `r.err = err`) and report it on the next call; a few are
in-memory readers no page-load error reaches. What is checked instead is the verdict of every site in
the situation "failure, nothing delivered" — pinned, so that a site turning from handing the error
on to swallowing it (or a new caller) breaks this obligation; the sites that leave the loop or are
unresolved are tied by L1 only (`rows-*`, `generic-*`, `reader-*`, `copy-rows`, `value-reader-*`). -/

def verdictName : Verdict → String
  | .handsOn => "hands-on" | .swallows => "swallows" | .leaves => "leaves-loop" | .unresolved => "unresolved"

def siteVerdict (site : Site) : String :=
  let form := site.2.2.1
  if form = "tail" then "hands-on"
  else if form = "assign" || form = "if-init" then verdictName (verdict (failed true) site.2.2.2)
  else form

theorem row_reader_verdicts_partial :
    rowReaderCalls.map (fun s => (s.1, s.2.1, siteVerdict s)) = [
      ("GenericReader.ReadRows", "ReadRows", "hands-on"),
      ("GenericReader.readRows", "ReadRows", "leaves-loop"),
      ("PrintRowGroup", "ReadRows", "hands-on"),
      ("Reader.Read", "ReadRows", "hands-on"),
      ("Reader.ReadRows", "ReadRows", "hands-on"),
      ("bufferedRowReader.read", "ReadRows", "swallows"),
      ("bufferedRowReader.read", "ReadRows", "leaves-loop"),
      ("columnChunkValueReader.ReadValues", "ReadValues", "hands-on"),
      ("concatenatingRows.ReadRows", "ReadRows", "hands-on"),
      ("concatenatingRowsWrapper.ReadRows", "ReadRows", "hands-on"),
      ("concatenatingRowsWrapper.SeekToRow", "ReadRows", "hands-on"),
      ("convertedRows.ReadRows", "ReadRows", "hands-on"),
      ("convertedValueReader.ReadValues", "ReadValues", "hands-on"),
      ("copyColumnValues", "ReadValues", "unresolved"),
      ("copyRows", "ReadRows", "hands-on"),
      ("copyValues", "ReadValues", "hands-on"),
      ("decimalPage.Bounds", "ReadValues", "leaves-loop"),
      ("dedupeRowReader.ReadRows", "ReadRows", "hands-on"),
      ("filterRowReader.ReadRows", "ReadRows", "leaves-loop"),
      ("forwardRowSeeker.ReadRows", "ReadRows", "hands-on"),
      ("geospatialBBoxAccumulator.accumulatePage", "ReadValues", "leaves-loop"),
      ("mergedRowGroupRows.ReadRows", "ReadRows", "hands-on"),
      ("mergedRowGroupRows.ReadRows", "ReadRows", "hands-on"),
      ("missingPageValues.readWithAdjacent", "ReadValues", "hands-on"),
      ("optionalPageValues.ReadValues", "ReadValues", "hands-on"),
      ("printPage", "ReadValues", "swallows"),
      ("readRowsFuncOfLeaf", "ReadValues", "other:col.reader.ReadValues(buf)"),
      ("readRowsFuncOfLeaf", "ReadValues", "other:col.reader.ReadValues(buf)"),
      ("reader.ReadRows", "ReadRows", "hands-on"),
      ("repeatedPageValues.ReadValues", "ReadValues", "hands-on"),
      ("rowGroupRows.ReadRows", "ReadValues", "swallows"),
      ("scanRowReader.ReadRows", "ReadRows", "hands-on"),
      ("transformRowReader.ReadRows", "ReadRows", "hands-on"),
      ("variantLeafReader.extractBooleans", "ReadValues", "hands-on")] := by decide

end PqModel.Props.FactsCheckC13
