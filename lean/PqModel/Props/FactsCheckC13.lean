import PqModel.Generated.Facts
import PqModel.PageLoad
import PqModel.PageReaders

/-! # C13 — expectations about the facts `tools/factgen` extracts from file.go / writer.go

`Generated/Facts.lean` is rewritten from the source on every `./check` run; the theorems below are
`decide`d against what the code says *now*. They tie the hand-written mirror (`PageLoad.lean`) to the
source: through which function each path asks for a page body, which function fills the buffer,
whether it compares checksums, and that the comparison is skipped for a zero CRC.

State after `5000be7` (repair of F4): `FilePages.readDictionary` obtains the body from
`FilePages.readPage`, which is the only function of file.go that fills a page buffer from the reader;
the allow-list of unverified loaders is EMPTY. A loader that forgets the comparison (a new one, or
`readDictionary` going back to a bare `io.ReadFull`) makes `loaders_verify` fail; a path of the mirror
that no longer reaches its loader makes `mirror_matches_code` fail. -/
namespace PqModel.Props.FactsCheckC13
open PqModel.Generated.Facts PqModel.PageLoad PqModel.PageReaders

/-- known unverified page loaders: none (F4 was the only entry; repaired by 5000be7) -/
def allowUnverified : List String := []

/-- every function of file.go that fills a page buffer from the reader compares the checksum before
    it returns successfully — no exceptions; and there is such a function (not vacuous) -/
theorem loaders_verify :
    (pageLoaders.filter (fun l => !allowUnverified.contains l.1)).all (·.2) = true ∧
    pageLoaders.lookup "FilePages.readPage" = some true := by decide

/-- the allow-list only names loaders that exist and really do not verify (no stale excuses) -/
theorem allowUnverified_not_stale :
    allowUnverified.all (fun n => pageLoaders.lookup n == some false) = true := by decide

/-- every path of the mirror asks for the page body in a function that calls the loader the mirror
    names, that loader is an extracted page loader, and the mirror's `verifies` agrees with the code -/
theorem mirror_matches_code :
    Path.all.all (fun p => pageLoaderCalls.contains (p.entry, p.loader) &&
      pageLoaders.lookup p.loader == some (verifies current p)) = true := by decide

/-- no function of file.go other than the entries of the mirror obtains a body from a page loader -/
theorem loader_callers_known :
    pageLoaderCalls.all (fun c => (Path.all.map fun p => (p.entry, p.loader)).contains c) = true := by
  decide

/-- `Path.all` really lists every path (so the theorems above are about all of them) -/
theorem path_all_complete : ∀ p : Path, p ∈ Path.all := by intro p; cases p <;> decide

/-- every verifying loader skips the comparison when the header CRC is zero — the `h.crc != 0` test of
    the mirror `readPage` (finding F8) -/
theorem zero_crc_guard_mirrored :
    pageLoaderZeroGuard = (pageLoaders.filter (·.2)).map (fun l => (l.1, true)) := by decide

/-- the checksum comparison of the loader executes under exactly one condition, `header.CRC != 0` (the
    `h.crc != 0` test of the mirror `readPage`, finding F8) — nothing about `f.skip`, `f.desync`, an
    option or a page type. This is what `Props.C13.verify_independent_of_seek_state` rests on; it fails
    for the seeded slip `header.CRC != 0 && f.skip == 0`. -/
theorem crc_guard_is_zero_test_only :
    crcComparisonGuards = [("FilePages.readPage", ["header.CRC != 0"])] := by decide

/-- the buffer the loader reads into is the one it checksums and the one it returns, and it is
    assigned once (`page := buffers.get(...)`): the mirror `readPage` returning the compared bytes -/
theorem loader_returns_the_compared_buffer :
    loaderBufferFlow = [("FilePages.readPage", "page", "page", "page", 1)] := by decide

/-- the callers hand that very variable to the decode entry points (the only other value it ever holds
    comes from the encrypted branch, outside this property), and those pass their parameter on to
    `Column.decode*` without reassigning it: `Props.C13.decode_sees_verified_bytes` on the source -/
theorem decode_gets_the_verified_buffer :
    loaderResultFlow =
      [("FilePages.readDictionary", "FilePages.readPage", "page", ["readDictionaryPage"], ["buffers.get(len(bodyPlain))"]),
       ("FilePages.readPageInSequence", "FilePages.readPage", "data",
         ["readDataPageV1", "readDataPageV2", "readDictionaryPage"], ["f.readEncryptedPage()"])] ∧
    decodeEntryFlow =
      [("FilePages.readDataPageV1", "page", ["decodeDataPageV1"], 0),
       ("FilePages.readDataPageV2", "page", ["decodeDataPageV2"], 0),
       ("FilePages.readDictionaryPage", "page", ["decodeDictionary"], 0)] := by decide

/-- no other function of file.go reads bytes from the file into a buffer: the remaining read sites are
    the bloom filter prefetch, the generic ReadAt wrappers (footer, indexes) and the encrypted-module
    envelope (authenticated by AES-GCM, outside this property) -/
theorem other_read_sites_known :
    otherReadSites.all (fun s => [("OpenFile", "bloomData"), ("optimisticFileReaderAt.ReadAt", "p"),
      ("readAt", "p"), ("readDecryptedEnvelopeFrom", "envelope[4:]"),
      ("readDecryptedEnvelopeFrom", "lenBuf[:]")].contains s) = true := by decide

/-- writer side: both page kinds get `CRC = int32(crc32(rep ‖ def ‖ page))` (what `writeHeader` and
    `Props.C13.writer_crc_is_body_crc` assume), stored in an `optional` thrift i32 of Go type `int32`
    (a zero value is omitted: finding F8) -/
theorem writer_side_as_modelled :
    crcWriteSites = [("ColumnWriter.writeDataPage", "c.header.page.CRC", "int32(buf.crc32())"),
                     ("ColumnWriter.writeDictionaryPage", "c.header.dict.CRC", "int32(buf.crc32())")] ∧
    crcWriteCovers.map (·.2) = ["wb.repetitions", "wb.definitions", "wb.page"] ∧
    pageHeaderCrcField = ("int32", "thrift:\"4,optional\"") := by decide

/-! ## the callers of the page readers (family `pagereaders`)

`pageReaderCalls` lists every call in the root package to a function through which a page-load error
travels, with the decision list the caller's next statements form over the error (and page)
variable. -/

/-- **callers_hand_the_error_on**: at every call site of a page reader, a failure that is neither nil
    nor io.EOF — with or without a page next to it — takes a branch that returns the error, returns
    it wrapped, or sends it to the consumer goroutine; no call drops its error result, none decides on
    a condition about something else. Fails for seeded/C13-3a (`f.readDictionary()` as a statement:
    form "discard") and seeded/C13-3b (`if p != nil { return p, err }`: the guard is false for a
    failure that comes with a nil page). Not vacuous: the table has the 21 known sites. -/
theorem callers_hand_the_error_on :
    pageReaderCalls.all propagates = true ∧ pageReaderCalls.length = 21 := by decide

/-- the functions that call a page reader are exactly these (a new caller has to be looked at and
    given an access path in the fault enumeration; a vanished one means the mirror is stale) -/
theorem reader_callers_known :
    (pageReaderCalls.map (·.1)).eraseDups =
      ["CopyPages", "FilePages.ReadDictionary", "FilePages.ReadPage", "FilePages.readDataPageV1",
       "FilePages.readDataPageV2", "FilePages.readDictionary", "FilePages.readPageInSequence",
       "PrintColumnChunk", "columnChunkValueReader.ReadValues", "columnPages.ReadPage",
       "convertedPages.ReadPage", "missingPageValues.readWithAdjacent", "multiPages.ReadPage",
       "rangePages.ReadPage", "readPages", "variantLeafReader.ensurePage"] := by decide

/-- the guard of the returning branch of a concatenating reader, as extracted -/
def returnGuardOf (fn : String) : Option (List String) :=
  match pageReaderCalls.find? (fun s => s.1 == fn && s.2.1 == "ReadPage") with
  | some (_, _, _, (g, "return-err") :: _) => some g
  | _ => none

/-- MIRROR of `if err == nil || err != io.EOF { return p, err }` (column.go:127, multi_row_group.go:552) -/
def concatGuardRPN : List String := ["err==nil", "err!=EOF", "or"]

/-- the guard as a function of the situation -/
def concatGuard (s : Sit) : Bool := holds s concatGuardRPN == some true

/-- both concatenating readers return under exactly that guard in the source -/
theorem concat_guards_as_mirrored :
    returnGuardOf "columnPages.ReadPage" = some concatGuardRPN ∧
    returnGuardOf "multiPages.ReadPage" = some concatGuardRPN := by decide

/-- and that guard returns pages, returns failures, and moves on at io.EOF -/
theorem concatGuard_good : GoodGuard concatGuard :=
  ⟨fun _ => by simp only [sitOf]; decide, fun _ => by simp only [sitOf]; decide, by decide⟩

/-- the access paths of the fault enumeration above `FilePages` and the callers of page readers the
    error crosses on each (hand-written; `entry_chains_cover_the_callers` ties it to the table) -/
def entryChains : List (String × List String) := [
  ("pages-seq / pages-seek / rows-* / generic-* / read-func / reader-* / rowgroup-reader / copy-rows",
    ["FilePages.ReadPage", "FilePages.readPageInSequence", "FilePages.readDataPageV1", "FilePages.readDataPageV2",
     "FilePages.readDictionary", "columnChunkValueReader.ReadValues"]),
  ("read-dictionary", ["FilePages.ReadDictionary", "FilePages.readDictionary"]),
  ("column-pages-seq / column-pages-seek", ["columnPages.ReadPage"]),
  ("multi-rows-* / multi-pages-seq / merge-rows-seq / reader-* on several row groups", ["multiPages.ReadPage"]),
  ("convert-rows-seq", ["convertedPages.ReadPage", "missingPageValues.readWithAdjacent"]),
  ("async-* / async-pages-wrap", ["readPages"]),
  ("copy-pages", ["CopyPages"]),
  ("print-chunk", ["PrintColumnChunk"]),
  ("value-reader-seq / value-reader-seek", ["columnChunkValueReader.ReadValues"]),
  ("(range views of merged row groups: C08/C09 generators; variant readers: C19)",
    ["rangePages.ReadPage", "variantLeafReader.ensurePage"])]

/-- every caller in the table is on the chain of some access path, and every function named in a
    chain is a caller in the table -/
theorem entry_chains_cover_the_callers :
    (pageReaderCalls.map (·.1)).all (fun fn => entryChains.any (·.2.contains fn)) = true ∧
    entryChains.all (fun c => c.2.all (fun fn => (pageReaderCalls.map (·.1)).contains fn)) = true := by decide

/-! ## one layer further up: the callers of value / row readers (`rowReaderCalls`)

"Every call to `ReadValues` / `ReadRows` / `readRows` hands a failure on." Up to round 3 this was
OPEN: a per-block decision list cannot see what a caller does after it LEAVES its loop on an error,
nor that `rowGroupRows.ReadRows` keeps the error in a field. Since round 4 the extractor follows a
`break` and the exit of a conditional loop into the statements behind the loop, walks function
literals, sees through re-declarations (`_, err := …` in an inner block) and emits `r.err = err` as the
non-deciding step `store`; the statement is now checked in full, in the situation "failure that is
neither nil nor io.EOF, nothing delivered". -/

def verdictName : Verdict → String
  | .handsOn => "hands-on" | .swallows => "swallows" | .leaves => "leaves-loop" | .unresolved => "unresolved"
  | .failsOther => "other-error"

/-- every way the site can go (conditions about other things taken either way) -/
def siteVerdicts (site : Site) : List Verdict :=
  let form := site.2.2.1
  if form = "tail" then [.handsOn]
  else if form = "assign" || form = "if-init" then verdictsC (failed true) site.2.2.2
  else [.swallows]

/-- the caller fails whichever way it goes: with the reader's error, or (a write of the values read
    before failed first) with that other error -/
def siteFails (site : Site) : Bool :=
  (siteVerdicts site).all (fun v => v == .handsOn || v == .failsOther)

/-- the call is made on the value reader of a page that is already in memory (`x := page.Values()` in
    the same function): loaded, verified and decoded before; it ends with io.EOF and nothing else -/
def inMemory (i : Nat) : Bool :=
  match rowReaderReceivers[i]? with
  | some (_, _, src) => src == "page-values"
  | none => false

/-- **row_reader_callers_hand_the_error_on**: at every call site of a value / row reader in the
    library, a failure that is neither nil nor io.EOF and came with nothing delivered makes the caller
    fail — it returns the error (possibly wrapped; after leaving its loop; after keeping it in a
    field), or the error of a write that failed first — whatever the conditions about other things
    are; the only exceptions read the value reader of a page that is already in memory, and they are
    exactly the two bounds / bounding-box scans (functions without an error result). 34 sites. -/
theorem row_reader_callers_hand_the_error_on :
    (List.range rowReaderCalls.length).all (fun i =>
      match rowReaderCalls[i]? with
      | some site => siteFails site || inMemory i
      | none => false) = true ∧
    rowReaderCalls.length = 34 ∧ rowReaderReceivers.length = 34 ∧
    (rowReaderCalls.zip rowReaderReceivers).all (fun p => p.1.1 == p.2.1) = true ∧
    ((List.range rowReaderCalls.length).filter (fun i =>
      match rowReaderCalls[i]? with
      | some site => !siteFails site
      | none => true)).map (fun i => (rowReaderReceivers[i]?.map (·.1)).getD "") =
      ["decimalPage.Bounds", "geospatialBBoxAccumulator.accumulatePage"] := by decide

/-- the sites whose outcome depends on a condition about something else, and both ways they can go -/
theorem row_reader_forks_known :
    (rowReaderCalls.filter (fun s => (siteVerdicts s).length > 1)).map
        (fun s => (s.1, (siteVerdicts s).map verdictName)) =
      [("convertedValueReader.ReadValues", ["other-error", "hands-on"]),
       ("copyColumnValues", ["other-error", "hands-on"])] := by decide

/-- the verdict of every site (first branch taken), pinned: a site turning from handing the error on
    to anything else, a new caller, or a vanished one breaks this obligation -/
def siteVerdict (site : Site) : String :=
  let form := site.2.2.1
  if form = "tail" then "hands-on"
  else if form = "assign" || form = "if-init" then verdictName (verdict (failed true) site.2.2.2)
  else form

theorem row_reader_verdicts :
    rowReaderCalls.map (fun s => (s.1, s.2.1, siteVerdict s)) = [
      ("GenericReader.ReadRows", "ReadRows", "hands-on"),
      ("GenericReader.readRows", "ReadRows", "hands-on"),
      ("PrintRowGroup", "ReadRows", "hands-on"),
      ("Reader.Read", "ReadRows", "hands-on"),
      ("Reader.ReadRows", "ReadRows", "hands-on"),
      ("bufferedRowReader.read", "ReadRows", "hands-on"),
      ("bufferedRowReader.read", "ReadRows", "hands-on"),
      ("columnChunkValueReader.ReadValues", "ReadValues", "hands-on"),
      ("concatenatingRows.ReadRows", "ReadRows", "hands-on"),
      ("concatenatingRowsWrapper.ReadRows", "ReadRows", "hands-on"),
      ("concatenatingRowsWrapper.SeekToRow", "ReadRows", "hands-on"),
      ("convertedRows.ReadRows", "ReadRows", "hands-on"),
      ("convertedValueReader.ReadValues", "ReadValues", "unresolved"),
      ("copyColumnValues", "ReadValues", "unresolved"),
      ("copyRows", "ReadRows", "hands-on"),
      ("copyValues", "ReadValues", "hands-on"),
      ("decimalPage.Bounds", "ReadValues", "swallows"),
      ("dedupeRowReader.ReadRows", "ReadRows", "hands-on"),
      ("filterRowReader.ReadRows", "ReadRows", "hands-on"),
      ("forwardRowSeeker.ReadRows", "ReadRows", "hands-on"),
      ("geospatialBBoxAccumulator.accumulatePage", "ReadValues", "swallows"),
      ("mergedRowGroupRows.ReadRows", "ReadRows", "hands-on"),
      ("mergedRowGroupRows.ReadRows", "ReadRows", "hands-on"),
      ("missingPageValues.readWithAdjacent", "ReadValues", "hands-on"),
      ("optionalPageValues.ReadValues", "ReadValues", "hands-on"),
      ("printPage", "ReadValues", "hands-on"),
      ("readRowsFuncOfLeaf", "ReadValues", "hands-on"),
      ("readRowsFuncOfLeaf", "ReadValues", "hands-on"),
      ("reader.ReadRows", "ReadRows", "hands-on"),
      ("repeatedPageValues.ReadValues", "ReadValues", "hands-on"),
      ("rowGroupRows.ReadRows", "ReadValues", "hands-on"),
      ("scanRowReader.ReadRows", "ReadRows", "hands-on"),
      ("transformRowReader.ReadRows", "ReadRows", "hands-on"),
      ("variantLeafReader.extractBooleans", "ReadValues", "hands-on")] := by decide

/-! ## the readers that REMEMBER a failed read (family `readerstate`)

`FilePages.desync` (mirror: `Seek.St.lost`, set by a failed `ReadPage` only and consumed by the next
`SeekToRow` only — `Props.C13.corrupted_stays_reported` rests on it) and `rowGroupRows.err` (mirror:
`RowsState.St.err`). -/

/-- the error of `ReadValues` is kept in exactly one field, `rowGroupRows.err` (and returned at once
    as well: `row_reader_verdicts`) -/
theorem error_stores_known :
    readerErrorStores = [("rowGroupRows.ReadRows", "ReadValues", "r.err")] := by decide

/-- **reader_error_state_as_mirrored**: every write and read of the two fields, and every call on a
    column reader in `rowGroupRows`, with the conditions around it, is what the mirrors transliterate:
    `desync` is set under `err != nil && err != io.EOF` in `ReadPage` and nowhere else, cleared only by
    `SeekToRow` when it was set (and by init / Close) — seeded/C13-4a (`f.desync = err != nil && …`:
    a successful read clears it) changes the second row; `r.err` is set by the failing `ReadValues`
    branch of `ReadRows`, returned by the next `ReadRows`, and cleared only by `Reset` and by the
    branch of `SeekToRow` that repositions — and in both the column readers are repositioned under
    the SAME conditions as the field is cleared — seeded/C13-4b (`if r.rowIndex > 0 { …Reset() }`) puts
    a guard on the `Reset` row of `columnRepositions` that the `r.err = nil` row does not have. -/
theorem reader_error_state_as_mirrored :
    stateWrites = [
      ("FilePages.Close", "f.desync", "false", []),
      ("FilePages.ReadPage", "f.desync", "true", ["err != nil && err != io.EOF"]),
      ("FilePages.SeekToRow", "f.desync", "false", ["desync"]),
      ("FilePages.init", "f.desync", "false", []),
      ("rowGroupRows.ReadRows", "r.err", "err", ["c.offset == c.length", "n == 0"]),
      ("rowGroupRows.Reset", "r.err", "nil", []),
      ("rowGroupRows.SeekToRow", "r.err", "nil", ["rowIndex != r.rowIndex || r.err != nil"])] ∧
    stateReads = [
      ("FilePages.SeekToRow", "desync := f.desync"),
      ("rowGroupRows.ReadRows", "if r.err != nil"),
      ("rowGroupRows.ReadRows", "return 0, r.err"),
      ("rowGroupRows.SeekToRow", "if rowIndex != r.rowIndex || r.err != nil")] ∧
    columnRepositions = [
      ("rowGroupRows.Close", "Close", []),
      ("rowGroupRows.ReadRows", "ReadValues", ["c.offset == c.length"]),
      ("rowGroupRows.Reset", "Reset", []),
      ("rowGroupRows.SeekToRow", "SeekToRow", ["rowIndex != r.rowIndex || r.err != nil"])] := by decide

/-- wherever `r.err` is cleared, the column readers are repositioned under the same conditions
    (stated on the extracted facts, independent of the pinned texts) -/
theorem error_cleared_only_with_reposition :
    (stateWrites.filter (fun w => w.2.1 == "r.err" && w.2.2.1 == "nil")).all (fun w =>
      columnRepositions.any (fun c => c.1 == w.1 && (c.2.1 == "Reset" || c.2.1 == "SeekToRow") && c.2.2 == w.2.2.2)) = true ∧
    (stateWrites.filter (fun w => w.2.1 == "r.err" && w.2.2.1 == "nil")).length = 2 := by decide

end PqModel.Props.FactsCheckC13
