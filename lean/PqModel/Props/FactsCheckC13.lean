import PqModel.Generated.Facts
import PqModel.PageLoad

/-! # C13 — expectations about the facts `tools/factgen` extracts from file.go / writer.go

`Generated/Facts.lean` is rewritten from the source on every `./check` run; the theorems below are
`decide`d against what the code says *now*. They tie the hand-written mirror (`PageLoad.lean`) to the
source: which function loads a page body on which path, whether it compares checksums, and that the
comparison is skipped for a zero CRC.

After the repair of F4 (`FilePages.readDictionary` verifying, e.g. by loading through `readPage`):
`allowUnverified_not_stale` and `mirror_matches_code` stop building — then (1) empty
`allowUnverified`, (2) set `PageLoad.current := { dictLoaderVerifies := true }`, (3) delete
`Props.C13.F4_dictionary_loader_accepts_anything` / `F4_witness` (the negation no longer holds) and
the `dict-page-crc-unverified-*` known findings. `loaders_verify` then states that *every* loader
verifies. A NEW loader that forgets the comparison makes `loaders_verify` fail in either state. -/
namespace PqModel.Props.FactsCheckC13
open PqModel.Generated.Facts PqModel.PageLoad

/-- known unverified page loaders (finding F4). Must be empty after the repair. -/
def allowUnverified : List String := ["FilePages.readDictionary"]

/-- every function of file.go that fills a page buffer from the reader compares the checksum before
    it returns successfully — except the explicitly allowed known finding -/
theorem loaders_verify :
    (pageLoaders.filter (fun l => !allowUnverified.contains l.1)).all (·.2) = true := by decide

/-- the allow-list only names loaders that exist and really do not verify (no stale excuses) -/
theorem allowUnverified_not_stale :
    allowUnverified.all (fun n => pageLoaders.lookup n == some false) = true := by decide

/-- the mirror's path → loader table names extracted loaders, and its `verifies` agrees with the code -/
theorem mirror_matches_code :
    Path.all.all (fun p => pageLoaders.lookup p.loader == some (verifies current p)) = true := by decide

/-- `Path.all` really lists every path (so the theorem above is about all of them) -/
theorem path_all_complete : ∀ p : Path, p ∈ Path.all := by intro p; cases p <;> decide

/-- every verifying loader skips the comparison when the header CRC is zero — the `h.crc != 0` test of
    the mirror `readPage` (finding F8) -/
theorem zero_crc_guard_mirrored :
    pageLoaderZeroGuard = (pageLoaders.filter (·.2)).map (fun l => (l.1, true)) := by decide

/-- no other function of file.go reads bytes from the file into a buffer: the remaining read sites are
    the bloom filter prefetch, the generic ReadAt wrappers (footer, indexes) and the encrypted-module
    envelope (authenticated by AES-GCM, outside this property) -/
theorem other_read_sites_known :
    otherReadSites.all (fun s => [("OpenFile", "bloomData"), ("optimisticFileReaderAt.ReadAt", "p"),
      ("readAt", "p"), ("readDecryptedEnvelopeFrom", "envelope[4:]"),
      ("readDecryptedEnvelopeFrom", "lenBuf[:]")].contains s) = true := by decide

/-- writer side: both page kinds get `CRC = int32(crc32(rep ‖ def ‖ page))` (what `writeHeader` and
    `Props.C13.writer_crc_is_body_crc` assume), stored in an `optional` thrift i32 of Go type `int32`
    (a zero value is omitted: finding F8) -/
theorem writer_side_as_modelled :
    crcWriteSites = [("ColumnWriter.writeDataPage", "c.header.page.CRC", "int32(buf.crc32())"),
                     ("ColumnWriter.writeDictionaryPage", "c.header.dict.CRC", "int32(buf.crc32())")] ∧
    crcWriteCovers.map (·.2) = ["wb.repetitions", "wb.definitions", "wb.page"] ∧
    pageHeaderCrcField = ("int32", "thrift:\"4,optional\"") := by decide

end PqModel.Props.FactsCheckC13
