import PqModel.Generated.Facts
import PqModel.PageLoad

/-! # C13 — expectations about the facts `tools/factgen` extracts from file.go / writer.go

`Generated/Facts.lean` is rewritten from the source on every `./check` run; the theorems below are
`decide`d against what the code says *now*. They tie the hand-written mirror (`PageLoad.lean`) to the
source: through which function each path asks for a page body, which function fills the buffer,
whether it compares checksums, and that the comparison is skipped for a zero CRC.

State after `5000be7` (repair of F4): `FilePages.readDictionary` obtains the body from
`FilePages.readPage`, which is the only function of file.go that fills a page buffer from the reader;
the allow-list of unverified loaders is EMPTY. A loader that forgets the comparison (a new one, or
`readDictionary` going back to a bare `io.ReadFull`) makes `loaders_verify` fail; a path of the mirror
that no longer reaches its loader makes `mirror_matches_code` fail. -/
namespace PqModel.Props.FactsCheckC13
open PqModel.Generated.Facts PqModel.PageLoad

/-- known unverified page loaders: none (F4 was the only entry; repaired by 5000be7) -/
def allowUnverified : List String := []

/-- every function of file.go that fills a page buffer from the reader compares the checksum before
    it returns successfully — no exceptions; and there is such a function (not vacuous) -/
theorem loaders_verify :
    (pageLoaders.filter (fun l => !allowUnverified.contains l.1)).all (·.2) = true ∧
    pageLoaders.lookup "FilePages.readPage" = some true := by decide

/-- the allow-list only names loaders that exist and really do not verify (no stale excuses) -/
theorem allowUnverified_not_stale :
    allowUnverified.all (fun n => pageLoaders.lookup n == some false) = true := by decide

/-- every path of the mirror asks for the page body in a function that calls the loader the mirror
    names, that loader is an extracted page loader, and the mirror's `verifies` agrees with the code -/
theorem mirror_matches_code :
    Path.all.all (fun p => pageLoaderCalls.contains (p.entry, p.loader) &&
      pageLoaders.lookup p.loader == some (verifies current p)) = true := by decide

/-- no function of file.go other than the entries of the mirror obtains a body from a page loader -/
theorem loader_callers_known :
    pageLoaderCalls.all (fun c => (Path.all.map fun p => (p.entry, p.loader)).contains c) = true := by
  decide

/-- `Path.all` really lists every path (so the theorems above are about all of them) -/
theorem path_all_complete : ∀ p : Path, p ∈ Path.all := by intro p; cases p <;> decide

/-- every verifying loader skips the comparison when the header CRC is zero — the `h.crc != 0` test of
    the mirror `readPage` (finding F8) -/
theorem zero_crc_guard_mirrored :
    pageLoaderZeroGuard = (pageLoaders.filter (·.2)).map (fun l => (l.1, true)) := by decide

/-- the checksum comparison of the loader executes under exactly one condition, `header.CRC != 0` (the
    `h.crc != 0` test of the mirror `readPage`, finding F8) — nothing about `f.skip`, `f.desync`, an
    option or a page type. This is what `Props.C13.verify_independent_of_seek_state` rests on; it fails
    for the seeded slip `header.CRC != 0 && f.skip == 0`. -/
theorem crc_guard_is_zero_test_only :
    crcComparisonGuards = [("FilePages.readPage", ["header.CRC != 0"])] := by decide

/-- the buffer the loader reads into is the one it checksums and the one it returns, and it is
    assigned once (`page := buffers.get(...)`): the mirror `readPage` returning the compared bytes -/
theorem loader_returns_the_compared_buffer :
    loaderBufferFlow = [("FilePages.readPage", "page", "page", "page", 1)] := by decide

/-- the callers hand that very variable to the decode entry points (the only other value it ever holds
    comes from the encrypted branch, outside this property), and those pass their parameter on to
    `Column.decode*` without reassigning it: `Props.C13.decode_sees_verified_bytes` on the source -/
theorem decode_gets_the_verified_buffer :
    loaderResultFlow =
      [("FilePages.readDictionary", "FilePages.readPage", "page", ["readDictionaryPage"], ["buffers.get(len(bodyPlain))"]),
       ("FilePages.readPageInSequence", "FilePages.readPage", "data",
         ["readDataPageV1", "readDataPageV2", "readDictionaryPage"], ["f.readEncryptedPage()"])] ∧
    decodeEntryFlow =
      [("FilePages.readDataPageV1", "page", ["decodeDataPageV1"], 0),
       ("FilePages.readDataPageV2", "page", ["decodeDataPageV2"], 0),
       ("FilePages.readDictionaryPage", "page", ["decodeDictionary"], 0)] := by decide

/-- no other function of file.go reads bytes from the file into a buffer: the remaining read sites are
    the bloom filter prefetch, the generic ReadAt wrappers (footer, indexes) and the encrypted-module
    envelope (authenticated by AES-GCM, outside this property) -/
theorem other_read_sites_known :
    otherReadSites.all (fun s => [("OpenFile", "bloomData"), ("optimisticFileReaderAt.ReadAt", "p"),
      ("readAt", "p"), ("readDecryptedEnvelopeFrom", "envelope[4:]"),
      ("readDecryptedEnvelopeFrom", "lenBuf[:]")].contains s) = true := by decide

/-- writer side: both page kinds get `CRC = int32(crc32(rep ‖ def ‖ page))` (what `writeHeader` and
    `Props.C13.writer_crc_is_body_crc` assume), stored in an `optional` thrift i32 of Go type `int32`
    (a zero value is omitted: finding F8) -/
theorem writer_side_as_modelled :
    crcWriteSites = [("ColumnWriter.writeDataPage", "c.header.page.CRC", "int32(buf.crc32())"),
                     ("ColumnWriter.writeDictionaryPage", "c.header.dict.CRC", "int32(buf.crc32())")] ∧
    crcWriteCovers.map (·.2) = ["wb.repetitions", "wb.definitions", "wb.page"] ∧
    pageHeaderCrcField = ("int32", "thrift:\"4,optional\"") := by decide

end PqModel.Props.FactsCheckC13
