import PqModel.Props.C05
import PqModel.StatsDecimal
import PqModel.StatsRecord

/-! # C05, round 3: binary DECIMAL columns, the whole statistics record of a chunk, re-encoded copies, and the
    level-derived counts of nested columns.

MIRRORS: `cmpDecimal`, `orderOfDecimal`, `decimalIndex*`, `boundsDecimal`, `boundsDecimalDict` (type_decimal.go),
`writerRecord`, `reencode` (writer.go, writer_reencode.go), `pageLevelStats` (level.go, page_optional.go,
page_repeated.go, writer_statistics.go). SPEC: `decimalValue`/`decimalBinary`, `ChunkRecord.Sound`, `Entry.WF`. -/
namespace PqModel.Props.C05
open PqModel PqModel.Stats

/-! ## binary DECIMAL (BYTE_ARRAY / FIXED_LEN_BYTE_ARRAY) -/

/-- `compareDecimalByteArrays` is the comparison of the represented integers for EVERY pair of byte strings, of
    equal or different widths, the empty string (= 0) included; hence `Type.Compare`, `Less` and the `< 0` / `> 0`
    tests of the bounds loops are the spec order `decimalBinary` (which `orders_lawful` shows lawful). -/
theorem decimalCompare_spec (a b : List Nat) (ha : IsBytes a) (hb : IsBytes b) :
    cmpDecimal a b = cmpInt (decimalValue a) (decimalValue b) ∧
    decide (cmpDecimal a b < 0) = decimalBinary.lt a b ∧
    decide (cmpDecimal a b > 0) = decimalBinary.lt b a ∧
    (cmpDecimal a b = 0 ↔ decimalValue a = decimalValue b) :=
  ⟨cmpDecimal_spec a b ha hb, cmpDecimal_lt a b ha hb, cmpDecimal_gt a b ha hb, cmpDecimal_eq_zero a b ha hb⟩

-- 0xFF80 (2 bytes) = -128 = 0x80 (1 byte); 0x0100 = 256 > 0xFF = -1; the empty string is 0
example : cmpDecimal [0xff, 0x80] [0x80] = 0 ∧ cmpDecimal [0x01, 0x00] [0xff] = 1 ∧ cmpDecimal [] [0x00, 0x00] = 0 ∧
    decimalValue [0xff, 0x80] = -128 ∧ IsBytes [0xff, 0x80] := by
  refine ⟨by decide, by decide, by decide, by decide, ?_⟩
  intro x hx; simp at hx; rcases hx with h | h <;> omega

/-- `decimalPage.Bounds` (PLAIN pages) and `decimalDictionary.Bounds` (dictionary-encoded pages) return the bounds
    of the general mirror in the spec order, so `pageBounds_bound` / `fold_bound` / `skip_safe` hold for binary
    decimal pages whose values mix widths. -/
theorem pageBounds_decimal (xs : List (List Nat)) (hb : ∀ x ∈ xs, IsBytes x) :
    boundsDecimal xs = boundsNaN decimalBinary xs ∧ boundsDecimalDict xs = boundsNaN decimalBinary xs := by
  have h := boundsDecimal_eq xs hb
  have e := boundsNaN_eq_bounds decimalBinary (fun _ => rfl) xs
  exact ⟨by rw [h.1, e], by rw [h.2, e]⟩

-- -1 (one byte), 256 (two bytes), -129 (two bytes): min is FF7F, max is 0100
example : boundsDecimal [[0xff], [0x01, 0x00], [0xff, 0x7f]] = some ([0xff, 0x7f], [0x01, 0x00]) := by decide

/-- binary decimal column indexer (`decimalColumnIndexer` + `orderOfDecimalBytes`: streak of equal VALUES skipped,
    then one monotone scan; null pages stored as the empty string; never truncated): one entry per page, entries
    of non-null pages are the page bounds, and a claimed ASCENDING / DESCENDING order is true, in the order of the
    represented integers, of the mins and of the maxs of the non-null pages. -/
theorem boundaryOrder_sound_decimal (pages : List (Option (List Nat × List Nat)))
    (hb : ∀ p ∈ pairsOf pages, IsBytes p.1 ∧ IsBytes p.2) :
    (decimalIndexMins pages).length = pages.length ∧ (decimalIndexMaxs pages).length = pages.length ∧
    nonNullOf pages (decimalIndexMins pages) = nonNullMins pages ∧
    nonNullOf pages (decimalIndexMaxs pages) = nonNullMaxs pages ∧
    (decimalIndexOrder pages = 1 →
      (nonNullMins pages).Pairwise (fun a b => decimalBinary.lt b a = false) ∧
      (nonNullMaxs pages).Pairwise (fun a b => decimalBinary.lt b a = false)) ∧
    (decimalIndexOrder pages = 2 →
      (nonNullMins pages).Pairwise (fun a b => decimalBinary.lt a b = false) ∧
      (nonNullMaxs pages).Pairwise (fun a b => decimalBinary.lt a b = false)) := by
  have l1 : (decimalIndexMins pages).length = pages.length := by simp [decimalIndexMins, storedMins]
  have l2 : (decimalIndexMaxs pages).length = pages.length := by simp [decimalIndexMaxs, storedMaxs]
  have hnil : IsBytes [] := by intro x hx; simp at hx
  have hmins : ∀ x ∈ decimalIndexMins pages, IsBytes x := by
    intro x hx
    simp only [decimalIndexMins, storedMins, List.mem_map] at hx
    obtain ⟨p, hp, rfl⟩ := hx
    cases p with
    | none => exact hnil
    | some q => exact (hb q (by simp [pairsOf, List.mem_filterMap]; exact hp)).1
  have hmaxs : ∀ x ∈ decimalIndexMaxs pages, IsBytes x := by
    intro x hx
    simp only [decimalIndexMaxs, storedMaxs, List.mem_map] at hx
    obtain ⟨p, hp, rfl⟩ := hx
    cases p with
    | none => exact hnil
    | some q => exact (hb q (by simp [pairsOf, List.mem_filterMap]; exact hp)).2
  have hr := orderOfCmp_range cmpDecimal
  refine ⟨l1, l2, nonNullOf_storedMins [] pages, nonNullOf_storedMaxs [] pages, ?_, ?_⟩
  · intro hbo
    obtain ⟨heq, hpos⟩ := boundaryOrderOf_one hbo
    have h1 : orderOfDecimal (decimalIndexMins pages) = 1 := by
      rcases hr (decimalIndexMins pages) with h | h | h <;> simp only [orderOfDecimal] at * <;> omega
    have h2 : orderOfDecimal (decimalIndexMaxs pages) = 1 := by omega
    rw [← nonNullOf_storedMins [] pages, ← nonNullOf_storedMaxs [] pages]
    exact ⟨nonNullOf_pairwise _ pages _ l1 (orderOfDecimal_asc _ hmins h1),
           nonNullOf_pairwise _ pages _ l2 (orderOfDecimal_asc _ hmaxs h2)⟩
  · intro hbo
    obtain ⟨heq, hneg⟩ := boundaryOrderOf_two hbo
    have h1 : orderOfDecimal (decimalIndexMins pages) = -1 := by
      rcases hr (decimalIndexMins pages) with h | h | h <;> simp only [orderOfDecimal] at * <;> omega
    have h2 : orderOfDecimal (decimalIndexMaxs pages) = -1 := by omega
    rw [← nonNullOf_storedMins [] pages, ← nonNullOf_storedMaxs [] pages]
    exact ⟨nonNullOf_pairwise _ pages _ l1 (orderOfDecimal_desc _ hmins h1),
           nonNullOf_pairwise _ pages _ l2 (orderOfDecimal_desc _ hmaxs h2)⟩

-- pages (-2,-1) as one byte each, a null page (stored as the empty string = 0), (0 as 00 00, 256 as 01 00):
-- ASCENDING is claimed, and it is true of the non-null pages: -2 ≤ 0 and -1 ≤ 256
example : decimalIndexOrder [some ([0xfe], [0xff]), none, some ([0x00, 0x00], [0x01, 0x00])] = 1 := by decide
-- the same values compared as unsigned bytes would be descending (FE > 00 00): the decimal scan does not claim it
example : decimalIndexOrder [some ([0xfe], [0xff]), some ([0x00, 0x00], [0x01, 0x00])] = 1 ∧
    bytesIndexOrder 0 [some ([0xfe], [0xff]), some ([0x00, 0x00], [0x01, 0x00])] = 2 := by decide

/-! ## the whole record of a chunk, and re-encoded copies -/

/-- Everything the (repaired) writer records for one column chunk — column-index entries, null_counts, null_pages,
    chunk min/max, chunk null_count — is sound for the pages it wrote: `ChunkRecord.Sound` (C05 for one chunk) holds
    of `writerRecord` for every lawful order, every list of pages, every placement of nulls, null pages and
    all-NaN pages. -/
theorem writerRecord_sound {α} {o : ColOrder α} (h : Lawful o) (pages : List (List (Option α))) (offsets : List Nat) :
    (writerRecord o pages offsets).Sound o where
  aligned := by simp [writerRecord]
  nulls := by
    intro i vals hi
    simp only [writerRecord] at hi ⊢
    rw [List.getElem?_map, hi]
    simp [numNulls_eq_countP]
  nullPage := by
    intro i vals hi
    simp only [writerRecord] at hi ⊢
    rw [List.getElem?_map, hi]
    simp only [Option.map_some, Option.some.injEq]
    exact (nullCounts_exact o vals).2.2.2
  bound := by
    intro i vals mn mx hi hidx v hv hvok
    simp only [writerRecord] at hi hidx
    rw [List.getElem?_map, hi] at hidx
    simp only [Option.map_some, Option.some.injEq] at hidx
    obtain ⟨mn', mx', hb', _, _, _, _, hbd⟩ := pageBounds_bound h vals ⟨v, hv, hvok⟩
    rw [hidx] at hb'
    simp only [Option.some.injEq, Prod.mk.injEq] at hb'
    rw [hb'.1, hb'.2]
    exact hbd v hv hvok
  chunkBound := by
    intro mn mx hc vals hvals v hv hvok
    simp only [writerRecord] at hc hvals
    obtain ⟨cmn, cmx, hf, _, _, _, _, hall⟩ := fold_bound h pages ⟨vals, hvals, v, hv, hvok⟩
    rw [hc] at hf
    simp only [Option.some.injEq, Prod.mk.injEq] at hf
    rw [hf.1, hf.2]
    exact hall vals hvals v hv hvok
  chunkNullsExact := by
    simp only [writerRecord, List.map_map]
    congr 1
    apply List.map_congr_left
    intro vals _
    simp [numNulls_eq_countP]

-- a float chunk: page with a NaN and a null, an all-null page, an all-NaN page, a page with -0.0
example : (writerRecord f32 [[some 0x7fc00000#32, none, some 0x3f800000#32], [none], [some 0x7fc00000#32],
      [some 0x80000000#32]] []).index =
    [some (0x3f800000#32, 0x3f800000#32), none, some (0x7fc00000#32, 0x7fc00000#32), some (0x80000000#32, 0x80000000#32)] ∧
    (writerRecord f32 [[some 0x7fc00000#32, none, some 0x3f800000#32], [none], [some 0x7fc00000#32],
      [some 0x80000000#32]] []).chunk = some (0x80000000#32, 0x3f800000#32) := by decide

/-- Statistics of a RE-ENCODED copy (`WriteRowGroup` when the chunk cannot be spliced verbatim: column-wise
    `copyColumnValues` or the `CopyRows` fallback): whatever page cuts the destination writer chooses for the same
    value sequence, and whatever the source's own metadata said (sound or not), the new record is sound for the
    new pages, its chunk bounds bound every value of every SOURCE page, and its null count is the number of nulls
    of the source pages. -/
theorem reencode_sound {α} {o : ColOrder α} (h : Lawful o) (src : ChunkRecord α) (newPages : List (List (Option α)))
    (offsets : List Nat) (hsame : newPages.flatten = src.pages.flatten) :
    (reencode o src newPages offsets).Sound o ∧
    (∀ mn mx, (reencode o src newPages offsets).chunk = some (mn, mx) → ∀ vals ∈ src.pages, ∀ v, some v ∈ vals →
      o.ok v = true → o.lt v mn = false ∧ o.lt mx v = false) ∧
    (reencode o src newPages offsets).chunkNulls = (src.pages.map (fun vals => vals.countP (· = none))).sum ∧
    ((∃ vals ∈ src.pages, ∃ v, some v ∈ vals ∧ o.ok v = true) → ∃ mn mx, (reencode o src newPages offsets).chunk = some (mn, mx)) := by
  have hs := writerRecord_sound h newPages offsets
  refine ⟨hs, ?_, ?_, ?_⟩
  · intro mn mx hc vals hvals v hv hvok
    have hmem : some v ∈ newPages.flatten := by
      rw [hsame]; exact List.mem_flatten.mpr ⟨vals, hvals, hv⟩
    obtain ⟨vals', hvals', hv'⟩ := List.mem_flatten.mp hmem
    exact hs.chunkBound mn mx hc vals' hvals' v hv' hvok
  · have := hs.chunkNullsExact
    simp only [reencode] at this ⊢
    rw [this]
    simp only [writerRecord]
    rw [countP_none_flatten, countP_none_flatten, hsame]
  · rintro ⟨vals, hvals, v, hv, hvok⟩
    have hmem : some v ∈ newPages.flatten := by
      rw [hsame]; exact List.mem_flatten.mpr ⟨vals, hvals, hv⟩
    obtain ⟨vals', hvals', hv'⟩ := List.mem_flatten.mp hmem
    obtain ⟨cmn, cmx, hf, _⟩ := fold_bound h newPages ⟨vals', hvals', v, hv', hvok⟩
    exact ⟨cmn, cmx, hf⟩

-- source pages [3,null | 1] re-cut as [3 | null,1]: same flattening
example : ([[some 3#32], [none, some 1#32]] : List (List (Option (BitVec 32)))).flatten =
    ([[some 3#32, none], [some 1#32]] : List (List (Option (BitVec 32)))).flatten := by decide

/-- index entries may be WIDENED (what truncation of byte-array bounds does): if every entry `p` of the index is
    replaced by `f p` with `(f p).1 ≤ p.1` and `p.2 ≤ (f p).2`, the record stays sound -/
theorem widenIndex_sound {α} {o : ColOrder α} (h : Lawful o) (c : ChunkRecord α) (f : α × α → α × α)
    (hf : ∀ p : α × α, some p ∈ c.index → o.ok p.1 = true ∧ o.ok p.2 = true ∧
      o.lt p.1 (f p).1 = false ∧ o.lt (f p).2 p.2 = false)
    (hs : c.Sound o) : (widenIndex f c).Sound o where
  aligned := by simpa [widenIndex] using hs.aligned
  nulls := hs.nulls
  nullPage := by
    intro i vals hi
    have := hs.nullPage i vals hi
    simp only [widenIndex, List.getElem?_map]
    rw [← this]
    cases hc : c.index[i]? with
    | none => simp
    | some e => cases e <;> simp
  bound := by
    intro i vals mn mx hi hidx v hv hvok
    simp only [widenIndex, List.getElem?_map] at hidx
    cases hc : c.index[i]? with
    | none => rw [hc] at hidx; simp at hidx
    | some e =>
      rw [hc] at hidx
      cases e with
      | none => simp at hidx
      | some p =>
        simp only [Option.map_some, Option.some.injEq] at hidx
        obtain ⟨hp1, hp2, h1, h2⟩ := hf p (List.mem_of_getElem? hc)
        obtain ⟨b1, b2⟩ := hs.bound i vals p.1 p.2 hi hc v hv hvok
        have e1 : (f p).1 = mn := by rw [hidx]
        have e2 : (f p).2 = mx := by rw [hidx]
        rw [← e1, ← e2]
        constructor
        · cases hcc : o.lt v (f p).1 with
          | false => rfl
          | true =>
            rcases h.negtrans v p.1 (f p).1 hp1 hcc with h' | h'
            · simp [h'] at b1
            · simp [h'] at h1
        · cases hcc : o.lt (f p).2 v with
          | false => rfl
          | true =>
            rcases h.negtrans (f p).2 p.2 v hp2 hcc with h' | h'
            · simp [h'] at h2
            · simp [h'] at b2
  chunkBound := hs.chunkBound
  chunkNullsExact := hs.chunkNullsExact

/-- the byte-array column index as written: every entry truncated with `ColumnIndexSizeLimit` (`truncMinLim` /
    `truncMaxLim`, the repaired max) — the truncated record is sound whenever the untruncated one is, for every
    limit (0 = no truncation). With `writerRecord_sound` this is C05 for the byte-array index end to end. -/
theorem truncatedIndex_sound (c : ChunkRecord (List Nat)) (lim : Nat)
    (hb : ∀ p : List Nat × List Nat, some p ∈ c.index → IsBytes p.2) (hs : c.Sound Stats.bytes) :
    (widenIndex (fun p => (truncMinLim p.1 lim, truncMaxLim p.2 lim)) c).Sound Stats.bytes := by
  apply widenIndex_sound bytes_lawful c _ _ hs
  intro p hp
  refine ⟨rfl, rfl, ?_, ?_⟩
  · simp only [Stats.bytes, lexLt, truncMinLim]
    split
    · simp [truncMin_le p.1 lim]
    · simp [Trunc.lexLe_refl]
  · simp only [Stats.bytes, lexLt, truncMaxLim]
    split
    · simp [truncMax_ge p.2 lim (hb p hp)]
    · simp [Trunc.lexLe_refl]

-- the hypotheses are satisfiable: one page "zz\xff\xff\xffq", limit 3 -> entry ("zz\xff", "z{\x00")
example : (widenIndex (fun p => (truncMinLim p.1 3, truncMaxLim p.2 3))
    (writerRecord Stats.bytes [[some [122, 122, 255, 255, 255, 113]]] [])).index = [some ([122, 122, 255], [122, 123, 0])] := by
  decide

/-! ## nested columns: the counts derived from the level stream agree with each other and with the values -/

open PqModel.LevelStats in
/-- One page of an optional / repeated column as its level stream (`Entry`: definition level, repetition level,
    value iff the definition level is maximal). What the writer records — `num_values`, `null_count`
    (`countLevelsNotEqual`), `num_rows` (`countLevelsEqual(rep, 0)`), the definition/repetition level histograms and
    `unencoded_byte_array_data_bytes` — are the real counts, and they determine each other: the top definition
    bucket is the number of values present, the buckets below it sum to the null count, bucket 0 of the repetition
    histogram is the row count, both histograms sum to `num_values`. -/
theorem levelStats_exact (maxDef maxRep : Nat) (page : List (Entry (List Nat))) (hwf : ∀ e ∈ page, e.WF maxDef maxRep) :
    let s := pageLevelStats maxDef maxRep page
    s.numValues = page.length ∧
    s.numNulls = page.countP (fun e => e.val.isNone) ∧
    s.numRows = page.countP (fun e => e.rep == 0) ∧
    s.defHist.getD maxDef 0 = (page.filterMap (·.val)).length ∧
    s.defHist.getD maxDef 0 + s.numNulls = s.numValues ∧
    s.defHist.sum = s.numValues ∧ s.repHist.sum = s.numValues ∧
    s.repHist.getD 0 0 = s.numRows ∧
    (∀ l, s.defHist.getD l 0 = page.countP (fun e => e.dfn == l)) ∧
    (∀ l, s.repHist.getD l 0 = page.countP (fun e => e.rep == l)) ∧
    s.unencoded = ((page.filterMap (·.val)).map List.length).sum := by
  have hd := pageHist_spec maxDef (page.map (·.dfn)) (by
    intro x hx; obtain ⟨e, he, rfl⟩ := List.mem_map.mp hx; exact (hwf e he).1)
  have hr := pageHist_spec maxRep (page.map (·.rep)) (by
    intro x hx; obtain ⟨e, he, rfl⟩ := List.mem_map.mp hx; exact (hwf e he).2.1)
  have hc := count_dfn_eq_present maxDef maxRep page hwf
  have hcnt : ∀ (f : Entry (List Nat) → Nat) (l : Nat), (page.map f).count l = page.countP (fun e => f e == l) := by
    intro f l
    rw [List.count_eq_countP, List.countP_map]
    rfl
  simp only [pageLevelStats, countLevelsNotEqual, countLevelsEqual, List.length_map] at *
  refine ⟨trivial, by omega, hcnt _ 0, ?_, ?_, ?_, ?_, ?_, ?_, ?_, rfl⟩
  · rw [hd.2.1 maxDef]; exact hc.1
  · rw [hd.2.1 maxDef]; omega
  · exact hd.2.2
  · exact hr.2.2
  · rw [hr.2.1 0]
  · intro l; rw [hd.2.1 l]; exact hcnt _ l
  · intro l; rw [hr.2.1 l]; exact hcnt _ l

open PqModel.LevelStats in
/-- The column index of an IN-MEMORY optional / repeated chunk (`nullableColumnIndex`, column_buffer.go) is exact:
    for every well-formed level stream its `NullCount` is the number of entries without a value and its `NullPage`
    holds exactly when the page has no value at all - at every max definition level, nulls at any level below it. -/
theorem bufferIndex_exact (maxDef maxRep : Nat) (page : List (Entry (List Nat))) (hwf : ∀ e ∈ page, e.WF maxDef maxRep) :
    bufferIndexNullCount false maxDef (page.map (·.dfn)) = page.countP (fun e => e.val.isNone) ∧
    (bufferIndexNullPage false maxDef (page.map (·.dfn)) = true ↔ page.filterMap (·.val) = []) := by
  have hc := count_dfn_eq_present maxDef maxRep page hwf
  have hle : (page.map (·.dfn)).count maxDef ≤ (page.map (·.dfn)).length := List.count_le_length
  simp only [bufferIndexNullCount, bufferIndexNullPage, countLevelsNotEqual, countLevelsEqual, List.length_map,
    Bool.false_eq_true, if_false, beq_iff_eq] at *
  refine ⟨by omega, ?_⟩
  rw [← List.length_eq_zero_iff]
  omega

open PqModel.LevelStats in
/-- The slip "count the entries at definition level 0" is NOT exact: an optional leaf in an optional group
    (maxDef 2) with rows value / parent present, leaf null / parent null / parent present, leaf null has 3 nulls,
    the slip counts 1; two rows with a present parent and a null leaf are a null page, the slip says 0 nulls and
    not a null page. For maxDef 1 the two formulas coincide on well-formed streams, hence the need for nesting. -/
theorem bufferIndex_levelZero_wrong :
    bufferIndexNullCount true 2 [2, 1, 0, 1] = 1 ∧ bufferIndexNullCount false 2 [2, 1, 0, 1] = 3 ∧
    bufferIndexNullPage true 2 [1, 1] = false ∧ bufferIndexNullPage false 2 [1, 1] = true := by decide

-- a repeated optional string column, maxDef 2, maxRep 1: rows ["ab", null], [], ["c"]
example : ∀ e ∈ ([⟨2, 0, some [97, 98]⟩, ⟨1, 1, none⟩, ⟨0, 0, none⟩, ⟨2, 0, some [99]⟩] : List (LevelStats.Entry (List Nat))),
    e.WF 2 1 := by
  intro e he
  simp only [List.mem_cons, List.not_mem_nil, or_false] at he
  rcases he with rfl | rfl | rfl | rfl <;> simp [LevelStats.Entry.WF]
example : LevelStats.pageLevelStats 2 1 [⟨2, 0, some [97, 98]⟩, ⟨1, 1, none⟩, ⟨0, 0, none⟩, ⟨2, 0, some [99]⟩] =
    { numValues := 4, numNulls := 2, numRows := 3, defHist := [1, 1, 2], repHist := [3, 1], unencoded := 3 } := by decide

end PqModel.Props.C05
