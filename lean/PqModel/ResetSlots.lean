import PqModel.Reset

/-! # C17 — the row-group slots of `w.rowGroups` and what `writeRowGroup` stores in them

`Reset.lean` treats the committed row groups as a list that `Reset` empties and says of the structs
retained between `len(w.rowGroups)` and `cap(w.rowGroups)` that they are "observationally empty".
That sentence was an assumption; this file replaces it by a model. `(*writer).writeRowGroup`
(writer.go 1789-1885) REUSES such a slot when the capacity allows (`reuseRowGroup`): it appends the
column chunks to the slot's `Columns` and — for a writer without sorting configuration that is
handed a row group WITH sorting columns — it used to take the slot's `SortingColumns` slice as the
list to fill. Go distinguishes a nil slice (thrift: field absent) from an empty one (thrift: empty
list written), so what a slot holds after `Reset` can show in the footer bytes.

MIRROR functions transliterate the code (`commitAsIs` before, `commitFixed` after the repair
8f4fe5a); `specSorting` / `specEmit` are SPEC: what the property demands — the footer's row groups
are a function of the configuration and of the row groups committed since the last `Reset`. -/

namespace PqModel.ResetSlots
open PqModel.Reset (SortCol Str)

/-- a sorting column as a row group declares it (`SortingColumn` interface): leaf path, direction,
null order -/
structure RGSort where
  path : List Str
  descending : Bool
  nullsFirst : Bool
deriving DecidableEq

/-- one `format.RowGroup` of `w.rowGroups`. `sorting = none` is the nil slice. -/
structure Slot where
  columns : List Nat
  sorting : Option (List SortCol)
  nums : List Nat
deriving DecidableEq

/-- the zero `format.RowGroup` -/
def Slot.zero : Slot := ⟨[], none, []⟩

/-- `w.rowGroups` with its capacity: the live elements and the structs between len and cap -/
structure Slots where
  live : List Slot
  spare : List Slot
deriving DecidableEq

def Slots.fresh : Slots := ⟨[], []⟩

/-- what `writeRowGroup` is called with, as far as the stored row group is concerned -/
structure Commit where
  chunks : List Nat            -- rg.columnChunk (struct copies)
  rgSorting : List RGSort      -- rowGroup.SortingColumns()
  nums : List Nat              -- sizes, offsets, row count
deriving DecidableEq

/-! ## resolving the row group's sorting columns against the leaves -/

/-- MIRROR `searchSortingColumn` (row_group.go 124-135): index of the first sorting column with
this path, `len` when there is none -/
def search : List RGSort → List Str → Nat
  | [], _ => 0
  | sc :: rest, path => if path = sc.path then 0 else search rest path + 1

/-- `list[k] = v` when `k < len(list)` (the guarded store of writer.go 1804-1810) -/
def setAt {α} (v : α) : Nat → List α → List α
  | _, [] => []
  | 0, _ :: xs => v :: xs
  | k + 1, x :: xs => x :: setAt v k xs

/-- MIRROR the `forEachLeafColumnOf` loop of writer.go 1803-1811 over the leaves (in column order,
`i` = column index of the first one) -/
def fill (rgSorting : List RGSort) : Nat → List (List Str) → List SortCol → List SortCol
  | _, [], acc => acc
  | i, leaf :: rest, acc =>
    let k := search rgSorting leaf
    let acc' := match rgSorting[k]? with
      | some sc => setAt ⟨i, sc.descending, sc.nullsFirst⟩ k acc
      | none => acc
    fill rgSorting (i + 1) rest acc'

/-- SPEC: the column index of the leaf with this path -/
def leafIndex : List (List Str) → List Str → Option Nat
  | [], _ => none
  | l :: rest, p => if l = p then some 0 else (leafIndex rest p).map (· + 1)

/-- SPEC: the row group's sorting columns as the footer lists them: one entry per sorting column,
naming the leaf with that path -/
def specResolve (leaves : List (List Str)) (rgSorting : List RGSort) : List SortCol :=
  rgSorting.map (fun sc => ⟨(leafIndex leaves sc.path).getD 0, sc.descending, sc.nullsFirst⟩)

/-- SPEC: the `sorting_columns` of a committed row group: the writer's configured ones; without
configuration, the row group's own; a nil slice only when neither exists (the configured list is
`make([]format.SortingColumn, 0)` then, writer.go 1121: empty, not nil) -/
def specSorting (cfgSorting : List SortCol) (leaves : List (List Str)) (c : Commit) : Option (List SortCol) :=
  if cfgSorting.isEmpty && !c.rgSorting.isEmpty then some (specResolve leaves c.rgSorting)
  else some cfgSorting

/-! ## the two mirrors of the commit -/

/-- MIRROR writer.go 1789-1885 BEFORE the repair: the list to fill is `make(…, 0, n)` for a new
slot and the slot's own `SortingColumns` for a reused one; the guarded stores then find
`len = 0` (nothing is ever stored) -/
def sortingAsIs (cfgSorting : List SortCol) (leaves : List (List Str)) (c : Commit) (reuse : Option Slot) :
    Option (List SortCol) :=
  if cfgSorting.isEmpty && !c.rgSorting.isEmpty then
    match reuse with
    | none => some (fill c.rgSorting 0 leaves [])
    | some slot =>
      match slot.sorting with
      | none => none                       -- a nil slice stays nil: nothing is stored into it
      | some l => some (fill c.rgSorting 0 leaves l)
  else some cfgSorting

/-- MIRROR of the repaired code: always `make([]format.SortingColumn, len(rowGroupSortingColumns))` -/
def sortingFixed (cfgSorting : List SortCol) (leaves : List (List Str)) (c : Commit) (_reuse : Option Slot) :
    Option (List SortCol) :=
  if cfgSorting.isEmpty && !c.rgSorting.isEmpty then
    some (fill c.rgSorting 0 leaves (List.replicate c.rgSorting.length SortCol.zero))
  else some cfgSorting

/-- MIRROR the tail of `writeRowGroup`: the slot at index `len` is reused when the capacity allows
(`columns = append(reuseRowGroup.Columns, rg.columnChunk...)`, every other field assigned),
otherwise a new struct is appended -/
def commitWith (sorting : List SortCol → List (List Str) → Commit → Option Slot → Option (List SortCol))
    (cfgSorting : List SortCol) (leaves : List (List Str)) (s : Slots) (c : Commit) : Slots :=
  match s.spare with
  | [] => { s with live := s.live ++ [⟨c.chunks, sorting cfgSorting leaves c none, c.nums⟩] }
  | slot :: rest =>
    { live := s.live ++ [⟨slot.columns ++ c.chunks, sorting cfgSorting leaves c (some slot), c.nums⟩]
      spare := rest }

/-- MIRROR `(*writer).reset` (writer.go 1241, 1254): `clear(w.rowGroups)`; `w.rowGroups[:0]` -/
def reset (s : Slots) : Slots := ⟨[], s.live.map (fun _ => Slot.zero) ++ s.spare⟩

inductive Op
  | commit (c : Commit)
  | reset
deriving DecidableEq

def stepWith (sorting : List SortCol → List (List Str) → Commit → Option Slot → Option (List SortCol))
    (cfgSorting : List SortCol) (leaves : List (List Str)) (s : Slots) : Op → Slots
  | .commit c => commitWith sorting cfgSorting leaves s c
  | .reset => reset s

def runWith (sorting : List SortCol → List (List Str) → Commit → Option Slot → Option (List SortCol))
    (cfgSorting : List SortCol) (leaves : List (List Str)) (ops : List Op) (s : Slots) : Slots :=
  ops.foldl (stepWith sorting cfgSorting leaves) s

/-- what the footer lists: the live row groups -/
def emit (s : Slots) : List Slot := s.live

/-- SPEC: the footer's row groups as a function of the configuration and the commits alone -/
def specEmit (resolve : List (List Str) → List RGSort → List SortCol)
    (cfgSorting : List SortCol) (leaves : List (List Str)) (cs : List Commit) : List Slot :=
  cs.map (fun c => ⟨c.chunks,
    if cfgSorting.isEmpty && !c.rgSorting.isEmpty then some (resolve leaves c.rgSorting) else some cfgSorting, c.nums⟩)

/-! ## lemmas -/

/-- every struct between len and cap is the zero row group -/
def SpareZero (s : Slots) : Prop := ∀ x ∈ s.spare, x = Slot.zero

theorem spareZero_fresh : SpareZero Slots.fresh := by
  intro x hx; cases hx

theorem spareZero_reset (s : Slots) (h : SpareZero s) : SpareZero (reset s) := by
  intro x hx
  simp only [reset, List.mem_append, List.mem_map] at hx
  rcases hx with ⟨_, _, rfl⟩ | hx
  · rfl
  · exact h x hx

theorem spareZero_commit (sorting) (cfg : List SortCol) (leaves : List (List Str)) (s : Slots) (c : Commit)
    (h : SpareZero s) : SpareZero (commitWith sorting cfg leaves s c) := by
  unfold commitWith
  split
  · rename_i he
    intro x hx
    simp only [he] at hx
    cases hx
  · rename_i slot rest he
    intro x hx
    exact h x (by rw [he]; exact List.mem_cons_of_mem _ hx)

theorem spareZero_step (sorting) (cfg : List SortCol) (leaves : List (List Str)) (s : Slots) (op : Op)
    (h : SpareZero s) : SpareZero (stepWith sorting cfg leaves s op) := by
  cases op with
  | commit c => exact spareZero_commit sorting cfg leaves s c h
  | reset => exact spareZero_reset s h

/-- the filled list of the repaired code -/
def resolveFixed (leaves : List (List Str)) (rgSorting : List RGSort) : List SortCol :=
  fill rgSorting 0 leaves (List.replicate rgSorting.length SortCol.zero)

/-- one repaired commit on a state whose spare structs are zero appends the spec's row group -/
theorem commitFixed_live (cfg : List SortCol) (leaves : List (List Str)) (s : Slots) (c : Commit)
    (h : SpareZero s) :
    (commitWith sortingFixed cfg leaves s c).live = s.live ++ specEmit resolveFixed cfg leaves [c] := by
  unfold commitWith
  split
  · simp [specEmit, sortingFixed, resolveFixed]
  · rename_i slot rest he
    have hz : slot = Slot.zero := h slot (by rw [he]; exact List.mem_cons_self)
    subst hz
    simp [specEmit, sortingFixed, resolveFixed, Slot.zero]

theorem specEmit_append (r) (cfg : List SortCol) (leaves : List (List Str)) (a b : List Commit) :
    specEmit r cfg leaves (a ++ b) = specEmit r cfg leaves a ++ specEmit r cfg leaves b := by
  simp [specEmit]

/-- the commits of a history without resets -/
def commitsOf : List Op → List Commit
  | [] => []
  | .commit c :: rest => c :: commitsOf rest
  | .reset :: rest => commitsOf rest

/-- histories made of commits only, on a state with zero spare structs -/
theorem run_commits (cfg : List SortCol) (leaves : List (List Str)) (ops : List Op)
    (hc : ∀ op ∈ ops, op ≠ .reset) (s : Slots) (h : SpareZero s) :
    (runWith sortingFixed cfg leaves ops s).live = s.live ++ specEmit resolveFixed cfg leaves (commitsOf ops) := by
  induction ops generalizing s with
  | nil => simp [runWith, commitsOf, specEmit]
  | cons op ops ih =>
    cases op with
    | reset => exact absurd rfl (hc .reset List.mem_cons_self)
    | commit c =>
      have ih' := ih (fun o ho => hc o (List.mem_cons_of_mem _ ho))
        (commitWith sortingFixed cfg leaves s c) (spareZero_commit _ cfg leaves s c h)
      simp only [runWith, List.foldl_cons, stepWith] at ih' ⊢
      rw [ih', commitFixed_live cfg leaves s c h, commitsOf, List.append_assoc, ← specEmit_append]
      rfl

theorem spareZero_run (sorting) (cfg : List SortCol) (leaves : List (List Str)) (ops : List Op) (s : Slots)
    (h : SpareZero s) : SpareZero (runWith sorting cfg leaves ops s) := by
  induction ops generalizing s with
  | nil => exact h
  | cons op ops ih => exact ih _ (spareZero_step sorting cfg leaves s op h)

/-! ## the filled list is the spec's list -/

theorem setAt_length {α} (v : α) (k : Nat) (l : List α) : (setAt v k l).length = l.length := by
  induction l generalizing k with
  | nil => cases k <;> rfl
  | cons x xs ih => cases k <;> simp [setAt, ih]

theorem setAt_get_self {α} (v : α) (k : Nat) (l : List α) (h : k < l.length) : (setAt v k l)[k]? = some v := by
  induction l generalizing k with
  | nil => simp at h
  | cons x xs ih =>
    cases k with
    | zero => simp [setAt]
    | succ k => simp only [setAt, List.getElem?_cons_succ]; exact ih k (by simpa using h)

theorem setAt_get_ne {α} (v : α) (k j : Nat) (l : List α) (h : j ≠ k) : (setAt v k l)[j]? = l[j]? := by
  induction l generalizing k j with
  | nil => cases k <;> rfl
  | cons x xs ih =>
    cases k with
    | zero =>
      cases j with
      | zero => exact absurd rfl h
      | succ j => simp [setAt]
    | succ k =>
      cases j with
      | zero => simp [setAt]
      | succ j => simp only [setAt, List.getElem?_cons_succ]; exact ih k j (by omega)

/-- what `search` finds has the path searched for -/
theorem search_path (S : List RGSort) (p : List Str) (sc : RGSort) (h : S[search S p]? = some sc) : sc.path = p := by
  induction S with
  | nil => simp at h
  | cons a rest ih =>
    unfold search at h
    split at h
    · rename_i hp
      simp at h
      rw [← h]; exact hp.symm
    · simp only [List.getElem?_cons_succ] at h
      exact ih h

/-- with pairwise distinct paths, `search` finds the position of the column with that path -/
theorem search_eq (S : List RGSort) (hS : (S.map (·.path)).Nodup) (k : Nat) (sc : RGSort) (h : S[k]? = some sc) :
    search S sc.path = k := by
  induction S generalizing k with
  | nil => simp at h
  | cons a rest ih =>
    simp only [List.map_cons, List.nodup_cons] at hS
    cases k with
    | zero =>
      simp at h
      simp [search, h]
    | succ k =>
      simp only [List.getElem?_cons_succ] at h
      have hne : sc.path ≠ a.path := by
        intro e
        apply hS.1
        rw [← e]
        exact List.mem_map.mpr ⟨sc, List.mem_of_getElem? h, rfl⟩
      simp [search, hne, ih hS.2 k h]

theorem leafIndex_none (leaves : List (List Str)) (p : List Str) (h : p ∉ leaves) : leafIndex leaves p = none := by
  induction leaves with
  | nil => rfl
  | cons l rest ih =>
    simp only [List.mem_cons, not_or] at h
    have : ¬ l = p := fun e => h.1 e.symm
    simp [leafIndex, this, ih h.2]

theorem leafIndex_some (leaves : List (List Str)) (p : List Str) (h : p ∈ leaves) : ∃ j, leafIndex leaves p = some j := by
  induction leaves with
  | nil => cases h
  | cons l rest ih =>
    by_cases hp : l = p
    · exact ⟨0, by simp [leafIndex, hp]⟩
    · rcases List.mem_cons.mp h with e | e
      · exact absurd e.symm hp
      · rcases ih e with ⟨j, hj⟩
        exact ⟨j + 1, by simp [leafIndex, hp, hj]⟩

theorem fill_length (S : List RGSort) (i : Nat) (leaves : List (List Str)) (acc : List SortCol) :
    (fill S i leaves acc).length = acc.length := by
  induction leaves generalizing i acc with
  | nil => rfl
  | cons leaf rest ih =>
    simp only [fill]
    rw [ih]
    split <;> simp [setAt_length]

/-- entry `k` of the filled list: the column index of the leaf carrying the k-th sorting column's
path (counted from `i`), with that column's direction and null order; untouched when no leaf has
the path -/
theorem fill_get (S : List RGSort) (hS : (S.map (·.path)).Nodup) (k : Nat) (sc : RGSort) (hk : S[k]? = some sc)
    (leaves : List (List Str)) (hl : leaves.Nodup) (i : Nat) (acc : List SortCol) (ha : acc.length = S.length) :
    (fill S i leaves acc)[k]? =
      match leafIndex leaves sc.path with
      | some j => some ⟨i + j, sc.descending, sc.nullsFirst⟩
      | none => acc[k]? := by
  induction leaves generalizing i acc with
  | nil => rfl
  | cons leaf rest ih =>
    rw [List.nodup_cons] at hl
    have hkl : k < S.length := by
      rcases List.getElem?_eq_some_iff.mp hk with ⟨h, _⟩; exact h
    simp only [fill]
    by_cases hp : leaf = sc.path
    · -- this leaf carries the path: the store lands at k, no later leaf touches k
      subst hp
      have hs : search S sc.path = k := search_eq S hS k sc hk
      have hnone : leafIndex rest sc.path = none := leafIndex_none rest sc.path hl.1
      have hlen : (match S[search S sc.path]? with
          | some sc' => setAt (⟨i, sc'.descending, sc'.nullsFirst⟩ : SortCol) (search S sc.path) acc
          | none => acc).length = S.length := by
        split <;> simp [setAt_length, ha]
      rw [ih hl.2 (i + 1) _ hlen, hnone]
      simp only [leafIndex, if_true, Nat.add_zero]
      rw [hs, hk]
      exact setAt_get_self _ k acc (by omega)
    · have hstep : (match S[search S leaf]? with
          | some sc' => setAt (⟨i, sc'.descending, sc'.nullsFirst⟩ : SortCol) (search S leaf) acc
          | none => acc)[k]? = acc[k]? := by
        split
        · rename_i sc' hsc'
          have hpath := search_path S leaf sc' hsc'
          have hne : k ≠ search S leaf := by
            intro e
            rw [← e, hk] at hsc'
            simp at hsc'
            exact hp (by rw [hsc']; exact hpath.symm)
          exact setAt_get_ne _ _ _ _ hne
        · rfl
      have hlen : (match S[search S leaf]? with
          | some sc' => setAt (⟨i, sc'.descending, sc'.nullsFirst⟩ : SortCol) (search S leaf) acc
          | none => acc).length = S.length := by
        split <;> simp [setAt_length, ha]
      rw [ih hl.2 (i + 1) _ hlen]
      simp only [leafIndex, hp, if_false]
      cases hj : leafIndex rest sc.path with
      | none => simpa using hstep
      | some j => simp [Nat.add_assoc, Nat.add_comm 1 j]

/-- **resolve_spec**: for a row group whose sorting columns name pairwise distinct leaves of the
schema, the list the repaired `writeRowGroup` stores is the spec's: one entry per sorting column,
in the row group's order, carrying the leaf's column index, the direction and the null order. -/
theorem resolve_spec (leaves : List (List Str)) (hl : leaves.Nodup) (S : List RGSort)
    (hS : (S.map (·.path)).Nodup) (hin : ∀ sc ∈ S, sc.path ∈ leaves) :
    resolveFixed leaves S = specResolve leaves S := by
  apply List.ext_getElem?
  intro k
  by_cases hk : k < S.length
  · have hsk : S[k]? = some S[k] := List.getElem?_eq_getElem hk
    rw [resolveFixed, fill_get S hS k S[k] hsk leaves hl 0 _ (by simp)]
    have hmem : S[k].path ∈ leaves := hin _ (List.getElem_mem hk)
    cases hj : leafIndex leaves S[k].path with
    | none =>
      rcases leafIndex_some leaves _ hmem with ⟨j, hj'⟩
      rw [hj] at hj'
      cases hj'
    | some j => simp [specResolve, hsk, hj]
  · have h1 : (resolveFixed leaves S).length = S.length := by simp [resolveFixed, fill_length]
    have h2 : (specResolve leaves S).length = S.length := by simp [specResolve]
    rw [List.getElem?_eq_none (by omega), List.getElem?_eq_none (by omega)]

end PqModel.ResetSlots
