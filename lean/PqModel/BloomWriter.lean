import PqModel.Bloom
import PqModel.CopyPath

/-! # How the writer builds, sizes, stores and copies a column chunk's bloom filter (C07)

MIRROR of
* `bloom/filter.go:35-39` `NumSplitBlocksOf`, `bloom.go:205-207` `splitBlockFilter.Size`;
* `writer.go` `writeDataPage` (the `page.Dictionary() == nil && len(c.filter) > 0` insertion),
  `flushFilterPages` (as repaired by fix d2487f3, and as it was before), `resizeBloomFilter`,
  `writePageToFilter`;
* `writer.go` `writeBloomFilter` (gzip or plain storage) and `bloom.go:82-127` `newBloomFilter` +
  `FileBloomFilter.Check` (uncompressed section / lazily decompressed gzip);
* the verbatim copy of the filter section in `writeRowGroup` (`writer.go`, "Columns copied verbatim
  carry the source's bloom filter as a raw byte range").

The level of detail is the *value list of each page*: what a page's `Data()` holds is `pageData`
(Bloom.lean); encoding/decoding of pages is not modelled (re-reading a page yields the values that
were written: C04's subject). A filter under construction is `(size in bytes, hashes inserted)`. -/
namespace PqModel.BloomWriter
open PqModel.XxHash PqModel.Bloom

/-! ## sizing -/

/-- SPEC-level arithmetic of `NumSplitBlocksOf` (no wraparound) -/
def numSplitBlocksOf (numValues bitsPerValue : Nat) : Nat :=
  ((numValues * bitsPerValue + 7) / 8 + 31) / 32

/-- MIRROR `NumSplitBlocksOf`, bloom/filter.go:35-39, in Go's 64-bit `uint` arithmetic -/
def numSplitBlocksOfGo (numValues bitsPerValue : UInt64) : UInt64 :=
  let numBytes := (numValues * bitsPerValue + 7) / 8
  (numBytes + 31) / 32

/-- MIRROR `splitBlockFilter.Size`, bloom.go:205-207 (bytes) -/
def filterSize (bitsPerValue numValues : Nat) : Nat := 32 * numSplitBlocksOf numValues bitsPerValue

theorem numSplitBlocksOfGo_eq (n b : Nat) (h : n * b + 7 < 2 ^ 64) :
    (numSplitBlocksOfGo (UInt64.ofNat n) (UInt64.ofNat b)).toNat = numSplitBlocksOf n b := by
  unfold numSplitBlocksOfGo numSplitBlocksOf
  have hn : n < 2 ^ 64 ∨ b = 0 := by
    by_cases hb : b = 0
    · exact Or.inr hb
    · left
      have : n ≤ n * b := Nat.le_mul_of_pos_right n (Nat.pos_of_ne_zero hb)
      omega
  have hb : b < 2 ^ 64 ∨ n = 0 := by
    by_cases hn0 : n = 0
    · exact Or.inr hn0
    · left
      have : b ≤ n * b := Nat.le_mul_of_pos_left b (Nat.pos_of_ne_zero hn0)
      omega
  have hmul : ((UInt64.ofNat n) * (UInt64.ofNat b)).toNat = n * b := by
    rw [UInt64.toNat_mul, UInt64.toNat_ofNat', UInt64.toNat_ofNat']
    rcases hn with hn | hb0
    · rcases hb with hb | hn0
      · rw [Nat.mod_eq_of_lt hn, Nat.mod_eq_of_lt hb, Nat.mod_eq_of_lt (by omega)]
      · subst hn0; simp
    · subst hb0; simp
  have h7 : ((UInt64.ofNat n) * (UInt64.ofNat b) + 7).toNat = n * b + 7 := by
    rw [UInt64.toNat_add, hmul]
    exact Nat.mod_eq_of_lt h
  have hdiv : (((UInt64.ofNat n) * (UInt64.ofNat b) + 7) / 8).toNat = (n * b + 7) / 8 := by
    rw [UInt64.toNat_div, h7]; rfl
  have h31 : ((((UInt64.ofNat n) * (UInt64.ofNat b) + 7) / 8) + 31).toNat = (n * b + 7) / 8 + 31 := by
    rw [UInt64.toNat_add, hdiv]
    apply Nat.mod_eq_of_lt
    have : (n * b + 7) / 8 < 2 ^ 61 := by omega
    show (n * b + 7) / 8 + 31 < 2 ^ 64
    omega
  rw [UInt64.toNat_div, h31]; rfl

/-- a filter for at least one value at at least one bit per value has at least one block -/
theorem numSplitBlocksOf_pos (n b : Nat) (hn : 1 ≤ n) (hb : 1 ≤ b) : 1 ≤ numSplitBlocksOf n b := by
  unfold numSplitBlocksOf
  have : 1 ≤ n * b := Nat.mul_le_mul hn hb
  omega

theorem numSplitBlocksOf_mono (n n' b b' : Nat) (hn : n ≤ n') (hb : b ≤ b') :
    numSplitBlocksOf n b ≤ numSplitBlocksOf n' b' := by
  unfold numSplitBlocksOf
  have : n * b ≤ n' * b' := Nat.mul_le_mul hn hb
  omega

/-- the filter holds at least `bitsPerValue` bits per value -/
theorem numSplitBlocksOf_capacity (n b : Nat) : n * b ≤ 256 * numSplitBlocksOf n b := by
  unfold numSplitBlocksOf
  omega

theorem filterSize_eq_copyPath (b n : Nat) : filterSize b n = PqModel.CopyPath.bloomSize b n := rfl

/-! ## the filter build strategies of the column writer -/

/-- one data page as the column writer sees it -/
structure WPage where
  /-- the non-null values of the page, in order -/
  values : List Value
  /-- `page.Dictionary() != nil`: the page holds dictionary indexes -/
  indexed : Bool
  deriving Repr

/-- what `flushFilterPages` depends on, at the end of a row group's column chunk -/
structure ChunkWrite where
  kind : Kind
  bits : Nat                        -- `bitsPerValue` of the configured filter
  pages : List WPage                -- data pages in write order (empty = `pageBuffer == nil`)
  dictionary : Option (List Value)  -- `c.dictionary` (its values, insertion order)
  switched : Bool                   -- `c.hasSwitchedToPlain`
  presized : Nat                    -- `len(c.filter)` in bytes while the pages were written (0 = not allocated)
  numValues : Nat                   -- `c.columnChunk.MetaData.NumValues` (nulls included)

/-- a filter under construction: size in bytes, hashes inserted so far -/
abbrev Built := Nat × List UInt64

/-- MIRROR `writePageToFilter`, writer.go: `pageType.Encode(c.filter, page.Data(), splitBlockEncoding)` -/
def pageHashes (kind : Kind) (values : List Value) : List UInt64 := hashWriteStaged (pageData kind values)

/-- STRATEGY 1 (incremental). MIRROR of `writeDataPage`, writer.go:
    `if page.Dictionary() == nil && len(c.filter) > 0 { c.writePageToFilter(page) }`, over all pages. -/
def incremental (c : ChunkWrite) : List UInt64 :=
  c.pages.flatMap (fun p => if !p.indexed && c.presized > 0 then pageHashes c.kind p.values else [])

/-- STRATEGY 3 (re-reading). MIRROR of the page loop of `flushFilterPages`: every page of the page
    buffer is decoded and inserted, except dictionary-encoded ones when `skipDictionaryPages`. -/
def reread (c : ChunkWrite) (skipIndexed : Bool) : List UInt64 :=
  c.pages.flatMap (fun p => if skipIndexed && p.indexed then [] else pageHashes c.kind p.values)

/-- MIRROR `flushFilterPages` as repaired (fix d2487f3), writer.go:2167-2340 -/
def flushFilter (c : ChunkWrite) : Built :=
  match c.dictionary with
  | some d =>
    if !c.switched then
      -- STRATEGY 2 (from the dictionary): resize (which zeroes) to the dictionary length
      (filterSize c.bits d.length, pageHashes c.kind d)
    else if c.presized > 0 then
      -- fell back to PLAIN with a pre-sized filter: PLAIN pages were inserted as written
      (c.presized, incremental c ++ pageHashes c.kind d)
    else if c.pages.isEmpty then (0, [])
    else (filterSize c.bits c.numValues, pageHashes c.kind d ++ reread c true)
  | none =>
    if c.presized > 0 then (c.presized, incremental c)
    else if c.pages.isEmpty then (0, [])
    else (filterSize c.bits c.numValues, reread c false)

/-- `flushFilterPages` BEFORE fix d2487f3 (finding F23): with a dictionary the filter was always
    rebuilt from the dictionary alone, fallen back to PLAIN or not. -/
def flushFilterBeforeFix (c : ChunkWrite) : Built :=
  match c.dictionary with
  | some d => (filterSize c.bits d.length, pageHashes c.kind d)
  | none => flushFilter c

/-- all values of the chunk -/
def ChunkWrite.values (c : ChunkWrite) : List Value := c.pages.flatMap (·.values)

/-- What the rest of the writer guarantees about a chunk (hypotheses of the theorems; the dictionary
    facts are the dictionary's contract, C04; tied here by the file-level checks). -/
structure ChunkOk (c : ChunkWrite) : Prop where
  kinds : ∀ p ∈ c.pages, ∀ v ∈ p.values, v.kindOk c.kind = true
  /-- without a dictionary no page holds indexes -/
  noDict : c.dictionary = none → ∀ p ∈ c.pages, p.indexed = false
  /-- every value of an indexed page is in the dictionary -/
  covers : ∀ d, c.dictionary = some d → ∀ p ∈ c.pages, p.indexed = true → ∀ v ∈ p.values, v ∈ d
  dictKinds : ∀ d, c.dictionary = some d → ∀ v ∈ d, v.kindOk c.kind = true
  /-- the dictionary holds only values that were written to the chunk -/
  dictWritten : ∀ d, c.dictionary = some d → ∀ v ∈ d, v ∈ c.values
  /-- until the writer falls back, every page is dictionary-encoded -/
  allIndexed : c.switched = false → c.dictionary.isSome → ∀ p ∈ c.pages, p.indexed = true
  /-- `NumValues` counts every value (and the nulls) -/
  count : c.values.length ≤ c.numValues
  /-- a pre-sized filter is a whole number of blocks (`resizeBloomFilter(Size(n))`) -/
  presizedBlocks : c.presized % 32 = 0

/-! ## pre-sizing by `WriteRowGroup` -/

/-- MIRROR `ConcurrentRowGroupWriter.configureBloomFilters`, writer.go:901-931, for one column that has a
    filter: `exact` = `chunkNumValuesIsExact(source chunk)`, `srcValues` = `source.NumValues()` (nulls
    included), `numRows` = rows of the source row group, `maxRows` = `MaxRowsPerRowGroup` of the
    writer, `repeated` = `maxRepetitionLevel > 0`. The result is `len(c.filter)` while the FIRST output
    row group of this `WriteRowGroup` call is written (0 = left unallocated); `ColumnWriter.reset`
    truncates the filter, so later output row groups of the same call are never pre-sized. -/
def presize (bits : Nat) (exact : Bool) (srcValues numRows maxRows : Nat) (repeated : Bool) : Nat :=
  if !exact then 0
  else if numRows > maxRows then
    if repeated then 0 else filterSize bits (min srcValues maxRows)
  else filterSize bits srcValues

theorem presize_whole_blocks (bits : Nat) (exact : Bool) (sv nr mr : Nat) (rep : Bool) :
    presize bits exact sv nr mr rep % 32 = 0 := by
  unfold presize filterSize
  split
  · rfl
  · split
    · split
      · rfl
      · exact Nat.mul_mod_right 32 _
    · exact Nat.mul_mod_right 32 _

/-- A pre-sized filter is large enough for the first output row group: if that group holds `n`
    values, at most the source's count, and (for a non-repeated column) at most one per row of a group
    of at most `maxRows` rows, then the filter has `bits` bits per value. -/
theorem presize_capacity (bits : Nat) (exact : Bool) (sv nr mr : Nat) (rep : Bool) (n : Nat)
    (hsv : n ≤ sv) (hrow : rep = false → n ≤ mr) (hpos : 0 < presize bits exact sv nr mr rep) :
    n * bits ≤ 8 * presize bits exact sv nr mr rep := by
  unfold presize at hpos ⊢
  have cap : ∀ m, n ≤ m → n * bits ≤ 8 * filterSize bits m := by
    intro m hm
    have h1 := numSplitBlocksOf_capacity m bits
    have h2 : n * bits ≤ m * bits := Nat.mul_le_mul_right bits hm
    unfold filterSize; omega
  split
  · rename_i h; simp [h] at hpos
  · split
    · split
      · rename_i h1 h2 h3; simp [h1, h2, h3] at hpos
      · rename_i h3
        exact cap _ (Nat.le_min.mpr ⟨hsv, hrow (by simpa using h3)⟩)
    · exact cap _ hsv

/-! ## storage, reading back, verbatim copy -/

inductive Compression where
  | uncompressed | gzip
  deriving DecidableEq, Repr

/-- the bloom filter section of a file after the thrift header: `header.NumBytes`, the header's
    compression, and the bytes that follow the header -/
structure Stored where
  compression : Compression
  numBytes : Nat
  payload : List UInt8
  deriving DecidableEq, Repr

/-- MIRROR `writeBloomFilter`, writer.go (unencrypted): gzip the bitset when the codec is gzip;
    `NumBytes` is the length of what is stored. `enc` stands for `gzip.Codec.Encode`. -/
def store (enc : List UInt8 → List UInt8) (gzip : Bool) (filter : List UInt8) : Stored :=
  if gzip then { compression := .gzip, numBytes := (enc filter).length, payload := enc filter }
  else { compression := .uncompressed, numBytes := filter.length, payload := filter }

/-- MIRROR `CheckSplitBlock(r, n, x)`, bloom/filter.go:74-80, with the size `n` as its own argument -/
def checkSplitBlock (bytes : List UInt8) (n : Nat) (h : BitVec 64) : Bool :=
  let blk := (bytes.drop (32 * blockIndex h (n / 32))).take 32
  blockCheckGo (parseWords 8 blk) (h.truncate 32)

theorem checkSplitBlock_length (bytes : List UInt8) (h : BitVec 64) :
    checkSplitBlock bytes bytes.length h = checkBytes bytes h := rfl

/-- MIRROR `newBloomFilter` + `FileBloomFilter.Check`, bloom.go:49-127: uncompressed = a section of
    `NumBytes` bytes checked with size `NumBytes`; gzip = the section is decompressed and checked with
    the DECOMPRESSED length. `none` = the read error of a failing decompression. -/
def readCheck (dec : List UInt8 → Option (List UInt8)) (s : Stored) (h : BitVec 64) : Option Bool :=
  let sect := s.payload.take s.numBytes
  match s.compression with
  | .uncompressed => some (checkSplitBlock sect s.numBytes h)
  | .gzip =>
    match dec sect with
    | some d => some (checkSplitBlock d d.length h)
    | none => none

/-- the slip a reader could make: probing the decompressed bytes with the COMPRESSED size -/
def readCheckCompressedSize (dec : List UInt8 → Option (List UInt8)) (s : Stored) (h : BitVec 64) : Option Bool :=
  let sect := s.payload.take s.numBytes
  match s.compression with
  | .uncompressed => some (checkSplitBlock sect s.numBytes h)
  | .gzip =>
    match dec sect with
    | some d => some (checkSplitBlock d s.numBytes h)
    | none => none

/-- ASSUMPTION about the gzip codec (third-party, not verified): decoding what was encoded gives it back -/
def GzipRoundTrip (enc : List UInt8 → List UInt8) (dec : List UInt8 → Option (List UInt8)) : Prop :=
  ∀ b, dec (enc b) = some b

/-- a file region -/
def fileSection (file : List UInt8) (off len : Nat) : List UInt8 := (file.drop off).take len

/-- MIRROR of the verbatim copy in `writeRowGroup`: the source range `[bloomOffset, bloomOffset+bloomLength)`
    is appended to the output (`io.Copy` / `ReadFrom`), `BloomFilterOffset` = the output offset before
    the copy, `BloomFilterLength` = `bloomLength`. Returns the new output and the recorded offset. -/
def copyFilterSection (out src : List UInt8) (off len : Nat) : List UInt8 × Nat :=
  (out ++ fileSection src off len, out.length)

end PqModel.BloomWriter
